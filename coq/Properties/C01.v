(* C01 - the bundle wire codec is lossless, deterministic and idempotent. *)
From DTN Require Import Base Cbor Crc Eid Bundle BundleWf BundleProofs ValidProofs DecodeWf ConstsOkCodec.
Open Scope N_scope.

(* Serialising any valid bundle (every field in the range its Go type holds, passing CheckValid at
   time [now]) succeeds; parsing the bytes - followed by anything - yields the same bundle, equal in
   every field of the primary block and in every canonical block's type, number, flags, CRC type
   and content, and leaves exactly what followed; hence serialising the result again yields the
   same bytes.  No bound on sizes: the CBOR width boundaries are cases of one lemma. *)
Theorem C01_roundtrip : forall now b r,
  bundle_wf b = true -> check_valid now b = true ->
  exists bs, enc_bundle b = Some bs
             /\ dec_bundle now (bs ++ r) = Some (b, r)
             /\ (forall b', dec_bundle now (bs ++ r) = Some (b', r) -> enc_bundle b' = Some bs).
Proof.
  intros now b r Hwf Hv. exists (bundle_bytes b). split; [exact (enc_bundle_ok b Hwf)|].
  split; [exact (dec_bundle_enc now b r Hwf Hv)|].
  intros b' Hb'. rewrite (dec_bundle_enc now b r Hwf Hv) in Hb'. injection Hb' as <-. exact (enc_bundle_ok b Hwf).
Qed.
Print Assumptions C01_roundtrip.

(* The entry order inside the map-valued blocks is unspecified in Go; whatever order the encoder
   picks is some duplicate-free list b', and the theorem above applies to b' itself: the decoder
   returns exactly the encoder's order. *)

(* Second sentence: every byte string (of bytes) the parser accepts yields a bundle b that
   re-serialises to bytes bs' which the parser accepts again, completely, as norm_bundle b - that is b
   with the fragment offset / total length cleared when the fragment flag is not set (the parser
   tolerates a 10/11-element primary block without the flag; the serialiser drops the two fields):
   same bundle ID, the very same blocks and payload, the payload block last; and serialising that
   result again yields the same bytes.  No hypothesis beyond "the input consists of bytes". *)
Theorem C01_reserialise : forall now bs b rest,
  bytes_ok bs = true -> dec_bundle now bs = Some (b, rest) ->
  exists bs', enc_bundle b = Some bs'
              /\ dec_bundle now bs' = Some (norm_bundle b, [])
              /\ enc_bundle (norm_bundle b) = Some bs'
              /\ id_str (norm_bundle b) = id_str b
              /\ b_blocks (norm_bundle b) = b_blocks b
              /\ (exists pre pl, b_blocks b = pre ++ [pl] /\ c_type pl = 1).
Proof.
  intros now bs b rest Hb Hd.
  pose proof (decoded_bundle_wf now bs b rest Hb Hd) as Hwf.
  pose proof (dec_bundle_valid now bs b rest Hd) as Hv.
  assert (Hv' : check_valid now (norm_bundle b) = true) by (rewrite norm_check_valid; exact Hv).
  assert (Henc : enc_bundle b = enc_bundle (norm_bundle b)).
  { unfold enc_bundle, norm_bundle. cbn [b_pri b_blocks]. rewrite norm_enc_primary. reflexivity. }
  exists (bundle_bytes (norm_bundle b)).
  split; [rewrite Henc; exact (enc_bundle_ok _ Hwf)|].
  split; [rewrite <- (app_nil_r (bundle_bytes (norm_bundle b))); exact (dec_bundle_enc now _ [] Hwf Hv')|].
  split; [exact (enc_bundle_ok _ Hwf)|].
  split; [exact (norm_id_str b)|]. split; [reflexivity|].
  destruct (wf_payload_last now b (check_valid_sound now b Hv)) as (pre & pl & H1 & H2 & _). exists pre, pl. tauto.
Qed.
Print Assumptions C01_reserialise.

(* non-vacuity: a concrete bundle with CRC-32 primary, an age block (CRC-16) and a payload *)
Definition ex_bundle : bundle :=
  {| b_pri := {| p_flags := 4; p_crc := 2; p_dst := Dtn [100] [97]; p_src := Ipn 23 42; p_rpt := DtnNone;
                 p_time := 0; p_seq := 256; p_life := 65536; p_off := 0; p_total := 0 |};
     b_blocks := [ {| c_num := 2; c_flags := 0; c_crc := 1; c_val := XAge 24 |};
                   {| c_num := 1; c_flags := 0; c_crc := 0; c_val := XPayload [1; 2; 3] |} ] |}.
Example C01_example : bundle_wf ex_bundle = true /\ check_valid 1000 ex_bundle = true
  /\ dec_bundle 1000 (bundle_bytes ex_bundle) = Some (ex_bundle, []).
Proof. vm_compute. repeat split; reflexivity. Qed.
