(* C15 - status reports are truthful, correctly addressed and cannot cascade.
   Statements over the model of the Core's processing of one bundle (Model/Report.v): for every
   node configuration [env], every way a bundle enters (received from a CLA, submitted locally,
   retried from the store), every bundle (all flag combinations, fragments and whole bundles, any
   blocks) and every oracle (known / clock / routing decision / outcome of every send).
   Only theorem statements closed by [exact <lemma>] and Print Assumptions. *)
From DTN Require Import Base Cbor Eid Bundle Report ReportProofs ConstsOkReport AuxCbor.
Open Scope N_scope.

(* Every report the node emits while processing a bundle is justified by an event of the report's
   kind that happens to this bundle in the same pass AND by the request:
     received/no-information   <- the bundle was received (new, from a CLA) and requests reception reports
     received/block-unsupported<- received, and a block of unregistered type carrying the report flag was met
     forwarded                 <- some send succeeded and forwarding reports are requested
     delivered                 <- handed over to an application agent and delivery reports are requested
     deleted/reason            <- bundleDeletion with exactly this reason and deletion reports are requested
   (nothing else is ever emitted: the five clauses are exhaustive). *)
Theorem C15_truthful : forall env inp r,
  In r (rp_reports (rp_process env inp)) ->
  rp_justified (i_bundle inp) (rp_events (rp_process env inp)) r.
Proof. exact report_truthful. Qed.
Print Assumptions C15_truthful.

(* The events themselves are what they say: each event of a pass has its cause in the input -
   received only for a new bundle from a CLA; a successful send only if the oracle has one;
   forwarded only with a successful send; delivered only if an agent is registered for the
   destination; every deletion with its reason (hop limit exceeded / lifetime or age expired /
   unknown block demanding deletion / foreign source of a submitted bundle / unparsable
   administrative record addressed to the node). *)
Theorem C15_events_sound : forall env inp e,
  In e (rp_events (rp_process env inp)) -> rp_event_cause env inp e.
Proof. exact events_sound. Qed.
Print Assumptions C15_events_sound.

(* Shape: the report is an administrative record without any status-request flag, addressed to
   the bundle's report-to endpoint, names the bundle's exact ID (source, creation time, sequence
   number, and fragment offset / total length exactly when the bundle is a fragment), carries a
   time exactly when the bundle requests status times (then the current time), asserts one of
   the four positions, and has a source that is an endpoint of this node. *)
Theorem C15_shape : forall env inp r,
  In r (rp_reports (rp_process env inp)) ->
  let p := b_pri (i_bundle inp) in
  has (rpr_flags r) F_ADMIN = true /\ any_status_request (rpr_flags r) = false
  /\ rpr_dst r = p_rpt p
  /\ sr_ref_src r = p_src p /\ sr_ref_time r = p_time p /\ sr_ref_seq r = p_seq p
  /\ sr_ref_frag r = (if has (p_flags p) F_FRAG then Some (p_off p, p_total p) else None)
  /\ ((exists t, rpr_time r = Some t) <-> has (p_flags p) F_TIME = true)
  /\ (forall t, rpr_time r = Some t -> t = i_now inp)
  /\ rpr_pos r <= 3
  /\ (rp_has_endpoint env (rpr_src r) = true \/ rpr_src r = rn_node env).
Proof. exact report_shape_full. Qed.
Print Assumptions C15_shape.

(* No report about an administrative record, none about a bundle whose report-to is an endpoint
   of this node - whatever happens to the bundle. *)
Theorem C15_no_report_about_admin_record : forall env inp,
  has (p_flags (b_pri (i_bundle inp))) F_ADMIN = true -> rp_reports (rp_process env inp) = [].
Proof. exact no_report_about_admin. Qed.
Print Assumptions C15_no_report_about_admin_record.

Theorem C15_no_report_to_self : forall env inp,
  rp_has_endpoint env (p_rpt (b_pri (i_bundle inp))) = true -> rp_reports (rp_process env inp) = [].
Proof. exact no_report_to_self. Qed.
Print Assumptions C15_no_report_to_self.

(* Hence a chain "report about a report" has length at most one: whatever any node (the same or
   another, [env']) does with the bundle that carries an emitted report - receive, forward,
   deliver, delete, retry, with any oracle - it emits no report about it.  At the emitting node
   the second guard holds too: the report bundle's own report-to is an endpoint of the node. *)
Theorem C15_no_cascade : forall env inp r,
  In r (rp_reports (rp_process env inp)) ->
  forall env' inp' now seq payload,
    i_bundle inp' = rp_report_bundle r now seq payload ->
    rp_reports (rp_process env' inp') = [].
Proof. exact no_cascade. Qed.
Print Assumptions C15_no_cascade.

Theorem C15_report_bundle_reports_to_self : forall env inp r now seq payload,
  In r (rp_reports (rp_process env inp)) ->
  rp_has_endpoint env (p_rpt (b_pri (rp_report_bundle r now seq payload))) = true.
Proof. exact report_own_report_to_local. Qed.
Print Assumptions C15_report_bundle_reports_to_self.

(* The executable checker the correspondence run applies to the implementation's reports is
   sufficient for the property's clauses, and the model passes it. *)
Theorem C15_checker_sound : forall env b fa r, rp_check env b fa r = [] -> rp_property env b fa r.
Proof. exact checker_sound. Qed.
Print Assumptions C15_checker_sound.

Theorem C15_model_passes_checker : forall env inp r,
  In r (rp_reports (rp_process env inp)) ->
  rp_check env (i_bundle inp) (rp_facts_of (rp_events (rp_process env inp))) r = [].
Proof. exact model_passes_checker. Qed.
Print Assumptions C15_model_passes_checker.

(* On the wire: the administrative record carried by the report bundle ([rp_wire r], in the
   auxiliary-format encoding of AuxCbor.v: reference bundle ID = source, [creation time, sequence
   number] and - exactly for a fragment - fragment offset THEN total data length) names the exact ID
   of the bundle the report is about, and the reference decoder [dec_admrec] reads precisely this
   report back from the bytes.  The correspondence run decodes the bytes of every report the
   implementation emits with this decoder and applies [rp_check] to the result. *)
Theorem C15_wire_names_exact_id : forall env inp r,
  In r (rp_reports (rp_process env inp)) -> sr_ref (rp_wire_sreport r) = rp_bundle_bid (i_bundle inp).
Proof. exact report_wire_exact_id. Qed.
Print Assumptions C15_wire_names_exact_id.

Theorem C15_wire_roundtrip : forall r,
  sreport_wf (rp_wire_sreport r) = true ->
  exists bs, rp_wire r = Some bs
             /\ forall rest, dec_admrec (bs ++ rest) = Ok (ARStatus (rp_wire_sreport r)) rest.
Proof. exact report_wire_roundtrip. Qed.
Print Assumptions C15_wire_roundtrip.

(* ---- non-vacuity ---- *)
Definition ex_node : eid := Dtn [110; 48] [].                       (* dtn://n0/ *)
Definition ex_env : renv := {| rn_node := ex_node; rn_agents := [Dtn [110; 48] [97]]; rn_clas := [] |}.
Definition ex_bundle (flags : N) (dst : eid) (blocks : list cblock) : bundle :=
  {| b_pri := {| p_flags := flags; p_crc := 0; p_dst := dst; p_src := Dtn [115] [120]; p_rpt := Dtn [114] [];
                 p_time := 1000; p_seq := 7; p_life := 3600000; p_off := 5; p_total := 50 |};
     b_blocks := blocks ++ [ {| c_num := 1; c_flags := 0; c_crc := 0; c_val := XPayload [1; 2] |} ] |}.
Definition ex_input (kind : N) (b : bundle) (sends : list bool) : rinput :=
  {| i_kind := kind; i_receiver := ex_node; i_known := false; i_bundle := b; i_now := 2000; i_age_add := 0;
     i_dispatch_ok := true; i_load_ok := true; i_admin_ok := false; i_sends := sends; i_delete_after := false |}.

(* a fragment requesting everything plus times, forwarded with one of two sends succeeding:
   reception and forwarding reports, both naming the fragment *)
Example C15_example_forwarded :
  map (fun r => (rpr_pos r, rpr_reason r, sr_ref_frag r, rpr_time r))
      (rp_reports (rp_process ex_env (ex_input 0 (ex_bundle (F_FRAG + F_TIME + F_RECEPTION + F_FORWARD + F_DELIVERY + F_DELETION)
                                                            (Dtn [102] [120]) []) [false; true])))
  = [(0, 0, Some (5, 50), Some 2000); (1, 0, Some (5, 50), Some 2000)].
Proof. vm_compute. reflexivity. Qed.

(* all sends fail: only the reception report *)
Example C15_example_all_sends_failed :
  map (fun r => (rpr_pos r, rpr_reason r))
      (rp_reports (rp_process ex_env (ex_input 0 (ex_bundle (F_RECEPTION + F_FORWARD + F_DELIVERY + F_DELETION)
                                                            (Dtn [102] [120]) []) [false; false])))
  = [(0, 0)].
Proof. vm_compute. reflexivity. Qed.

(* destination on this node but no agent registered: no delivery report (the repaired behaviour) *)
Example C15_example_local_no_agent :
  rp_reports (rp_process ex_env (ex_input 0 (ex_bundle F_DELIVERY (Dtn [110; 48] [122]) []) [])) = []
  /\ In EvDeliverFailed (rp_events (rp_process ex_env (ex_input 0 (ex_bundle F_DELIVERY (Dtn [110; 48] [122]) []) []))).
Proof. vm_compute. split; [reflexivity | tauto]. Qed.

(* delivered to the agent: one delivery report *)
Example C15_example_delivered :
  map (fun r => (rpr_pos r, rpr_reason r, rpr_dst r))
      (rp_reports (rp_process ex_env (ex_input 0 (ex_bundle F_DELIVERY (Dtn [110; 48] [97]) []) [])))
  = [(2, 0, Dtn [114] [])].
Proof. vm_compute. reflexivity. Qed.

(* unknown block with report + delete flags: reception/unsupported, then deletion/unsupported *)
Example C15_example_unknown_block :
  map (fun r => (rpr_pos r, rpr_reason r))
      (rp_reports (rp_process ex_env (ex_input 0 (ex_bundle F_DELETION (Dtn [102] [120])
         [ {| c_num := 2; c_flags := BF_REPORT + BF_DELETE; c_crc := 0; c_val := XGeneric 77 [9] |} ]) [true])))
  = [(0, 11); (3, 11)].
Proof. vm_compute. reflexivity. Qed.

(* an administrative record requesting everything (an ill-formed combination): nothing *)
Example C15_example_admin_silent :
  rp_reports (rp_process ex_env (ex_input 0 (ex_bundle (F_ADMIN + F_RECEPTION + F_FORWARD + F_DELIVERY + F_DELETION)
                                                       (Dtn [102] [120]) []) [true])) = [].
Proof. vm_compute. reflexivity. Qed.

(* the forwarding report of C15_example_forwarded on the wire: ... source dtn://s/x, [1000, 7], offset 5,
   total length 50 (0x18 0x32) - and decoded back by the reference decoder *)
Example C15_example_wire :
  match rp_reports (rp_process ex_env (ex_input 0 (ex_bundle (F_FRAG + F_TIME + F_RECEPTION + F_FORWARD + F_DELIVERY + F_DELETION)
                                                             (Dtn [102] [120]) []) [false; true])) with
  | [_; r] =>
      rp_wire r = Some [130; 1; 134; 132; 129; 244; 130; 245; 25; 7; 208; 129; 244; 129; 244; 0;
                        130; 1; 101; 47; 47; 115; 47; 120; 130; 25; 3; 232; 7; 5; 24; 50]
      /\ (exists s, dec_admrec [130; 1; 134; 132; 129; 244; 130; 245; 25; 7; 208; 129; 244; 129; 244; 0;
                                130; 1; 101; 47; 47; 115; 47; 120; 130; 25; 3; 232; 7; 5; 24; 50] = Ok (ARStatus s) []
                     /\ bid_off (sr_ref s) = 5 /\ bid_total (sr_ref s) = 50 /\ bid_frag (sr_ref s) = true)
      /\ sreport_wf (rp_wire_sreport r) = true
  | _ => False
  end.
Proof. vm_compute. split; [reflexivity|]. split; [|reflexivity]. eexists. repeat split. Qed.
