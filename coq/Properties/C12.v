(* C12 - MTCP and broadcast (BBC) links deliver exactly what was sent or report failure.
   Only theorem statements closed by [exact <lemma>] and Print Assumptions, plus non-vacuity examples. *)
From DTN Require Import Base Bbc BbcProofs BbcSafety BbcReuse ConstsOkBbc Mtcp MtcpProofs ConstsOkMtcp SpecMtcp.
Local Open Scope nat_scope.

(* ======================= BBC ======================= *)

(* Outgoing side, every transmission id, every modem MTU >= 3 (room = mtu - 2 >= 1) and every non-empty
   blob: no fragment exceeds the MTU, the payloads concatenate to the blob, fragment i (from 0)
   carries sequence number (i+1) mod 16, the start mark iff i = 0, the end mark iff it is the last, never
   the fail mark; a receiver fed the train in order rebuilds the identical blob, and the connector
   starting from an empty table outputs exactly that blob once and ends with an empty table. *)
Theorem C12_bbc_train : forall (decodes : list N -> bool) tid mtu blob fs,
  3 <= mtu -> blob <> [] -> out_fragments tid (mtu - 2) blob = Some fs ->
  Forall (fun f => length (frag_bytes f) <= mtu) fs
  /\ concat (map f_payload fs) = blob
  /\ (forall i, i < length fs ->
        f_tid (nth i fs dfrag) = tid /\ f_fail (nth i fs dfrag) = false
        /\ f_seq (nth i fs dfrag) = (N.of_nat (S i) mod 16)%N
        /\ f_start (nth i fs dfrag) = Nat.eqb i 0
        /\ f_end (nth i fs dfrag) = Nat.eqb (S i) (length fs))
  /\ (exists t, receive_in_order fs = Some t /\ i_payload t = blob /\ i_finished t = true /\ i_tid t = tid)
  /\ (decodes blob = true -> handle_all decodes [] fs = ([], [OutBlob tid blob])).
Proof. exact bbc_train_full. Qed.
Print Assumptions C12_bbc_train.

(* Safety.  Trains Ts (blob k fragmented under transmission id tids[k], ids pairwise distinct); a
   received sequence r of references (train, fragment index) - arbitrary references express drops,
   duplications, reorderings and interleavings of several concurrent transmissions; locality: for
   each train, two consecutively received indices a, b satisfy a - 14 <= b <= a + 16, i.e. b is
   displaced from the expected a+1 by fewer than sixteen ("fewer than sixteen in a row").  Then
   every blob the connector hands to the bundle decoder, whatever the decoder's verdicts, is the
   blob that was sent under that transmission id: never a different bundle. *)
Theorem C12_bbc_safety : forall (decodes : list N -> bool) (Ts : list (list fragment)) (tids : list N)
    (blobs : list (list N)) (r : list (nat * nat)) tb outs,
  length Ts = length tids -> length blobs = length Ts -> NoDup tids ->
  (forall k, k < length Ts -> exists room, 1 <= room /\ nth k blobs [] <> []
      /\ out_fragments (nth k tids 0%N) room (nth k blobs []) = Some (nth k Ts [])) ->
  Forall (valid_ref Ts) r -> locality r ->
  handle_all decodes [] (map (frag_at Ts) r) = (tb, outs) ->
  forall tid blob, In (OutBlob tid blob) outs ->
    exists k, k < length Ts /\ nth k tids 0%N = tid /\ blob = nth k blobs [].
Proof. exact bbc_safety_sent. Qed.
Print Assumptions C12_bbc_safety.

(* the same over any trains of the right shape (not only those out_fragments produces) *)
Theorem C12_bbc_safety_shape : forall (decodes : list N -> bool) (Ts : list (list fragment)) (tids : list N),
  length Ts = length tids ->
  (forall k, k < length Ts -> train_shape (nth k tids 0%N) 0%N true (nth k Ts [])) ->
  NoDup tids ->
  forall r tb outs, Forall (valid_ref Ts) r -> locality r ->
  handle_all decodes [] (map (frag_at Ts) r) = (tb, outs) ->
  forall tid blob, In (OutBlob tid blob) outs ->
    exists k, k < length Ts /\ tidk tids k = tid /\ blob = blob_of Ts k.
Proof. exact bbc_safety. Qed.
Print Assumptions C12_bbc_safety_shape.

(* Detection.  Train k was received without fault up to index a, which is not its last fragment
   (other transmissions interleaved at will, themselves faulty or not); the next fragment of train k
   that arrives is any other than a+1 within the locality bound (a drop of fewer than sixteen, a
   duplicate, a reordered one): handling it emits exactly one failure fragment carrying that
   transmission id, and the transmission is dropped from the table. *)
Theorem C12_bbc_detect : forall (decodes : list N -> bool) (Ts : list (list fragment)) (tids : list N),
  length Ts = length tids ->
  (forall k, k < length Ts -> train_shape (nth k tids 0%N) 0%N true (nth k Ts [])) ->
  NoDup tids ->
  forall r a b k tb1 o1 tb2 o2,
  Forall (valid_ref Ts) r -> locality r -> valid_ref Ts (k, b) ->
  ksub k r = seq 0 (S a) -> S a < length (tr Ts k) ->
  b <> S a -> near a b ->
  handle_all decodes [] (map (frag_at Ts) r) = (tb1, o1) ->
  handle_fragment decodes tb1 (frag_at Ts (k, b)) = (tb2, o2) ->
  o2 = [OutFailFrag (report_failure (frag_at Ts (k, b)))]
  /\ f_tid (report_failure (frag_at Ts (k, b))) = tidk tids k
  /\ f_fail (report_failure (frag_at Ts (k, b))) = true
  /\ tbl_find tb2 (tidk tids k) = None.
Proof. exact bbc_detect. Qed.
Print Assumptions C12_bbc_detect.

(* The two places where the implementation (modelled as it is) does NOT give what the property text
   asks ("if a fragment is lost, duplicated ... the receiver signals failure"); both are excluded by
   the hypotheses of C12_bbc_detect (a further fragment of the train arrives / a < last index). *)

(* (1) key bbc.fault.trailing-incomplete: the final fragment(s) lost, nothing of the train follows:
   no failure fragment, nothing delivered, the transmission stays open (there is no timer). *)
Theorem C12_bbc_trailing_loss_refuted :
  exists tid room blob fs n tb,
    out_fragments tid room blob = Some fs /\ 1 <= room /\ blob <> [] /\ 0 < n < length fs
    /\ handle_all (fun _ => true) [] (firstn n fs) = (tb, [])
    /\ tbl_find tb tid <> None.
Proof.
  exists 7%N, 2, [1;2;3;4;5]%N. eexists. exists 2. eexists.
  split; [vm_compute; reflexivity|]. split; [lia|]. split; [discriminate|].
  split; [cbn; lia|]. split; [vm_compute; reflexivity|]. vm_compute. discriminate.
Qed.
Print Assumptions C12_bbc_trailing_loss_refuted.

(* (2) key bbc.dup.complete-train-redelivered: a complete train that arrives twice (e.g. a duplicated
   single-fragment transmission) is a second complete transmission: delivered twice (the identical
   blob, so safety holds), no failure fragment. *)
Theorem C12_bbc_dup_redelivered_refuted :
  exists tid room blob fs,
    out_fragments tid room blob = Some fs /\ 1 <= room /\ blob <> []
    /\ handle_all (fun _ => true) [] (fs ++ fs) = ([], [OutBlob tid blob; OutBlob tid blob]).
Proof.
  exists 9%N, 5, [1;2]%N. eexists.
  split; [vm_compute; reflexivity|]. split; [lia|]. split; [discriminate|]. vm_compute. reflexivity.
Qed.
Print Assumptions C12_bbc_dup_redelivered_refuted.


(* Histories on one connector in which transmission ids are used again (the id is one byte: a sender's
   counter wraps after 256 bundles, another sender may have drawn the same id).

   End of a transmission.  After ANY history h (arbitrary fragments: trains that were delivered, that
   failed a sequence check, that finished with a payload the decoder rejects - garbage, a truncated
   bundle, a burst of sixteen lost fragments -, peers' failure fragments), whenever handling a data
   fragment makes the connector emit anything - a failure fragment or a finished blob - the table
   holds no entry for that transmission id afterwards; a peer's failure fragment leaves the table
   untouched and is only handed to Send. *)
Theorem C12_bbc_end_clears : forall (decodes : list N -> bool) (h : list fragment) f tb1 o1 tb2 o2,
  handle_all decodes [] h = (tb1, o1) -> handle_fragment decodes tb1 f = (tb2, o2) ->
  (f_fail f = false -> o2 <> [] -> tbl_find tb2 (f_tid f) = None)
  /\ (f_fail f = true -> tb2 = tb1 /\ o2 = [OutFailedTid (f_tid f)]).
Proof. exact bbc_end_clears. Qed.
Print Assumptions C12_bbc_end_clears.

(* Re-use.  After any history h that leaves no entry for transmission id tid, an intact train under
   that id (any MTU >= 3, any blob the decoder accepts) is delivered: exactly one blob, the identical
   one, no failure fragment, and the table is as before. *)
Theorem C12_bbc_reuse : forall (decodes : list N -> bool) (h : list fragment) tb outs tid mtu blob fs,
  handle_all decodes [] h = (tb, outs) -> tbl_find tb tid = None ->
  3 <= mtu -> blob <> [] -> out_fragments tid (mtu - 2) blob = Some fs -> decodes blob = true ->
  handle_all decodes [] (h ++ fs) = (tb, outs ++ [OutBlob tid blob]).
Proof.
  intros decodes h tb outs tid mtu blob fs H1 H2 Hm. apply (bbc_reuse_sent decodes h tb outs tid (mtu - 2) blob fs H1 H2). lia.
Qed.
Print Assumptions C12_bbc_reuse.

(* Both together: a transmission ends on fragment f (the connector signals failure or hands the blob
   up); fragments g of other transmission ids follow at will; then an intact train that uses the id
   again is delivered identically, without a failure fragment. *)
Theorem C12_bbc_reuse_after_end : forall (decodes : list N -> bool) (h : list fragment) f (g : list fragment)
    tb1 o1 tb2 o2 tb3 o3 mtu blob fs,
  handle_all decodes [] h = (tb1, o1) -> handle_fragment decodes tb1 f = (tb2, o2) ->
  f_fail f = false -> o2 <> [] ->
  Forall (fun x => f_tid x <> f_tid f) g -> handle_all decodes tb2 g = (tb3, o3) ->
  3 <= mtu -> blob <> [] -> out_fragments (f_tid f) (mtu - 2) blob = Some fs -> decodes blob = true ->
  handle_all decodes tb3 fs = (tb3, [OutBlob (f_tid f) blob]).
Proof.
  intros decodes h f g tb1 o1 tb2 o2 tb3 o3 mtu blob fs A B C D E F Hm.
  apply (bbc_reuse_after_end decodes h f g tb1 o1 tb2 o2 tb3 o3 (mtu - 2) blob fs A B C D E F). lia.
Qed.
Print Assumptions C12_bbc_reuse_after_end.

(* The shared outgoing queue (fragmentOut, capacity 64, written with blocking sends by Send and by the
   failure report of the reading handler, emptied by handlerWrite): every run that has drained
   transmitted exactly the own fragments and exactly the failure fragments, each in order - a failure
   report is never lost, however long the own transmission and however slow the modem; while anything
   is pending some step is enabled, and every run can be completed. *)
Theorem C12_bbc_queue_lossless : forall cap own fails evs s,
  Forall (fun f => f_fail f = false) own -> Forall (fun f => f_fail f = true) fails ->
  bbcq_run cap (bbcq_init own fails) evs = Some s -> bbcq_done s = true ->
  filter nofail (bq_sent s) = own /\ filter f_fail (bq_sent s) = fails
  /\ bbcq_sent_ok own fails (bq_sent s) = true
  /\ length evs = 2 * (length own + length fails).
Proof. exact bbcq_lossless. Qed.
Print Assumptions C12_bbc_queue_lossless.

Theorem C12_bbc_queue_drains : forall own fails,
  Forall (fun f => f_fail f = false) own -> Forall (fun f => f_fail f = true) fails ->
  forall evs s, bbcq_run (Z.to_nat bbc_queue_cap) (bbcq_init own fails) evs = Some s ->
  (bbcq_done s = false -> exists e s', bbcq_step (Z.to_nat bbc_queue_cap) s e = Some s')
  /\ exists evs' s', bbcq_run (Z.to_nat bbc_queue_cap) s evs' = Some s' /\ bbcq_done s' = true.
Proof.
  intros own fails H1 H2 evs s Hr.
  assert (Hc : 1 <= Z.to_nat bbc_queue_cap) by (vm_compute; lia).
  split; [apply bbcq_progress; exact Hc|apply (bbcq_drains _ own fails Hc H1 H2 evs s Hr)].
Qed.
Print Assumptions C12_bbc_queue_drains.

(* ======================= MTCP ======================= *)

(* CBOR byte-string head: written with minimal width, read back exactly, rest of the stream untouched *)
Theorem C12_mtcp_head_roundtrip : forall n r, (n < 2 ^ 64)%N -> mtcp_read_head (mtcp_head n ++ r) = Some (n, r).
Proof. exact mtcp_head_roundtrip. Qed.
Print Assumptions C12_mtcp_head_roundtrip.

(* Every sequence of Sends (non-empty bundles shorter than 2^64 bytes) with keep-alives placed at any
   frame boundaries: the server's loop hands up the same bundles in the same order; keep-alives and
   the probe after each bundle are invisible. *)
Theorem C12_mtcp_stream : forall evs, Forall ev_ok evs ->
  mtcp_server_opaque (mtcp_client_stream evs) = mtcp_sent evs.
Proof. exact mtcp_stream. Qed.
Print Assumptions C12_mtcp_stream.

(* The same for the server as written (it delimits a bundle by the bundle's own CBOR structure, not by
   the announced length), for any bundle codec that reads back what it wrote and leaves the rest of
   the stream alone (property C01) and never writes an empty string. *)
Theorem C12_mtcp_stream_codec : forall (B : Type) (enc : B -> list N) (parse : N -> list N -> option (B * list N)),
  (forall x r, parse (nlen (enc x)) (enc x ++ r) = Some (x, r)) ->
  (forall x, enc x <> []) -> (forall x, (nlen (enc x) < 2 ^ 64)%N) ->
  forall l : list (option B),    (* Some x = Send x, None = keep-alive *)
  mtcp_server parse (mtcp_client_stream (map (cev enc) l)) = handed_up l.
Proof. exact (@mtcp_stream_codec). Qed.
Print Assumptions C12_mtcp_stream_codec.

(* Connection cut after any number of bytes: the server hands up a prefix of what was sent - nothing
   else, nothing reordered, nothing altered. *)
Theorem C12_mtcp_cut : forall evs p q, Forall ev_ok evs -> mtcp_client_stream evs = p ++ q ->
  exists k, mtcp_server_opaque p = firstn k (mtcp_sent evs).
Proof. exact mtcp_cut. Qed.
Print Assumptions C12_mtcp_cut.

(* Send on a connection whose writes can fail (cut = the k-th write of this Send fails after m bytes;
   broken = an earlier write failed): an error is returned exactly when a write failed, exactly then
   the peer is reported gone; on success the whole frame went out; always a prefix of the frame. *)
Theorem C12_mtcp_error : forall broken b cut,
  let r := mtcp_send broken b cut in
  (sr_error r = true <->
     broken = true \/ exists k m, cut = Some (k, m) /\ k < length (mtcp_send_chunks b))
  /\ sr_disappeared r = sr_error r
  /\ sr_broken r = (broken || sr_error r)
  /\ (sr_error r = false -> concat (sr_written r) = mtcp_frame b)
  /\ exists q, mtcp_frame b = concat (sr_written r) ++ q.
Proof. exact mtcp_send_error. Qed.
Print Assumptions C12_mtcp_error.

(* ======================= non-vacuity ======================= *)
Definition ex_T0 : list fragment := match out_fragments 7%N 2 [1;2;3;4;5;6;7]%N with Some fs => fs | None => [] end.
Definition ex_T1 : list fragment := match out_fragments 9%N 3 [10;11;12;13]%N with Some fs => fs | None => [] end.

Example C12_ex_train : map frag_bytes ex_T0 = [[7;12;1;2]; [7;16;3;4]; [7;24;5;6]; [7;34;7]]%N.
Proof. vm_compute. reflexivity. Qed.

(* a faulty interleaving satisfying the hypotheses: train 0 loses fragment 2, train 1 is complete *)
Example C12_ex_locality : locality [(0,0); (1,0); (0,1); (1,1); (0,3)].
Proof.
  intros k l1 a b l2 E. destruct k as [|[|k]]; vm_compute in E.
  - destruct l1 as [|x [|y [|z l1]]]; try discriminate; injection E; intros; subst; unfold near; try lia.
    destruct l1; discriminate.
  - destruct l1 as [|x [|y l1]]; try discriminate; injection E; intros; subst; unfold near; try lia.
    destruct l1; discriminate.
  - destruct l1; discriminate.
Qed.

Example C12_ex_faulty_run :
  snd (handle_all (fun _ => true) [] (map (frag_at [ex_T0; ex_T1]) [(0,0); (1,0); (0,1); (1,1); (0,3)]))
  = [OutBlob 9 [10;11;12;13]; OutFailFrag (new_fragment 7 4 false false true [])]%N.
Proof. vm_compute. reflexivity. Qed.

(* re-use: train A (id 7) reaches its end mark with a payload the decoder rejects - failure fragment,
   nothing delivered, id free again -; the intact train B under the same id is delivered *)
Example C12_ex_reuse :
  let dec := fun b : list N => match b with 1%N :: _ => true | _ => false end in
  let A := match out_fragments 7%N 2 [9;9;9;9;9]%N with Some fs => fs | None => [] end in
  handle_all dec [] (A ++ ex_T0)
  = ([], [OutFailFrag (new_fragment 7 3 false false true []); OutBlob 7 [1;2;3;4;5;6;7]])%N.
Proof. vm_compute. reflexivity. Qed.

(* the queue with capacity 2: three own fragments, one failure fragment squeezed in while it is full *)
Example C12_ex_queue :
  let own := ex_T0 in let fl := [new_fragment 9 4 false false true []]%N in
  match bbcq_run 2 (bbcq_init own fl) [BqOwn; BqOwn; BqPop; BqFail; BqPop; BqOwn; BqPop; BqOwn; BqPop; BqPop] with
  | Some s => bbcq_done s = true /\ bbcq_sent_ok own fl (bq_sent s) = true
              /\ bbcq_step 2 (bbcq_init own fl) BqPop = None
  | None => False
  end
  /\ bbcq_run 2 (bbcq_init ex_T0 [new_fragment 9 4 false false true []]%N) [BqOwn; BqOwn; BqFail] = None.
Proof. vm_compute. auto. Qed.

Example C12_ex_mtcp_stream :
  mtcp_client_stream [MKeepalive; MSend [1;2;3]; MKeepalive; MSend [9]]%N = [64; 67;1;2;3;64; 64; 65;9;64]%N
  /\ mtcp_server_opaque [64; 67;1;2;3;64; 64; 65;9;64]%N = [[1;2;3]; [9]]%N
  /\ mtcp_server_opaque [64; 67;1;2;3;64; 64; 65]%N = [[1;2;3]]%N.
Proof. vm_compute. auto. Qed.

Example C12_ex_mtcp_heads :
  mtcp_head 23 = [87]%N /\ mtcp_head 24 = [88; 24]%N /\ mtcp_head 255 = [88; 255]%N
  /\ mtcp_head 256 = [89; 1; 0]%N /\ mtcp_head 65535 = [89; 255; 255]%N /\ mtcp_head 65536 = [90; 0; 1; 0; 0]%N.
Proof. vm_compute. auto 10. Qed.

Example C12_ex_mtcp_error :
  let r := mtcp_send false [1;2;3]%N (Some (1, 0)) in
  sr_error r = true /\ sr_disappeared r = true /\ sr_written r = [[67;1;2;3]]%N.
Proof. vm_compute. auto. Qed.
