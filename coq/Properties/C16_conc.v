(* C16 (last clause), interleaving level - "closing the manager stops every started adapter exactly
   once, without panic or deadlock", for ALL interleavings of the goroutines of pkg/cla/manager.go and
   manager_elem.go at the granularity of synchronisation operations (Model/ClaMgrConc.v):
   Manager.handler, the goroutine calling Close(), client goroutines calling Register / Unregister /
   Restart, the convergenceElem handlers, adapters with status messages waiting in their channels.

   BOUNDED result: the theorems quantify over every configuration within [cmc_c16_bound]
     (at most 2 adapters - each absent / started / pending with ttl 0 or 1, a pending one permanent or
      not -, at most 1 client call, at most 1 waiting status message (PeerDisappeared or other), at
      most 1 retry tick;  or at most 1 adapter, permanent or not, and at most 3 client calls)
   with the production parameters (queueTtl 10, inChnl capacity 100, independent consumer of
   Channel()) that obeys [cmc_cfg_ok] (the client calls the code supports concurrently, see
   Model/ClaMgrConc.v), and over every state reachable by any interleaving.  They are closed by an
   exhaustive exploration of all these configurations, evaluated by vm_compute
   (Proofs/ClaMgrConcRun0..6.v) and lifted by the soundness theorem of the explorer
   (ClaMgrConcProofs.cmc_explore_sound) and the completeness of the enumeration
   (cmc_all_cfgs_complete).  Only the finiteness of runs is proved without a bound, by a ranking
   function (C16_conc_every_run_finite).  The hypotheses are sharp: the Examples below give, as schedules, the
   violations outside cmc_cfg_ok / the bound, and the violations of the same model with the seeded
   defect or without one of the two concurrency fixes. *)
From DTN Require Import Base ClaMgrConc ClaMgrConcProofs ClaMgrConcMain ConstsOkClaMgrConc.
Open Scope nat_scope.

(* No reachable deadlock: while some thread has not returned, some thread can step.  Termination: from
   a reachable state every run has at most cmc_rank-many steps, so every maximal run is finite; and a
   state in which no thread can step is one where every thread has returned - Close() has returned. *)
Theorem C16_close_no_deadlock : forall c, cmc_c16_bound c = true -> cmc_cfg_ok c = true ->
  forall s, cmc_reach cmc_code_as_is (cf_par c) (cmc_init c) s ->
    (cmc_all_done s = false -> exists t alt s', cmc_step cmc_code_as_is (cf_par c) s t alt = Some s')
    /\ (forall n s', cmc_run cmc_code_as_is (cf_par c) n s s' -> (N.of_nat n <= cmc_rank s)%N)
    /\ ((forall t alt, cmc_step cmc_code_as_is (cf_par c) s t alt = None) ->
        cmc_all_done s = true /\ cmc_close_returned s = true).
Proof. exact cmc_close_no_deadlock. Qed.
Print Assumptions C16_close_no_deadlock.

(* Exactly once: at every point of every run the adapter call a step makes is legal - conv.Start() only
   of an adapter that is not started, conv.Close() only of a started one, so the calls of each adapter
   alternate - and when no thread can step any more every adapter is stopped, the registry is empty and no
   element is active: nothing is left running or listed. *)
Theorem C16_close_exactly_once : forall c, cmc_c16_bound c = true -> cmc_cfg_ok c = true ->
  forall s, cmc_reach cmc_code_as_is (cf_par c) (cmc_init c) s ->
    (forall t alt s', cmc_step cmc_code_as_is (cf_par c) s t alt = Some s' ->
       match cmc_call s t with
       | Some (true, a) => cmc_started s a = false
       | Some (false, a) => cmc_started s a = true
       | None => True
       end)
    /\ ((forall t alt, cmc_step cmc_code_as_is (cf_par c) s t alt = None) -> cmc_all_stopped s = true).
Proof. exact cmc_close_exactly_once. Qed.
Print Assumptions C16_close_exactly_once.

(* No panic: no reachable state results from closing a closed (or nil) channel, sending on a closed
   channel or unlocking an unlocked mutex (cs_err also records an illegal adapter call). *)
Theorem C16_close_no_panic : forall c, cmc_c16_bound c = true -> cmc_cfg_ok c = true ->
  forall s, cmc_reach cmc_code_as_is (cf_par c) (cmc_init c) s -> cs_err s = None.
Proof. exact cmc_close_no_panic. Qed.
Print Assumptions C16_close_no_panic.

(* UNBOUNDED part of the termination clause: in every state whatsoever (any number of adapters, client
   calls, waiting messages, ticks; any of the three switches) every step of every thread decreases
   cmc_rank, so every run from every state has at most cmc_rank-many steps: no livelock, no scheduler
   fairness needed. *)
Theorem C16_conc_every_run_finite : forall sw p n s s', cmc_run sw p n s s' -> (N.of_nat n + cmc_rank s' <= cmc_rank s)%N.
Proof. exact cmc_run_rank. Qed.
Print Assumptions C16_conc_every_run_finite.

(* the enumeration behind the exploration covers the bound (so the bound is what the theorems say) *)
Theorem C16_conc_family_complete : forall N K M T P c,
  cmc_in_bound N K M T P c = true -> cmc_cfg_ok c = true -> In c (cmc_family N K M T P).
Proof. exact cmc_family_complete. Qed.
Print Assumptions C16_conc_family_complete.

(* ------------------------------------------------------------------ *)
(* non-vacuity                                                         *)
(* ------------------------------------------------------------------ *)
Definition c16c_ad (i : cmc_ainit) (m : list bool) : cmc_acfg := {| ac_init := i; ac_perm := false; ac_msgs := m |}.
Definition c16c_cfg (ads : list cmc_acfg) (ops : list cmc_cop) (ticks : nat) : cmc_cfg :=
  {| cf_ads := ads; cf_ops := ops; cf_ticks := ticks; cf_par := cmc_par_prod |}.

(* a started adapter with a PeerDisappeared waiting, a second adapter being registered by a client: within
   the bound; 19266 states are reachable, 33 of them final *)
Definition c16c_two : cmc_cfg := c16c_cfg [c16c_ad AStarted [true]; c16c_ad AAbsent []] [CoReg 1] 0.
Example C16_conc_example_in_bound : cmc_c16_bound c16c_two = true /\ cmc_cfg_ok c16c_two = true.
Proof. split; vm_compute; reflexivity. Qed.
Example C16_conc_example_explored :
  ex_count _ (cmc_explore cmc_state cmc_state_eqb cmc_hash (cmc_expand cmc_code_as_is cmc_par_prod) cmc_fuel [cmc_init c16c_two])
  = 19266%N.
Proof. vm_compute. reflexivity. Qed.
(* one complete run (73 steps): the client registers adapter 1 (its start succeeds), the peer loss is handled
   (restart of adapter 0), Close() - overlapping the client's second look at the stop flag - stops both: every
   thread returned, nothing is left running or listed *)
Definition c16c_two_sched : list (cmc_tid * nat) :=
  [(TC, 0); (TCl 0, 0); (TCl 0, 0); (TCl 0, 0); (TCl 0, 0); (TCl 0, 0); (TCl 0, 0); (TCl 0, 0); (TCl 0, 0);
   (TCl 0, 0); (TE 0, 1); (TE 0, 0); (TH, 1); (TH, 0); (TH, 0); (TH, 0); (TH, 0); (TH, 0); (TE 0, 0); (TE 0, 0);
   (TE 0, 0); (TH, 0); (TH, 0); (TH, 0); (TH, 0); (TH, 0); (TH, 0); (TH, 0); (TH, 0); (TH, 0); (TH, 0); (TH, 0);
   (TH, 0); (TH, 0); (TC, 0); (TC, 0); (TH, 0); (TH, 0); (TH, 0); (TH, 0); (TH, 0); (TH, 0); (TH, 0); (TC, 0);
   (TCl 0, 0); (TCl 0, 0); (TCl 0, 0); (TCl 0, 0); (TCl 0, 0); (TCl 0, 0); (TCl 0, 0); (TE 1, 0); (TE 1, 0);
   (TE 1, 0); (TCl 0, 0); (TCl 0, 0); (TCl 0, 0); (TCl 0, 0); (TE 2, 0); (TE 2, 0); (TE 2, 0); (TH, 0); (TH, 0);
   (TH, 0); (TH, 0); (TH, 0); (TH, 0); (TH, 0); (TH, 0); (TH, 0); (TH, 0); (TH, 0); (TC, 0)].
Example C16_conc_example_run :
  exists s, cmc_reach cmc_code_as_is cmc_par_prod (cmc_init c16c_two) s
            /\ (cmc_all_done s && cmc_all_stopped s && cmc_no_err s && negb (cmc_enabled cmc_code_as_is cmc_par_prod s)) = true.
Proof. apply (cmc_witness cmc_code_as_is c16c_two c16c_two_sched). vm_compute. reflexivity. Qed.

(* ------------------------------------------------------------------ *)
(* the model is sharp: seeded defect and the two repaired defects      *)
(* ------------------------------------------------------------------ *)
Definition c16c_sw_seeded : cmc_sw := {| sw_close_holds := true; sw_no_deact_chk := false; sw_no_reg_chk := false |}.
Definition c16c_sw_before_aef8c74 : cmc_sw := {| sw_close_holds := false; sw_no_deact_chk := true; sw_no_reg_chk := false |}.
Definition c16c_sw_before_4771bec : cmc_sw := {| sw_close_holds := false; sw_no_deact_chk := false; sw_no_reg_chk := true |}.

(* seeded defect (Close() keeps stopFlagMutex while it waits for stopAck): one started adapter reports a
   peer loss; the handler takes it, restarts the adapter and blocks in Register's isStopped(); Close()
   waits for stopAck for ever.  The same configuration is inside the bound of the theorems. *)
Definition c16c_one_D : cmc_cfg := c16c_cfg [c16c_ad AStarted [true]] [] 0.
Example C16_conc_seeded_defect_deadlocks :
  exists s, cmc_reach c16c_sw_seeded cmc_par_prod (cmc_init c16c_one_D) s
            /\ (cmc_deadlocked c16c_sw_seeded cmc_par_prod s && negb (cmc_close_returned s)) = true.
Proof.
  apply (cmc_witness c16c_sw_seeded c16c_one_D
    [(TC, 0); (TC, 0); (TC, 0); (TC, 0); (TE 0, 1); (TE 0, 0); (TH, 1); (TH, 0); (TH, 0); (TH, 0); (TH, 0); (TH, 0);
     (TE 0, 0); (TE 0, 0); (TE 0, 0); (TH, 0); (TH, 0); (TH, 0); (TH, 0)]).
  vm_compute. reflexivity.
Qed.
Example C16_conc_seeded_cfg_in_theorem : cmc_c16_bound c16c_one_D = true /\ cmc_cfg_ok c16c_one_D = true.
Proof. split; vm_compute; reflexivity. Qed.

(* without fix aef8c74 (deactivate does not look at isActive again under its mutex): an Unregister racing
   the shutdown closes the element's stop channel a second time *)
Definition c16c_one_unreg : cmc_cfg := c16c_cfg [c16c_ad AStarted []] [CoUnreg 0] 0.
Example C16_conc_before_aef8c74_double_close :
  exists s, cmc_reach c16c_sw_before_aef8c74 cmc_par_prod (cmc_init c16c_one_unreg) s
            /\ option_eqb cmc_err_eqb (cs_err s) (Some (ErrCloseClosed 0)) = true.
Proof.
  apply (cmc_witness c16c_sw_before_aef8c74 c16c_one_unreg
    [(TC, 0); (TC, 0); (TC, 0); (TC, 0); (TH, 0); (TH, 0); (TH, 0); (TH, 0); (TH, 0); (TH, 0); (TH, 0); (TCl 0, 0); (TCl 0, 0);
     (TE 0, 0); (TE 0, 0); (TE 0, 0); (TH, 0); (TH, 0); (TH, 0); (TCl 0, 0); (TCl 0, 0)]).
  vm_compute. reflexivity.
Qed.
Example C16_conc_aef8c74_cfg_in_theorem : cmc_c16_bound c16c_one_unreg = true /\ cmc_cfg_ok c16c_one_unreg = true.
Proof. split; vm_compute; reflexivity. Qed.

(* without fix 4771bec (Register does not look at the stop flag again after filing the CLA): Close() has
   returned, every thread but the new element handler has returned, the adapter is started and listed *)
Definition c16c_one_reg : cmc_cfg := c16c_cfg [c16c_ad AAbsent []] [CoReg 0] 0.
Example C16_conc_before_4771bec_left_running :
  exists s, cmc_reach c16c_sw_before_4771bec cmc_par_prod (cmc_init c16c_one_reg) s
            /\ (negb (cmc_enabled c16c_sw_before_4771bec cmc_par_prod s) && cmc_no_err s && cmc_close_returned s
                && cmc_started s 0 && negb (cmc_all_stopped s)) = true.
Proof.
  apply (cmc_witness c16c_sw_before_4771bec c16c_one_reg
    [(TC, 0); (TCl 0, 0); (TCl 0, 0); (TC, 0); (TC, 0); (TC, 0); (TH, 0); (TH, 0); (TH, 0); (TH, 0); (TH, 0); (TH, 0); (TC, 0);
     (TCl 0, 0); (TCl 0, 0); (TCl 0, 0); (TCl 0, 0); (TCl 0, 0); (TCl 0, 0); (TCl 0, 0)]).
  vm_compute. reflexivity.
Qed.
Example C16_conc_4771bec_cfg_in_theorem : cmc_c16_bound c16c_one_reg = true /\ cmc_cfg_ok c16c_one_reg = true.
Proof. split; vm_compute; reflexivity. Qed.

(* ------------------------------------------------------------------ *)
(* FINDINGS: the code as it is, outside cmc_cfg_ok / the bound          *)
(* ------------------------------------------------------------------ *)
(* (1) Register of an adapter that is already registered, racing Close(): the shutdown deactivates the
   element, Register (past its first isStopped()) finds it inactive, starts it and files it, the shutdown
   deletes the entry; Register's second isStopped() sees the flag, but unregisterConvergence finds nothing:
   Close() returned, the adapter is running and not listed. *)
Definition c16c_rereg : cmc_cfg := c16c_cfg [c16c_ad AStarted []] [CoReg 0] 0.
Example C16_conc_finding_reregister_left_running :
  cmc_cfg_ok c16c_rereg = false /\
  exists s, cmc_reach cmc_code_as_is cmc_par_prod (cmc_init c16c_rereg) s
            /\ (negb (cmc_enabled cmc_code_as_is cmc_par_prod s) && cmc_no_err s && cmc_close_returned s
                && cmc_started s 0 && negb (cmc_all_stopped s)) = true.
Proof.
  split; [vm_compute; reflexivity|].
  apply (cmc_witness cmc_code_as_is c16c_rereg
    [(TC, 0); (TCl 0, 0); (TCl 0, 0); (TC, 0); (TC, 0); (TC, 0); (TH, 0); (TH, 0); (TH, 0); (TH, 0); (TH, 0); (TH, 0); (TH, 0); (TH, 0);
     (TCl 0, 0); (TE 0, 0); (TE 0, 0); (TE 0, 0); (TH, 0); (TH, 0); (TH, 0);
     (TCl 0, 0); (TCl 0, 0); (TCl 0, 0); (TCl 0, 0); (TCl 0, 0); (TCl 0, 0); (TCl 0, 0);
     (TH, 0); (TH, 0); (TH, 0); (TH, 0); (TH, 0); (TC, 0); (TCl 0, 0); (TCl 0, 0); (TCl 0, 0)]).
  vm_compute. reflexivity.
Qed.

(* (2) Register racing Close(), the new adapter reports a status message: its element handler forwards it
   to inChnl, which the shutdown has closed meanwhile - panic: send on closed channel. *)
Definition c16c_reg_msg : cmc_cfg := c16c_cfg [c16c_ad AAbsent [false]] [CoReg 0] 0.
Example C16_conc_finding_send_on_closed_inChnl :
  cmc_cfg_ok c16c_reg_msg = false /\
  exists s, cmc_reach cmc_code_as_is cmc_par_prod (cmc_init c16c_reg_msg) s
            /\ option_eqb cmc_err_eqb (cs_err s) (Some (ErrSendClosed 0)) = true.
Proof.
  split; [vm_compute; reflexivity|].
  apply (cmc_witness cmc_code_as_is c16c_reg_msg
    [(TC, 0); (TCl 0, 0); (TCl 0, 0); (TC, 0); (TC, 0); (TC, 0); (TH, 0); (TH, 0); (TH, 0); (TH, 0);
     (TCl 0, 0); (TCl 0, 0); (TCl 0, 0); (TCl 0, 0); (TCl 0, 0); (TE 0, 1); (TE 0, 0)]).
  vm_compute. reflexivity.
Qed.

(* (3) Register of a pending adapter racing the retry tick: activate() checks isActive() only outside the
   element's mutex, both callers pass it, both call conv.Start(). *)
Definition c16c_reg_tick : cmc_cfg := c16c_cfg [c16c_ad (APending 1) []] [CoReg 0] 1.
Example C16_conc_finding_double_start :
  cmc_cfg_ok c16c_reg_tick = false /\
  exists s, cmc_reach cmc_code_as_is cmc_par_prod (cmc_init c16c_reg_tick) s
            /\ option_eqb cmc_err_eqb (cs_err s) (Some (ErrDoubleStart 0)) = true.
Proof.
  split; [vm_compute; reflexivity|].
  apply (cmc_witness cmc_code_as_is c16c_reg_tick
    [(TH, 2); (TH, 0); (TH, 0); (TH, 0); (TH, 0); (TH, 0); (TH, 0); (TCl 0, 0); (TCl 0, 0); (TCl 0, 0); (TCl 0, 0); (TCl 0, 0);
     (TH, 0); (TH, 0); (TCl 0, 0); (TCl 0, 0)]).
  vm_compute. reflexivity.
Qed.

(* (4) Unregister racing the retry tick: deactivate() leaves the element inactive with a fresh ttl, the
   retry pass takes it for a failed start and starts it again, Unregister deletes the entry: running, not
   listed, not stopped by Close(). *)
Definition c16c_unreg_tick : cmc_cfg := c16c_cfg [c16c_ad AStarted []] [CoUnreg 0] 1.
Example C16_conc_finding_unregister_tick_left_running :
  cmc_cfg_ok c16c_unreg_tick = false /\
  exists s, cmc_reach cmc_code_as_is cmc_par_prod (cmc_init c16c_unreg_tick) s
            /\ (negb (cmc_enabled cmc_code_as_is cmc_par_prod s) && cmc_no_err s && cmc_close_returned s
                && cmc_started s 0 && negb (cmc_all_stopped s)) = true.
Proof.
  split; [vm_compute; reflexivity|].
  apply (cmc_witness cmc_code_as_is c16c_unreg_tick
    [(TH, 2); (TH, 0); (TH, 0); (TC, 0); (TC, 0); (TC, 0); (TC, 0); (TCl 0, 0); (TCl 0, 0); (TCl 0, 0); (TCl 0, 0); (TCl 0, 0);
     (TE 0, 0); (TE 0, 0); (TE 0, 0); (TCl 0, 0); (TCl 0, 0); (TH, 0); (TH, 0); (TCl 0, 0); (TH, 0); (TH, 0); (TH, 0); (TH, 0);
     (TH, 0); (TH, 0); (TCl 0, 0); (TH, 0); (TH, 0); (TH, 0); (TH, 0); (TH, 0); (TC, 0)]).
  vm_compute. reflexivity.
Qed.

(* (5) two Registers of the same (new) adapter: each allocates its own element, both call conv.Start(). *)
Definition c16c_reg_reg : cmc_cfg := c16c_cfg [c16c_ad AAbsent []] [CoReg 0; CoReg 0] 0.
Example C16_conc_finding_two_registers_double_start :
  cmc_cfg_ok c16c_reg_reg = false /\
  exists s, cmc_reach cmc_code_as_is cmc_par_prod (cmc_init c16c_reg_reg) s
            /\ option_eqb cmc_err_eqb (cs_err s) (Some (ErrDoubleStart 0)) = true.
Proof.
  split; [vm_compute; reflexivity|].
  apply (cmc_witness cmc_code_as_is c16c_reg_reg
    [(TCl 0, 0); (TCl 0, 0); (TCl 0, 0); (TCl 0, 0); (TCl 0, 0); (TCl 0, 0); (TCl 1, 0); (TCl 1, 0); (TCl 1, 0); (TCl 1, 0); (TCl 1, 0); (TCl 1, 0)]).
  vm_compute. reflexivity.
Qed.

(* (6) Unregister racing the handler's own restart after a peer loss of the same adapter: Unregister's
   Delete removes the element the handler has just restarted. *)
Definition c16c_unreg_D : cmc_cfg := c16c_cfg [c16c_ad AStarted [true]] [CoUnreg 0] 0.
Example C16_conc_finding_unregister_restart_left_running :
  cmc_cfg_ok c16c_unreg_D = false /\
  exists s, cmc_reach cmc_code_as_is cmc_par_prod (cmc_init c16c_unreg_D) s
            /\ (negb (cmc_enabled cmc_code_as_is cmc_par_prod s) && cmc_no_err s && cmc_close_returned s
                && cmc_started s 0 && negb (cmc_all_stopped s)) = true.
Proof.
  split; [vm_compute; reflexivity|].
  apply (cmc_witness cmc_code_as_is c16c_unreg_D
    [(TC, 0); (TCl 0, 0); (TCl 0, 0); (TCl 0, 0); (TCl 0, 0); (TCl 0, 0); (TE 0, 1); (TE 0, 0); (TH, 1); (TH, 0); (TE 0, 0); (TE 0, 0); (TE 0, 0);
     (TCl 0, 0); (TCl 0, 0); (TH, 0); (TH, 0); (TH, 0); (TH, 0); (TH, 0); (TH, 0); (TH, 0); (TH, 0); (TH, 0); (TH, 0); (TH, 0); (TH, 0); (TH, 0); (TH, 0);
     (TC, 0); (TC, 0); (TC, 0); (TH, 0); (TCl 0, 0); (TCl 0, 0); (TH, 0); (TH, 0); (TH, 0); (TH, 0); (TH, 0); (TC, 0)]).
  vm_compute. reflexivity.
Qed.

(* (7) beyond the message bound, no client call, production capacity 100: one started adapter with 101
   status messages waiting.  Its element handler puts 100 of them into inChnl (full) and blocks sending
   the 101st; Close() is called, the handler's select takes stopSyn, the shutdown deactivates the element
   and waits for its stopAck, which the blocked element handler never closes: deadlock, Close() never
   returns.  (The statement of the theorems is false for an unbounded number of waiting messages.) *)
Definition c16c_flood : cmc_cfg := c16c_cfg [c16c_ad AStarted (repeat false 101)] [] 0.
Definition c16c_flood_sched : list (cmc_tid * nat) :=
  concat (repeat [(TE 0, 1); (TE 0, 0)] 100) ++ [(TE 0, 1)]
  ++ [(TC, 0); (TC, 0); (TC, 0); (TC, 0)]
  ++ [(TH, 0); (TH, 0); (TH, 0); (TH, 0); (TH, 0); (TH, 0); (TH, 0); (TH, 0)].
Example C16_conc_finding_inChnl_full_deadlock :
  cmc_cfg_ok c16c_flood = true /\
  exists s, cmc_reach cmc_code_as_is cmc_par_prod (cmc_init c16c_flood) s
            /\ (cmc_deadlocked cmc_code_as_is cmc_par_prod s && negb (cmc_close_returned s)) = true.
Proof.
  split; [vm_compute; reflexivity|].
  apply (cmc_witness cmc_code_as_is c16c_flood c16c_flood_sched). vm_compute. reflexivity.
Qed.

(* (8) outside the production parameters of the theorems, but as routing.Core uses the manager: the
   goroutine that reads Manager.Channel() is the one that calls Manager.Close() (Core.handler).  Once it
   has entered Close() nobody reads outChnl; a handler that is forwarding a status message blocks in the
   send and never sees stopSyn: deadlock. *)
Definition c16c_core : cmc_cfg :=
  {| cf_ads := [c16c_ad AStarted [false]]; cf_ops := []; cf_ticks := 0;
     cf_par := {| par_ttl := 10%Z; par_cap := 100; par_env := true |} |}.
Example C16_conc_finding_consumer_is_closer_deadlock :
  exists s, cmc_reach cmc_code_as_is (cf_par c16c_core) (cmc_init c16c_core) s
            /\ (cmc_deadlocked cmc_code_as_is (cf_par c16c_core) s && negb (cmc_close_returned s)) = true.
Proof.
  apply (cmc_witness cmc_code_as_is c16c_core [(TE 0, 1); (TE 0, 0); (TH, 1); (TC, 0); (TC, 0); (TC, 0); (TC, 0)]).
  vm_compute. reflexivity.
Qed.
