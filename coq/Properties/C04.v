(* C04 - bytes from the network or clients can never crash, hang or balloon the node.
   (Bundle decoder and the TCPCLv4 sending side; the other decoders are added by
   Properties of the auxiliary-format packages.) *)
From DTN Require Import Base Cbor CborProofs Crc Eid Bundle BundleWf BundleProofs DecodeInv Alloc C04Bundle
  Tcpcl TcpclProofs ConstsOkCodec ConstsOkTcpcl.
Open Scope N_scope.

(* Every decoder of the model is a total Gallina function: it returns a value or an error for
   every byte string (no partiality, no exception).  Loops run on fuel; the fuel the bundle decoder
   is given (input length + 1) is never the reason for its answer: *)
Theorem C04_bundle_terminates_blocks : forall n bs f1 f2 acc,
  (length bs <= n)%nat -> (length bs < f1)%nat -> (length bs < f2)%nat ->
  dec_blocks f1 bs acc = dec_blocks f2 bs acc.
Proof. exact dec_blocks_fuel_irrelevant. Qed.
Print Assumptions C04_bundle_terminates_blocks.

(* the loops over a map-valued block's declared pair count (up to 2^64) stop at the end of the
   bytes that arrived, whatever count is declared *)
Theorem C04_bundle_terminates_pairs : forall readv,
  (forall bs v r, readv bs = Ok v r -> (length r <= length bs)%nat) ->
  forall n bs f1 f2 cnt acc,
  (length bs <= n)%nat -> (length bs < f1)%nat -> (length bs < f2)%nat ->
  dec_pairs f1 readv cnt acc bs = dec_pairs f2 readv cnt acc bs.
Proof. exact dec_pairs_fuel_irrelevant. Qed.
Print Assumptions C04_bundle_terminates_pairs.

(* every successfully decoded canonical block consumed at least one byte: progress *)
Theorem C04_bundle_progress : forall bs c r, dec_cblock bs = Ok c r -> (length r < length bs)%nat.
Proof. exact dec_cblock_shorter. Qed.
Print Assumptions C04_bundle_progress.

(* The only allocation sized by a wire length before the bytes are known to have arrived
   (ReadRawBytes) is at most 1 MiB, and when the read succeeds it is covered by arrived bytes.
   PARTIAL: counts (array / map lengths) never size an allocation in the bundle decoder - that is
   established by reading the code and measured on the implementation (child processes), not
   carried through the whole decoder as an allocation account. *)
Theorem C04_raw_alloc_bounded : forall n, raw_prealloc n <= raw_chunk.
Proof. exact raw_prealloc_bounded. Qed.
Print Assumptions C04_raw_alloc_bounded.
Theorem C04_raw_alloc_covered : forall n bs d r,
  read_raw n bs = Ok d r -> raw_prealloc n <= nlen d /\ nlen d <= nlen bs.
Proof. exact raw_prealloc_covered. Qed.
Print Assumptions C04_raw_alloc_covered.

(* Size parameters a peer declares during TCPCLv4 session setup cannot make the sending side panic
   or spin: for every segment MRU below 2^64 and every sender state, NextSegment never panics, every
   segment it returns consumes at least one byte of the stream, its buffer is at most 1 MiB, and
   the sending loop emits at most length-many segments and never ends in a panic. *)
Theorem C04_sender_mru : forall m st,
  m < 2 ^ 64 ->
  next_segment m st <> NsPanic
  /\ (forall s a st', next_segment m st = NsSeg s a st' ->
        1 <= nlen (sg_data s)
        /\ os_stream st = sg_data s ++ os_stream st'
        /\ (length (os_stream st') < length (os_stream st))%nat
        /\ a <= tc_max_segment /\ a <= tc_max_segment + nlen (sg_data s))
  /\ (forall fuel, (length (fst (out_loop next_segment fuel m st)) <= length (os_stream st))%nat
                   /\ snd (out_loop next_segment fuel m st) <> OtPanic).
Proof. exact tcpcl_sender_mru. Qed.
Print Assumptions C04_sender_mru.
