(* C12, part "bundles": MTCP composed with the bundle codec of property C01 (Model/Bundle.v), not with an
   abstract codec: the server loop parsing with dec_bundle hands up exactly the bundles that were sent. *)
From DTN Require Import Base Cbor Crc Eid Bundle BundleWf BundleProofs BundleStreamProofs Mtcp MtcpProofs MtcpBundles.
Open Scope N_scope.

(* Every sequence of Sends of valid bundles (each serialising to fewer than 2^64 bytes) and keep-alives:
   the MTCP server, delimiting every bundle by the bundle's own CBOR structure (dec_bundle at time now),
   hands up the same bundles - equal in every field and block - in the same order; keep-alives and
   probes are invisible.  Some b = Send b, None = keep-alive. *)
Theorem C12_mtcp_bundles : forall now (l : list (option bundle)), Forall (mb_ok now) l ->
  mtcp_server (mb_parse now) (mtcp_client_stream (map mb_ev l)) = handed_up l.
Proof. exact mb_stream. Qed.
Print Assumptions C12_mtcp_bundles.

(* non-vacuity: two different bundles with a keep-alive between them and one after *)
Definition mbx_a : bundle :=
  {| b_pri := {| p_flags := 4; p_crc := 2; p_dst := Dtn [100] [97]; p_src := Ipn 23 42; p_rpt := DtnNone;
                 p_time := 0; p_seq := 256; p_life := 65536; p_off := 0; p_total := 0 |};
     b_blocks := [ {| c_num := 2; c_flags := 0; c_crc := 1; c_val := XAge 24 |};
                   {| c_num := 1; c_flags := 0; c_crc := 0; c_val := XPayload [1; 2; 3] |} ] |}.
Definition mbx_b : bundle :=
  {| b_pri := {| p_flags := 4; p_crc := 1; p_dst := Ipn 1 2; p_src := Dtn [100] [97]; p_rpt := DtnNone;
                 p_time := 0; p_seq := 23; p_life := 24; p_off := 0; p_total := 0 |};
     b_blocks := [ {| c_num := 2; c_flags := 0; c_crc := 2; c_val := XAge 0 |};
                   {| c_num := 1; c_flags := 0; c_crc := 2; c_val := XPayload [] |} ] |}.
Example C12_mtcp_bundles_example :
  Forall (mb_ok 1000) [Some mbx_a; None; Some mbx_b; None]
  /\ mtcp_server (mb_parse 1000) (mtcp_client_stream (map mb_ev [Some mbx_a; None; Some mbx_b; None])) = [mbx_a; mbx_b].
Proof.
  split; [|vm_compute; reflexivity].
  repeat constructor; vm_compute; reflexivity.
Qed.
