(* C02 - only well-formed bundles are accepted; the node only produces well-formed ones. *)
From DTN Require Import Base Cbor Crc Eid Bundle BundleWf BundleProofs ValidProofs ConstsOkCodec.
Open Scope N_scope.

(* Any bundle the parser accepts obeys the BPv7 structural rules (record WellFormed in
   Proofs/ValidProofs.v: exactly one payload block, numbered 1 and last; unique block numbers; at
   most one block per type; valid endpoint IDs; no contradictory flags; zero creation time only
   with a bundle-age block; hop count not above its limit; lifetime not run out). Version 7 is
   enforced by the decoder itself (dec_primary rejects any other version). *)
Theorem C02_accept_sound : forall now bs b rest, dec_bundle now bs = Some (b, rest) -> WellFormed now b.
Proof. exact accept_sound. Qed.
Print Assumptions C02_accept_sound.

Theorem C02_checkvalid_sound : forall now b, check_valid now b = true -> WellFormed now b.
Proof. exact check_valid_sound. Qed.
Print Assumptions C02_checkvalid_sound.

(* Everything that passes CheckValid and is in range is accepted by the parser from its own
   serialisation (so a producer that ends with CheckValid - NewBundle, the Builder - only emits
   bundles the parser accepts). *)
Theorem C02_valid_accepted : forall now b, bundle_wf b = true -> check_valid now b = true ->
  exists bs, enc_bundle b = Some bs /\ dec_bundle now bs = Some (b, []).
Proof.
  intros now b Hwf Hv. exists (bundle_bytes b). split; [exact (enc_bundle_ok b Hwf)|].
  rewrite <- (app_nil_r (bundle_bytes b)). exact (dec_bundle_enc now b [] Hwf Hv).
Qed.
Print Assumptions C02_valid_accepted.

Example C02_example_reject_two_payloads :
  check_valid 0 {| b_pri := {| p_flags := 0; p_crc := 0; p_dst := Ipn 1 1; p_src := Ipn 1 2; p_rpt := Ipn 1 2;
                               p_time := 5; p_seq := 0; p_life := 10; p_off := 0; p_total := 0 |};
                   b_blocks := [ {| c_num := 2; c_flags := 0; c_crc := 0; c_val := XPayload [] |};
                                 {| c_num := 1; c_flags := 0; c_crc := 0; c_val := XPayload [] |} ] |} = false.
Proof. vm_compute. reflexivity. Qed.
