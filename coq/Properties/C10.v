(* C10 - reassembly accepts any covering set of fragments and nothing else.
   Only theorem statements closed by [exact <lemma>], Print Assumptions, non-vacuity examples.

   Vocabulary (Proofs/ReasmProofs.v):
     frag_of p bl f   f is a fragment of the bundle with payload p and extension blocks bl: Is-Fragment
                      flag, total = |p|, data = p[off, off+len), off+len <= |p|, all blocks at offset 0 and
                      the replicated ones elsewhere - ANY offset / length, so first-level fragments of any
                      size limit, fragments of fragments, overlapping and contained pieces all qualify;
     covered fs i     byte i of the payload lies in [off f, off f + len f) for some f in fs;
     covers fs t      every i < t is covered (with frag_of: the union of the intervals = [0,t));
     sorted_by_off s  s is sorted by fragment offset.
   The Go sort (sort.Slice) is not stable: every statement about ReassembleFragments /
   IsBundleReassemblable is made for EVERY permutation s of the input that is sorted by offset,
   whatever the order among equal offsets - hence for the one the implementation produces (the
   harness records it and the driver replays it) and for the model's own insertion sort. *)
From Coq Require Import Permutation.
From DTN Require Import Base Reasm ReasmProofs ConstsOkReasm.
Open Scope N_scope.

(* Any list fs (any order, duplicates, overlaps, containment, first- and second-level pieces) of
   fragments of one bundle: reassembly returns the original payload and blocks exactly when fs is
   non-empty and covers [0,|p|); otherwise it returns an error.  It never returns other data and
   never panics. *)
Theorem C10_iff_cover : forall p bl fs s,
  Forall (frag_of p bl) fs -> Permutation s fs -> sorted_by_off s ->
  (rs_reassemble_sorted s = RsOk p bl <-> fs <> [] /\ covers fs (nlen p))
  /\ (rs_reassemble_sorted s = RsOk p bl \/ exists e, rs_reassemble_sorted s = RsErr e).
Proof. exact reassemble_iff_cover. Qed.
Print Assumptions C10_iff_cover.

(* the same for the model's own sort, input in any order *)
Theorem C10_iff_cover_any_order : forall p bl fs,
  Forall (frag_of p bl) fs ->
  (rs_reassemble fs = RsOk p bl <-> fs <> [] /\ covers fs (nlen p))
  /\ (rs_reassemble fs = RsOk p bl \/ exists e, rs_reassemble fs = RsErr e).
Proof. exact reassemble_own_sort. Qed.
Print Assumptions C10_iff_cover_any_order.

(* IsBundleReassemblable <-> cover *)
Theorem C10_reassemblable_iff_cover : forall p bl fs s,
  Forall (frag_of p bl) fs -> Permutation s fs -> sorted_by_off s ->
  (rs_is_reassemblable_sorted s = true <-> fs <> [] /\ covers fs (nlen p)).
Proof. exact is_reassemblable_iff_cover. Qed.
Print Assumptions C10_reassemblable_iff_cover.

(* Go's slice-bounds panic in mergeFragmentPayload is an explicit outcome of the model; it is
   unreachable for EVERY input list - also for fragments that do not belong together. *)
Theorem C10_never_panics : forall s, rs_reassemble_sorted s <> RsPanic.
Proof. exact reassemble_sorted_no_panic. Qed.
Print Assumptions C10_never_panics.

(* Fragment applied to a fragment (or to the whole bundle), for every sequence of piece sizes the
   size arithmetic may choose: every piece is the parent itself (single piece) or again a fragment
   of the ORIGINAL bundle, with off = off_parent + j and total = total_parent. *)
Theorem C10_refragment : forall p bl f parts c,
  parent_ok p bl f -> In c (rs_refragment f parts) ->
  c = f \/ (frag_of p bl c /\ fr_total c = rs_total f /\
            exists j, j < nlen (fr_data f) /\ fr_off c = rs_base f + j).
Proof. exact refragment_spec. Qed.
Print Assumptions C10_refragment.

(* ... and the pieces cover exactly the parent's interval (sizes positive and sufficient - which
   Fragment guarantees: it fails when a piece would be empty, and loops until the payload ends). *)
Theorem C10_refragment_cover : forall p bl f parts x,
  parent_ok p bl f ->
  Forall (fun sz => 0 < sz) parts -> nlen (fr_data f) <= fold_right N.add 0 parts ->
  (covered (rs_refragment f parts) x <-> covered [f] x).
Proof. exact refragment_cover. Qed.
Print Assumptions C10_refragment_cover.

(* The store: IsComplete / Load of the part list built by pushing fs one after the other.
   As stated in the property this is REFUTED for the code as it is: Push treats a fragment whose
   (offset,total) is already recorded as known and drops it, also when it is longer than the
   recorded one (two fragmentations with different limits both start at offset 0). *)
Theorem C10_store_complete_refuted : exists p bl fs,
  Forall (frag_of p bl) fs /\ fs <> [] /\ covers fs (nlen p)
  /\ rs_store_is_complete (rs_store_push_all fs) = false.
Proof. exact store_complete_refuted. Qed.
Print Assumptions C10_store_complete_refuted.

(* It holds when no fragment is pushed after a shorter one with the same (offset,total) - exactly
   the situation of the finding. *)
Theorem C10_store_complete : forall p bl fs,
  Forall (frag_of p bl) fs -> no_later_longer fs ->
  (rs_store_is_complete (rs_store_push_all fs) = true <-> fs <> [] /\ covers fs (nlen p))
  /\ (rs_store_load (rs_store_push_all fs) = RsOk p bl <-> fs <> [] /\ covers fs (nlen p))
  /\ (rs_store_load (rs_store_push_all fs) = RsOk p bl
      \/ exists e, rs_store_load (rs_store_push_all fs) = RsErr e).
Proof. exact store_complete_iff_cover. Qed.
Print Assumptions C10_store_complete.

(* With the proposed repair of Push (keep the longer of two parts with the same (offset,total)) the
   kept parts cover what the pushed fragments cover, without side condition. *)
Theorem C10_store_repair_keeps_cover : forall fs parts i,
  covered (fold_left rs_store_push_longer fs parts) i <-> covered parts i \/ covered fs i.
Proof. exact store_longer_cover. Qed.
Print Assumptions C10_store_repair_keeps_cover.

(* ---- non-vacuity --------------------------------------------------------------------------------- *)
Definition c10_p : list N := [10; 11; 12; 13; 14; 15; 16; 17; 18; 19].
Definition c10_bl : list (N * bool) := [(7, true); (10, false)].
Definition c10_f (o : N) (d : list N) : rs_frag :=
  {| fr_off := o; fr_total := 10; fr_data := d; fr_isfrag := true;
     fr_blocks := if o =? 0 then c10_bl else [(7, true)] |}.

(* overlap, containment, a duplicate, unsorted: the pieces are fragments of c10_p and reassemble *)
Example C10_ex_cover :
  Forall (frag_of c10_p c10_bl)
    [c10_f 5 [15;16;17;18;19]; c10_f 2 [12;13;14]; c10_f 0 [10;11;12;13;14;15;16;17]; c10_f 2 [12;13;14]]
  /\ rs_reassemble
       [c10_f 5 [15;16;17;18;19]; c10_f 2 [12;13;14]; c10_f 0 [10;11;12;13;14;15;16;17]; c10_f 2 [12;13;14]]
     = RsOk c10_p c10_bl.
Proof.
  split; [| vm_compute; reflexivity].
  repeat (apply Forall_cons;
          [unfold frag_of; vm_compute; repeat split; try reflexivity; try discriminate |]).
  apply Forall_nil.
Qed.

(* byte 5 missing *)
Example C10_ex_noncover :
  rs_reassemble [c10_f 6 [16;17;18;19]; c10_f 0 [10;11;12;13;14]; c10_f 2 [12;13]] = RsErr RsGap
  /\ rs_reassemble [c10_f 0 [10;11;12;13;14]; c10_f 2 [12;13]] = RsErr RsTotal
  /\ rs_reassemble [] = RsErr RsEmpty.
Proof. repeat split; vm_compute; reflexivity. Qed.

(* the code before the fix panicked on [0,10) [2,5) [5,10) and rejected [0,8) [2,5) [6,10) *)
Example C10_ex_unfixed :
  rs_reassemble_sorted_unfixed
    [c10_f 0 c10_p; c10_f 2 [12;13;14]; c10_f 5 [15;16;17;18;19]] = RsPanic
  /\ rs_reassemble_sorted_unfixed
    [c10_f 0 [10;11;12;13;14;15;16;17]; c10_f 2 [12;13;14]; c10_f 6 [16;17;18;19]] = RsErr RsGap.
Proof. split; vm_compute; reflexivity. Qed.

(* fragment [4,8) of c10_p cut into pieces of 3: offsets 4 and 7, total 10 *)
Example C10_ex_refragment :
  rs_refragment (c10_f 4 [14;15;16;17]) [3; 3]
  = [c10_f 4 [14;15;16]; c10_f 7 [17]].
Proof. vm_compute. reflexivity. Qed.
