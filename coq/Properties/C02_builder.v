(* C02 (second sentence, builder clause) - every bundle produced by the builder obeys the rules
   and is accepted by the parser, for all builder call sequences. *)
From DTN Require Import Base Cbor Crc Eid Bundle BundleWf BundleProofs ValidProofs Builder BuilderProofs
  ConstsOkBuilder ConstsOkCodec.
Open Scope N_scope.

(* Whatever any Build call of any call sequence returns - from any builder state, so also after
   earlier Builds, failed Builds and further calls in between - passes CheckValid, hence obeys the
   structural rules (C02_checkvalid_sound). *)
Theorem C02_builder_valid : forall now ops s, Forall (bld_res_valid now) (bld_run now s ops).
Proof. exact bld_run_valid. Qed.
Print Assumptions C02_builder_valid.

Theorem C02_builder_wellformed : forall now s s' b, bld_build now s = (s', Some b) -> WellFormed now b.
Proof. intros now s s' b H. apply check_valid_sound. exact (bld_build_valid now s s' b H). Qed.
Print Assumptions C02_builder_wellformed.

(* With arguments Go's types can hold (64-bit numbers, encodable endpoint IDs and block values) every
   returned bundle moreover serialises, and the parser accepts exactly it from that serialisation. *)
Theorem C02_builder_accepted : forall now ops,
  forallb bld_op_wf ops = true -> 2 + nlen ops < 18446744073709551616 ->
  Forall (bld_res_accepted now) (bld_run now bld_init ops).
Proof. exact bld_builder_accepted. Qed.
Print Assumptions C02_builder_accepted.

(* non-vacuity: a builder used further after Build; both results exist, the first is unchanged *)
Definition c02_builder_ops : list bld_op :=
  [ BoSource (Some (Dtn [115;114;99] [])); BoDest (Some (Ipn 1 2)); BoTime 700000000000; BoLifetime (Some 3600000);
    BoHop 64 0; BoAge (Some 7) 0; BoPayload [104;105] 0; BoBuild;
    BoCanon 0 (XGeneric 200 [1;2;3]); BoCrc 1; BoBuild; BoPayload [1] 0; BoBuild ].
Example C02_builder_example_wf :
  forallb bld_op_wf c02_builder_ops = true /\ 2 + nlen c02_builder_ops < 18446744073709551616.
Proof. split; vm_compute; reflexivity. Qed.
Example C02_builder_example_results :
  map (fun r => match r with Some b => Some (map c_num (b_blocks b), p_crc (b_pri b)) | None => None end)
      (bld_run 700000000001 bld_init c02_builder_ops)
  = [ Some ([2; 3; 1], 2); Some ([2; 3; 4; 1], 1); None ].
Proof. vm_compute. reflexivity. Qed.
