(* C18 - spray-and-wait never exceeds, and never leaks, its copy budget.
   Only theorem statements closed by [exact <lemma>] and Print Assumptions.

   Model: Model/Spray.v - one bundle on one node (the Go metadata is keyed by bundle ID; the
   differential check runs several bundles per node against independent instances of this model).
   [spray_run c spray_init h] runs a history [h] of events, each paired with the oracle (the senders
   SenderForBundle picked - Go map order - validated by a guard, never predicted); it is [None] when
   the observation is not one the model allows.  The theorems hold for every L, every history and
   every oracle.

   Lives of a bundle.  The node remembers a bundle only while the store knows it: a duplicate of a
   stored bundle is dropped by Core.receive before the algorithm hears of it ([SeCreate] on a stored
   bundle is a no-op), but a bundle that has left the store (delivered to its destination) and is
   received again - e.g. a bundle of ours coming back from a neighbour - is a new bundle to the
   node, and NotifyNewBundle initialises its metadata afresh, with the full budget and, since fix
   772c5cf, the node it came from in the sent list.  The budget theorems are therefore stated per
   life: [spray_life c spray_init [] h = Some (s, outs)] runs the history like [spray_run] and
   yields in [outs] the transmissions since the bundle last entered the store (C18_life: same
   final state, [outs] is the tail of all transmissions; for a history with one create event it
   *is* [spray_run], so the statements below are the former ones there).  Across lives the budget
   is not kept - C18_budget_across_lives shows the count exceeding L-1; the implementation has
   nowhere to remember it (reported as a finding, not repaired here).

   Changed with fix 772c5cf (SprayAndWait records the previous node of an own bundle):
     * C18_budget / C18_accounting / C18_sent_list need [hist_wf] (the bundle is not received from
       its own destination node), as the binary theorems always did: the recorded previous node is
       in [sent], so a failed direct delivery *to it* is given back as a copy although none was
       taken.  C18_budget_needs_wf shows the budget exceeded without the hypothesis.
     * the budget is counted in copies handed over (remaining + handed over = L), not in the
       length of the sent list: the recorded previous node is excluded from the selection without
       having consumed a copy (C18_sent_list, C18_example_comeback). *)
From DTN Require Import Base SpecSpray Spray SprayProofs ConstsOkSpray.
Open Scope N_scope.

(* ---- vanilla spray-and-wait ---- *)

(* Budget: for a bundle originated at this node with budget L the number of successful transmissions
   to peers other than the destination never exceeds L-1 - any number and order of peer
   appearances / disappearances, links starting and stopping to fail, retries, GC, duplicates
   received while the bundle is stored, and the bundle coming back from a neighbour (with or
   without a PreviousNodeBlock) after it left the store. *)
Theorem C18_budget : forall L h s outs,
  spray_life (vconf L) spray_init [] h = Some (s, outs) ->
  hist_originated h = true -> hist_wf h = true ->
  spray_relayed (ss_dst s) outs <= L - 1.
Proof. exact spray_budget. Qed.
Print Assumptions C18_budget.

(* [spray_life] is [spray_run] with the transmissions cut at the last entry into the store ... *)
Theorem C18_life : forall c h s acc,
  (forall s' cur, spray_life c s acc h = Some (s', cur) ->
     exists o pre, spray_run c s h = Some (s', o) /\ acc ++ o = pre ++ cur)
  /\ (forall s' o, spray_run c s h = Some (s', o) -> exists cur, spray_life c s acc h = Some (s', cur)).
Proof. intros c h s acc. split; [apply life_run | intros s' o; apply run_life]. Qed.
Print Assumptions C18_life.

(* ... and for a bundle that enters the store once it is [spray_run]: the theorems of this file
   then speak about all transmissions of the history, as they did before re-creation was modelled *)
Theorem C18_life_single_create : forall c h,
  hist_once h = true -> spray_life c spray_init [] h = spray_run c spray_init h.
Proof. exact life_run_once. Qed.
Print Assumptions C18_life_single_create.

(* Never leaked, never inflated: whenever metadata exists, remaining copies + copies handed over
   successfully = L exactly (so every failed transmission, also a failed direct delivery, left the
   budget unchanged), and at least one copy is always kept (L > 0). *)
Theorem C18_accounting : forall L h s outs m,
  spray_life (vconf L) spray_init [] h = Some (s, outs) ->
  hist_originated h = true -> hist_wf h = true ->
  ss_meta s = Some m ->
  sm_rem m + spray_relayed (ss_dst s) outs = L /\ 1 <= sm_rem m + (if L =? 0 then 1 else 0).
Proof. exact spray_accounting. Qed.
Print Assumptions C18_accounting.

(* What the sent list is (new with fix 772c5cf): the peers a copy was handed to in this life and at
   most one further node [excl] - the previous node of a bundle that was received - which is
   excluded from the selection like them but, by C18_accounting, has not been paid for:
   |sent| = handed over + |excl|, remaining + handed over = L. *)
Theorem C18_sent_list : forall L h s outs m,
  spray_life (vconf L) spray_init [] h = Some (s, outs) ->
  hist_originated h = true -> hist_wf h = true ->
  ss_meta s = Some m ->
  exists excl, nlen excl <= 1
    /\ (forall x, In x excl -> ~ In x (relay_nodes (ss_dst s) outs))
    /\ (forall x, In x (sm_sent m) <-> In x (relay_nodes (ss_dst s) outs) \/ In x excl)
    /\ nlen (sm_sent m) = spray_relayed (ss_dst s) outs + nlen excl.
Proof. exact spray_sent_list. Qed.
Print Assumptions C18_sent_list.

(* Give-back, one forwarding pass (any bundle, also a received one, in any state satisfying the
   structural invariant [sinv] that every reachable state has - C18_reachable): the copies taken
   by the selection minus the ones whose transmission failed are exactly the successful ones. *)
Theorem C18_giveback : forall c s ch s' outs m,
  sc_algo c = SprayVanilla -> sinv s -> ss_meta s = Some m ->
  spray_attempt c s ch = Some (s', outs) ->
  exists m', ss_meta s' = Some m'
    /\ sm_rem m' + spray_relayed (ss_dst s) outs = sm_rem m
    /\ (forall x, In x (sm_sent m') <-> In x (sm_sent m) \/ In x (relay_nodes (ss_dst s) outs))
    /\ nlen (sm_sent m') = nlen (sm_sent m) + spray_relayed (ss_dst s) outs.
Proof. exact vanilla_attempt_giveback. Qed.
Print Assumptions C18_giveback.

Theorem C18_reachable : forall c h s outs,
  spray_run c spray_init h = Some (s, outs) -> hist_wf h = true -> sinv s.
Proof. exact reachable_sinv. Qed.
Print Assumptions C18_reachable.

(* Several failures reported at once: ReportFailure of two concurrent callers as sub-steps
   (lock, read, modify+write, unlock), all schedules.  Whenever both are through, the metadata is
   what the two reports give one after the other - in both orders, which coincide. *)
Theorem C18_giveback_concurrent : forall a b1 b2 x y m sched,
  NoDup (sm_sent m) -> (x <> y \/ b1 = b2) ->
  let fA := spray_report_failure a b1 x in
  let fB := spray_report_failure a b2 y in
  let s := rf_run true fA fB (rf_init (Some m)) sched in
  rf_finished s = true ->
  rs_shared s = Some (fB (fA m)) /\ rs_shared s = Some (fA (fB m)).
Proof. exact rf_locked_deterministic. Qed.
Print Assumptions C18_giveback_concurrent.

(* a single report undoes exactly what the selection of that peer did *)
Theorem C18_giveback_single : forall g x r sent, ~ In x sent -> g <= r ->
  spray_rf_write g x {| sm_rem := r - g; sm_sent := sent ++ [x] |} = {| sm_rem := r; sm_sent := sent |}.
Proof. exact rf_write_undoes_selection. Qed.
Print Assumptions C18_giveback_single.

(* ---- binary spray ---- *)

(* One forwarding pass from any state with the structural invariant: either nothing goes to a
   non-destination peer and the count is unchanged (in particular after a failed direct delivery),
   or exactly one bundle goes to one non-destination peer, the sender held r >= 2 copies, the
   bundle announces floor(r/2), and on success the sender keeps r - floor(r/2) (announced + kept
   = held before), on failure count and sent list are exactly as before. *)
Theorem C18_binary : forall c s ch s' outs m,
  sc_algo c = SprayBinary -> sinv s -> ss_meta s = Some m ->
  spray_attempt c s ch = Some (s', outs) ->
  exists m', ss_meta s' = Some m' /\
    ( ((forall o, In o outs -> sn_direct o = true /\ sn_node o = ss_dst s) /\ m' = m)
      \/ (exists o, outs = [o] /\ sn_direct o = false /\ sn_node o <> ss_dst s
            /\ 2 <= sm_rem m
            /\ sn_blk o = Some (sm_rem m / 2)
            /\ (sn_ok o = true -> sm_rem m' = sm_rem m - sm_rem m / 2 /\ sm_rem m' + sm_rem m / 2 = sm_rem m
                                  /\ sm_sent m' = sm_sent m ++ [sn_node o])
            /\ (sn_ok o = false -> m' = m)) ).
Proof. exact binary_attempt_spec. Qed.
Print Assumptions C18_binary.

(* a node holding a single copy (or none) only ever transmits to the destination itself *)
Theorem C18_binary_single_copy : forall c s ch s' outs m,
  sc_algo c = SprayBinary -> sinv s -> ss_meta s = Some m -> sm_rem m < 2 ->
  spray_attempt c s ch = Some (s', outs) ->
  forall o, In o outs -> sn_node o = ss_dst s.
Proof.
  intros c s ch s' outs m Hb Hi Hm Hr H o Ho.
  destruct (binary_attempt_spec c s ch s' outs m Hb Hi Hm H) as [m' [_ [[Hd _] | [o' (_ & _ & _ & H2 & _)]]]].
  - exact (proj2 (Hd o Ho)).
  - exfalso. apply (N.lt_irrefl 2). eapply N.le_lt_trans; eassumption.
Qed.
Print Assumptions C18_binary_single_copy.

(* over every history: copies kept + copies handed over successfully (since the bundle entered the
   store) = copies the bundle started with (the announced value of a received bundle, L for a
   bundle without the block) *)
Theorem C18_binary_conservation : forall L h s outs m,
  spray_life (bconf L) spray_init [] h = Some (s, outs) -> hist_wf h = true -> ss_meta s = Some m ->
  sm_rem m + bspray_handed (ss_dst s) outs = spray_initial L s.
Proof. exact bspray_conservation. Qed.
Print Assumptions C18_binary_conservation.

(* ---- the periodic metadata garbage collection running concurrently with an event ----
   GarbageCollect holds the metadata write lock for its whole duration, so with respect to the
   metadata accesses of submit / forward / failure reports it is atomic; for one bundle the run is
   the event preceded or followed by SeGC ([spray_step_gc], Model/Spray.v).  That is a history: all
   theorems above (budget, accounting, give-back, conservation) hold for histories in which any
   event overlaps a collection.  And while the store knows the bundle the collection is invisible:
   no metadata update of the event is lost.  (That the implementation serialises the collection in
   this way is what generator C18sprayconc checks on the real code.) *)
Theorem C18_gc_overlap_serial : forall b c s e ch,
  spray_step_gc b c s e ch
  = spray_run c s (if b then [(SeGC, []); (e, ch)] else [(e, ch); (SeGC, [])]).
Proof. exact step_gc_is_history. Qed.
Print Assumptions C18_gc_overlap_serial.

Theorem C18_gc_overlap_transparent : forall b c s e ch s' o,
  ss_stored s = true -> spray_step c s e ch = Some (s', o) -> ss_stored s' = true ->
  spray_step_gc b c s e ch = Some (s', o).
Proof. exact step_gc_transparent. Qed.
Print Assumptions C18_gc_overlap_transparent.

(* ---- non-vacuity ---- *)

(* the lock is needed: with the original discipline (read under RLock, write under Lock) the
   schedule read-read-write-write loses one of two give-backs *)
Example C18_lost_update_without_lock :
  let m := {| sm_rem := 1; sm_sent := [2; 3] |} in
  let fA := spray_report_failure SprayVanilla None 2 in
  let fB := spray_report_failure SprayVanilla None 3 in
  let s := rf_run false fA fB (rf_init (Some m)) [false; true; false; true; false; true; false; true] in
  rf_finished s = true /\ rs_shared s = Some {| sm_rem := 2; sm_sent := [2] |}
  /\ fB (fA m) = {| sm_rem := 3; sm_sent := [] |}.
Proof. exact rf_unlocked_loses_update. Qed.

(* the same schedule under the lock finishes later but with both copies back *)
Example C18_locked_schedule_finishes : forall fA fB m0,
  rf_finished (rf_run true fA fB (rf_init m0) [false; true; false; true; false; false; true; false; true; true; true; true]) = true.
Proof. exact rf_locked_can_finish. Qed.

(* L = 3, destination node 1 never appears: two relays are served, the third is refused; a failed
   relay gets nothing counted and its copy comes back *)
Example C18_example_budget :
  let h := [ (SeCreate true 1 None None, []);
             (SePeerUp 10 2 true, [10]);             (* fails: copy back *)
             (SePeerUp 11 3 false, [10; 11]);        (* the failing link is tried again, fails again *)
             (SePeerUp 12 4 false, [12]);            (* one copy left to give: Go's map order picked 12, not 10 *)
             (SePeerUp 13 5 false, []);              (* wait phase: nobody *)
             (SeSetFail 10 false, []); (SeTick, []) ] in
  match spray_run (vconf 3) spray_init h with
  | Some (s, outs) => spray_relayed 1 outs = 2 /\ ss_meta s = Some {| sm_rem := 1; sm_sent := [3; 4] |}
                      /\ hist_originated h = true
  | None => False
  end.
Proof. vm_compute. repeat split. Qed.

(* fix 772c5cf.  L = 3: a bundle of ours comes back from node 2.  Node 2 is in the sent list and is
   never offered the bundle, yet it has not used up a copy: nodes 3 and 4 are served (L-1 = 2
   relays), node 5 is refused; remaining 1 + handed over 2 = L although the sent list has 3 entries *)
Example C18_example_comeback :
  let h := [ (SePeerUp 10 2 false, []); (SeCreate true 1 None (Some 2), []);
             (SePeerUp 11 3 false, [11]); (SePeerUp 12 4 false, [12]); (SePeerUp 13 5 false, []) ] in
  match spray_life (vconf 3) spray_init [] h with
  | Some (s, outs) => spray_relayed 1 outs = 2 /\ ss_meta s = Some {| sm_rem := 1; sm_sent := [2; 3; 4] |}
                      /\ hist_originated h = true /\ hist_wf h = true /\ hist_once h = true
  | None => False
  end.
Proof. vm_compute. repeat split. Qed.

(* ... and serving node 2 is not an observation the model allows *)
Example C18_example_comeback_guard :
  spray_run (vconf 3) spray_init [ (SePeerUp 10 2 false, []); (SeCreate true 1 None (Some 2), [10]) ] = None.
Proof. vm_compute. reflexivity. Qed.

(* Lives.  L = 2: the bundle is sprayed to node 2, delivered to its destination (node 1) and thereby
   leaves the store; a duplicate arriving while it was stored changed nothing.  It then comes back
   from node 4: a new life with the full budget - node 2, still connected, is served a second
   time, node 4 is excluded when it appears, node 3 is refused (wait phase).  Each life keeps its
   budget (1 relay); over both lives 2 > L-1 transmissions went to relays - the node cannot know:
   the store has deleted the bundle and the metadata is overwritten (GC or not). *)
Example C18_budget_across_lives :
  let h := [ (SeCreate true 1 None None, []); (SePeerUp 10 2 false, [10]);
             (SeCreate true 1 None (Some 5), []);                          (* duplicate of a stored bundle: dropped *)
             (SePeerUp 11 1 false, []); (SePeerDown 11, []);               (* delivered: leaves the store *)
             (SeCreate true 1 None (Some 4), [10]);                        (* comes back from node 4; node 2 is still there *)
             (SePeerUp 12 4 false, []); (SePeerUp 13 3 false, []) ] in
  hist_originated h = true /\ hist_wf h = true /\
  match spray_life (vconf 2) spray_init [] h, spray_run (vconf 2) spray_init h with
  | Some (s, cur), Some (s', all) =>
      s = s' /\ spray_relayed 1 cur = 1 /\ spray_relayed 1 all = 2
      /\ ss_meta s = Some {| sm_rem := 1; sm_sent := [4; 2] |}
  | _, _ => False
  end.
Proof. vm_compute. repeat split. Qed.

(* [hist_wf] is needed since fix 772c5cf: L = 2, a bundle of ours comes back *from its destination*
   (node 1).  The failed direct delivery to node 1 finds node 1 in the sent list and gives back a
   copy that was never taken: 3 copies, two relays served, 2 > L-1.  (The same quirk has always
   existed for bundles of other nodes and is why the binary theorems assume [hist_wf].) *)
Example C18_budget_needs_wf :
  let h := [ (SePeerUp 10 1 true, []); (SeCreate true 1 None (Some 1), []); (SePeerDown 10, []);
             (SePeerUp 11 2 false, [11]); (SePeerUp 12 3 false, [12]) ] in
  hist_originated h = true /\ hist_wf h = false /\
  match spray_life (vconf 2) spray_init [] h with
  | Some (s, outs) => spray_relayed 1 outs = 2 /\ ss_meta s = Some {| sm_rem := 1; sm_sent := [2; 3] |}
  | None => False
  end.
Proof. vm_compute. repeat split. Qed.

(* the model refuses an observation in which a third relay is served with L = 3 *)
Example C18_example_guard :
  spray_run (vconf 3) spray_init
    [ (SeCreate true 1 None None, []); (SePeerUp 11 3 false, [11]); (SePeerUp 12 4 false, [12]); (SePeerUp 13 5 false, [13]) ] = None.
Proof. vm_compute. reflexivity. Qed.

(* binary, L = 8: failed send to node 2 restores 8; then 4 to node 2, 2 to node 3, 1 to node 4, then wait *)
Example C18_example_binary :
  let h := [ (SePeerUp 10 2 true, []); (SeCreate true 1 None None, [10]); (SeSetFail 10 false, []); (SeTick, [10]);
             (SePeerUp 11 3 false, [11]); (SePeerUp 12 4 false, [12]); (SePeerUp 13 5 false, []) ] in
  match spray_run (bconf 8) spray_init h with
  | Some (s, outs) => map sn_blk outs = [Some 4; Some 4; Some 2; Some 1] /\ map sn_ok outs = [false; true; true; true]
                      /\ ss_meta s = Some {| sm_rem := 1; sm_sent := [2; 3; 4] |} /\ bspray_handed 1 outs = 7
                      /\ hist_wf h = true
  | None => False
  end.
Proof. vm_compute. repeat split. Qed.

(* a copy handed out while a collection runs stays counted (L = 2: the second relay is refused) *)
Example C18_example_gc_overlap :
  match spray_run (vconf 2) spray_init [ (SeCreate true 7 None None, []) ] with
  | Some (s, _) =>
    match spray_step_gc true (vconf 2) s (SePeerUp 10 1 false) [10] with
    | Some (s1, o1) => ss_meta s1 = Some {| sm_rem := 1; sm_sent := [1] |} /\ spray_relayed 7 o1 = 1
                       /\ spray_step_gc false (vconf 2) s1 (SePeerUp 11 2 false) [11] = None
                       /\ exists s2, spray_step_gc false (vconf 2) s1 (SePeerUp 11 2 false) [] = Some (s2, [])
    | None => False
    end
  | None => False
  end.
Proof. vm_compute. repeat split. eexists. reflexivity. Qed.
