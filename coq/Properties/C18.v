(* C18 - spray-and-wait never exceeds, and never leaks, its copy budget.
   Only theorem statements closed by [exact <lemma>] and Print Assumptions.

   Model: Model/Spray.v - one bundle on one node (the Go metadata is keyed by bundle ID; the
   differential check runs several bundles per node against independent instances of this model).
   [spray_run c spray_init h] runs a history [h] of events, each paired with the oracle (the senders
   SenderForBundle picked - Go map order - validated by a guard, never predicted); it is [None] when
   the observation is not one the model allows.  The theorems hold for every L, every history and
   every oracle. *)
From DTN Require Import Base SpecSpray Spray SprayProofs ConstsOkSpray.
Open Scope N_scope.

(* ---- vanilla spray-and-wait ---- *)

(* Budget: for a bundle originated at this node with budget L the number of successful transmissions
   to peers other than the destination never exceeds L-1 - any number and order of peer
   appearances / disappearances, links starting and stopping to fail, retries, GC. *)
Theorem C18_budget : forall L h s outs,
  spray_run (vconf L) spray_init h = Some (s, outs) ->
  hist_originated h = true ->
  spray_relayed (ss_dst s) outs <= L - 1.
Proof. exact spray_budget. Qed.
Print Assumptions C18_budget.

(* Never leaked, never inflated: whenever metadata exists, remaining copies + copies handed over
   successfully = L exactly (so every failed transmission, also a failed direct delivery, left the
   budget unchanged), and at least one copy is always kept (L > 0). *)
Theorem C18_accounting : forall L h s outs m,
  spray_run (vconf L) spray_init h = Some (s, outs) ->
  hist_originated h = true ->
  ss_meta s = Some m ->
  sm_rem m + spray_relayed (ss_dst s) outs = L /\ 1 <= sm_rem m + (if L =? 0 then 1 else 0).
Proof. exact spray_accounting. Qed.
Print Assumptions C18_accounting.

(* Give-back, one forwarding pass (any bundle, also a received one, in any state satisfying the
   structural invariant [sinv] that every reachable state has - C18_reachable): the copies taken
   by the selection minus the ones whose transmission failed are exactly the successful ones. *)
Theorem C18_giveback : forall c s ch s' outs m,
  sc_algo c = SprayVanilla -> sinv s -> ss_meta s = Some m ->
  spray_attempt c s ch = Some (s', outs) ->
  exists m', ss_meta s' = Some m'
    /\ sm_rem m' + spray_relayed (ss_dst s) outs = sm_rem m
    /\ (forall x, In x (sm_sent m') <-> In x (sm_sent m) \/ In x (relay_nodes (ss_dst s) outs))
    /\ nlen (sm_sent m') = nlen (sm_sent m) + spray_relayed (ss_dst s) outs.
Proof. exact vanilla_attempt_giveback. Qed.
Print Assumptions C18_giveback.

Theorem C18_reachable : forall c h s outs,
  spray_run c spray_init h = Some (s, outs) -> hist_wf h = true -> sinv s.
Proof. exact reachable_sinv. Qed.
Print Assumptions C18_reachable.

(* Several failures reported at once: ReportFailure of two concurrent callers as sub-steps
   (lock, read, modify+write, unlock), all schedules.  Whenever both are through, the metadata is
   what the two reports give one after the other - in both orders, which coincide. *)
Theorem C18_giveback_concurrent : forall a b1 b2 x y m sched,
  NoDup (sm_sent m) -> (x <> y \/ b1 = b2) ->
  let fA := spray_report_failure a b1 x in
  let fB := spray_report_failure a b2 y in
  let s := rf_run true fA fB (rf_init (Some m)) sched in
  rf_finished s = true ->
  rs_shared s = Some (fB (fA m)) /\ rs_shared s = Some (fA (fB m)).
Proof. exact rf_locked_deterministic. Qed.
Print Assumptions C18_giveback_concurrent.

(* a single report undoes exactly what the selection of that peer did *)
Theorem C18_giveback_single : forall g x r sent, ~ In x sent -> g <= r ->
  spray_rf_write g x {| sm_rem := r - g; sm_sent := sent ++ [x] |} = {| sm_rem := r; sm_sent := sent |}.
Proof. exact rf_write_undoes_selection. Qed.
Print Assumptions C18_giveback_single.

(* ---- binary spray ---- *)

(* One forwarding pass from any state with the structural invariant: either nothing goes to a
   non-destination peer and the count is unchanged (in particular after a failed direct delivery),
   or exactly one bundle goes to one non-destination peer, the sender held r >= 2 copies, the
   bundle announces floor(r/2), and on success the sender keeps r - floor(r/2) (announced + kept
   = held before), on failure count and sent list are exactly as before. *)
Theorem C18_binary : forall c s ch s' outs m,
  sc_algo c = SprayBinary -> sinv s -> ss_meta s = Some m ->
  spray_attempt c s ch = Some (s', outs) ->
  exists m', ss_meta s' = Some m' /\
    ( ((forall o, In o outs -> sn_direct o = true /\ sn_node o = ss_dst s) /\ m' = m)
      \/ (exists o, outs = [o] /\ sn_direct o = false /\ sn_node o <> ss_dst s
            /\ 2 <= sm_rem m
            /\ sn_blk o = Some (sm_rem m / 2)
            /\ (sn_ok o = true -> sm_rem m' = sm_rem m - sm_rem m / 2 /\ sm_rem m' + sm_rem m / 2 = sm_rem m
                                  /\ sm_sent m' = sm_sent m ++ [sn_node o])
            /\ (sn_ok o = false -> m' = m)) ).
Proof. exact binary_attempt_spec. Qed.
Print Assumptions C18_binary.

(* a node holding a single copy (or none) only ever transmits to the destination itself *)
Theorem C18_binary_single_copy : forall c s ch s' outs m,
  sc_algo c = SprayBinary -> sinv s -> ss_meta s = Some m -> sm_rem m < 2 ->
  spray_attempt c s ch = Some (s', outs) ->
  forall o, In o outs -> sn_node o = ss_dst s.
Proof.
  intros c s ch s' outs m Hb Hi Hm Hr H o Ho.
  destruct (binary_attempt_spec c s ch s' outs m Hb Hi Hm H) as [m' [_ [[Hd _] | [o' (_ & _ & _ & H2 & _)]]]].
  - exact (proj2 (Hd o Ho)).
  - exfalso. apply (N.lt_irrefl 2). eapply N.le_lt_trans; eassumption.
Qed.
Print Assumptions C18_binary_single_copy.

(* over every history: copies kept + copies handed over successfully = copies the bundle started
   with (the announced value of a received bundle, L for a bundle without the block) *)
Theorem C18_binary_conservation : forall L h s outs m,
  spray_run (bconf L) spray_init h = Some (s, outs) -> hist_wf h = true -> ss_meta s = Some m ->
  sm_rem m + bspray_handed (ss_dst s) outs = spray_initial L s.
Proof. exact bspray_conservation. Qed.
Print Assumptions C18_binary_conservation.

(* ---- the periodic metadata garbage collection running concurrently with an event ----
   GarbageCollect holds the metadata write lock for its whole duration, so with respect to the
   metadata accesses of submit / forward / failure reports it is atomic; for one bundle the run is
   the event preceded or followed by SeGC ([spray_step_gc], Model/Spray.v).  That is a history: all
   theorems above (budget, accounting, give-back, conservation) hold for histories in which any
   event overlaps a collection.  And while the store knows the bundle the collection is invisible:
   no metadata update of the event is lost.  (That the implementation serialises the collection in
   this way is what generator C18sprayconc checks on the real code.) *)
Theorem C18_gc_overlap_serial : forall b c s e ch,
  spray_step_gc b c s e ch
  = spray_run c s (if b then [(SeGC, []); (e, ch)] else [(e, ch); (SeGC, [])]).
Proof. exact step_gc_is_history. Qed.
Print Assumptions C18_gc_overlap_serial.

Theorem C18_gc_overlap_transparent : forall b c s e ch s' o,
  ss_stored s = true -> spray_step c s e ch = Some (s', o) -> ss_stored s' = true ->
  spray_step_gc b c s e ch = Some (s', o).
Proof. exact step_gc_transparent. Qed.
Print Assumptions C18_gc_overlap_transparent.

(* ---- non-vacuity ---- *)

(* the lock is needed: with the original discipline (read under RLock, write under Lock) the
   schedule read-read-write-write loses one of two give-backs *)
Example C18_lost_update_without_lock :
  let m := {| sm_rem := 1; sm_sent := [2; 3] |} in
  let fA := spray_report_failure SprayVanilla None 2 in
  let fB := spray_report_failure SprayVanilla None 3 in
  let s := rf_run false fA fB (rf_init (Some m)) [false; true; false; true; false; true; false; true] in
  rf_finished s = true /\ rs_shared s = Some {| sm_rem := 2; sm_sent := [2] |}
  /\ fB (fA m) = {| sm_rem := 3; sm_sent := [] |}.
Proof. exact rf_unlocked_loses_update. Qed.

(* the same schedule under the lock finishes later but with both copies back *)
Example C18_locked_schedule_finishes : forall fA fB m0,
  rf_finished (rf_run true fA fB (rf_init m0) [false; true; false; true; false; false; true; false; true; true; true; true]) = true.
Proof. exact rf_locked_can_finish. Qed.

(* L = 3, destination node 1 never appears: two relays are served, the third is refused; a failed
   relay gets nothing counted and its copy comes back *)
Example C18_example_budget :
  let h := [ (SeCreate true 1 None None, []);
             (SePeerUp 10 2 true, [10]);             (* fails: copy back *)
             (SePeerUp 11 3 false, [10; 11]);        (* the failing link is tried again, fails again *)
             (SePeerUp 12 4 false, [12]);            (* one copy left to give: Go's map order picked 12, not 10 *)
             (SePeerUp 13 5 false, []);              (* wait phase: nobody *)
             (SeSetFail 10 false, []); (SeTick, []) ] in
  match spray_run (vconf 3) spray_init h with
  | Some (s, outs) => spray_relayed 1 outs = 2 /\ ss_meta s = Some {| sm_rem := 1; sm_sent := [3; 4] |}
                      /\ hist_originated h = true
  | None => False
  end.
Proof. vm_compute. repeat split. Qed.

(* the model refuses an observation in which a third relay is served with L = 3 *)
Example C18_example_guard :
  spray_run (vconf 3) spray_init
    [ (SeCreate true 1 None None, []); (SePeerUp 11 3 false, [11]); (SePeerUp 12 4 false, [12]); (SePeerUp 13 5 false, [13]) ] = None.
Proof. vm_compute. reflexivity. Qed.

(* binary, L = 8: failed send to node 2 restores 8; then 4 to node 2, 2 to node 3, 1 to node 4, then wait *)
Example C18_example_binary :
  let h := [ (SePeerUp 10 2 true, []); (SeCreate true 1 None None, [10]); (SeSetFail 10 false, []); (SeTick, [10]);
             (SePeerUp 11 3 false, [11]); (SePeerUp 12 4 false, [12]); (SePeerUp 13 5 false, []) ] in
  match spray_run (bconf 8) spray_init h with
  | Some (s, outs) => map sn_blk outs = [Some 4; Some 4; Some 2; Some 1] /\ map sn_ok outs = [false; true; true; true]
                      /\ ss_meta s = Some {| sm_rem := 1; sm_sent := [2; 3; 4] |} /\ bspray_handed 1 outs = 7
                      /\ hist_wf h = true
  | None => False
  end.
Proof. vm_compute. repeat split. Qed.

(* a copy handed out while a collection runs stays counted (L = 2: the second relay is refused) *)
Example C18_example_gc_overlap :
  match spray_run (vconf 2) spray_init [ (SeCreate true 7 None None, []) ] with
  | Some (s, _) =>
    match spray_step_gc true (vconf 2) s (SePeerUp 10 1 false) [10] with
    | Some (s1, o1) => ss_meta s1 = Some {| sm_rem := 1; sm_sent := [1] |} /\ spray_relayed 7 o1 = 1
                       /\ spray_step_gc false (vconf 2) s1 (SePeerUp 11 2 false) [11] = None
                       /\ exists s2, spray_step_gc false (vconf 2) s1 (SePeerUp 11 2 false) [] = Some (s2, [])
    | None => False
    end
  | None => False
  end.
Proof. vm_compute. repeat split. eexists. reflexivity. Qed.
