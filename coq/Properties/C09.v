(* C09 - fragmentation respects the size limit and is exactly invertible.
   Only theorem statements closed by [exact <lemma>], Print Assumptions, non-vacuity examples.

   The model (Model/Frag.v) is Bundle.Fragment / ReassembleFragments of pkg/bpv7/fragmentation.go AFTER
   three repairs (fix: commits in the dtn7-go tree): the loop body runs at least once (an empty payload
   no longer yields an empty list), a bundle whose serialisation fits is returned as itself before the
   fragment overhead is estimated, and blocks are appended with their own numbers in their own order
   instead of being renumbered by AddExtensionBlock.  The code before the repairs is kept executable
   (fg_fragment_orig); the examples at the end exhibit each defect on it.

   Vocabulary (Proofs/FragProofs.v):
     bundle_wf b          the ranges Go's types / cboring can hold (BundleWf.v);
     check_valid now b    Bundle.CheckValid at time now;
     bundle_bytes b       the serialisation of b (= enc_bundle b for well-formed b, BundleProofs.v);
     fragment_ok now mtu b pl f   f serialises to at most mtu bytes, is well-formed, passes CheckValid,
                          has the fragment flag and b's source / timestamp / destination / report-to /
                          lifetime / CRC type, and carries the total length of b's payload
                          (b's own total if b is itself a fragment);
     fg_partition o d fs  the payloads of fs are consecutive NON-EMPTY slices of d whose concatenation is d,
                          the offsets start at o and each is the previous offset + previous length
                          (no gap, no overlap, in order);
     fg_placed b pl fs    the first fragment's blocks are ALL extension blocks of b, unchanged and in order,
                          then the payload block; every other fragment's blocks are exactly the
                          replicate-flagged extension blocks, unchanged and in order, then the payload block
                          (payload blocks keep number, flags and CRC type of b's payload block pl). *)
From Coq Require Import Permutation.
From DTN Require Import Base Cbor Crc Eid Bundle BundleWf BundleProofs Reasm Frag FragProofs ConstsOkFrag.
Open Scope N_scope.

(* Fragmenting a (well-formed, valid) bundle for a maximum size fails with an error or returns
   - the bundle itself, which then serialises to at most mtu bytes, or
   - two or more bundles, each serialising to at most mtu bytes and each a valid fragment of b, whose
     offsets partition the payload and whose blocks are placed as the property demands.
   The size bound is an inequality proof over the CBOR width function (hl_mono), not a sweep. *)
Theorem C09_sound : forall now b mtu fs,
  bundle_wf b = true -> check_valid now b = true ->
  fg_fragment now b mtu = FOk fs ->
  (fs = [b] /\ nlen (bundle_bytes b) <= mtu)
  \/ exists pl, find_type 1 (b_blocks b) = Some pl /\ c_val pl = XPayload (fg_data pl)
       /\ (2 <= length fs)%nat
       /\ Forall (fragment_ok now mtu b pl) fs
       /\ (fg_base b + nlen (fg_data pl) <= fg_u64 -> fg_partition (fg_base b) (fg_data pl) fs)
       /\ fg_placed b pl fs.
Proof. exact fragment_sound. Qed.
Print Assumptions C09_sound.

(* the third outcome of the model's result type (loop fuel exhausted) never occurs: error or list *)
Theorem C09_error_or_list : forall now b mtu, fg_fragment now b mtu <> FFuel.
Proof. exact fragment_no_fuel. Qed.
Print Assumptions C09_error_or_list.

(* never an empty list *)
Theorem C09_nonempty : forall now b mtu fs,
  bundle_wf b = true -> check_valid now b = true -> fg_fragment now b mtu = FOk fs -> fs <> [].
Proof. exact fragment_nonempty. Qed.
Print Assumptions C09_nonempty.

(* every returned bundle parses back from its own serialisation to itself *)
Theorem C09_fragments_parse : forall now b mtu fs,
  bundle_wf b = true -> check_valid now b = true -> fg_fragment now b mtu = FOk fs ->
  Forall (fun f => forall r, dec_bundle now (bundle_bytes f ++ r) = Some (f, r)) fs.
Proof. exact fragment_parse. Qed.
Print Assumptions C09_fragments_parse.

(* A bundle that already fits - whatever its payload, also the empty one - is returned as itself
   (no validity hypothesis).  Go tests the must-not-fragment flag first: such a bundle is refused
   even when it fits, hence the hypothesis. *)
Theorem C09_fits : forall now b mtu,
  bundle_wf b = true -> has (p_flags (b_pri b)) F_NOFRAG = false -> nlen (bundle_bytes b) <= mtu ->
  fg_fragment now b mtu = FOk [b].
Proof. exact fragment_fits. Qed.
Print Assumptions C09_fits.

Theorem C09_must_not_fragment : forall now b mtu,
  has (p_flags (b_pri b)) F_NOFRAG = true -> fg_fragment now b mtu = FErr.
Proof. exact fragment_nofrag. Qed.
Print Assumptions C09_must_not_fragment.

(* Reassembling the fragments in ANY order yields the original bundle itself, hence a bundle that
   serialises byte-identically.  (b is not itself a fragment: reassembly produces whole bundles.) *)
Theorem C09_invertible : forall now b mtu fs,
  bundle_wf b = true -> check_valid now b = true -> has (p_flags (b_pri b)) F_FRAG = false ->
  fg_fragment now b mtu = FOk fs ->
  fs = [b] \/ forall pi, Permutation pi fs -> fg_reassemble now pi = ROk b.
Proof. exact fragment_invertible. Qed.
Print Assumptions C09_invertible.

Theorem C09_invertible_bytes : forall now b mtu fs,
  bundle_wf b = true -> check_valid now b = true -> has (p_flags (b_pri b)) F_FRAG = false ->
  fg_fragment now b mtu = FOk fs ->
  fs = [b] \/ forall pi, Permutation pi fs ->
                exists b', fg_reassemble now pi = ROk b' /\ bundle_bytes b' = bundle_bytes b.
Proof. exact fragment_invertible_bytes. Qed.
Print Assumptions C09_invertible_bytes.

(* the width of a CBOR head is monotone in its argument - the fact the size bound rests on *)
Theorem C09_head_width_monotone : forall m m' n n', n <= n' -> nlen (head_bytes m n) <= nlen (head_bytes m' n').
Proof. exact head_len_mono. Qed.
Print Assumptions C09_head_width_monotone.

(* ---- non-vacuity ------------------------------------------------------------------------------ *)
Definition c09_pri : primary :=
  {| p_flags := 0; p_crc := 2; p_dst := Dtn [100] []; p_src := Dtn [115] []; p_rpt := Dtn [115] [];
     p_time := 1000; p_seq := 0; p_life := 3600000; p_off := 0; p_total := 0 |}.
Definition c09_data : list N :=
  [10;11;12;13;14;15;16;17;18;19;20;21;22;23;24;25;26;27;28;29;30;31;32;33;34;35;36;37;38;39].
(* extension blocks numbered 3 (replicated) and 7 - not the numbers AddExtensionBlock would assign *)
Definition c09_b (d : list N) : bundle :=
  {| b_pri := c09_pri;
     b_blocks := [ {| c_num := 3; c_flags := 1; c_crc := 0; c_val := XAge 0 |};
                   {| c_num := 7; c_flags := 0; c_crc := 1; c_val := XHop 32 1 |};
                   {| c_num := 1; c_flags := 0; c_crc := 2; c_val := XPayload d |} ] |}.
Definition c09_view (r : fres) : option (list (N * N * list N)) :=
  match r with
  | FOk fs => Some (map (fun f => (nlen (bundle_bytes f), p_off (b_pri f), map c_num (b_blocks f))) fs)
  | _ => None
  end.

Example C09_ex_hyps : bundle_wf (c09_b c09_data) = true /\ check_valid 2000 (c09_b c09_data) = true
                      /\ nlen (bundle_bytes (c09_b c09_data)) = 104.
Proof. vm_compute. repeat split; reflexivity. Qed.

(* 104 bytes at mtu 90: three fragments (size, offset, block numbers), each within the limit;
   at mtu 83 the per-fragment overhead no longer fits: error; at 104 the bundle itself *)
Example C09_ex_fragments :
  c09_view (fg_fragment 2000 (c09_b c09_data) 90) = Some [(82, 0, [3; 7; 1]); (84, 6, [3; 1]); (67, 27, [3; 1])]
  /\ fg_fragment 2000 (c09_b c09_data) 83 = FErr
  /\ fg_fragment 2000 (c09_b c09_data) 104 = FOk [c09_b c09_data]
  /\ fg_fragment 2000 (c09_b []) 200 = FOk [c09_b []]
  /\ fg_fragment 2000 (c09_b []) 60 = FErr.
Proof. vm_compute. repeat split; reflexivity. Qed.

Example C09_ex_reassemble : forall fs, fg_fragment 2000 (c09_b c09_data) 90 = FOk fs ->
  fg_reassemble 2000 (rev fs) = ROk (c09_b c09_data).
Proof. intros fs H. vm_compute in H. injection H as <-. vm_compute. reflexivity. Qed.

(* the code before the repairs: (a) empty payload => empty list; (b) the 104-byte bundle is split for
   mtu 105 although it fits; (c) the blocks numbered 3 and 7 come back as 2 and 3 in the first fragment
   and the replicated block as 2 in the second (renumbered by AddExtensionBlock), so the fragments are not
   fragments of the original bundle and reassembly cannot give it back *)
Example C09_ex_unfixed :
  fg_fragment_orig 2000 (c09_b []) 200 = FOk []
  /\ c09_view (fg_fragment_orig 2000 (c09_b c09_data) 105) = Some [(97, 0, [2; 3; 1]); (72, 21, [2; 1])]
  /\ nlen (bundle_bytes (c09_b c09_data)) <= 105.
Proof. vm_compute. repeat split; try reflexivity. discriminate. Qed.
