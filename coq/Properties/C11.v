(* C11 - TCPCLv4 transfers deliver the exact bundle, and success means delivered.
   Only theorem statements closed by [exact <lemma>] and Print Assumptions.
   The model (Model/Tcpcl.v) is the code after the repairs "fix: tcpclv4: ..." in the dtn7-go tree
   (END by look-ahead, zero MTU rejected, segment buffer capped). *)
From DTN Require Import Base Tcpcl TcpclProofs ConstsOkTcpcl.
Open Scope N_scope.

(* Sender: for every bundle encoding [bs] of at least one byte and every negotiated segment size
   [m] of at least one byte, every XFER_SEGMENT carries the transfer id, between 1 and m bytes (and
   never more than the sender's own cap), the concatenation of the segment data is [bs], START is
   on exactly the first and END on exactly the last segment. *)
Theorem C11_segments : forall bs m tid,
  bs <> [] -> 1 <= m ->
  let ss := segments bs m tid in
  Forall (fun s => sg_tid s = tid /\ 1 <= nlen (sg_data s) <= N.min m tc_max_segment /\ nlen (sg_data s) <= m) ss
  /\ concat (map sg_data ss) = bs
  /\ start_only_first ss
  /\ end_only_last ss.
Proof. exact tcpcl_segments. Qed.
Print Assumptions C11_segments.

(* the divisor case, explicit: when the segment size divides the length, all L/m segments are
   full and the last one - although it fills the buffer exactly - carries END *)
Theorem C11_segments_divisor : forall bs m tid q,
  1 <= m -> m <= tc_max_segment -> nlen bs = N.of_nat (S q) * m ->
  let ss := segments bs m tid in
  length ss = S q /\ Forall (fun s => nlen (sg_data s) = m) ss /\ end_only_last ss.
Proof. exact tcpcl_segments_divisor. Qed.
Print Assumptions C11_segments_divisor.

(* Receiver (TransferManager.handle): for any interleaving [tr] of the segment sequences of
   transfers with pairwise distinct ids (any bundles, any segment sizes), exactly one bundle per
   transfer is handed up, equal to the one sent, and nothing else is handed up. *)
Theorem C11_receiver : forall xs tr,
  NoDup (map x_tid xs) -> Forall xfer_ok xs -> MergeAll (map xfer_segs xs) tr ->
  (forall x, In x xs -> filter (dl_tid (x_tid x)) (rx_delivered tr) = [(x_tid x, x_bs x)])
  /\ (forall d, In d (rx_delivered tr) -> exists x, In x xs /\ d = (x_tid x, x_bs x)).
Proof. exact tcpcl_receiver. Qed.
Print Assumptions C11_receiver.

(* Send: for every accepted history of the Send state machine (any order of emitter steps,
   acknowledgements, refusals, close, timeout) in which the acknowledgements are ones an honest
   receiver of this transfer produces: if Send returns success then the acknowledged length is the
   full length, every segment including the END one was emitted, the acknowledgement that
   completed it is the one answering the last segment, and the receiver fed with what was emitted
   has handed up exactly the bundle. *)
Theorem C11_success_sound : forall bs m tid evs st outs,
  bs <> [] -> 1 <= m ->
  send_run (send_init bs m tid) evs = Some (st, outs) ->
  forallb (honest_event (segments bs m tid)) evs = true ->
  ss_result st = Some SrOk ->
  ss_inlen st = nlen bs
  /\ outs = segments bs m tid
  /\ (exists k, nth_error (rx_ack_lens (segments bs m tid)) k = Some (ss_inlen st)
                /\ S k = length (segments bs m tid))
  /\ rx_delivered outs = [(tid, bs)].
Proof. exact tcpcl_success_sound. Qed.
Print Assumptions C11_success_sound.

(* ... and an error otherwise: a refusal, a timeout (missing acknowledgement) or an error of the
   emitter (session closed) ends Send with that error, whatever else happens; and while Send has
   not returned the timeout can always fire (Send cannot block for ever). *)
Theorem C11_failure_reported : forall bs m tid evs st outs,
  send_run (send_init bs m tid) evs = Some (st, outs) ->
  (In SeRefuse evs -> ss_result st = Some SrRefused)
  /\ (In SeTimeout evs -> ss_result st = Some SrTimeout)
  /\ (In SeRecvErr evs -> exists r, ss_result st = Some r /\ r <> SrOk)
  /\ (ss_result st = None -> exists st', send_step st SeTimeout = Some (st', []) /\ ss_result st' = Some SrTimeout).
Proof. exact tcpcl_failure_reported. Qed.
Print Assumptions C11_failure_reported.

Theorem C11_close_reported : forall st st' o,
  ss_running st = true -> ss_stop st = false -> ss_tmstop st = true ->
  send_step st SeStep = Some (st', o) -> o = [] /\ ss_errchan st' = Some SrStopped /\ ss_running st' = false.
Proof. exact tcpcl_close_stops. Qed.
Print Assumptions C11_close_reported.

(* Session level, sender: a Client whose peer announced Segment MRU [peer] >= 1 in SESS_INIT (the
   Client itself announced [own]) sends the bundles [bss] by any number of possibly concurrent
   Send calls. The transfer ids are pairwise distinct, and for every interleaving [tr] of the
   transfers' XFER_SEGMENTs the peer-side checker holds: per transfer id the segments are at most
   [peer] bytes, concatenate to the bundle's encoding, START exactly on the first and END exactly
   on the last, and no segment belongs to anything else. *)
Theorem C11_session_sender : forall own peer next bss tr,
  1 <= peer -> Forall (fun bs => bs <> []) bss ->
  MergeAll (tcc_session_segs own peer next bss) tr ->
  NoDup (tcc_alloc_n next (length bss))
  /\ tcc_chk_trace peer (tcc_session_xfers next bss) tr = true.
Proof. exact tcc_session_sender_full. Qed.
Print Assumptions C11_session_sender.

(* Session level, receiver (Client.handle on top of the TransferManager): for any interleaving of
   transfers with pairwise distinct ids there are exactly as many ReceivedBundle reports as
   transfers, every bundle sent is reported and nothing else is. *)
Theorem C11_session_reports : forall xs tr,
  NoDup (map x_tid xs) -> Forall xfer_ok xs -> MergeAll (map xfer_segs xs) tr ->
  length (tcc_reports tr) = length xs
  /\ (forall x, In x xs -> In (x_bs x) (tcc_reports tr))
  /\ (forall b, In b (tcc_reports tr) -> exists x, In x xs /\ b = x_bs x).
Proof. exact tcc_reports_exact. Qed.
Print Assumptions C11_session_reports.

(* non-vacuity *)
Example C11_example_divisor :
  segments [10; 11; 12; 13; 14; 15] 3 7 = [mkSeg 2 7 [10; 11; 12]; mkSeg 1 7 [13; 14; 15]]
  /\ segments [10; 11; 12; 13; 14; 15] 4 7 = [mkSeg 2 7 [10; 11; 12; 13]; mkSeg 1 7 [14; 15]]
  /\ segments [10; 11] 9 7 = [mkSeg 3 7 [10; 11]].
Proof. vm_compute. repeat split; reflexivity. Qed.
Example C11_example_interleaved :
  rx_delivered [mkSeg 2 1 [1; 2]; mkSeg 2 5 [9]; mkSeg 1 1 [3]; mkSeg 1 5 [8; 7]] = [(1, [1; 2; 3]); (5, [9; 8; 7])]
  /\ MergeAll [segments [1; 2; 3] 2 1; segments [9; 8; 7] 1 5]
       [mkSeg 2 1 [1; 2]; mkSeg 2 5 [9]; mkSeg 1 1 [3]; mkSeg 0 5 [8]; mkSeg 1 5 [7]].
Proof.
  split; [vm_compute; reflexivity|].
  change (segments [1; 2; 3] 2 1) with [mkSeg 2 1 [1; 2]; mkSeg 1 1 [3]].
  change (segments [9; 8; 7] 1 5) with [mkSeg 2 5 [9]; mkSeg 0 5 [8]; mkSeg 1 5 [7]].
  eapply ma_cons; [eapply ma_cons; [apply ma_nil|]|]; repeat constructor.
Qed.
Example C11_example_session : tcc_alloc_n 0 3 = [0; 1; 2]
  /\ tcc_chk_trace 2 (tcc_session_xfers 0 [[1; 2; 3]; [9; 8]]) [mkSeg 2 0 [1; 2]; mkSeg 3 1 [9; 8]; mkSeg 1 0 [3]] = true
  /\ tcc_chk_trace 2 (tcc_session_xfers 0 [[1; 2; 3]; [9; 8]]) [mkSeg 3 0 [1; 2; 3]; mkSeg 3 1 [9; 8]] = false
  /\ tcc_chk_trace 2 [(0, [1; 2; 3]); (0, [9; 8])] [mkSeg 3 0 [1; 2; 3]; mkSeg 3 0 [9; 8]] = false
  /\ tcc_reports [mkSeg 2 0 [1; 2]; mkSeg 3 1 [9; 8]; mkSeg 1 0 [3]] = [[9; 8]; [1; 2; 3]].
Proof. exact tcc_session_example. Qed.
Example C11_example_send :
  let evs := [SeStep; SeAck 2; SeStep; SeAck 4; SeStep; SeRecvLen] in
  forallb (honest_event (segments [1; 2; 3; 4] 2 0)) evs = true
  /\ option_map (fun r => (ss_result (fst r), snd r)) (send_run (send_init [1; 2; 3; 4] 2 0) evs)
     = Some (Some SrOk, [mkSeg 2 0 [1; 2]; mkSeg 1 0 [3; 4]]).
Proof. exact tcpcl_send_ok_example. Qed.
