(* C16 - the CLA manager reports an adapter active exactly while it is started.
   Only theorem statements closed by [exact <lemma>] and Print Assumptions.

   Model: Model/ClaMgr.v (pkg/cla manager.go + manager_elem.go as repaired by the fix commit
   "cla: a failing start must not count an element's ttl below zero").
   [cm_run cfg tr] is the state after the event / oracle sequence [tr] (any length) over
   {ERegister, EUnregister, ERestart, ETick, EPeerGone, EClose}; the oracle of a step gives the
   outcome {SOk, SFailRetry, SFailNo} of a Start call per adapter.  [cfg_ads] is any list of
   adapters (address, permanent?, role, endpoint ids - addresses may coincide), [cfg_ttl] any
   retry budget >= 0 (the production value 10 is tied by ConstsOkClaMgr.cm_default_ttl_nonneg).
   [st_log] records every Start / Close call made on the adapters, [cm_started log id] is
   "the most recent Start of id succeeded and no Close of id followed". *)
From DTN Require Import Base ClaMgr ClaMgrProofs SpecClaMgr ConstsOkClaMgr.
Open Scope Z_scope.

(* In every reachable state - all event sequences, all oracles, any adapters, any budget >= 0 -
   Sender() lists exactly the started adapters that are senders, Receiver() exactly the started
   receivers; so an adapter is listed iff its last Start succeeded and it was not closed since. *)
Theorem C16_active_iff_started : forall cfg tr id, 0 <= cfg_ttl cfg ->
  let st := cm_run cfg tr in
  (In id (cm_senders cfg st) <-> cm_started (st_log st) id = true /\ cm_is_sender (cm_ad cfg id) = true)
  /\ (In id (cm_receivers cfg st) <-> cm_started (st_log st) id = true /\ cm_is_receiver (cm_ad cfg id) = true)
  /\ (In id (cm_senders cfg st) \/ In id (cm_receivers cfg st) <-> cm_started (st_log st) id = true).
Proof. exact active_iff_started. Qed.
Print Assumptions C16_active_iff_started.

(* Retry, permanent adapter: from any reachable state in which it waits (registered, not active),
   every retry pass whose Start fails with retry=true calls Start exactly once and leaves it
   waiting - for any number of passes; a pass whose Start succeeds makes it started. *)
Theorem C16_retry_permanent : forall cfg tr id os, 0 <= cfg_ttl cfg ->
  ad_perm (cm_ad cfg id) = true ->
  let st := cm_run cfg tr in
  cm_waiting st id = true ->
  Forall (fun o => cm_orc o id = SFailRetry) os ->
  let st' := cm_run_from cfg st (cm_ticks os) in
  cm_waiting st' id = true /\ start_count st' id = (start_count st id + length os)%nat.
Proof. exact retry_permanent. Qed.
Print Assumptions C16_retry_permanent.

Theorem C16_retry_permanent_recovers : forall cfg tr id o, 0 <= cfg_ttl cfg ->
  ad_perm (cm_ad cfg id) = true ->
  let st := cm_run cfg tr in
  cm_waiting st id = true -> cm_orc o id = SOk ->
  cm_started (st_log (cm_step cfg st ETick o)) id = true.
Proof. exact retry_permanent_ok. Qed.
Print Assumptions C16_retry_permanent_recovers.

(* Retry, non-permanent adapter with budget n = cfg_ttl: from any reachable state, over any number
   of consecutive retry passes in which its Start never succeeds, Start is called at most n times,
   and after more than n passes it no longer waits: it is forgotten (absent from the registry)
   unless it is running.  (What the code does exactly: with budget n the Register call and the
   following passes make n failing starts in total, the next pass removes the element without a
   further Start; budget 0 = Register does not even call Start - see the examples.) *)
Theorem C16_retry : forall cfg tr id os, 0 <= cfg_ttl cfg ->
  ad_perm (cm_ad cfg id) = false ->
  let st := cm_run cfg tr in
  Forall (fun o => cm_orc o id <> SOk) os ->
  let st' := cm_run_from cfg st (cm_ticks os) in
  (start_count st' id <= start_count st id + Z.to_nat (cfg_ttl cfg))%nat
  /\ ((Z.to_nat (cfg_ttl cfg) < length os)%nat ->
      cm_waiting st' id = false
      /\ (cm_started (st_log st') id = false -> cm_in_registry st' id = false)).
Proof. exact retry_nonpermanent. Qed.
Print Assumptions C16_retry.

(* One element per address, at most one started instance per address, and registering (any
   instance of) an address that has a started instance changes nothing and calls nothing. *)
Theorem C16_single_instance : forall cfg tr, 0 <= cfg_ttl cfg ->
  let st := cm_run cfg tr in
  NoDup (map fst (st_reg st))
  /\ (forall id1 id2, cm_started (st_log st) id1 = true -> cm_started (st_log st) id2 = true ->
        ad_addr (cm_ad cfg id1) = ad_addr (cm_ad cfg id2) -> id1 = id2)
  /\ (forall id id' o, cm_started (st_log st) id' = true ->
        ad_addr (cm_ad cfg id') = ad_addr (cm_ad cfg id) ->
        cm_step cfg st (ERegister id) o = st).
Proof. exact single_instance. Qed.
Print Assumptions C16_single_instance.

(* Closing the manager (first Close) after any history: no panic, and the calls it makes are
   exactly one Close per started adapter, none for the others, no Start; afterwards nothing is
   started or listed. *)
Theorem C16_close_once : forall cfg tr o, 0 <= cfg_ttl cfg -> cm_nclose tr = 0%nat ->
  let st := cm_run cfg tr in
  let st' := cm_step cfg st EClose o in
  st_panic st' = false /\ st_closed st' = true
  /\ (exists cs, st_log st' = st_log st ++ cs
        /\ (forall id, cm_count (cm_is_close_of id) cs = if cm_started (st_log st) id then 1%nat else 0%nat)
        /\ (forall id, cm_count (cm_is_start_of id) cs = 0%nat))
  /\ (forall id, cm_started (st_log st') id = false)
  /\ cm_senders cfg st' = [] /\ cm_receivers cfg st' = [].
Proof. exact close_once. Qed.
Print Assumptions C16_close_once.

(* The panic state (close of a nil / already closed stop channel in deactivate, i.e. stopping an
   adapter that is not running or stopping it twice) is unreachable in every history that calls
   Manager.Close at most once.  (A second Manager.Close panics in Go - close of the closed stopSyn
   channel - and in the model; io.Closer leaves a second Close undefined.) *)
Theorem C16_no_panic : forall cfg tr, 0 <= cfg_ttl cfg -> (cm_nclose tr <= 1)%nat ->
  st_panic (cm_run cfg tr) = false.
Proof. exact no_panic. Qed.
Print Assumptions C16_no_panic.

(* Closing the manager while PeerDisappeared messages are still queued in its handler goroutine:
   whichever of them the handler still takes before the stop flag is set ([pre]: full Restart, any
   Start outcomes), whichever after it ([post]: the Restart's Register returns at once, so only the
   Unregister half happens) and whichever are dropped - i.e. under every schedule of Close()
   against the handler - there is no panic (no adapter is stopped twice or without having been
   started), and afterwards the registry is empty and nothing is started or listed.  That Close()
   also *returns* under these schedules is checked on the implementation (C16clamgrconc), not
   proved: the model has no blocking operations. *)
Theorem C16_close_concurrent : forall cfg tr pre post, 0 <= cfg_ttl cfg -> cm_nclose tr = 0%nat ->
  let st' := cm_conc_close cfg (cm_run cfg tr) pre post in
  st_panic st' = false /\ st_closed st' = true /\ st_reg st' = []
  /\ (forall id, cm_started (st_log st') id = false)
  /\ cm_senders cfg st' = [] /\ cm_receivers cfg st' = [].
Proof. exact close_concurrent. Qed.
Print Assumptions C16_close_concurrent.

(* ---------------- non-vacuity ---------------- *)
(* cm_ex_perm: budget 1, one permanent sender+receiver; cm_ex_nonperm n: budget n, one non-permanent
   sender; cm_fr: the oracle "Start fails, retry" (Model/ClaMgr.v) *)

(* the history that made the unrepaired code list a never-started permanent adapter and panic in
   Close: budget 1, Register fails, two retry passes fail, Close *)
Example C16_ex_permanent_failing :
  let st := cm_run cm_ex_perm [(ERegister 0%nat, cm_fr); (ETick, cm_fr); (ETick, cm_fr); (ETick, cm_fr)] in
  cm_senders cm_ex_perm st = [] /\ cm_waiting st 0%nat = true /\ start_count st 0%nat = 4%nat
  /\ st_panic (cm_step cm_ex_perm st EClose []) = false
  /\ st_log (cm_step cm_ex_perm st EClose []) = st_log st.
Proof. vm_compute. repeat split; reflexivity. Qed.

Example C16_ex_permanent_recovers :
  let st := cm_run cm_ex_perm [(ERegister 0%nat, cm_fr); (ETick, cm_fr); (ETick, [SOk])] in
  cm_senders cm_ex_perm st = [0%nat] /\ cm_receivers cm_ex_perm st = [0%nat]
  /\ st_log (cm_step cm_ex_perm st EClose []) = st_log st ++ [CClose 0%nat].
Proof. vm_compute. repeat split; reflexivity. Qed.

(* non-permanent, budget 2: two failing starts (Register + one pass), the third pass forgets it *)
Example C16_ex_budget2 :
  let st := cm_run (cm_ex_nonperm 2) [(ERegister 0%nat, cm_fr); (ETick, cm_fr); (ETick, cm_fr); (ETick, cm_fr)] in
  start_count st 0%nat = 2%nat /\ cm_in_registry st 0%nat = false
  /\ cm_in_registry (cm_run (cm_ex_nonperm 2) [(ERegister 0%nat, cm_fr); (ETick, cm_fr)]) 0%nat = true.
Proof. vm_compute. repeat split; reflexivity. Qed.

(* budget 0: a non-permanent adapter is not even started by Register *)
Example C16_ex_budget0 :
  st_log (cm_run (cm_ex_nonperm 0) [(ERegister 0%nat, [SOk])]) = [].
Proof. vm_compute. reflexivity. Qed.

(* peer loss restarts the adapter; a second instance on the same address is ignored *)
Example C16_ex_peer_gone_and_twice :
  let cfg := mkCfg 3 [mkAd 7%N false RSender 1%N 2%N; mkAd 7%N false RSender 1%N 2%N] in
  let st := cm_run cfg [(ERegister 0%nat, [SOk; SOk]); (ERegister 1%nat, [SOk; SOk]); (EPeerGone 0%nat, [SOk; SOk])] in
  st_log st = [CStart 0%nat SOk; CClose 0%nat; CStart 0%nat SOk] /\ cm_senders cfg st = [0%nat].
Proof. vm_compute. repeat split; reflexivity. Qed.

(* the hypothesis of C16_no_panic is needed: a second Manager.Close panics *)
Example C16_ex_second_close :
  st_panic (cm_run cm_ex_perm [(EClose, []); (EClose, [])]) = true.
Proof. vm_compute. reflexivity. Qed.

(* Close() against two queued peer-loss messages: the first is still handled as a restart, the
   second after the stop flag was set (the adapter is only stopped); nothing is stopped twice *)
Example C16_ex_close_concurrent :
  let cfg := mkCfg 3 [mkAd 7%N false RSender 1%N 2%N; mkAd 8%N true RReceiver 3%N 4%N] in
  let st := cm_run cfg [(ERegister 0%nat, [SOk; SOk]); (ERegister 1%nat, [SOk; SOk])] in
  st_log (cm_conc_close cfg st [(0%nat, [SOk; SOk])] [1%nat])
  = [CStart 0%nat SOk; CStart 1%nat SOk; CClose 0%nat; CStart 0%nat SOk; CClose 1%nat; CClose 0%nat].
Proof. vm_compute. reflexivity. Qed.
