module goconsts

go 1.21
