// goconsts: translator of Go constants and literal "shapes" of selected functions into Coq.
//
// usage: goconsts <repo-root> <funcs.txt> > Consts.v
//
// For every non-test package under <repo-root>/pkg it type-checks the package with an importer
// that knows nothing (errors are swallowed), so every constant whose value depends only on
// literals, iota and other constants of the same package is evaluated by go/types exactly as the
// compiler does.  Integer constants become  Definition <pkgpath>__<Name> : Z := <value>.
// String constants become  Definition <pkgpath>__<Name> : list Z := <bytes>.
//
// For every function named in funcs.txt (lines "<pkgdir> <FuncOrRecv.Method>") the integer,
// string-free literal sequence of its body and the sequence of binary/unary operator tokens is
// emitted, so that magic numbers that are not declared constants ("% 16", "& 0x1F", "<< 3") are
// tied to the model as well:  Definition <pkgpath>__<Func>__lits : list Z := [...]
// and  Definition <pkgpath>__<Func>__ops : list Z := [...] (token codes of go/token).
//
// Only the standard library is used.
package main

import (
	"bufio"
	"fmt"
	"go/ast"
	"go/constant"
	"go/parser"
	"go/token"
	"go/types"
	"os"
	"path/filepath"
	"sort"
	"strings"
)

type nullImporter struct{}

func (nullImporter) Import(path string) (*types.Package, error) {
	// an empty, complete package: every selector on it fails to resolve (error swallowed)
	name := path
	if i := strings.LastIndex(path, "/"); i >= 0 {
		name = path[i+1:]
	}
	p := types.NewPackage(path, name)
	p.MarkComplete()
	return p, nil
}

func ident(s string) string {
	r := strings.NewReplacer("/", "_", ".", "_", "-", "_")
	return r.Replace(s)
}

func main() {
	if len(os.Args) < 3 {
		fmt.Fprintln(os.Stderr, "usage: goconsts <repo-root> <funcs.txt>")
		os.Exit(2)
	}
	root := os.Args[1]
	wanted := map[string]map[string]bool{} // pkgdir -> func name
	if f, err := os.Open(os.Args[2]); err == nil {
		sc := bufio.NewScanner(f)
		for sc.Scan() {
			line := strings.TrimSpace(sc.Text())
			if line == "" || strings.HasPrefix(line, "#") {
				continue
			}
			fs := strings.Fields(line)
			if len(fs) != 2 {
				continue
			}
			if wanted[fs[0]] == nil {
				wanted[fs[0]] = map[string]bool{}
			}
			wanted[fs[0]][fs[1]] = true
		}
		f.Close()
	} else {
		fmt.Fprintln(os.Stderr, "goconsts:", err)
		os.Exit(2)
	}

	var dirs []string
	filepath.Walk(filepath.Join(root, "pkg"), func(p string, info os.FileInfo, err error) error {
		if err == nil && info.IsDir() {
			dirs = append(dirs, p)
		}
		return nil
	})
	sort.Strings(dirs)

	var out []string
	found := map[string]bool{}
	for _, dir := range dirs {
		rel, _ := filepath.Rel(root, dir)
		fset := token.NewFileSet()
		pkgs, err := parser.ParseDir(fset, dir, func(fi os.FileInfo) bool {
			return !strings.HasSuffix(fi.Name(), "_test.go")
		}, 0)
		if err != nil {
			fmt.Fprintf(os.Stderr, "goconsts: parse %s: %v\n", dir, err)
			os.Exit(1)
		}
		var names []string
		for n := range pkgs {
			names = append(names, n)
		}
		sort.Strings(names)
		for _, pn := range names {
			pkg := pkgs[pn]
			var files []*ast.File
			var fnames []string
			for fn := range pkg.Files {
				fnames = append(fnames, fn)
			}
			sort.Strings(fnames)
			for _, fn := range fnames {
				f := pkg.Files[fn]
				// skip files guarded by a build tag line that excludes the default build and
				// verif-only files (hooks are not part of the modelled code)
				skip := false
				for _, cg := range f.Comments {
					for _, c := range cg.List {
						if strings.HasPrefix(c.Text, "//go:build") && strings.Contains(c.Text, "verif") && !strings.Contains(c.Text, "!verif") {
							skip = true
						}
					}
				}
				if !skip {
					files = append(files, f)
				}
			}
			conf := types.Config{Importer: nullImporter{}, Error: func(error) {}, FakeImportC: true}
			info := &types.Info{Defs: map[*ast.Ident]types.Object{}}
			conf.Check(rel, fset, files, info)
			type kv struct {
				name string
				line string
			}
			var cs []kv
			for id, obj := range info.Defs {
				c, ok := obj.(*types.Const)
				if !ok || c.Parent() != c.Pkg().Scope() {
					continue
				}
				v := c.Val()
				switch v.Kind() {
				case constant.Int:
					cs = append(cs, kv{id.Name, fmt.Sprintf("Definition %s__%s : Z := (%s)%%Z.", ident(rel), id.Name, v.ExactString())})
				case constant.String:
					s := constant.StringVal(v)
					var bs []string
					for i := 0; i < len(s); i++ {
						bs = append(bs, fmt.Sprintf("%d", s[i]))
					}
					cs = append(cs, kv{id.Name, fmt.Sprintf("Definition %s__%s : list Z := [%s]%%Z.", ident(rel), id.Name, strings.Join(bs, "; "))})
				}
			}
			sort.Slice(cs, func(i, j int) bool { return cs[i].name < cs[j].name })
			for _, c := range cs {
				out = append(out, c.line)
			}
			// function literal shapes
			w := wanted[rel]
			if w == nil {
				continue
			}
			for _, f := range files {
				for _, d := range f.Decls {
					fd, ok := d.(*ast.FuncDecl)
					if !ok || fd.Body == nil {
						continue
					}
					name := fd.Name.Name
					if fd.Recv != nil && len(fd.Recv.List) == 1 {
						t := fd.Recv.List[0].Type
						if st, ok := t.(*ast.StarExpr); ok {
							t = st.X
						}
						if id, ok := t.(*ast.Ident); ok {
							name = id.Name + "." + name
						}
					}
					if !w[name] {
						continue
					}
					found[rel+" "+name] = true
					var lits, ops []string
					ast.Inspect(fd.Body, func(n ast.Node) bool {
						switch x := n.(type) {
						case *ast.BasicLit:
							if x.Kind == token.INT || x.Kind == token.CHAR {
								v := constant.MakeFromLiteral(x.Value, x.Kind, 0)
								lits = append(lits, "("+v.ExactString()+")")
							}
						case *ast.BinaryExpr:
							ops = append(ops, fmt.Sprintf("%d", int(x.Op)))
						case *ast.UnaryExpr:
							ops = append(ops, fmt.Sprintf("%d", 1000+int(x.Op)))
						case *ast.IncDecStmt:
							ops = append(ops, fmt.Sprintf("%d", 2000+int(x.Tok)))
						case *ast.AssignStmt:
							if x.Tok != token.ASSIGN && x.Tok != token.DEFINE {
								ops = append(ops, fmt.Sprintf("%d", 3000+int(x.Tok)))
							}
						}
						return true
					})
					out = append(out, fmt.Sprintf("Definition %s__%s__lits : list Z := [%s]%%Z.", ident(rel), ident(name), strings.Join(lits, "; ")))
					out = append(out, fmt.Sprintf("Definition %s__%s__ops : list Z := [%s]%%Z.", ident(rel), ident(name), strings.Join(ops, "; ")))
				}
			}
		}
	}
	// functions asked for but absent: emit a marker so ConstsOk fails loudly (name no longer bound)
	var missing []string
	for d, m := range wanted {
		for n := range m {
			if !found[d+" "+n] {
				missing = append(missing, d+" "+n)
			}
		}
	}
	sort.Strings(missing)
	fmt.Println("(* GENERATED by tools/goconsts from /repo - do not edit *)")
	fmt.Println("From Coq Require Import ZArith List.")
	fmt.Println("Import ListNotations.")
	for _, l := range out {
		fmt.Println(l)
	}
	for _, m := range missing {
		fmt.Printf("(* MISSING function: %s *)\n", m)
	}
}
