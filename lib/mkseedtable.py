#!/usr/bin/env python3
"""Rewrite the table of DESIGN.md section 10 from seeded/*/meta.json (between the markers)."""
import json, os, re, glob
V = os.path.dirname(os.path.dirname(os.path.abspath(__file__)))
rows = []
def key(d):
    m = re.match(r"(C\d+)-(r\d-)?(\d+)", d)
    return (m.group(1), int(m.group(2)[1]) if m.group(2) else 0, int(m.group(3)))
dirs = sorted([os.path.basename(p) for p in glob.glob(os.path.join(V, "seeded", "C*"))], key=key)
for d in dirs:
    m = json.load(open(os.path.join(V, "seeded", d, "meta.json")))
    files = ", ".join(os.path.basename(f) for f in m.get("files_touched", []))
    summ = " ".join(str(m.get("summary", "")).split())
    if len(summ) > 170: summ = summ[:167] + "..."
    summ = summ.replace("|", "/")
    out = " ".join(str(m.get("outcome", "")).split()).replace("|", "/")
    fin = " ".join(str(m.get("regression_final", "")).split()).replace("|", "/")
    rows.append("| %s | %s | %s | %s | %s |" % (d, files, summ, out, fin))
tbl = "| change | files | summary | outcome (`./check <id>`; first run and what was added) | final regression run of all changes against the final checks |\n|---|---|---|---|---|\n" + "\n".join(rows) + "\n"
p = os.path.join(V, "DESIGN.md")
s = open(p).read()
a, b = "<!-- seedtable:begin -->\n", "<!-- seedtable:end -->\n"
i, j = s.index(a) + len(a), s.index(b)
s = s[:i] + tbl + s[j:]
open(p, "w").write(s)
print(len(rows), "rows")
