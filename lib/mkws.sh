#!/bin/sh
# mkws.sh <name>: scratch workspace for a builder: copy of /verif + own worktree of /repo
set -e
N="$1"; B=/tmp/bld/$N
rm -rf "$B"; mkdir -p "$B"
rsync -a --exclude .git --exclude bin --exclude work --exclude replays /verif/ "$B/verif/"
git -C /repo worktree add --detach "$B/repo" HEAD >/dev/null 2>&1
echo "$B"
