#!/bin/sh
# integrate.sh <name>: copy a builder's new/changed package files into /verif (never shared files)
# and list the commits of its repo worktree on top of the base.
N="$1"; B=/tmp/bld/$N
cd "$B/verif" || exit 1
rsync -av --exclude .git --exclude bin --exclude work --exclude replays --exclude evidence --exclude '*.vo' --exclude '*.vos' --exclude '*.vok' --exclude '*.glob' --exclude '*.aux' --exclude '.lia.cache' \
  --exclude 'coq/Makefile*' --exclude 'coq/.Makefile.d' --exclude coq/_CoqProject --exclude coq/gen --exclude coq/Extract/Extract.v --exclude coq/Extract/Deps.v \
  --exclude 'ocaml/model.ml*' --exclude 'ocaml/*.cm*' --exclude 'ocaml/*.o' --exclude harness/go.mod --exclude harness/go.sum --exclude tools/goconsts/funcs.txt \
  --exclude check --exclude setup.sh --exclude 'lib/*.py' --exclude 'lib/*.sh' --exclude 'lib/*.md' --exclude ocaml/driver.ml --exclude ocaml/conv.ml --exclude ocaml/sexp.ml --exclude ocaml/verdict.ml --exclude ocaml/build.sh \
  --exclude harness/main.go --exclude harness/corelib.go --exclude harness/sexp.go --exclude harness/rng.go --exclude coq/Model/Base.v --exclude coq/Model/Spec.v \
  --exclude DESIGN.md --exclude BUILDING.md --exclude MANIFEST.json --exclude MANIFEST.hooks --exclude KNOWN_FINDINGS.txt --exclude properties.jsonl --exclude .gitignore --exclude .lock --exclude '__pycache__' \
  --ignore-existing $DRY ./ /verif/ | grep -v '/$' | head -60
echo "--- files that exist in both and differ (not copied):"
for f in $(git -C /verif ls-files); do [ -f "$B/verif/$f" ] && ! cmp -s "$B/verif/$f" "/verif/$f" && echo "  $f"; done
echo "--- commits in $B/repo:"
git -C "$B/repo" log --oneline a496424..HEAD 2>/dev/null || git -C "$B/repo" log --oneline | head
