#!/bin/bash
# seedverify.sh <outdir> : confirm a seeded change ourselves in a scratch worktree:
# builds, touched packages' tests pass, the demo fails with the change and passes without it.
D="$1"
export GOFLAGS=-mod=mod GOPROXY=off GOSUMDB=off GOTOOLCHAIN=local
W=/tmp/sv_$$
git -C /repo worktree add --detach $W HEAD >/dev/null 2>&1 || exit 2
trap 'git -C /repo worktree remove --force $W >/dev/null 2>&1' EXIT
cd $W
pkgname=$(grep -m1 '^package ' "$D/demo_test.go" | awk '{print $2}')
dirs=$(python3 -c "
import json,os,sys
m=json.load(open('$D/meta.json'))
ds=sorted(set(os.path.dirname(f) for f in m.get('files_touched',[])))
print(' '.join(ds))")
demodir=""
for d in $dirs; do if grep -qs "^package $pkgname\$" $d/*.go; then demodir=$d; fi; done
if [ -z "$demodir" ]; then demodir=$(grep -rl --include=*.go "^package $pkgname\$" pkg | head -1 | xargs dirname); fi
cp "$D/demo_test.go" "$demodir/zz_demo_test.go"
demo=$(grep -o 'func Test[A-Za-z0-9_]*' "$D/demo_test.go" | awk '{print $2}' | paste -sd'|')
echo "demo in $demodir: $demo"
echo -n "clean tree, demo: "; go test -vet=off -count=1 -run "^($demo)\$" ./$demodir/ 2>&1 | grep -E "^(ok|FAIL|---)" | head -3 | tr '\n' ' '; echo
git apply "$D/patch.diff" || { echo "PATCH DOES NOT APPLY"; exit 1; }
echo -n "with change, build: "; go build ./... && echo ok
rm "$demodir/zz_demo_test.go"
for d in $dirs; do echo -n "with change, tests ./$d: "; go test -vet=off -count=1 ./$d/ 2>&1 | grep -E "^(ok|FAIL)" | tr '\n' ' '; echo; done
cp "$D/demo_test.go" "$demodir/zz_demo_test.go"
echo -n "with change, demo: "; go test -vet=off -count=1 -run "^($demo)\$" ./$demodir/ 2>&1 | grep -E "^(ok|FAIL|---)" | head -3 | tr '\n' ' '; echo
