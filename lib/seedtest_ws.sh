#!/bin/sh
# seedtest_ws.sh <ws> <patch.diff> <prop> [<prop> ...]: like seedtest.sh, but in a private workspace
# made by lib/mkws.sh (so that /repo and /verif stay untouched, e.g. while a thorough run is going on).
WS="$1"; P="$2"; shift; shift
R=/tmp/bld/$WS/repo; V=/tmp/bld/$WS/verif
export VERIF_REPO=$R GOFLAGS=-mod=mod GOPROXY=off GOSUMDB=off GOTOOLCHAIN=local CGO_ENABLED=0
cd $R || exit 2
if [ -n "$(git status --porcelain)" ]; then echo "$R not clean"; exit 2; fi
git apply "$P" || { echo "patch does not apply"; exit 2; }
for id in "$@"; do
  (cd $V && ./check "$id" 2>&1 | grep -E "VIOLATION|KNOWN-FINDING|BROKEN|quick:" | sed "s#$V/##" | cut -c1-260)
done
git checkout -- . ; git clean -fdq
[ -z "$(git status --porcelain)" ] && echo "repo restored"
