P = {
    "gens": [],
    "theorems": ["C12_mtcp_bundles"],
    "rule": "C12 composed with C01: the MTCP server loop of Model/Mtcp.v parsing with Model/Bundle.v dec_bundle",
    "assumptions": [],
    "trusted_base": [],
}
