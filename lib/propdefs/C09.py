P = {
    "gens": ["C09frag"],
    "theorems": ["C09_sound", "C09_error_or_list", "C09_nonempty", "C09_fragments_parse", "C09_fits",
                 "C09_must_not_fragment", "C09_invertible", "C09_invertible_bytes", "C09_head_width_monotone"],
    "rule": "real bundles from randBundle (every block mix with single-entry maps, CRC types 0/1/2 per block, dtn/ipn/none "
            "endpoints, block numbers 2.. and sparse/large ones, sorted and shuffled block order, input that is itself a "
            "fragment, must-not-fragment inputs) with payload 0..70000 x maximum sizes: 0, 1, size-1, size, size+1, the smallest "
            "accepted size -1..+3, 23/24/255/256/65535/65536 and sizes at which a fragment's payload head changes width; small "
            "payloads (0..40) x every maximum size 0..size+8 (thorough; sampled around the two thresholds in quick); bundles with "
            "22..30 extension blocks (two-byte block numbers); each case: Bundle.Fragment, then ReassembleFragments in the "
            "reversed and three random orders; distinct = distinct case bodies",
    "assumptions": [],
    "trusted_base": [
        "the bundle codec model (Bundle.v, C01-C03) supplies every serialised length Fragment computes; the harness compares "
        "the model's bytes of the input and of every fragment with the implementation's",
        "mtu is a non-negative int; int/uint64 wrap-around of offsets is modelled only for the fragment offset of an input "
        "that is itself a fragment (the theorems assume base + payload length <= 2^64)",
        "CheckValid's lifetime test reads the wall clock: `now` is an input of the model; the harness brackets each call and "
        "generated lifetimes are hours away from the bracket",
        "sort.Slice in ReassembleFragments is not stable: fragments of one Fragment call have distinct offsets, for which the "
        "sorted order is unique (sorted_perm_unique); the model sorts by insertion",
        "map-valued blocks with more than one entry are excluded (unspecified byte order), as the property says",
    ],
    "level_text": "Machine-checked for every well-formed valid bundle and every maximum size: Fragment returns an error, the "
                  "bundle itself (then within the limit), or >= 2 bundles that each serialise to at most the limit (inequality "
                  "proof over the CBOR head-width function, monotone in its argument), are well-formed, pass CheckValid and parse "
                  "back to themselves, carry b's identity fields and total length, partition the payload in order without gap or "
                  "overlap, with all extension blocks unchanged in the first fragment and exactly the replicated ones in the "
                  "others; a bundle that fits (incl. empty payload) comes back as itself; must-not-fragment is refused; the loop "
                  "fuel is never exhausted; reassembling any permutation of the fragments yields the original bundle itself. "
                  "The Gallina model is run against the Go code on generated bundles x sizes (fragment count, each fragment's "
                  "structure and bytes, reassembly bytes); the property's own checker judges the implementation's output "
                  "independently of the model.",
    "level_note": "Model = the code after three fix: commits (empty payload => [] ; fitting bundle split/refused ; blocks "
                  "renumbered by AddExtensionBlock). C09_fits assumes the must-not-fragment flag is clear: Go refuses such a "
                  "bundle even when it fits. C09_invertible is for inputs that are not themselves fragments. Proof is about the "
                  "model; the tie to Go is the differential check and the operator-shape lemmas of ConstsOkFrag.",
    "timeout_quick": 600,
    "timeout_thorough": 3000,
}
