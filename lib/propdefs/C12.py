P = {
    "gens": ["C12bbc", "C12mtcp"],
    "theorems": [
        "C12_bbc_train", "C12_bbc_safety", "C12_bbc_safety_shape", "C12_bbc_detect",
        "C12_bbc_trailing_loss_refuted", "C12_bbc_dup_redelivered_refuted",
        "C12_mtcp_head_roundtrip", "C12_mtcp_stream", "C12_mtcp_stream_codec", "C12_mtcp_cut", "C12_mtcp_error",
    ],
    "rule": "BBC: real bundles x MTU 3..64 (+65,100,251,255,256,1000) fragment trains via NewOutgoingTransmission/WriteFragment and "
            "Connector.Send through a scripted modem; for each train every single drop, duplication and adjacent swap (exhaustive), "
            "whole-train replay, bursts of 15/16/17/32 lost fragments, random multi-fault patterns on 1..3 interleaved transmissions, "
            "peer failure fragments; every step's failure fragments / failed ids / delivered bundles / open transmissions compared with "
            "the model. MTCP: real MTCPClient on a recorded, scriptable connection piped into the real MTCPServer loop; bundles of encoded "
            "size around 255/256, 4093 (bufio), 8189, 65535/65536; keep-alive bytes at every frame boundary, the client's real 5 s ticker "
            "once, cuts at every write of a Send at several byte offsets, sends on a broken connection, one loopback-TCP connection; "
            "reuse = ONE client object over 2..4 connections (Close + Start again as cla.Manager.Restart does) after a Send cut at every "
            "write / byte offset, a transient write failure or a bundle that cannot be serialised (also: the next Send on the same "
            "connection): every connection judged on its own, every Send that returned nil delivered exactly its bundle, every write of "
            "a Send belongs to the frame of its bundle. BBC sendpend = Connector.Send while failure reports are pending (queued before "
            "the Send or injected while Send waits in the middle of a > 64 fragment train; ids: own, the previous Send's, foreign; 1..64 "
            "reports): without an own report the train on the link is complete (sequence numbers, marks, reassembly), with one Send "
            "errors and the train is not completed. "
            "distinct = distinct case bodies (input + observation)",
    "assumptions": [
        "BBC: the xz codec and the bundle CBOR codec are outside the model (Transmission.Bundle() enters as the oracle `decodes`); "
        "safety is proved for every oracle",
        "BBC locality hypothesis: between two consecutively received fragments of one transmission fewer than 16 are missing / "
        "displaced (the 4-bit sequence counter cannot see a whole turn)",
        "MTCP: bundles are opaque non-empty byte strings shorter than 2^64; C12_mtcp_stream_codec assumes the bundle codec's prefix "
        "property (C01); a failed conn.Write is taken from an oracle (TCP's own behaviour on a broken connection is not modelled)",
        "MTCP: keep-alives are written under the client's mutex, i.e. only at frame boundaries (Go's sync.Mutex trusted)",
    ],
    "trusted_base": [
        "github.com/ulikunitz/xz, github.com/dtn7/cboring (byte-string head checked differentially), bufio.Writer's 4096-byte buffering "
        "(modelled in mtcp_send_chunks, checked differentially), net.Pipe as the transport of the harness",
        "hooks pkg/cla/bbc/verif_export.go, pkg/cla/mtcp/verif_export_mtcp.go (VerifStartWithConn repeats Start without the dial)",
    ],
    "level_text": "Machine-checked theorems over an executable Gallina model of the BBC fragment/transmission/connector code and of the MTCP "
                  "client stream, server loop and failing Send; the extracted model is run step by step against the real Connector / "
                  "MTCPClient / MTCPServer on generated fault patterns.",
    "level_note": "partial: TCP's behaviour on a broken connection and xz are not modelled; mutex atomicity of keep-alives is assumed. "
                  "Two protocol limits are proved as *_refuted witnesses and reported as known findings "
                  "(bbc.fault.trailing-incomplete, bbc.dup.complete-train-redelivered).",
    "timeout_quick": 600,
    "timeout_thorough": 6000,
}
