P = {
    "gens": ["C03flips", "C03state", "C02rules"],
    "theorems": ["C03_check_values", "C03_accept_implies_crc_canonical", "C03_accept_implies_crc_primary",
                 "C03_encode_writes_crc", "C03_burst_rejected", "C03_value_corruption_rejected"],
    "rule": "C03flips: bundles with a CRC (16 or 32, per block) on every block; every single-bit flip of the whole encoding "
            "(exhaustive per bundle) through the real parser and the model; burst mutations (1-4 consecutive bytes xored; bit "
            "windows of 2..32 bits in LSB-first order) judged by an independent CBOR item delimiter + span comparison in the "
            "driver (claim only when the block boundaries are intact and the burst lies inside one block); C02rules adds wrong/"
            "short/long CRC values, unknown types, missing fields, non-minimal heads. "
            "C03state (serialiser / parser not in their initial state, not alone): ser = serialisation (WriteBundle, MarshalCbor, "
            "block by block) into writers failing at every (quick: every 2nd) offset, 1-3 failures in a row, each run followed by a "
            "serialisation into a healthy writer whose every block must carry the CRC the model computes over the independently "
            "delimited block bytes, be accepted by parser and model and equal the output produced before any failure; conc = 8 (12) "
            "goroutines x 1500 (6000) iterations x 3 (12) rounds serialising their own bundle (payloads up to 16 KiB) and parsing intact "
            "and damaged encodings of common bundles: every output equals the one produced alone, intact encodings are never rejected, "
            "damaged ones (rejected alone and by the model) never accepted",
    "assumptions": ["see C01"],
    "trusted_base": ["howeyc/crc16 (CCITT table, Checksum complementing in/out) and hash/crc32 Castagnoli are compared with the "
                     "bit-serial definition on every parsed block, not translated"],
    "level_text": "Generic burst theorem for reflected CRCs of any width (backwards induction on the zero-input step), instantiated "
                  "for X-25 and CRC-32C; acceptance of a block implies the CRC equation over exactly its received bytes; the "
                  "serialiser satisfies it; hence same-boundary corruptions by short bursts in the covered bytes, in the value, "
                  "or straddling both are rejected.",
    "level_note": "C03_straddle_rejected (Proofs/CrcStraddle.v) covers every non-zero burst of at most 16 / 32 bits anywhere in a "
                  "block - inside the covered bytes, inside the big-endian CRC value, or across both - in the bit order of the "
                  "transmitted stream (LSB first within a byte), by linearity of the CRC register and an exhaustive sweep over "
                  "the 2^7 / 2^23 data-tail patterns closed by vm_compute. 'Block boundaries intact' is the premise that the "
                  "CRC field's head byte is unchanged; C03_straddle_head_needed shows by a witness that it cannot be dropped.",
}
