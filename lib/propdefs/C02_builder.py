P = {
    "gens": ["C02builder"],
    "theorems": ["C02_builder_valid", "C02_builder_wellformed", "C02_builder_accepted"],
    "rule": "C02builder: 1500 (thorough 30000) random call sequences on the real BundleBuilder (all public methods, valid and "
            "invalid arguments of every accepted Go type, Build interleaved and the builder used further afterwards) replayed "
            "on the model Builder.v: every Build result must be the same error / the same bundle (structure dump); the "
            "property's own checker demands that every returned bundle passes the rule set, serialises, is accepted by the "
            "model decoder, and is unchanged when looked at again after the rest of the sequence",
    "assumptions": [],
    "trusted_base": [
        "Builder.v models the builder after fix 91d3e5a (the returned bundle owns its blocks); argument parsing (endpoint "
        "strings, duration strings) arrives parsed: the harness states the expected parse result itself for durations and "
        "uses NewEndpointID for endpoint strings (covered by C17)",
        "BuildFromMap (map iteration order is unspecified) is not modelled; its outputs are judged by C02produce",
    ],
}
