P = {
    "gens": ["C04bundle", "C04tcpclmru", "C01parse", "C04late"],
    "theorems": ["C04_bundle_terminates_blocks", "C04_bundle_terminates_pairs", "C04_bundle_progress",
                 "C04_raw_alloc_bounded", "C04_raw_alloc_covered", "C04_sender_mru"],
    "rule": "C04bundle: valid bundles (incl. administrative records with status reports) with every CBOR head - found by a "
            "structural walk, also inside block byte strings - overwritten by each of {0,1,23,24,2^16,2^31-1,2^31,2^32-1,2^62,"
            "2^63,2^64-1} (a third of them in quick), truncation at (sampled) every offset, 20 byte-level mutants per bundle; "
            "each input decoded (ParseBundle + AdministrativeRecord) in a CHILD process with a 6 GiB address-space limit and "
            "20 s per input; observables: ok/err/panic/died/timeout and the TotalAlloc delta, which must stay below "
            "64*len + 4 MiB; accept/reject compared with the model. C04tcpclmru: NextSegment with peer MRUs over the boundary "
            "values in child processes. C01parse: mutants through the parser in-process (panic = failure). "
            "Multiplicative-overflow probes (harness/c04probes.go) at every length / count position of C04bundle (once per role of "
            "the head and group of 12 bundles), C04auxcbor, C04tcpclmsg (relative to the width of the field) and the MTCP frame "
            "head: floor(k*2^w/s)+1 for element sizes s = 2..8, k = 1..s-1, and floor(2^w/s)+1, floor(2^(w-1)/s)+1 for s = 9..64, "
            "128, 256 (C04bundle quick: s = 10,12,14,16,24,...,64,128,256). "
            "C04late (child process per scenario; observable: the process survives, result classes, TotalAlloc): mtcp = a real "
            "MTCPServer on loopback TCP, 1-3 established connections sending valid frames, keep-alives, frames with boundary / "
            "probe length heads, garbage, truncated frames AFTER MTCPServer.Close() returned, WHILE it runs, or with the handler "
            "blocked on handing up a bundle when the server is closed (and the same on a running server); firstuse = the first "
            "decoding in a fresh process done by 2..16 goroutines at once, each followed by the node's lifetime check / "
            "administrative-record extraction on the decoded value (12 processes in quick, 400 in thorough)",
    "assumptions": ["regexp, encoding/json, xz and websocket framing are library code: exercised, not modelled"],
    "trusted_base": ["runtime.MemStats.TotalAlloc as the measure of allocation"],
    "level_text": "Totality is by construction (Gallina); termination is shown not to be an artefact of fuel; the single "
                  "length-sized pre-allocation of cboring is bounded; the TCPCL sender is proved panic-free, progressing and "
                  "bounded for every peer MRU. Real memory and time are measured on the implementation in child processes.",
    "level_note": "partial: memory is bounded in the model only for the wire-length-sized allocation (ReadRawBytes) and measured "
                  "on the implementation otherwise; real-time hangs in library code cannot be exhibited by the model. The "
                  "decoders of the auxiliary formats (TCPCL messages, announcements, WebSocket-agent messages, status reports, "
                  "BBC, MTCP) are covered by their own packages' lemmas and generators as they are integrated.",
    "timeout_quick": 900,
}
