P = {
    "gens": ["C06forward"],
    "theorems": ["C06_faithful", "C06_age_fits", "C06_refuse", "C06_refuse_purged_first", "C06_refuse_purged_retry",
                 "C06_purged_stays", "C06_duplicate_ignored", "C06_item_stable", "C06_residence_since_reception",
                 "C06_duplicate_transparent", "C06_faithful_timed", "C06_refuse_timed"],
    "rule": "real routing.Core on a temp dir (cron stopped, nodes reused per algorithm) with scripted mock convergence senders that "
            "serialise inside Send; one case = one bundle accepted through the receive path + rounds {recv, retry (reception "
            "timestamp moved back through the hook VerifSetReceptionTime, then pending_bundles / peer appearance), clean, dup (the same "
            "bundle - an exact copy or one that took another path: other hop count / age / previous node - handed in again at the "
            "node's, the peer's or a third endpoint, 1-3 at a time, the stamp moved back once BEFORE the duplicate or real 30-60 ms "
            "sleeps; every retry after it keeps the stamp, so its residence counts from the FIRST reception)}; per round: "
            "clock bracket, residence bracket, every Send for the bundle (bytes parsed back, dumped, CheckValid, re-encoded primary), "
            "store membership and retention constraints afterwards. Streams: hop = the (limit,count) square (thorough: all 65536 "
            "points; quick: 3 diagonals, sampled border, 150 random) x first send / retry / stored-then-peer; mix = random crossing of "
            "{hop absent/present, age block, zero/non-zero creation time, previous node absent/present/this node/ipn, 0-3 unknown "
            "blocks with random flags, spray block, status-request flags, unsorted block numbers incl. 2^64-1} x {sent at once, 1-3 "
            "scripted failures then retries, stored without peer then peer appears, 3rd retry} x residence {0, 50 ms, 3 s, real 60 ms "
            "sleep} x algorithm {epidemic, spray, binary_spray, prophet, dtlsr} x direct delivery / algorithm's choice; dup = the random bundles of mix x {stored without a peer / peer refusing 1-2 times / ordinary retry first / "
            "transmitted at once (duplicate of a retained or of an already released bundle = new reception)} x duplicates before "
            "the first and between later transmissions; unk = one "
            "unknown block x all 16 flag combinations x first/retry/stored; age = clock-less (and clocked) bundles whose age + "
            "residence lies 0.3 s / 2 s / 100 s below or above the lifetime; exp = creation-time expiry before the reception, "
            "between reception and retry (120 ms real sleep), after the retry, each followed by clean_store. The expected outcome is "
            "computed at both ends of the clock and residence brackets; a round where they differ is skipped (tag band-skip). "
            "distinct = distinct case bodies (they contain real timestamps)",
    "assumptions": [
        "one handler at a time: the overlap of a cron-fired checkPendingBundles with the Core's handler goroutine, and of the "
        "per-peer send goroutines inside forward with each other, is not modelled (all peers get the same bytes)",
        "the accepted bundle is not a fragment held for reassembly (Store.Push merging parts / Parts[0] are C09/C10) and its "
        "destination is not a local endpoint (local delivery is C07)",
        "age + residence < 2^64 ms in C06_refuse's age clause (the uint64 age counter would wrap after 584 million years); "
        "C06_faithful states the sum modulo 2^64",
        "fewer than 2^32 canonical blocks (a fresh block number then fits uint64)",
        "wall clock monotone within a case (brackets are taken with time.Now around each round)",
    ],
    "trusted_base": [
        "hook pkg/routing/verif_export_forward.go: VerifSetReceptionTime rewrites the store item's bundlepack/timestamp property "
        "(what a retry reads as the reception time), VerifReceptionTime reads it; plus the shared Core hooks of verif_export.go",
        "the routing algorithm's choice of senders and its bookkeeping are oracles (copies written into the binary-spray block and "
        "whether the item survives are taken from the run and validated, not predicted); status reports triggered on the way are C15",
        "clean_store (Store.DeleteExpired) is modelled only for bundles with a non-zero creation time (clock-less ones: C05)",
        "sort.Sort in sortBlocks is modelled as the stable insertion sort (identical for < 12 blocks; for pairwise distinct block "
        "numbers, which CheckValid guarantees, the sorted order is unique whatever the algorithm)",
        "the extension-block registry holds the eight types of pkg/bpv7 (harness registers them), as in Model/Bundle.v known_type",
    ],
    "level_text": "Proof over the Gallina model of receive/forward for all accepted bundles, clocks, residence times, numbers of "
                  "retries, algorithm oracles and event orders: every transmitted copy re-parses as a valid bundle, has the same "
                  "primary block and payload, hop count + 1, age + residence, previous node = this node, all other blocks unchanged "
                  "except unsupported ones flagged for removal; hop-limit / lifetime violations are refused and purged. The model is "
                  "run against the real Core on every generated case (block-by-block comparison of the bytes serialised in Send).",
    "level_note": "Proof is about the model of the repaired code (4 fix: commits). The tie to Go is the differential check, bounded "
                  "by generator quality; goroutine overlap inside the Core is not modelled; a stored copy whose creation-time "
                  "lifetime has run out is not purged by forward but skipped (it no longer loads) and removed by the next "
                  "clean_store sweep - stated so in C06_refuse_purged_retry.",
    "timeout_quick": 600,
    "timeout_thorough": 7200,
}
