# DRAFT for the integrator: the AuxCbor part of C17 and C04 (CBOR-based auxiliary formats).
# Not loaded by lib/props.py (only lib/propdefs/C??.py are).  Merge "gens" / "theorems" / texts into
# lib/propdefs/C17.py and lib/propdefs/C04.py; the theorems live in coq/Properties/C17_auxcbor_draft.v
# and are to be moved (or re-exported by `exact`) into Properties/C17.v and Properties/C04.v, which must
# then Require AuxCbor AuxCborProofs EidUriProofs ConstsOkAuxCbor.
P_C17 = {
    "gens": ["C17auxcbor"],
    "theorems": [
        "C17_aux_roundtrip", "C17_aux_cts_roundtrip", "C17_aux_bid_roundtrip", "C17_aux_sitem_roundtrip",
        "C17_aux_sreport_roundtrip", "C17_aux_admrec_roundtrip", "C17_aux_ann_roundtrip", "C17_aux_anns_roundtrip",
        "C17_aux_wam_roundtrip", "C17_aux_stream",
        "C17_eid_uri", "C17_eid_uri_print_injective", "C17_eid_uri_canonical", "C17_eid_uri_accepted_shape",
        "C17_eid_uri_decimal", "C17_eid_uri_reject_examples",
        "C17_aux_reject_reason", "C17_aux_reject_reason_admrec", "C17_aux_reason_accepted_iff",
        "C17_aux_reject_admrec_type", "C17_aux_reject_wam_code", "C17_aux_reject_cla_type", "C17_aux_accepted_cla_type",
        "C17_aux_reject_item_layout", "C17_aux_reject_report_layout", "C17_aux_reject_sweeps",
        "C17_aux_unfixed_reason_refuted",
    ],
    "rule": "CBOR auxiliary formats (creation timestamp, endpoint ID, bundle ID, status item / report, administrative "
            "record, announcement(s), WebSocket-agent messages x 5 bodies): every field over {0,1,23,24,255,256,65535,65536,"
            "2^32-1,2^32,2^64-1}, strings of length {0,1,23,24,255,256,65535,65536}, all 256 values of every code / layout "
            "field written raw (+ boundary values, + non-minimal width), all reason codes and CLA types 0..255 through the real "
            "encoder, truncation at every offset, 60 (thorough 1200) streams of 1..8 mixed messages read back from one reader; "
            "endpoint URIs: ~230 hand-written grammar cases and near-misses, 121 ipn boundary pairs, 300 (6000) generated; "
            "distinct = distinct case bodies",
    "assumptions": [],
    "trusted_base": [
        "dtn7/cboring (ReadMajors / ReadRawBytes / strings) is modelled in Model/Cbor.v, not verified",
        "Go regexp (the three endpoint regular expressions are written out as recognisers in Model/Eid.v) and strconv.ParseUint",
        "Model/Eid.v judges the validity of a dtn structure on its fields; Go judges it on the printed URI "
        "(differs only for hand-built structures whose node name contains '/': not produced by any parser)",
    ],
    "level_text": "Round-trip with exact consumption for every CBOR auxiliary format and for streams of them (induction over the "
                  "message list), bijection between valid endpoint structures and canonical URI texts, rejection of invalid "
                  "code / layout fields, over the Gallina model; model run against the Go encoders / decoders on the cases above.",
    "level_note": "ipn:01.1 parses to the structure of ipn:1.1 (leading zeros are legal per RFC 6260): 'determine each other "
                  "uniquely' is the bijection with the canonical (printed) text. wf states the encoders' silent limits "
                  "(status item keeps its time only if asserted and requested; non-fragment bundle ID has no offset/length).",
}
P_C04 = {
    "gens": ["C04auxcbor"],
    "theorems": ["C04_aux_no_panic", "C04_aux_alloc_bounded", "C04_aux_same_decoders", "C04_aux_terminates",
                 "C04_aux_uri_total", "C04_aux_unfixed_refuted"],
    "rule": "each input decoded in a child process (RLIMIT_AS 6 GiB, 10 s watchdog), observable = ok/err/panic/oom/timeout class, "
            "decoded value, runtime.MemStats.TotalAlloc delta (must stay below the model's account + 64 KiB + 2 KiB per input byte): "
            "administrative record (2 layouts), announcements, WAM (4 bodies) with every count / length / code head set to "
            "{0,1,23,24,2^16,2^31-1,2^31,2^32-1,2^62,2^63,2^64-1}, truncation at every offset, 600 (20000) random mutations, "
            "item lists of 100/1000/20000 really present, strings around cboring's 1 MiB limit present and absent; ~760 endpoint "
            "URIs; BuildFromMap: 15 keys x 28 JSON values alone and on top of a valid request + 200 (5000) random maps "
            "(model-free: outcome class, and an accepted request yields a bundle that passes CheckValid)",
    "assumptions": [],
    "trusted_base": [
        "memory is accounted in the model for wire-sized allocations and measured on the implementation (TotalAlloc); "
        "constant per-call overheads of library code (regexp compilation per endpoint, reflection, error values) are covered "
        "by the slack 64 KiB + 2 KiB/byte",
        "the bundle inside a WebSocket-agent message is decoded by the bundle decoder (its account belongs to C04's bundle part)",
        "encoding/json, regexp, time.ParseDuration, encoding/binary: exercised, not modelled",
    ],
    "level_text": "No decoder of the package panics and its wire-sized allocations are <= 136 * |input| + 1 MiB, for all inputs, "
                  "over the Gallina model; the code as found is refuted (8-byte record / 5-byte packet => ~100 GiB, 12 / 9 bytes => panic).",
    "level_note": "partial: BuildFromMap is checked model-free; real-time hangs in library code cannot be exhibited by the model.",
}
# proposed KNOWN_FINDINGS lines (all four defects were small enough to fix):
#   fixed: property=C04 d28da3a StatusReport.UnmarshalCbor allocated the wire item count: 8-byte administrative record => out of memory, count >= 2^63 => panic
#   fixed: property=C04 f2cee18 UnmarshalAnnouncements allocated the wire count: 5-byte UDP packet => out of memory, count >= 2^63 => panic
#   fixed: property=C17 128170f status reports with unknown reason codes (> 11) were accepted
#   fixed: property=C04 419b198 BuildFromMap panicked (nil dereference in binary.Write) on "payload_block": null

P = P_C17
