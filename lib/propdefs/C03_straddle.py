P = {
    "gens": [],
    "theorems": ["C03_straddle_rejected", "C03_straddle_head_needed"],
    "rule": "",
    "assumptions": [],
    "trusted_base": [],
}
