P = {
    "gens": ["C05scf"],
    "theorems": ["C05_retained", "C05_retained_epidemic", "C05_direct", "C05_epidemic", "C05_restart",
                 "C05_restart_keeps_store", "C05_failure_race", "C05_failure_race_outcome",
                 "C05_failure_race_unlocked_refuted", "C05_alive_timestamped", "C05_alive_zero_time",
                 "C05_unsupported_block_refusal", "C05_unsupported_block_removal"],
    "rule": "a real routing.Core on a fresh store directory with scripted mock convergence senders (all sends of one "
            "forwarding attempt are released together) is driven through event histories over {submit, receive, receive "
            "again, peer up with an outcome script (ok / fail / fail-first / pseudo-random), peer down, pending tick, clean "
            "tick, orderly restart} for each of epidemic, spray, binary_spray, prophet, dtlsr, sensor-mule: the zero-time + "
            "sweep + restart history per algorithm; histories with 2-4 simultaneously failing peers (epidemic, prophet, "
            "sensor-mule); every history up to depth 2 over a 9-event alphabet per algorithm (same-millisecond submit, "
            "clock-less submit, receive, duplicate, two peers, both ticks, restart), epidemic up to depth 3 (quick: a third "
            "of the deepest level, rotating with the seed; thorough: depth 4 / 3); random histories of length 10..40 with "
            "same-millisecond groups, zero-time bundles, expired, hop-limited, unknown-block, foreign-source and locally "
            "addressed bundles, a third of the received ones with 1-4 blocks of prescribed position and flags; received "
            "bundles whose block array has every adjacent pair (unknown / known type x the 16 combinations of replicate, "
            "report, delete-bundle, remove-block, followed by unknown / known / payload x 16; quick: half of the pairs "
            "beginning with a known block), 24 per history with appearance of the destination, retry, restart (rule: "
            "refused for cause only when a block of an unknown type carries delete-bundle, otherwise stored and pending "
            "until sent); histories under schedule control (one at a time; mock senders hold the failure report of a "
            "failed send back between its read and its write until forward's closing store update has read the item - "
            "the report is then let go and the update waits for the report's write - or until the handler has returned, "
            "or for 50 ms when forward waits for its reports; schedule points of the forwarding goroutine from the "
            "Core's own log through a logrus hook): a report still held when forward is past its barrier / the handler "
            "returns has escaped the (atomic) handler = mismatch, the store at handler return is compared with the store "
            "after everything has run, the property is judged on the latter (failed peer still in the sent list, bundle "
            "not pending); histories with one failing part-file write (the directory of the part files is away for the "
            "n-th Push of the history); Core configurations: NewCore with and without inspectAllBundles (first event (conf k) of a history; "
            "the harness constructs the Core itself) x received bundles in transit that carry the administrative-record flag with "
            "nine payload kinds (status reports about an unknown bundle that this implementation reads, a status report with an "
            "unknown reason code, record types 3 and 4, no payload bytes, non-CBOR bytes, a record cut off after its type, a "
            "3-element array) for a far node / n1 / n4, relay connected before or after, retries, further peers, restart, the "
            "destinations, for every algorithm x both settings x both shapes, plus random histories under either setting in which "
            "half of the received in-transit bundles are such records (rule unchanged: the flag and the payload are no cause for "
            "refusal - stored, pending, kept under epidemic after a relay, offered to new peers, delivered on appearance); large "
            "backlogs: 100, 128, 129, 200, 256, 257 (quick: one size per algorithm, rotating with the seed, and one of 130..249 for "
            "epidemic; thorough: every size for every algorithm, 500 and 1000 for epidemic, spray, dtlsr) received bundles waiting at "
            "once, most for a node that never appears, a few anywhere in the order for n1 / n4, loaded with nobody or with one "
            "relay connected, then retry ticks, n1, new relays, restart, n4 (rules as always: transmitted to the destination when it "
            "appears (scf.direct.not-sent) and in every retry pass while it is connected (scf.direct.not-retried), offered to every new "
            "epidemic peer (scf.epidemic.not-offered), however many bundles wait; in a history with more than 48 bundles the record of "
            "a submit / receive lists the new bundle's status only, every other event lists all). After every event: per-peer send log, and known / pending / sent list of every bundle handed "
            "in. Each history is replayed through Model.scf_step (trace inclusion, store status compared) and judged by the "
            "property checker on the log alone. distinct = distinct case bodies",
    "assumptions": ["bundle IDs are distinct (a Submit whose ID is already stored is not a step of the model; the volatile "
                    "IdKeeper is C14's finding idkeeper.restart.epoch-seq0)",
                    "event handlers are atomic (the cron goroutine does not overlap the handler); only the failure reports of "
                    "one forwarding attempt are modelled as concurrent",
                    "orderly restart (process kill is C08)",
                    "storage faults are outside C05's quantifier; the single failing part-file write is a robustness "
                    "extension (the code survives it because every handler syncs the descriptor more than once)"],
    "trusted_base": ["the routing algorithms' selection is validated per attempt (direct peers / exactly the fresh peers for "
                     "epidemic / a duplicate-free subset of the connected peers otherwise), not predicted",
                     "routing metadata bundles the algorithms create themselves (prophet) are not tracked",
                     "clock: lifetimes are 24 h or long expired, a history runs for < 20 s (slower ones are dropped and counted)",
                     "pkg/storage/verif_export_scf.go sets badger's memtable size (store tuning only); the store "
                     "directory is on /dev/shm when available",
                     "harness/corelib.go mock convergence senders; pkg/routing/verif_export.go synchronous drivers; harness/scf.go scfOpen "
                     "(routing.NewCore with the inspectAllBundles flag, cron stopped) in place of corelib's Node.open",
                     "bundles flagged as administrative record are recognised in the send log and the store by their bundle ID "
                     "(their payload is the record), all others by the tag in their payload",
                     "harness/scf_sched.go: schedule points are recognised by the texts of the Core's log messages "
                     "(a changed text makes the scenario powerless, not alarming; the tags sched-* show what was reached); "
                     "the sender goroutine of a failed send is recognised by its goroutine id"],
    "level_text": "Retention, direct delivery on appearance, the epidemic offer and their survival of restarts are proved by "
                  "invariant over all histories, oracles and algorithms (selection abstracted to a validated subset); the "
                  "failure-report race is proved for both locked orders and refuted for the unlocked sub-step model; the block loop "
                  "of receive (in-place removal under a descending index) is proved to refuse exactly the bundles with an "
                  "unsupported block demanding deletion, for every block array. The Go "
                  "code is tied by trace inclusion of every generated history and by the property checker on the log.",
    "level_note": "Proof is about the model. Partial for real goroutine scheduling (atomic handlers; the mutex is assumed to "
                  "serialise the read-modify-write) and for OS crashes (orderly restart only). UpdateBundleAge's factor "
                  "(microseconds added to a millisecond age) is a parameter k of the model, not fixed here (C06).",
    "timeout_quick": 900,
    "timeout_thorough": 6000,
}
