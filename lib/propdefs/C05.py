P = {
    "gens": ["C05scf"],
    "theorems": ["C05_retained", "C05_retained_epidemic", "C05_direct", "C05_epidemic", "C05_restart",
                 "C05_restart_keeps_store", "C05_failure_race", "C05_failure_race_outcome",
                 "C05_failure_race_unlocked_refuted", "C05_alive_timestamped", "C05_alive_zero_time"],
    "rule": "a real routing.Core on a fresh store directory with scripted mock convergence senders (all sends of one "
            "forwarding attempt are released together) is driven through event histories over {submit, receive, receive "
            "again, peer up with an outcome script (ok / fail / fail-first / pseudo-random), peer down, pending tick, clean "
            "tick, orderly restart} for each of epidemic, spray, binary_spray, prophet, dtlsr, sensor-mule: the zero-time + "
            "sweep + restart history per algorithm; histories with 2-4 simultaneously failing peers (epidemic, prophet, "
            "sensor-mule); every history up to depth 2 over a 9-event alphabet per algorithm (same-millisecond submit, "
            "clock-less submit, receive, duplicate, two peers, both ticks, restart), epidemic up to depth 3 (quick: a third "
            "of the deepest level, rotating with the seed; thorough: depth 4 / 3); random histories of length 10..40 with "
            "same-millisecond groups, zero-time bundles, expired, hop-limited, unknown-block, foreign-source and locally "
            "addressed bundles. After every event: per-peer send log, and known / pending / sent list of every bundle handed "
            "in. Each history is replayed through Model.scf_step (trace inclusion, store status compared) and judged by the "
            "property checker on the log alone. distinct = distinct case bodies",
    "assumptions": ["bundle IDs are distinct (a Submit whose ID is already stored is not a step of the model; the volatile "
                    "IdKeeper is C14's finding idkeeper.restart.epoch-seq0)",
                    "event handlers are atomic (the cron goroutine does not overlap the handler); only the failure reports of "
                    "one forwarding attempt are modelled as concurrent",
                    "orderly restart (process kill is C08)"],
    "trusted_base": ["the routing algorithms' selection is validated per attempt (direct peers / exactly the fresh peers for "
                     "epidemic / a duplicate-free subset of the connected peers otherwise), not predicted",
                     "routing metadata bundles the algorithms create themselves (prophet) are not tracked",
                     "clock: lifetimes are 24 h or long expired, a history runs for < 20 s (slower ones are dropped and counted)",
                     "pkg/storage/verif_export_scf.go sets badger's memtable size (store tuning only); the store "
                     "directory is on /dev/shm when available",
                     "harness/corelib.go mock convergence senders; pkg/routing/verif_export.go synchronous drivers"],
    "level_text": "Retention, direct delivery on appearance, the epidemic offer and their survival of restarts are proved by "
                  "invariant over all histories, oracles and algorithms (selection abstracted to a validated subset); the "
                  "failure-report race is proved for both locked orders and refuted for the unlocked sub-step model. The Go "
                  "code is tied by trace inclusion of every generated history and by the property checker on the log.",
    "level_note": "Proof is about the model. Partial for real goroutine scheduling (atomic handlers; the mutex is assumed to "
                  "serialise the read-modify-write) and for OS crashes (orderly restart only). UpdateBundleAge's factor "
                  "(microseconds added to a millisecond age) is a parameter k of the model, not fixed here (C06).",
    "timeout_quick": 900,
    "timeout_thorough": 6000,
}
