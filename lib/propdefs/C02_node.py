P = {
    "gens": ["C02node"],
    "theorems": [],
    "rule": "C02node (second sentence, the running node): real routing.Core with mock convergence senders that serialise AND parse "
            "inside Send (the verdict a receiving node reaches at that instant). (a) configurations: each routing algorithm x "
            "signing key on/off x inspectAllBundles on/off; history of random received bundles (pings, local deliveries, direct and "
            "routed forwards, status requests towards a peer that is up / appears later), bundles submitted by a local application, "
            "relayed (optionally signed) status reports of another node, routing metadata, pending ticks, late peer after a dwell. "
            "(b) dwell times: bundles stored without a peer or with a refusing peer whose age + residence lies 100 s / 2 s / 0.3 s / "
            "1 ms below, at, or above the lifetime (clock-less; with creation time and age block; submitted by a local clock-less "
            "application; residence by moving the stored reception timestamp back or by real sleeps), creation-time lifetimes that "
            "end while the bundle is stored, hop counts one below / at their limit across refused attempts; one in four is a relayed "
            "administrative record. Rule: whatever IS transmitted must be accepted by the real parser and by the model decoder "
            "dec_bundle at the time it is sent (keys wf.produced.nodecfg.<class> / wf.produced.nodedwell.<class>); bundles with a "
            "creation time whose lifetime ends within ten seconds after the send are not judged.",
    "assumptions": [],
    "trusted_base": [
        "hook pkg/routing/verif_export_forward.go VerifSetReceptionTime (chooses the residence time without sleeping); "
        "Core.InspectAllBundles is set on the running Core (public field, what NewCore's argument sets)",
    ],
}
