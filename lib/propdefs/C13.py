P = {
    "gens": ["C13sentlist", "C13realpath"],
    "theorems": ["C13_no_return", "C13_no_duplicate", "C13_memory_survives", "C13_failure_reopens"],
    "rule": "scenarios on a real routing.Core per algorithm in {epidemic, spray, binary_spray, prophet, dtlsr (broadcast "
            "bundles), sensor-mule over epidemic} with 1..5 peers: 4 fixed scenarios per algorithm (failed then healthy "
            "peer; reception from a peer, retries and restart; two convergence senders of one peer; failure then restart), "
            "mule sensors, direct delivery; per algorithm the bundle that LEAVES the store and is RECEIVED AGAIN from another "
            "neighbour (relayed, delivered directly to its destination and deleted, destination gone, same bundle ID handed in "
            "with a new previous node; the same after the store expiry of a clock-less bundle + clean_store; with the spray "
            "metadata collected in between; a duplicate while the first copy is still held; for spray the node's own bundle "
            "coming back); plus random histories of 5-14 operations (reception with previous node = none / "
            "a peer / another node, clock-less or not, for elsewhere / a peer's node / an endpoint of this node, submission, peer "
            "up / second sender / down, retry tick, failure script on/off, restart, re-reception of an earlier bundle with any "
            "previous node, store expiry + cleaning, spray metadata collection) "
            "closed by a calm phase (all peers up and healthy, two ticks). Peers whose endpoint IDs share the node name and "
            "differ in the rest (dtn://p/, dtn://p/c2 ...; ipn:5.1, ipn:5.2 ...: different peers for the selection and the "
            "sent list) in every role - previous node, acknowledged, failed: 3 fixed scenarios per algorithm and naming "
            "scheme and random histories. Real path (C13realpath): receptions, peer appearances / disappearances written as "
            "cla.ConvergenceStatus to the channel of a registered convergence layer (-> cla.Manager -> Core.handler), a "
            "reception immediately followed by 1..3 peer events, some bundles requesting a reception report over slow links, "
            "rounds closed by a sentinel bundle; epidemic, prophet, dtlsr, mule; judged on the per-peer send log (never to the "
            "previous node, at most once to a peer) and replayed on the model; distinct = distinct case bodies",
    "assumptions": [
        "ReportFailure is one atomic step (the lost update of two concurrent failure reports is handled under C05/C18)",
        "binary spray: which peer gets the next copy and whether the budget allows it is C18 (the checker does not demand "
        "that a failed peer is the one offered next under binary spray)",
        "direct delivery to a connected peer that is the bundle's destination bypasses the algorithm (exempt in the "
        "checker; the generator never makes the destination peer the previous node)",
        "a bundle handed in again while its first copy is still stored is dropped by Core.receive before the algorithm "
        "hears of it: the previous node that counts is the one of the stored copy (a re-reception after the bundle left "
        "the store starts a new holding: SlNew with the new previous node, earlier acknowledgements are void)",
    ],
    "trusted_base": [
        "the driver reconstructs the candidate list of each SenderForBundle call from the connected mock senders "
        "(iteration order of the CLA manager's sync.Map is validated, not predicted: observed choices first)",
        "PRoPHET predictabilities are set through the hook VerifProphetSetPeerPred",
        "store expiry is brought about by moving the item's Expires into the past (storage.Store.Update) before "
        "clean_store runs; the spray metadata collection by the hook VerifSprayGC",
    ],
    "level_text": "Theorems over all histories of one bundle (its bookkeeping is independent of other bundles): no choice of a "
                  "replicating algorithm contains the previous node or a peer with an acknowledged transmission while the bundle "
                  "is held, across retries and restarts (C13_no_return, C13_no_duplicate, C13_memory_survives); a failed "
                  "transmission removes exactly that peer from `sent` and the next unbounded choice offers it "
                  "(C13_failure_reopens). The extracted model is replayed per bundle on every observed scenario (choice "
                  "sets and the algorithm's sent list after every operation); the property checker judges the per-peer send "
                  "log alone.",
    "level_note": "Proof is about the model; the tie to Go is trace inclusion on generated scenarios. DTLSR non-broadcast "
                  "bundles (single next hop, deleted after forwarding) and PRoPHET's own predictability updates are not "
                  "part of this property's model.",
    "timeout_quick": 600,
}
