P = {
    "gens": ["C13sentlist"],
    "theorems": ["C13_no_return", "C13_no_duplicate", "C13_memory_survives", "C13_failure_reopens"],
    "rule": "scenarios on a real routing.Core per algorithm in {epidemic, spray, binary_spray, prophet, dtlsr (broadcast "
            "bundles), sensor-mule over epidemic} with 1..5 peers: 4 fixed scenarios per algorithm (failed then healthy "
            "peer; reception from a peer, retries and restart; two convergence senders of one peer; failure then restart), "
            "mule sensors, direct delivery, plus random histories of 5-14 operations (reception with previous node = none / "
            "a peer / another node, submission, peer up / second sender / down, retry tick, failure script on/off, restart) "
            "closed by a calm phase (all peers up and healthy, two ticks); distinct = distinct case bodies",
    "assumptions": [
        "ReportFailure is one atomic step (the lost update of two concurrent failure reports is handled under C05/C18)",
        "binary spray: which peer gets the next copy and whether the budget allows it is C18 (the checker does not demand "
        "that a failed peer is the one offered next under binary spray)",
        "direct delivery to a connected peer that is the bundle's destination bypasses the algorithm (exempt in the "
        "checker; the generator never makes the destination peer the previous node)",
    ],
    "trusted_base": [
        "the driver reconstructs the candidate list of each SenderForBundle call from the connected mock senders "
        "(iteration order of the CLA manager's sync.Map is validated, not predicted: observed choices first)",
        "PRoPHET predictabilities are set through the hook VerifProphetSetPeerPred",
    ],
    "level_text": "Theorems over all histories of one bundle (its bookkeeping is independent of other bundles): no choice of a "
                  "replicating algorithm contains the previous node or a peer with an acknowledged transmission while the bundle "
                  "is held, across retries and restarts (C13_no_return, C13_no_duplicate, C13_memory_survives); a failed "
                  "transmission removes exactly that peer from `sent` and the next unbounded choice offers it "
                  "(C13_failure_reopens). The extracted model is replayed per bundle on every observed scenario (choice "
                  "sets and the algorithm's sent list after every operation); the property checker judges the per-peer send "
                  "log alone.",
    "level_note": "Proof is about the model; the tie to Go is trace inclusion on generated scenarios. DTLSR non-broadcast "
                  "bundles (single next hop, deleted after forwarding) and PRoPHET's own predictability updates are not "
                  "part of this property's model.",
    "timeout_quick": 600,
}
