P = {
    "gens": ["C07ping"],
    "theorems": ["C07_mux_no_deadlock", "C07_mux_tree_kinds", "C07_mux_deadlock_unfixed_ping",
                 "C07_mux_no_deadlock_async_handler", "C07_mux_deadlock_without_drain", "C07_mux_no_send_on_closed",
                 "C07_mux_delivers", "C07_mux_only_own", "C07_mux_registered", "C07_mux_endpoints_complete",
                 "C07_mux_endpoints_nocopy_misses"],
    "rule": "ping bursts against the real PingAgent behind the real AgentManager of a real Core. forced: the AgentManager's "
            "handler is held at routing.NotifyNewBundle of pong 0 (hook Core.VerifWrapRouting) while 1..3 further pings are "
            "received one after the other, then released, 2..4 (thorough 1..12) more follow; pongs for a remote endpoint "
            "(mock CLA) and for a local agent. stress (hook-free): 3 (thorough 4) goroutines receive 20 (120) pings each "
            "while a local agent pings through the AgentManager. Every receive returns within 4 s, HasEndpoint answers, "
            "every pong reaches the mock CLA / the local agent exactly once (keys c07.ping.stuck, c07.ping.pong-missing, "
            "c07.ping.pong-twice); the extracted sub-step model MuxConc.v is run on the same configuration under a canonical "
            "scheduler and must end settled with the same pongs",
    "assumptions": [
        "sub-step model Model/MuxConc.v of the multiplexer (MuxAgent.handle / Register / unregister / handleChild / "
        "Endpoints, AgentManager.Deliver and handler, the goroutines of a WebSocket client and of the PingAgent) at the "
        "granularity of mutex and (unbuffered) channel operations, all interleavings, any number of children / callers / "
        "bundles (unbounded, induction over reachability); deadlock-freedom assumes that no child still registered has "
        "stopped reading without disconnecting (mxc_no_stall) - network writes of a reading client return, the leaf "
        "critical sections of webAgentClient's own mutex are single steps - and that no child answers upstream from "
        "the goroutine that reads its receiver (mxc_cfg_no_reply). After fix 56aabd8 every agent kind of the tree "
        "satisfies the latter (C07_mux_tree_kinds): the PingAgent's handler reads (ping_agent.go:51) and every pong is "
        "sent by a goroutine of its own (ping_agent.go:91-97); a WebSocket client reads in handleReceiver "
        "(ws_agent_client.go:65) and sends upstream from handleConn, the ServeHTTP goroutine (:125, :129); the "
        "RestAgent's handler reads (rest_agent.go:110) and the HTTP goroutine of a /build request sends upstream (:278). "
        "An out-of-tree ApplicationAgent that answers from its reader goroutine can still deadlock the node "
        "(C07_mux_deadlock_unfixed_ping); the variant `go handleMessage` in AgentManager.handler would not need the "
        "hypothesis (C07_mux_no_deadlock_async_handler)",
        "ShutdownMessage / AgentManager.Close, a second Register of the same agent and the nesting "
        "WebSocketAgent-inside-the-AgentManager's-mux (two multiplexer levels) are not modelled: one multiplexer with "
        "its children, its deliverers and the reader of its sender; one query stands for Core.HasEndpoint and the "
        "check inside Deliver",
        "a terminating measure is not proved: 'can take a step' is shown for program goroutines only (environment "
        "faults do not count), every script of the model is finite",
    ],
    "trusted_base": [
        "the tie model<->Go of the sub-step model is the shape pinning of ConstsOkMuxConc (channel constructors without "
        "capacity, operator/literal shapes of 27 functions), reading the code, and the C07ping runs (model under one "
        "canonical scheduler vs. the implementation's pongs); the churn generator C07churn exercises register / "
        "unregister / disconnect interleavings on the real agents but does not replay them through this model",
        "hook Core.VerifWrapRouting (build tag verif) holds the AgentManager's handler inside Core.SendBundle",
    ],
}
