P = {
    "gens": ["C12bbchist", "C12bbcbusy"],
    "theorems": [
        "C12_bbc_end_clears", "C12_bbc_reuse", "C12_bbc_reuse_after_end",
        "C12_bbc_queue_lossless", "C12_bbc_queue_drains",
    ],
    "rule": "BBC histories on one Connector in which transmission ids are used again: per id 2..3 trains one after the other, "
            "transmissions of 1..3 ids interleaved; every train ends in one of 13 ways (intact; one fragment dropped / the last but "
            "one dropped / duplicated / swapped / several faults; end mark reached with an undecodable payload: random bytes, cut xz "
            "stream, truncated bundle, 16 fragments lost in a row, two senders' trains spliced; a peer's failure fragment in between; "
            "left open), directed: every way x MTU 3, 19 followed by two intact trains under the same id, two endings in a row then "
            "intact; every step compared with the model, every intact train must be delivered identically exactly once without a "
            "failure fragment. BBC busy queue: started Connector on a modem whose Send blocks until released, own bundle of more "
            "fragments than fragmentOut holds, 1..4 faulty / intact trains arrive through Modem.Receive while the queue is full "
            "(4 rounds), before the own Send (1) and while the queue drains (1); after the drain (sentinel Send) the modem's "
            "failure fragments = the model's, own trains intact and in order, a failure fragment transmitted for every faulty train",
    "assumptions": [
        "BBC busy queue: Go channel semantics (a blocking send on a full buffered channel neither loses nor reorders values) is the "
        "model's queue; the order between own fragments and failure fragments at the modem is the scheduler's choice and is not predicted",
    ],
    "trusted_base": [
        "hook pkg/cla/bbc/verif_export_c12busy.go (length / capacity of Connector.fragmentOut)",
    ],
}
