# part of C17 (merged by lib/props.py): stream decoders behind chunking readers, encoders called re-entrantly /
# concurrently.  Generators in harness/wirechunk.go, harness/wireconc.go; glue ocaml/d_wirechunk.ml, ocaml/d_wireconc.ml.
# No new model operation: the model's decoders are functions of the byte list (however it is delivered), its encoders
# are pure (whoever else encodes) - the scenarios are judged by the existing tm_stream / dec_stream / tm_enc / enc_aux /
# frag_bytes and by what the implementation does from a bytes.Reader / alone.
P = {
    "gens": ["C17chunk", "C17conc"],
    "theorems": [],
    "rule": "C17chunk: streams of TCPCLv4 messages (1-5 random messages clean / cut / followed by garbage; SESS_INIT node ids and "
            "XFER_SEGMENT data of length 0, 1, 2, 255, 256, 257, 1000 (thorough ..65535) between other messages; extension "
            "items present; long streams with a SESS_INIT / XFER_SEGMENT whose byte field lies across offset 4096) and of mixed "
            "CBOR auxiliary messages (strings of boundary lengths, status reports of 0..256 items) read back from ONE reader "
            "that delivers the bytes in pieces: iotest.OneByteReader, iotest.HalfReader, io.EOF together with the last bytes "
            "(TCPCL only), random chunk sizes, a chunk boundary at every offset (long streams: -3..+24 around every message "
            "boundary, 40 random offsets, 4095..4097), several boundaries, bufio.Reader of 16 / 17..64 / 4096 bytes alone and over "
            "chunked delivery; rule: same messages, same offset behind each message, same end as from a bytes.Reader, which is "
            "judged against the values written and the model as in the stream cases. "
            "C17conc: every encoder (contact header + 7 TCPCL message types, 9 CBOR formats with the 5 WebSocket-agent bodies, "
            "BBC Fragment.Bytes) reent = called with a writer that encodes another value of the type before / after it takes "
            "each Write; dreent = every stream decoder reading from a reader that decodes another value of the type inside each "
            "Read; state = every encoder after an encoding into a writer failing at each offset (up to 400 per value) and every "
            "decoder after decoding the input cut at that offset: the next encoding / decoding is the same as before; conc = called by 8 (12) goroutines x 3000/1000 (60000/20000) iterations with their own values into a "
            "plain buffer / a writer yielding on every Write, each also decoding its own encoding; rule: every output equals "
            "the model's encoding (= the one produced alone), every decoding the value. BBC fragments and announcement lists "
            "are decoded from complete datagrams: no reader to chunk; MTCP is not a C17 format",
    "assumptions": [],
    "trusted_base": [
        "cboring reads single bytes with r.Read and treats (1, io.EOF) as a failure: readers returning io.EOF together with "
        "the last bytes are not used for the CBOR formats (library code)",
    ],
}
