P = {
    "gens": ["C15report"],
    "theorems": ["C15_truthful", "C15_events_sound", "C15_shape", "C15_no_report_about_admin_record", "C15_no_report_to_self",
                 "C15_no_cascade", "C15_report_bundle_reports_to_self", "C15_checker_sound", "C15_model_passes_checker", "C15_wire_names_exact_id", "C15_wire_roundtrip"],
    "rule": "real routing.Core (epidemic) with three scripted mock convergence senders, a mock agent with two endpoints (one outside "
            "the node's name) and six listener endpoint IDs registered in a drawn order (three CLA types, several per type, dtn and "
            "ipn names); one bundle per case (built as a struct, so ill-formed flag combinations reach the Core too): "
            "(a) all 2^6 combinations of {reception, forward, delivery, deletion, status-time, administrative-record} x fragment/whole "
            "x outcome class {delivered to an agent (2 endpoints), local but no agent (2), forwarded, forwarded with only one of "
            "three sends succeeding, all sends failed, direct delivery ok/failed, hop limit exceeded / not yet / irrelevant because local, "
            "lifetime expired (creation time in the past) forwarded/local, bundle age > / = / << lifetime, submitted with local / "
            "foreign / dtn:none source, submitted to a local agent, one unknown block x 16 block-flag sets, two unknown blocks x 9 flag "
            "pairs remote/local} (quick: a sample of the flag grid for the unknown-block classes); 1 in 16 received bundles is "
            "re-received (duplicate); (b) report-to in {peer node, elsewhere, node of another peer, node ID, other endpoint of the node, "
            "agent endpoints (2), an endpoint under each listener ID (dtn and ipn), dtn:none, foreign ipn} x receiver in {node ID, dtn:none, agent endpoint, CLA endpoint, foreign}; "
            "(c) receive with nobody to forward to, then a peer appears (retry from the store), with and without the lifetime passing "
            "in between (whole and fragment, 6 flag sets); (d) 6 (thorough 60) nodes with a drawn configuration - no listener ID, "
            "two of one CLA type, three of one type plus another, up to six drawn over four types with dtn / ipn names and repeats, "
            "a second agent with endpoints outside the node's name - and per node report-to = an endpoint under every listener ID, "
            "every agent endpoint, the node ID, foreign ones x drawn outcome classes, plus a bundle destined to each listener ID "
            "(the case carries the configuration; evidence tags listener-ids=<n>, report-to-listener-id-first/second/later). Observed: the status reports sent: the report bundle is parsed from the "
            "wire bytes given to the mock CLAs, its payload (the administrative record) goes into the case as BYTES and is decoded "
            "by the model's reference decoder (AuxCbor.dec_admrec) in the driver - status items, reason and the reference bundle "
            "ID (source, creation time, sequence number, fragment flag, offset, total length) judged by the checker come from "
            "there; what the implementation's own decoder reads is only cross-checked (a difference is a mismatch); fragments "
            "have offset != total length != 0 (evidence tags fragment-report-<kind>[-retry]): asserted positions, times (bracketed by the clock before/after the step), reason, RefBundle, "
            "flags/source/destination/lifetime of the report bundle; sends of the bundle with outcomes; agent hand-overs; store "
            "membership afterwards. distinct = distinct case bodies",
    "assumptions": [
        "one bundle is processed at a time (the Core's handler goroutine is sequential; the overlap with a cron-fired "
        "checkPendingBundles is not modelled)",
        "endpoint IDs held by the Core are valid (the parser / builder checked them), so Builder.Build of the report bundle "
        "does not fail; Core.HasEndpoint is modelled without ConvergenceReceiver endpoints (the harness has only senders)",
        "the routing algorithm enters as an oracle (DispatchingAllowed, the senders chosen, deleteAfterwards), as do the clock and "
        "every send outcome; theorems hold for every oracle",
    ],
    "trusted_base": [
        "the bundle codec that unwraps the report bundle (C17); the status report itself is decoded by the model's decoder "
        "AuxCbor.dec_admrec (proved inverse of the model's encoder, tied to Go by C17's correspondence)",
        "store / IdKeeper behaviour (two reports created in the same millisecond share a store key until transmit renumbers them: "
        "the harness therefore always keeps a peer up that takes the reports immediately)",
        "checkAdministrativeRecord's side effects (deleting the bundle a 'delivered' report refers to) are not modelled",
        "hop count arithmetic is modelled on uint8 (Increment wraps at 255); bundle age update is taken as an oracle value",
    ],
    "level_text": "Theorems over the Gallina model of receive / transmit / dispatching / forward / localDelivery / bundleDeletion / "
                  "SendStatusReport / NewStatusReport for every node configuration, bundle, entry path and oracle: each emitted report "
                  "is justified by a same-pass event of its kind and the request flag (events themselves tied to their causes), has "
                  "the required shape, and none is emitted about an administrative record or towards the node itself, so a report "
                  "never triggers another. The model is replayed against the real Core case by case (reports in order, sends, "
                  "hand-overs, store membership) and the extracted checker judges the implementation's reports on their own.",
    "level_note": "Proof is about the model of the repaired code (fix: delivery report only after a successful hand-over). The tie to "
                  "Go is the differential check, bounded by generator quality. Observed and not judged a violation: a report is "
                  "also generated (and flooded) when the bundle's report-to is dtn:none; a bundle that expires while waiting in the "
                  "store is never reported deleted (loading re-validates and fails, the store cleaner removes it silently).",
    "timeout_quick": 900,
    "timeout_thorough": 6000,
}
