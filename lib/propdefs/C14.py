P = {
    "gens": ["C14idkeeper", "C14stress"],
    "theorems": ["C14_distinct", "C14_distinct_clocked", "C14_distinct_ahead", "C14_clean_threshold",
                 "C14_restart_refuted", "C14_same_number", "C14_filed", "C14_ids_distinct"],
    "rule": "scenarios on a real routing.Core (epidemic, mock CLAs): fixed boundary scenarios (three submissions in one "
            "millisecond / with the zero creation time, through SendBundle and through the AgentManager channel, "
            "with and without a connected peer; status reports of receptions right after each other; the cleaning "
            "window: 60 s / 120 s / 30 min old creation times; restart with clock and with zero time; concurrent "
            "groups of 2-4 goroutines, SendBundle only and mixed with the agent path) plus random scenarios of "
            "3-10 operations (submission, concurrent group of 2-4, peer up/down, retry tick, IdKeeper cleaning, "
            "restart) over 4 sources (node, two agent endpoints, dtn:none) and 14 kinds of creation time (zero, the "
            "scenario's millisecond, the clock, 1 ms / 2 s / 1 h / 1 day / 1 year AHEAD of the node's clock, 60 s ... 1 year "
            "behind it); bundles of one (source, time) differ in everything else (variant: report-to endpoint incl. "
            "dtn:none and local endpoints, destination, lifetime, control flags, hop-count / unknown extension block, "
            "payload length, CRC type) - fixed scenarios per dimension and random variants; boundary probe of the "
            "cleaning threshold: IdKeeper.clean called back to back across ts+86400 ms, calls whose clock reading is "
            "the same before and after are replayed at that clock (kept at exactly 86400 ms, dropped at 86401); "
            "distinct = distinct case bodies (timestamps make every run's bodies distinct)",
    "assumptions": [
        "C14_distinct: the IdKeeper's entry of (source, time) is not forgotten between the two submissions: no restart, "
        "and the creation time is 0 or not older than the cleaning threshold now-86400 ms (86.4 s; the comment in "
        "id_keeper.go says an hour) at every cleaning in between. C14_distinct_clocked derives this for creation "
        "times read from a monotone clock; for the zero time 'no restart in between' remains (known finding "
        "idkeeper.restart.epoch-seq0).",
        "A bundle submitted with an explicit creation time older than 86.4 s gets number 0 every time (its entry is "
        "cleaned right after each update): observed and tagged stale-time-*, outside the theorem's hypothesis.",
        "uint64 wrap-around of a counter (2^64 submissions for one source and millisecond) is not modelled.",
    ],
    "trusted_base": [
        "IdKeeper.update's critical section and IdKeeper.clean are atomic steps (sync.Mutex); Store.Push/Update/Delete are "
        "atomic (the store write mutex of the C08 package's fix 'serialise Store.Push, Update and Delete with a mutex'; without it concurrent submissions lose bundles to badger transaction conflicts)",
        "order of the sub-steps inside SendBundle (assign, clean, file, transmit) is tied to the code by the "
        "differential check only",
    ],
    "level_text": "Theorems over all histories = all interleavings of the sub-steps (counter step under the mutex, cleaning, "
                  "filing in the store, first transmission, retry from the store, drop, restart) of any number of "
                  "submissions: later bundle of equal (source, time) gets the larger number (C14_distinct, hypothesis: entry "
                  "not forgotten in between; C14_distinct_clocked: guaranteed by a monotone clock except zero time across a "
                  "restart, which is refuted by C14_restart_refuted); the assigned number is the one in the store key, "
                  "the part file and every transmitted copy (C14_same_number, unconditional); every push lands and no two "
                  "bundles share a key / wire ID (C14_filed, C14_ids_distinct). The extracted model is replayed on "
                  "every observed scenario (IdKeeper state, store items with the ID inside the part file, IDs parsed "
                  "from the bytes given to the mock CLAs); the scheduler's order inside a concurrent group is validated, "
                  "not predicted.",
    "level_note": "Proof is about the model; the tie to Go is trace inclusion on generated scenarios. Real goroutine "
                  "interleavings are sampled (2-4 goroutines), not enumerated. Signature blocks, fragmentation and "
                  "bundles deleted from the store (IkDrop is in the model, not exercised) are not covered by the harness.",
    "timeout_quick": 600,
}
