P = {
    "gens": [],
    "theorems": ["C16_close_no_deadlock", "C16_close_exactly_once", "C16_close_no_panic", "C16_conc_every_run_finite",
                 "C16_conc_family_complete"],
    "rule": "",
    "assumptions": [
        "C16_conc (sub-step model Model/ClaMgrConc.v): BOUNDED theorems - every configuration with at most 2 adapters (absent / "
        "started / pending with ttl 0 or 1, a pending one permanent or not), at most 1 client call (Register / Unregister / "
        "Restart), at most 1 waiting status message (PeerDisappeared or other) and at most 1 retry tick, or at most 1 adapter "
        "(permanent or not) and 3 client calls, "
        "production parameters (queueTtl 10, inChnl capacity 100), all interleavings; closed by exhaustive vm_compute exploration "
        "(Proofs/ClaMgrConcRun0..6.v) lifted by the explorer's soundness theorem and the completeness of the enumeration",
        "C16_conc: the Go memory model gives sequentially consistent behaviour to the synchronisation operations the model "
        "interleaves (sync.Mutex Lock/Unlock, channel send/receive/close, sync/atomic loads and stores of ttl, sync.Map "
        "Load/Store/Delete); each of them is one atomic step; plain reads/writes between them (stopFlag under its mutex, "
        "stopSyn/stopAck fields under the element mutex) are merged into the neighbouring synchronisation step",
        "C16_conc: sync.Map.Range visits the keys present when it starts (the Go 1.23 implementation: snapshot of the read-only "
        "map) in ascending adapter order and loads each value when it visits the key; select chooses any ready case",
        "C16_conc: client calls obey cmc_cfg_ok - per adapter either only Unregister calls (and no PeerDisappeared of that started "
        "adapter pending), or one Register of an unregistered adapter with no waiting status message, or one Restart of an adapter "
        "with no waiting status message, and no retry tick while client calls run; everything else is refuted by the FINDINGS "
        "Examples of Properties/C16_conc.v (left-running adapter, send on closed inChnl, double Start)",
        "C16_conc: an independent goroutine keeps reading Manager.Channel() until it is closed (routing.Core does NOT: the reader "
        "is the goroutine that calls Close(), Example C16_conc_finding_consumer_is_closer_deadlock); fewer than 101 status "
        "messages are outstanding (Example C16_conc_finding_inChnl_full_deadlock); conv.Start() / conv.Close() return",
        "C16_conc: no scheduler fairness is needed - every run from every state is finite (C16_conc_every_run_finite: ranking "
        "function cmc_rank, proved for all states without a bound); retry ticks and status messages are finite budgets of the "
        "configuration",
    ],
    "trusted_base": [
        "C16_conc: Model/ClaMgrConc.v is a hand translation of manager.go / manager_elem.go (modelled, not verified; tie = operator "
        "/ literal shapes of the 14 functions in ConstsOkClaMgrConc.v, which does not see a moved Unlock - the three switches "
        "sw_close_holds / sw_no_deact_chk / sw_no_reg_chk reproduce the seeded defect and the two repaired ones as reachable "
        "deadlock / double close / left-running adapter, Examples C16_conc_seeded_defect_deadlocks, C16_conc_before_aef8c74_double_close, "
        "C16_conc_before_4771bec_left_running)",
        "C16_conc: one Convergence object per address (the 'different instance' branch of unregisterConvergence and the "
        "sender/receiver endpoint check of registerConvergence never fire); ConvergenceProviders, providersMutex, listenerIDs and "
        "logging are not modelled; the first illegal adapter call / panic stops the model (st_err)",
    ],
}
