P = {
    "gens": ["C07agents", "C07race", "C07churn", "C07routes"],
    "theorems": ["C07_exact", "C07_fetch_exactly_once", "C07_mailbox_linearizable", "C07_mailbox_unlocked_refuted",
                 "C07_mailbox_unlocked_refuted_twice", "C07_report_iff_handover", "C07_report_iff_handover_step", "C07_nobody_registered", "C07_amid_others"],
    "rule": "histories of register / unregister / fetch / connect / disconnect / deliver on a real Core with real MuxAgent, "
            "RestAgent (httptest), WebSocketAgent (real connectors), PingAgent and mock agents and two mock peers: every "
            "sequence of <= 3 recipients over the four kinds (= every registration order) x {same, alternating endpoints} x "
            "{node-local, foreign endpoints} (quick: all up to length 2, a quarter of length 3), random histories of 4..12 "
            "operations with 0..8 agents; per step the hand-overs, sends, reports, store state, fetch responses and the "
            "clients / mailbox maps are compared with the model and judged by the property checker. Deliver/fetch race: "
            "forced interleaving (fetch stopped between Load and Delete through a logrus hook, delivery in the window) "
            "with 0..3 bundles in the mailbox, and hook-free stress runs. Unregistered clients: WebSocket clients that are connected "
            "but have not registered (raw protocol client: dial only, late / second / unparsable registration), REST agents without a "
            "matching client, deliveries to dtn:none (also as report-to) and to endpoints nobody registered, exhaustively over 1..2 "
            "unregistered clients x {no, mock, ping, REST, WS} registered recipient x {node-local, foreign} and inside the random "
            "histories: nobody may receive, no report, no release. Churn (C07churn): stable recipients (mock agents, REST client, "
            "WebSocket clients, ping agent, an unregistered WebSocket client) stay registered while other agents register / leave "
            "(they were registered before the stable ones, >= 3 children, one of them with a yielding Endpoints()), other WebSocket "
            "clients connect / disconnect, other REST clients register / unregister, now and then a leaving agent / client shares "
            "the stable recipients' endpoint - concurrently with a bundle stream and a HasEndpoint prober; on the MuxAgent alone "
            "(900 phases), the WebSocketAgent alone (100 phases) and a real Core (5 runs): every bundle reaches every stable "
            "recipient exactly once, HasEndpoint never answers false, nothing goes to a peer, nobody else receives anything, the "
            "implementation does not deadlock. Routes (C07routes): registered endpoints below and OUTSIDE the node's own name "
            "(group endpoint dtn://news/~all, another dtn authority, ipn endpoints on a dtn node; dtn endpoints and another node "
            "number on an ipn node) with 1..4 recipients per endpoint out of {mock agent, mock agent with two endpoints, REST "
            "client, WebSocket client} and a bystander, under every routing algorithm (epidemic, spray, binary_spray, prophet, "
            "dtlsr, sensor-mule: the decision passes through DispatchingAllowed) x {no peer, only the previous node, a fresh "
            "peer, both}, received and submitted by a local client, with ordinary payloads and administrative records (status "
            "reports with every subset of asserted items incl. none, unknown record type, garbage): handed to exactly the "
            "registered recipients once and unchanged whatever the payload, never transmitted; an administrative record the node "
            "cannot read is deleted (behaviour of the code as it stands, checked as correspondence). "
            "distinct = distinct case bodies",
    "assumptions": [
        "handlers of the Core and of the agents are atomic w.r.t. each other except deliver/fetch on one mailbox "
        "(sub-step model, all interleavings); a client that unregisters between AgentManager.HasEndpoint and the "
        "multiplexer's fan-out is not modelled (C07_amid_others covers every history of *other* agents' events between the "
        "registration of a recipient and a delivery; the churn generator runs them truly concurrently)",
        "the histories of C07agents / C07churn use no administrative records (C07routes does: readable ones are delivered like "
        "any bundle, unreadable ones are deleted before the hand-over); no CLA endpoint IDs registered at the CLA manager",
        "forwarding is abstracted to 'given to every connected peer and kept in the store' (epidemic, mock senders succeed)",
    ],
    "trusted_base": [
        "harness proxy around PingAgent (records the message the multiplexer hands over, checks the pong's destination)",
        "in-band markers (SyscallResponseMessage) and barrier messages used for synchronisation",
    ],
    "level_text": "Theorems over the executable model of MuxAgent / RestAgent / WebSocketAgent / PingAgent / AgentManager / "
                  "Core.localDelivery for every history, configuration and iteration order (induction over histories, "
                  "invariants), and over every interleaving of the sub-steps of any number of deliveries and fetches on one "
                  "mailbox; the model is run against the real agents through a real Core on exhaustive small "
                  "configurations and generated histories.",
    "level_note": "Agents.v treats handlers as atomic except the deliver/fetch race on a REST mailbox (sub-steps; forced order "
                  "+ stress in the harness). Model/MuxConc.v (part C07_conc) is a sub-step model of MuxAgent / clients / "
                  "AgentManager at the granularity of lock and channel operations with unbounded proofs over reachability: no "
                  "deadlock, no send on a closed channel, exactly-once in-order delivery to children registered throughout, "
                  "complete Endpoints (not in it: ShutdownMessage / Close, the nested WebSocketAgent level). The tie model<->Go "
                  "is the differential check and the operator-shape lemmas. Go runtime, gorilla mux/websocket, net/http are "
                  "modelled not verified.",
    "timeout_quick": 600,
    "timeout_thorough": 7200,
}
