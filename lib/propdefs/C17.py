P = {
    "gens": ["C17bbc"],
    "theorems": ["C17_bbc_header_roundtrip", "C17_bbc_parse_inverse", "C17_bbc_reject_short"],
    "rule": "BBC header: all 256 sequence bytes x 8 flag combinations (exhaustive) with random tid/payload; "
            "random datagrams of length 0..7; distinct = distinct case bodies",
    "assumptions": [],
    "trusted_base": [],
    "level_text": "Round-trip / exact-consumption theorems for each auxiliary wire format over the Gallina model; "
                  "the model is run against the Go encoders/decoders on exhaustive code-field sweeps and generated values.",
    "level_note": "Proof is about the model; the tie to Go is the differential check (bounded by generator quality). "
                  "Go runtime/stdlib, cboring are modelled not verified.",
}
