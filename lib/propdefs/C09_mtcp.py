P = {
    "gens": [],
    "theorems": ["C09_over_mtcp"],
    "rule": "C09 composed with C12 and C01: Fragment -> MTCP stream -> server loop with dec_bundle -> ReassembleFragments = the original",
    "assumptions": [],
    "trusted_base": [],
}
