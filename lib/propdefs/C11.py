P = {
    "gens": ["C11tcpcl", "C11client", "C04tcpclmru"],
    "theorems": ["C11_segments", "C11_segments_divisor", "C11_receiver", "C11_success_sound",
                 "C11_failure_reported", "C11_close_reported", "C11_session_sender", "C11_session_reports"],
    "rule": "xfer: real OutgoingTransfer -> IncomingTransfer for every byte-stream length L=1..64 (thorough 200) and every "
            "segment size m=1..L+2 (all divisor cases), the same for real bundles of consecutive payload sizes, and "
            "lengths around 1 MiB with m around 1 MiB; mgr: two real TransferManagers joined by FIFO queues with 1-4 "
            "concurrent Send calls per side and segment sizes chosen among the divisors of the bundle length, 1..100 and "
            "1 MiB; peer: one TransferManager against a scripted peer that acknowledges k segments and then stops "
            "acknowledging / refuses / closes the session / stops reading, for every k (real 10 s timeout, cases run "
            "concurrently); mru (C04 sender clause): NextSegment in a child process for peer MRUs 0, 1, 2^20+-, 2^31..2^64-1. "
            "client (session level, real tcpclv4.Client over net.Pipe / loopback TCP, as active and as passive entity): ctrace = Client "
            "against a scripted raw peer that announces Segment MRU 1, 2, 3, 7, 10 .. 65535, every divisor of L, L-1, L, L+1, 1 MiB+-1, "
            "2^32, 2^63-1, 2^64-1 in SESS_INIT and records every XFER_SEGMENT (1..11 bundles per session, 1..8 sending goroutines): per "
            "transfer id no segment above the announced MRU, concatenation = a bundle sent, START/END exactly first/last, ids pairwise "
            "distinct, Send ok => complete at the peer; the same trace check for one TransferManager whose 8/12/16 Send calls are released "
            "by a spin barrier (6 sessions x 250 rounds); crecv = scripted peer sends 1..12 transfers with its own segmentation (1..1000 "
            "byte segments, up to several hundred pipelined), sequential / interleaved / last transfer left incomplete, in phases; the "
            "consumer of Client.Channel() only holds the reports and compares all bundles held so far with the bundles sent at every "
            "quiescent point (all acknowledged, all reports taken) and after Close: none missing, none extra, none changed later; cpair = "
            "two real Clients, 1..4 phases of up to 12 bundles per direction sent by 1..8 goroutines per side, same comparison on both "
            "sides; cbusy = Client against a scripted peer announcing a keepalive interval of 2 s (thorough also 1, 3 s), transfers in both "
            "directions every 40 ms for more than two intervals (no KEEPALIVE ever needed): session not lost, every Send ok, complete at "
            "the peer, every transfer of the peer handed up (judged only when the harness itself kept gaps below a third of the interval, "
            "else rerun, after 3 attempts inconclusive); thorough: one transfer of ~94 segments whose acknowledgements arrive one every "
            "130 ms (12 s in all, longer than Send's 10 s timeout): Send ok and complete. distinct = distinct case bodies",
    "assumptions": [
        "acknowledgements seen by Send are lengths an honest receiver of that transfer produces (honest_event); a peer that "
        "acknowledges length 0 before the sender finished makes Send return success early (Example tcpcl_send_ack_zero_hole)",
        "io.Pipe / bufio.Reader / io.ReadFull behave as documented (stream = bytes then EOF; Peek(1) = EOF iff nothing is left)",
    ],
    "trusted_base": [
        "Send is modelled as a state machine over events (emitter step, length/err channel receive, ack, refuse, timeout, "
        "close); goroutine scheduling and the real 10 s timer enter as the order of events; theorems hold for every order",
        "bundle CBOR encoding/decoding (MarshalCbor / ToBundle) is outside this model: the receiver model hands up the bytes",
        "TransferManager.handle: only the XFER_SEGMENT branch is modelled; its error exits (ack/refusal for an unknown transfer, "
        "unexpected message type, unparsable finished transfer) and the blocking of unbuffered channels are not",
        "MessageSwitch / StageHandler (framing, contact header and SESS_INIT exchange, keepalive) are not modelled: the session-level "
        "model is 'segment MTU = the peer's announced Segment MRU, ids by atomic increment, one report with its own copy per bundle'; "
        "the real Client is run over net.Pipe and loopback TCP against a scripted raw peer and against another Client; WebSocket "
        "(gorilla/websocket) is exercised only by the package's own TestImplNetwork",
        "transfer id allocation is modelled as one indivisible step (atomic.AddUint64); the uint64 wrap-around after 2^64 transfers "
        "of a session is not modelled; the literal/operator shape of Client.Start, Client.handle and TransferManager.Send is pinned "
        "by ConstsOkTcpcl",
    ],
    "level_text": "Theorems over the Gallina model of OutgoingTransfer.NextSegment, IncomingTransfer, the receiving side of "
                  "TransferManager and TransferManager.Send for all bundle lengths, all segment sizes >= 1, all interleavings of "
                  "transfers with distinct ids and all event orders of Send; the model is run against the real code on exhaustive "
                  "(L, m) sweeps, concurrent TransferManager pairs, scripted faulty peers and whole sessions of the real Client against a scripted raw "
                  "peer (announced Segment MRU, bursts, late consumer) and against another Client.",
    "level_note": "partial for real sockets: in Tcpcl.v timeouts and scheduling are modelled as events; Model/TcpclConc.v (part "
                  "C11_conc) models the goroutine / channel network of an established session with the real capacities and proves "
                  "progress against an ideal peer, soundness of Send's success under every interleaving, and the exact stall "
                  "window of a pair of sessions (known finding tcpcl.pair.bulk-both-directions-stalls as theorems). The tie to Go is "
                  "the differential check and the operator-shape / capacity lemmas. Go runtime/stdlib (io.Pipe, bufio, channels) "
                  "modelled not verified.",
    "timeout_quick": 600,
    "timeout_thorough": 3600,
}
