P = {
    "gens": ["C11tcpcl", "C04tcpclmru"],
    "theorems": ["C11_segments", "C11_segments_divisor", "C11_receiver", "C11_success_sound",
                 "C11_failure_reported", "C11_close_reported"],
    "rule": "xfer: real OutgoingTransfer -> IncomingTransfer for every byte-stream length L=1..64 (thorough 200) and every "
            "segment size m=1..L+2 (all divisor cases), the same for real bundles of consecutive payload sizes, and "
            "lengths around 1 MiB with m around 1 MiB; mgr: two real TransferManagers joined by FIFO queues with 1-4 "
            "concurrent Send calls per side and segment sizes chosen among the divisors of the bundle length, 1..100 and "
            "1 MiB; peer: one TransferManager against a scripted peer that acknowledges k segments and then stops "
            "acknowledging / refuses / closes the session / stops reading, for every k (real 10 s timeout, cases run "
            "concurrently); mru (C04 sender clause): NextSegment in a child process for peer MRUs 0, 1, 2^20+-, 2^31..2^64-1. "
            "distinct = distinct case bodies",
    "assumptions": [
        "acknowledgements seen by Send are lengths an honest receiver of that transfer produces (honest_event); a peer that "
        "acknowledges length 0 before the sender finished makes Send return success early (Example tcpcl_send_ack_zero_hole)",
        "io.Pipe / bufio.Reader / io.ReadFull behave as documented (stream = bytes then EOF; Peek(1) = EOF iff nothing is left)",
    ],
    "trusted_base": [
        "Send is modelled as a state machine over events (emitter step, length/err channel receive, ack, refuse, timeout, "
        "close); goroutine scheduling and the real 10 s timer enter as the order of events; theorems hold for every order",
        "bundle CBOR encoding/decoding (MarshalCbor / ToBundle) is outside this model: the receiver model hands up the bytes",
        "TransferManager.handle: only the XFER_SEGMENT branch is modelled; its error exits (ack/refusal for an unknown transfer, "
        "unexpected message type, unparsable finished transfer) and the blocking of unbuffered channels are not",
        "TCP / WebSocket framing (MessageSwitch, gorilla/websocket) not modelled; concurrency over real sockets is exercised only "
        "by the package's own TestImplNetwork",
    ],
    "level_text": "Theorems over the Gallina model of OutgoingTransfer.NextSegment, IncomingTransfer, the receiving side of "
                  "TransferManager and TransferManager.Send for all bundle lengths, all segment sizes >= 1, all interleavings of "
                  "transfers with distinct ids and all event orders of Send; the model is run against the real code on exhaustive "
                  "(L, m) sweeps, concurrent TransferManager pairs and scripted faulty peers.",
    "level_note": "partial for real sockets: timeouts and scheduling are modelled as events; the tie to Go is the differential "
                  "check. Go runtime/stdlib (io.Pipe, bufio, channels) modelled not verified.",
    "timeout_quick": 600,
    "timeout_thorough": 3600,
}
