P = {
    "gens": [],
    "theorems": ["C01_stream", "C01_injective", "C01_prefix_free"],
    "rule": "theorems over streams of any number of bundles (Model/BundleStream.v dec_bundles = repeated ParseBundle on one reader); "
            "the C01state rd cases replay the implementation's stream reads through the extracted dec_bundles",
    "assumptions": [],
    "trusted_base": [],
}
