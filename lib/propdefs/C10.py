P = {
    "gens": ["C10reasm", "C10store"],
    "theorems": ["C10_iff_cover", "C10_iff_cover_any_order", "C10_reassemblable_iff_cover", "C10_never_panics",
                 "C10_refragment", "C10_refragment_cover", "C10_store_complete_refuted", "C10_store_complete",
                 "C10_store_repair_keeps_cover"],
    "rule": "real bundles (payload 1..300, four extension-block mixes, CRC16/32): Bundle.Fragment at three MTUs + "
            "Fragment of every fragment (refrag cases: offsets/total/blocks of every piece); sub-multisets and orders "
            "of the pool (all orders of all subsets for pools <= 5 (quick) / 6 (thorough), random beyond); synthetic "
            "fragments built directly from intervals: every list of <= 3 (thorough: 4) intervals of a 4-byte payload "
            "with repetition (exhaustive), random interval sets with overlap / containment / duplicates / one piece "
            "removed; the same lists through storage.Store.Push + BundleItem.IsComplete + Load; every call under "
            "recover(); distinct = distinct case bodies",
    "assumptions": [],
    "trusted_base": [
        "fragments are abstracted to (offset, total, payload slice, Is-Fragment flag, extension block ids+replicate "
        "flag); the bundle codec, CRCs and CheckValid of the reassembled bundle (incl. the lifetime test against the "
        "wall clock) are not modelled here (C01-C03, C09); the harness compares the reassembled bundle's serialisation "
        "with the original's",
        "offsets are unbounded N in the model; Go's uint64/int conversions can overflow only for offsets >= 2^63",
        "sort.Slice is not stable: theorems hold for every sorted permutation; the implementation's order is recorded "
        "and validated (permutation + sorted), not predicted",
        "piece sizes chosen by Bundle.Fragment (mtu - overhead) are an oracle of rs_refragment (size arithmetic = C09)",
        "store: badgerhold / file system as in C08; only the part list of one item, sequential pushes",
    ],
    "level_text": "Machine-checked: for every list of fragments of one bundle (any offsets/lengths, so any mixture of "
                  "first- and second-level fragments, duplicates, overlaps, containment) and every order, reassembly "
                  "succeeds iff the list is non-empty and covers the payload, then returns the original payload and "
                  "blocks, never other data; the slice-bounds panic is unreachable for every input; pieces of a fragment "
                  "are fragments of the original with off = parent off + j, total = parent total, and cover the parent. "
                  "The Gallina model is run against the Go code on generated and exhaustive small fragment sets; the "
                  "property's own checker is an interval bitmap independent of the model.",
    "level_note": "Store completeness is proved under no_later_longer (no fragment pushed after a shorter one with the "
                  "same (offset,total)); without it it is refuted (C10_store_complete_refuted) - known finding "
                  "reasm.store.longer-duplicate-dropped. Proof is about the model; the tie to Go is the differential "
                  "check and the operator-shape lemmas of ConstsOkReasm.",
    "timeout_quick": 600,
    "timeout_thorough": 3000,
}
