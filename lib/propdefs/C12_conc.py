P = {
    "gens": ["C12mtcpconc"],
    "theorems": [],
    "rule": "4 goroutines x 4 bundles of 4.2-24 KB (frames above the 4096-byte bufio buffer) sent concurrently on one MTCP "
            "client over loopback TCP (3 rounds quick, 40 thorough): multiset of bundles handed up = multiset sent, no Send error",
    "assumptions": [],
    "trusted_base": [],
}
