P = {
    "gens": ["C19arith", "C19core", "C19stress", "C19names"],
    "theorems": ["C19_range", "C19_monotone", "C19_gate", "C19_gate_real", "C19_gate_unknown_peer",
                 "C19_no_concurrent_map_fault"],
    "rule": "value sweeps: all triples of 14 boundary values (0, 1, denormals, 2^-53, 2^-54, 0.5+-ulp, 1-2^-53, ...) "
            "through encounter / agePred / transitivity for fixed and random constants; event sequences "
            "{encounter, ageing tick, vector import (incl. vectors with an entry for the sender itself)} of 40 / 400 / 3000 "
            "steps (thorough: up to 20000) with values from {specials, uniform, log-uniform, near 1, denormal}, every "
            "predictability compared bit-for-bit (Float64bits) with the Flocq model after every step; a separate "
            "out-of-contract stream (constants / received values outside [0,1]) for correspondence only; real Core: "
            "all orderings of (own, peer) predictabilities from 8 boundary values for the forwarding rule, unknown peers, "
            "direct delivery, event sequences with peers appearing / vectors arriving / ageing / data bundles, the summary "
            "vectors handed to the mock CLAs, the aliasing probe; the lock-discipline probe (is dataMutex held at every observable map "
            "access: lookups and the predictability comparison of SenderForBundle, writes of encounter / agePred / transitivity, the "
            "look-ups of the metadata path - NotifyNewBundle's look-up of the sender in peerPredictabilities before it stores the "
            "vector, for a new and for a known peer, and transitivity's look-up); concurrent stress in child processes: (1) peer "
            "appeared + vector received / ageing / pending check, (2) summary vectors of thousands of peers delivered by 8 (thorough "
            "12) goroutines at once through NotifyNewBundle (one of them through the Core's whole reception path) next to peers "
            "appearing, ageing, pending check, sendMetadata and state reads - fixed amount of work, 4 (8) children; the child must "
            "survive and every predictability it holds must be in [0,1]. "
            "C19names: the gate and event-sequence cases of the real Core with node names that nearly collide between the bundle's "
            "destination, the connected peers and the peers in the predictability maps (letter case: dtn://relay7/ vs dtn://Relay7/; "
            "prefixes: dtn://m1/ vs dtn://m10/, dtn://a/ vs dtn://a.b/; the same number under the other scheme: ipn:5.1 vs dtn://5/), "
            "random sets of connected peers, vectors and own values from {0, .25, .5, .75, 1}, one data bundle per node: a peer that is "
            "not the destination node (exact node endpoint ID) gets the bundle only through the gate. "
            "distinct = distinct case bodies",
    "assumptions": ["configuration constants and received predictabilities are finite binary64 values in [0,1] (C19_range, C19_monotone)",
                    "amd64 float64 semantics without FMA contraction (GOAMD64=v1)"],
    "trusted_base": ["ClassicalDedekindReals.sig_not_dec", "ClassicalDedekindReals.sig_forall_dec",
                     "FunctionalExtensionality.functional_extensionality_dep", "Classical_Prop.classic",
                     "Flocq 4.1.0 (IEEE754.Binary: Bplus_correct, Bminus_correct, Bmult_correct, Bcompare_correct; Core.Ulp, Prop.Sterbenz)"],
    "axioms_ok": [],
    "level_text": "Range / monotonicity theorems over Flocq binary64 (round-to-nearest-even, the code's evaluation order) for all "
                  "event sequences; forwarding-gate theorem for the algorithm's selection incl. the Core's direct delivery; "
                  "lock-discipline theorem for all interleavings of the map accesses (own predictabilities, peerPredictabilities, block "
                  "copies) of the repaired code incl. several concurrent vector imports. The model is run "
                  "bit-for-bit against the real Prophet / Core.",
    "level_note": "partial: the Go runtime's fatal error itself is not modelled, only the overlap of a map write with a read span "
                  "of the same map object that causes it; the received vector stored in peerPredictabilities shares the map of the "
                  "received block (read-only afterwards, not modelled); FMA-free evaluation assumed (amd64, GOAMD64=v1); NaN payloads "
                  "and infinities are outside the contract and outside the correspondence.",
    "timeout_quick": 600,
    "timeout_thorough": 6000,
}
