P = {
    "gens": ["C16clamgr", "C16clamgrconc", "C16clamgrext"],
    "theorems": ["C16_active_iff_started", "C16_retry_permanent", "C16_retry_permanent_recovers", "C16_retry",
                 "C16_single_instance", "C16_close_once", "C16_close_concurrent", "C16_no_panic"],
    "rule": "real cla.Manager under scripted mock adapters (Start outcome ok / fail-retry / fail-no-retry, logged "
            "Start/Close, Channel() to inject PeerDisappeared), observed after every step: Sender()/Receiver() ids, "
            "the step's Start/Close calls, registry snapshot (address, instance, ttl), panic/timeout. "
            "(a) bounded-exhaustive: ALL sequences over {register, unregister, restart, tick, peer-disappeared, close} x "
            "start outcomes (outcome branched only where Start was actually called) of length 4 (thorough 5) for one adapter x "
            "permanent/non-permanent x budget 0..3, a tick = one synchronous retry pass; "
            "(b) random sequences (length 4..15) over 2..4 adapters sharing addresses and endpoint ids, budget 0..3; "
            "(c) one adapter on the REAL 1 ms retry ticker with a scripted outcome list, observed only in tick-stable states "
            "(registry empty or all active): register, peer loss, close. "
            "(d) C16clamgrconc: Manager.Close() while events are still in flight in the manager's handler goroutine: 1..4 "
            "PeerDisappeared (and forwarded-only PeerAppeared) messages of started adapters injected by one goroutine per adapter, "
            "Close() called when the first messages have been taken / immediately / after some yields / from inside the restart "
            "(schedule point in the mock adapter's Close, which starts Manager.Close() in another goroutine) / on the real 1 ms "
            "ticker from inside a Start call of a retry pass; in a third of the cases a bystander goroutine calls Register for a "
            "further adapter (variant midregister: Manager.Close() is started from inside that adapter's Start - after Register has "
            "looked at the stop flag - and has returned before Start does), in some cases another goroutine calls Unregister for a "
            "started adapter at the moment the shutdown stops it (schedule point in the mock's Close); verdict from the call log: "
            "Close() returns (15 s guard), no panic in Close() / the overlapping Unregister, no Start of a started and no Close of a "
            "stopped adapter at any point, one instance per address, once Close() and the overlapping Register have returned nothing "
            "is started or listed and no further call is made; the set of queued messages the handler still processed is validated "
            "against Model.cm_conc_close (some split restart-before-flag / unregister-after-flag / dropped explains the calls). "
            "(e) C16clamgrext kind seqc: the histories of (a)/(b) with a second per-step oracle, the outcome of the adapter's "
            "Close() (nil / error), branched in the bounded-exhaustive part (quick: budgets 0 and 2) exactly where Close was called; "
            "an adapter whose Close() returned an error is stopped all the same: same reference run, the step returns (10 s guard, "
            "clamgr.deadlock.*), the adapter is not listed afterwards, Manager.Close() returns and does not stop it again; kind tickerc: "
            "(c) with an adapter whose Close() always fails; "
            "(f) C16clamgrext kind traffic: the REAL retry timer (20/30/50 ms) while a started adapter emits forwarded-only status "
            "messages (PeerAppeared / ReceivedBundle) steadily at 8..20 per retry interval: a second adapter, registered while its "
            "Start fails (F x fail-retry then ok / fail-no-retry, permanent or budget 1..5), must have got its F+1 attempts and be "
            "active (or be forgotten at the end of its budget) within 2(F+1)+10 retry intervals (counted by a ticker of the harness, at "
            "least 3 s), else clamgr.retry.not-at-interval; calls / listing / registry of the stable state compared with the model. "
            "distinct = distinct case bodies",
    "assumptions": [
        "events are atomic in the model: Register/Unregister/Restart calls from other goroutines do not overlap a retry pass or "
        "each other.  Manager.Close() overlapping the handler's own work (queued PeerDisappeared restarts, retry passes) IS "
        "covered (C16_close_concurrent, C16clamgrconc).  Of the API calls of other goroutines only Register and Unregister "
        "overlapping Close() are exercised (C16clamgrconc; two defects found there are repaired: fix commits 047ccad, 85c7cec), "
        "judged by the call log, not modelled; Register / Unregister / Restart overlapping a retry pass or a peer-loss restart "
        "of the same element (e.g. activate() checks isActive outside the element mutex as well) are outside the property's "
        "quantifier (histories = sequences) and not exercised",
        "budget (queueTtl) >= 0, as in NewManager (10; tied by ConstsOkClaMgr.cm_default_ttl_nonneg)",
        "Manager.Close is called at most once per manager (a second Close panics: close of closed channel; io.Closer leaves it "
        "undefined); modelled and cross-checked, not judged by the property checker",
        "the consumer drains Manager.Channel() (outChnl is unbuffered, documented in manager.go); adapters' Start/Close return",
        "PeerDisappeared messages carry the sending adapter itself as Sender",
    ],
    "trusted_base": [
        "hook pkg/cla/verif_export_clamgr.go: NewManagerVerif = NewManager with parameters; VerifRetryPass is a verbatim copy of the "
        "ticker branch of Manager.handler (shape of the original pinned by ConstsOkClaMgr.cm_manager_handler_ok, behaviour "
        "cross-checked on the real ticker by the 'ticker' cases); VerifDump reads ttl / stop channel presence",
        "ConvergenceProvider registration, listenerIDs / EndpointIDs bookkeeping and logging are not modelled",
        "no-deadlock is checked by the harness (10 s guard per step, 15 s for Close() with events in flight), not proved: the model has no blocking operations "
        "(deactivate's wait for stopAck is answered by the element handler, which runs exactly while the stop channel is open)",
    ],
    "level_text": "Invariant proof over all event sequences and all start-outcome oracles of the Gallina model of "
                  "Manager/convergenceElem (ttl counter, activate/deactivate, registry, retry pass, Restart, Close, explicit panic "
                  "state), for any number of adapters (shared addresses allowed), permanent or not, any budget >= 0; the model is "
                  "replayed against the real Manager step by step (trace inclusion on calls, Sender()/Receiver(), registry).",
    "level_note": "Proof is about the model of the repaired code (fix: failing start no longer counts ttl below 0; the two "
                  "concurrency fixes aef8c74 / 4771bec do not change sequential behaviour). The tie to Go "
                  "is the differential check, bounded by generator quality. Goroutine interleavings inside the Manager: "
                  "Model/ClaMgrConc.v (part C16_conc) is a sub-step model of Close / handler / element handlers / client calls / "
                  "retry tick; termination of every run is proved unbounded, no-deadlock / exactly-once / no-panic for all "
                  "interleavings over the configuration bound stated in the theorems (race-free configurations cmc_cfg_ok, by an "
                  "exhaustive exploration inside Coq with a proved-sound explorer); outside cmc_cfg_ok the code as it is has "
                  "reachable violations (six known findings clamgr.conc.*, confirmed on the real code).",
    "timeout_quick": 600,
    "timeout_thorough": 6000,
}
