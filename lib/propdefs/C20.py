P = {
    "gens": ["C20dtlsr", "C20fwd", "C20conc"],
    "theorems": ["C20_bf_correct", "C20_table_spec", "C20_next_hop_is_neighbour", "C20_next_hop_is_neighbour_refuted", "C20_checker_exact",
                 "C20_replace", "C20_replace_any_order", "C20_replace_only_newer", "C20_connected_neighbour_live",
                 "C20_forward", "C20_forward_broadcast"],
    "rule": "real DTLSR instance fed real link-state bundles / peer events: ShouldReplace on 144 timestamp pairs; all arrival "
            "orders of <=4 updates over 3 timestamps (120 histories); every 3-node graph (6 arcs x {absent, live, lost 100 s, "
            "lost 200 s}; thorough: all 4096, quick: a third); 4-node graphs over the 9 arcs not entering the node itself x 4 "
            "states (thorough: all 262144, quick: every 97th); random graphs on 2..8 nodes with ties; random histories of "
            "notify/appear/disappear/purge/compute/cron with a checkpoint after every operation; neighbours that come back "
            "(lost 1..45 units ago and re-appeared before / after the purge time of 30.5 units, next to a live / more recently "
            "lost / long lost alternative; a dense random family of appear/disappear/purge/compute over 2-5 neighbours): at every "
            "checkpoint the node's own record of every currently connected neighbour must be live, and the table is also judged "
            "against the graph with those links at cost 0; concurrent delivery: 2-8 goroutines released together hand updates of "
            "one origin with distinct timestamps to NotifyNewBundle (new and known origins, a third through the wire form) next to "
            "the recompute job, 600 rounds (thorough 15000): the stored record is the newest delivered; forwarding through a whole "
            "Core (unicast, service endpoints, unknown nodes, broadcast relay / re-offer / own broadcast, a peer that goes down "
            "and comes back before the table is computed). "
            "distinct = distinct case bodies",
    "assumptions": ["every recorded loss time lies in the past of the recomputation (dt_past); |now - t| < 2^63"],
    "trusted_base": ["github.com/RyanCarrier/dijkstra v1.0.0 is not modelled: its output (the Go routing table) is validated "
                     "on every case by the proved checker dt_ofh_b / dt_reachable_b, not predicted",
                     "computeRoutingTable reads the clock itself: cases use loss times 100 s apart and run for milliseconds "
                     "(cases slower than 10 s are dropped and counted)",
                     "pkg/routing/verif_export_dtlsr.go (state copy, VerifSetPeerTime back-dates a recorded loss time)"],
    "level_text": "Bellman-Ford reference proved to return the minimum path cost / None iff unreachable for every finite graph with "
                  "non-negative costs; the model's table proved to hold an entry exactly for reachable nodes and every entry to be "
                  "the first hop (an own current or recently lost neighbour) of a loop-free least-cost path, for every reachable "
                  "state; replacement proved for every history / arrival order; forwarding choice proved. The Go table is "
                  "validated against the proved checker (translation validation), the state and forwarding compared with the model.",
    "level_note": "Proof is about the model; the Dijkstra library is trusted only as far as its output is validated per case. "
                  "The atomicity of NotifyNewBundle (dataMutex held from look-up to store) is not modelled: it is sampled by the "
                  "concurrent-delivery scenario, whose verdict relies on C20_replace_any_order; the cron goroutines are outside the model. "
                  "Records claiming the node's own ID and peers that disappear without having appeared are modelled as they are.",
    "timeout_quick": 600,
    "timeout_thorough": 6000,
}
