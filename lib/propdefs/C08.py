P = {
    "gens": ["C08store"],
    "theorems": [
        "C08_refines_map", "C08_op_commutes", "C08_empty_store_wf", "C08_map_laws", "C08_pending_exact",
        "C08_readback_and_fragments_once", "C08_fragment_recorded", "C08_complete_iff_cover",
        "C08_complete_other_cases", "C08_crash_safe", "C08_crash_observable", "C08_crash_recovery", "C08_concurrent_fragments",
        "C08_concurrent_fragments_unlocked_refuted", "C08_complete_orig_scan_refuted",
        "C08_decoder_hypothesis_satisfiable",
    ],
    "rule": "exhaustive: all sequences of length 2 (quick) / 4 (thorough) over 7 operations on one bundle ID; seq: random sequences (quick 150 x 5..25 ops, thorough 3000) over {push bundle / same-ID variant / fragment of one "
            "or two fragmentations (overlapping, nested), update pending+properties+expiry, delete, expiry sweep, query id / "
            "pending / knows / complete, close+reopen} - every operation that names a record addressed by a drawn one of the IDs "
            "denoting it (the scrubbed bundle ID or the full ID of one of its fragments; delete also through "
            "routing.BundleDescriptor.Sync), same demanded effect whichever is used (keys *.by-fragment-id) - on the real storage.Store, "
            "a full dump (records, loaded parts, part "
            "files) after every operation, compared with the extracted model and the reference map; bundles with exceeded "
            "and with far-future lifetimes (never near now). hand: 48 (thorough 960) records of hand-built fragments that dtn7's own "
            "Fragment() never emits - a lone fragment covering the whole payload (also of an empty payload), lone partial ones, "
            "fragmentations at drawn cut points (uneven, 1-byte pieces, overlapping) in a drawn order, mixed with dtn7's own - "
            "IsComplete asked after every arrival and judged against brute-force covering, then query / update / delete under "
            "fragment IDs and the fragments arriving again; half of the random universes carry such fragments too. crash: every crash point (push before insert / before update, "
            "delete after the n-th part file / before the index delete, the same inside an expiry sweep, point not reached) "
            "in a killed child process, reopened by a real routing.Core (spray / epidemic / prophet / binary_spray) whose "
            "entry points (checkPendingBundles, DeleteExpired, Push of the same bundle or of a same-ID variant over the "
            "orphan file) must not panic and must keep every other record. conc: N goroutines push the N fragments of one "
            "bundle. distinct = distinct case bodies",
    "assumptions": [
        "badgerhold/badger (third party, not modelled): a completed Insert/Update/Delete is atomic and durable, Get fails "
        "only with ErrNotFound, Find returns exactly the matching records; a process kill (os.Exit, no Close) does not lose "
        "completed file writes / removals and leaves a directory badger reopens (exercised by the crash cases, not proven)",
        "sha256 of the bundle-ID string is injective on the IDs in play (the model names a part file by the ID itself)",
        "the bundle codec is a prefix code: parsing a part file stops at the end of the first bundle written into it "
        "(storeBundle opens without O_TRUNC, a shorter rewrite keeps a stale tail); hypothesis of the theorems, shown "
        "satisfiable by a toy codec; the real codec's prefix property is C01's subject and is exercised by the "
        "push-over-orphan-file crash scenario",
        "ParseBundle (CheckValid) refuses a bundle whose own lifetime is exceeded: such a part is stored but does not load; "
        "the theorems speak about one observation time (live fixed), the generated lifetimes are never near now",
        "power loss / fsync durability of part files and the file descriptors that storeBundle and Load never close are "
        "outside the property's process-kill scope",
        "uint64 wrap-around of fragment offset + length is not modelled (N is unbounded)",
        "concurrency is modelled for two Push calls under the store mutex (all schedules); Update/Delete under the same "
        "mutex and more than two threads are exercised (5-fragment stress), not proven",
    ],
    "trusted_base": [
        "Coq 8.16.1 kernel; extraction to OCaml (ExtrOcamlBasic); the hand-written model Model/Store.v and its "
        "correspondence to pkg/storage/store.go, bundle_item.go, bpv7.prepareReassembly, BundleDescriptor.Bundle, "
        "checkPendingBundles (checked differentially, bounded by the generators)",
        "Go runtime / os file API / badger / badgerhold / gob",
    ],
    "level_text": "Refinement of the micro-step model of the store (index x part files) to an in-memory reference map for all "
                  "operation histories; crash safety for every prefix of every operation's micro-steps; serialisability of two "
                  "concurrent fragment pushes under the store mutex for all schedules; complete <=> covering. The model is "
                  "run against the real storage.Store (incl. killed child processes and a real routing.Core restart).",
    "level_note": "partial: proof is about the model; badgerhold/badger atomicity + durability and the file system are assumed "
                  "and exercised, not verified; the decoder is an abstract prefix code.",
    "timeout_quick": 600,
    "timeout_thorough": 7200,
}
