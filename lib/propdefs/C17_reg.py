# part of C17 (merged by lib/props.py): the codecs' registries as state and the first use of the codecs' singletons.
# Generator harness/wirereg.go, glue ocaml/d_wirereg.ml.  No new model operation: the registry is a finite map
# code -> type whose whole specification (taken code => refused, nothing changes; free code => stored; removal
# deletes the code) is the reference in the glue; the messages behind every operation are judged by the existing
# dec_stream / enc_aux as in the C17auxcbor stream cases.
P = {
    "gens": ["C17reg"],
    "theorems": [],
    "rule": "C17reg: reg = 80 (thorough 3000) sequences of 2-10 Register / Unregister calls on the AdministrativeRecordManager "
            "(singleton and a fresh one) and the ExtensionBlockManager (singleton and a fresh one): another type for a taken "
            "code, the same type again, a GenericExtensionBlock (all refused), a fresh code and its removal, removal of a "
            "built-in type (by its own / by another type of its code) and its re-registration; behind every call a probe "
            "(IsKnown and the Go type created for every code of a small universe) and a stream of 4-7 messages "
            "(administrative records between timestamps / endpoints; WebSocket-agent messages carrying bundles with "
            "extension blocks) written and read back from one reader. Rule: the probe behind a refused registration equals "
            "the one in front of it; results and probes follow the reference registry; the stream reads back as written "
            "whenever the reference registry holds the built-in types. The generator runs in its own process and restores "
            "the singletons behind every sequence. firstuse = 16 (thorough 600) fresh child processes whose first "
            "operations are NewEndpointID / EndpointID.UnmarshalCbor (+ bundle IDs, administrative records) by 2-16 "
            "goroutines released at a barrier: every result equals the sequential one, the process survives. "
            "The endpoint manager exports no registration entry point (its scheme registry is fixed)",
    "assumptions": [],
    "trusted_base": [
        "first use of a singleton by several goroutines is a schedule, not an input: the quick tier only keeps the scenario "
        "alive, the thorough tier repeats it 600 times",
    ],
}
