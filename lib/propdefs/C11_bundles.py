P = {
    "gens": [],
    "theorems": ["C11_bundles", "C11_send_bundle"],
    "rule": "C11 composed with C01: what the TCPCL receiver of Model/Tcpcl.v hands up parses with Model/Bundle.v dec_bundle as the bundle sent",
    "assumptions": [],
    "trusted_base": [],
}
