P = {
    "gens": ["C02rules", "C01parse", "C02produce"],
    "theorems": ["C02_accept_sound", "C02_checkvalid_sound", "C02_valid_accepted"],
    "rule": "C02rules: for each CRC type, encodings (own CBOR writer, CRCs recomputed) that violate exactly one rule: version, "
            "payload missing/twice/not last/number, duplicate numbers/types, 11 kinds of bad endpoint ID in 4 positions, each "
            "flag contradiction, zero time without age, age/lifetime, expiry, hop count, array lengths, unknown CRC types, "
            "CRC field presence, wrong CRC, non-minimal heads, nested invalid IDs, signature lengths - plus the tolerated "
            "layouts (named ok.*); the property checker demands rejection of every non-ok case and acceptance of every ok "
            "case, and re-evaluates the rule set on what the parser returned. C01parse adds random valid bundles and mutants. "
            "C02produce (second sentence): random builder call sequences with Build calls interleaved (earlier results re-checked at "
            "the end), random BuildFromMap argument maps, Fragment and ReassembleFragments of received bundles with arbitrary wire "
            "order and flags, AddExtensionBlock on received bundles, and every bundle a running Core hands to a convergence layer "
            "under each routing algorithm (forwarded bundles, status reports, pongs, DTLSR/PRoPHET/spray metadata): each produced "
            "bundle must be accepted by the real parser and by the model decoder.",
    "assumptions": ["see C01"],
    "trusted_base": ["see C01"],
    "level_text": "Soundness theorem: the parser model accepts only bundles satisfying the declarative rule record WellFormed, "
                  "for all byte strings; completeness for valid in-range bundles from the round trip. The rule-violation "
                  "generator makes each single rule observable on the real parser.",
    "level_note": "Producer side (Builder, BuildFromMap, Fragment, reassembly, status reports, pongs, metadata bundles): the theorem "
                  "C02_valid_accepted says whatever passes CheckValid is accepted by the parser; that each producer's output "
                  "passes is proved for the builder (Model/Builder.v: every Build of every call sequence, C02_builder_*; replayed "
                  "against the real builder by C02builder) and for fragmentation / reassembly / forwarding / status reports by the "
                  "models of C09, C10, C06 and C15; BuildFromMap (unspecified map iteration order) and the routing-metadata "
                  "bundles are judged on real outputs by C02produce / C02node with the model decoder as oracle.",
}
