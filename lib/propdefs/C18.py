P = {
    "gens": ["C18spray"],
    "theorems": ["C18_budget", "C18_accounting", "C18_giveback", "C18_reachable", "C18_giveback_concurrent",
                 "C18_giveback_single", "C18_binary", "C18_binary_single_copy", "C18_binary_conservation"],
    "rule": "histories of {create (submit / receive with k copies, PreviousNodeBlock), sender up (link failing or not) / down, "
            "link starts / stops failing, retry tick, metadata GC} on a real routing.Core (spray, binary_spray) with scripted mock "
            "senders, 1..3 bundles per history replayed through independent per-bundle instances of the extracted model "
            "(observed choice of senders validated by the model's guard); hand-made boundary histories (the three repaired "
            "defects, L = 1..8 with six relays), concurrent-failure stress (six failing relays, repeated ticks; 'sync' histories "
            "delay every report inside its read-modify-write window), bounded-exhaustive histories over a 3-sender alphabet "
            "(quick: depth 3, L = 2; thorough: depth 4 for L = 1,3 and depth 5 for L = 2), random histories L = 1..8, 0..6 senders, "
            "length 8..35; distinct = distinct case bodies (history + observations)",
    "assumptions": [
        "a bundle is created once (duplicates of a stored bundle never reach the algorithm: Core.receive drops them; "
        "re-submitting the same bundle re-initialises its budget and is outside the model)",
        "received bundles do not carry their own destination node in the PreviousNodeBlock (hist_wf); needed for the "
        "binary-spray and per-pass theorems, not for C18_budget / C18_accounting",
        "forwarding passes of one bundle do not overlap (the cron-fired checkPendingBundles racing the handler goroutine is "
        "not modelled, DESIGN.md 1.2); within a pass the concurrent ReportFailure calls are modelled (C18_giveback_concurrent)",
    ],
    "trusted_base": [
        "Model/Spray.v as a description of algorithm_spray.go + Core.forward's use of it (tied by the differential check: "
        "transmissions per sender with outcome and BinarySprayBlock value parsed from the sent bytes, metadata via accessor "
        "hook, store membership, after every event)",
        "peer endpoint IDs are node-level, so == on peer EIDs and SameNode(destination) are both equality of node numbers",
        "sync.RWMutex gives mutual exclusion (the lock of the sub-step model)",
    ],
    "level_text": "Invariant proofs over the Gallina model for every budget L, every history and every oracle "
                  "(remaining + handed-over = L; structural invariant of the metadata; serialisability of two concurrent "
                  "failure reports under the lock); trace inclusion implementation <= model checked differentially on a real Core.",
    "level_note": "Proof is about the model of the repaired code (three fix commits); the tie to Go is the differential check "
                  "(bounded by generator quality). Go runtime, badger store, cboring are modelled not verified.",
    "timeout_quick": 600,
    "timeout_thorough": 6000,
}
