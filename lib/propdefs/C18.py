P = {
    "gens": ["C18spray", "C18sprayconc", "C18spraynames"],
    "theorems": ["C18_budget", "C18_life", "C18_life_single_create", "C18_accounting", "C18_sent_list", "C18_giveback", "C18_reachable", "C18_giveback_concurrent",
                 "C18_giveback_single", "C18_binary", "C18_binary_single_copy", "C18_binary_conservation",
                 "C18_gc_overlap_serial", "C18_gc_overlap_transparent"],
    "rule": "histories of {create (submit / receive with k copies, PreviousNodeBlock; also a bundle of this node received from a "
            "neighbour), the same bundle received again (a duplicate while the store knows it / the bundle coming back after it was "
            "delivered and left the store: a new life with freshly initialised metadata, judged against its own budget), sender up "
            "(link failing or not) / down, link starts / stops failing, retry tick, metadata GC} on a real routing.Core (spray, binary_spray) with scripted mock "
            "senders, 1..3 bundles per history replayed through independent per-bundle instances of the extracted model "
            "(observed choice of senders validated by the model's guard); hand-made boundary histories (the three repaired "
            "defects, L = 1..8 with six relays), concurrent-failure stress (six failing relays, repeated ticks; 'sync' histories "
            "delay every report inside its read-modify-write window), bounded-exhaustive histories over a 3-sender alphabet "
            "(quick: depth 3, L = 2; thorough: depth 4 for L = 1,3 and depth 5 for L = 2), random histories L = 1..8, 0..6 senders, "
            "length 8..35; C18sprayconc: histories (hand-made for L = 2, 3, 5, 8 and random, both algorithms, bundles addressed to a node "
            "that never is a peer) in which submit / peer-appeared / retry events are processed while the periodic metadata garbage "
            "collection is in progress - made long by 800 metadata leftovers of bundles unknown to the store (hook "
            "VerifSprayAddLeftovers), started before the event, from inside SenderForBundle (first GetPeerEndpointID call of the mock "
            "sender: between reading the metadata and writing it back) or from inside the first Send (failure reports arrive while it "
            "runs); same model replay (Model.spray_step_gc: either serial order) and property checkers after every event (relays "
            "<= L-1, remaining + handed over = L, binary announced + kept = held, a pending bundle keeps its metadata), plus: exactly "
            "the leftovers are gone from the metadata map; C18spraynames: the same histories, replay and checkers with (1) MIXED NAMING - the "
            "numbered nodes carry nearly colliding endpoint IDs (dtn://23/ vs ipn:23.1, names differing only in letter case, names that "
            "are prefixes of each other); hand-made histories per pair of twins (the destination's twin connected while the destination "
            "is absent / its link fails / it appears later; submitted and received bundles, L = 1, 2, 4) and random ones: a twin is just "
            "another relay (it takes a copy or, in the wait phase, gets nothing); (2) the CONFIGURATION sensor-mule around spray / "
            "binary_spray (sensors = nodes 1, 3, 5 of six peers, L = 2..8, several selected in one pass, destinations: absent node / a "
            "sensor / a relay; random histories): the model does not follow the overlay's exclusion passes, so these histories are judged "
            "by the property's own checkers on the send log and the metadata hook only (relays <= L-1, remaining + handed over = L, binary "
            "conservation, single copy) plus: the sent list names exactly the relays that got the bundle (an excluded sensor is neither "
            "charged nor listed); distinct = distinct case bodies (history + observations)",
    "assumptions": [
        "the budget is kept per life of a bundle on the node (from entering the store to leaving it): a duplicate of a stored "
        "bundle never reaches the algorithm (Core.receive drops it - modelled and exercised), but a bundle that left the store "
        "and is received again gets freshly initialised metadata, so over several lives more than L-1 copies can be handed out "
        "(C18_budget_across_lives; the node keeps no memory of delivered bundles); re-submitting the same bundle through "
        "SendBundle is outside the model",
        "received bundles do not carry their own destination node in the PreviousNodeBlock (hist_wf); since fix 772c5cf "
        "(previous node of an own bundle recorded in the sent list) also needed for C18_budget / C18_accounting: a failed "
        "direct delivery to a recorded previous node gives back a copy that was never taken (C18_budget_needs_wf)",
        "forwarding passes of one bundle do not overlap (the cron-fired checkPendingBundles racing the handler goroutine is "
        "not modelled, DESIGN.md 1.2); within a pass the concurrent ReportFailure calls are modelled (C18_giveback_concurrent); "
        "the garbage-collection cron job overlapping a pass / a submit is modelled as atomic (it holds the write lock throughout: "
        "C18_gc_overlap_serial) and exercised on the real code by C18sprayconc",
    ],
    "trusted_base": [
        "Model/Spray.v as a description of algorithm_spray.go + Core.forward's use of it (tied by the differential check: "
        "transmissions per sender with outcome and BinarySprayBlock value parsed from the sent bytes, metadata via accessor "
        "hook, store membership, after every event)",
        "peer endpoint IDs are node-level, so == on peer EIDs and SameNode(destination) are both equality of node numbers",
        "sync.RWMutex gives mutual exclusion (the lock of the sub-step model)",
        "hook pkg/routing/verif_export_spraymule.go: VerifSprayMetaInner / VerifSprayGCInner (metadata accessor and synchronous GC of "
        "the spray algorithm beneath a sensor-mule overlay)",
        "hook pkg/routing/verif_export_spraygc.go: VerifSprayAddLeftovers (metadata entries of bundles the store does not know, as "
        "expired bundles leave them behind) and VerifSprayMetaCount; the overlap of the collection with an event is produced by "
        "schedule points in the harness's mock senders, not inside the unguarded code",
    ],
    "level_text": "Invariant proofs over the Gallina model for every budget L, every history and every oracle "
                  "(remaining + handed-over = L; structural invariant of the metadata; serialisability of two concurrent "
                  "failure reports under the lock); trace inclusion implementation <= model checked differentially on a real Core.",
    "level_note": "Proof is about the model of the repaired code (fix commits 455be3c, 1cb3f8c, 4c692e7, 2edd1c0, 772c5cf); the tie to Go is the differential check "
                  "(bounded by generator quality). Go runtime, badger store, cboring are modelled not verified.",
    "timeout_quick": 600,
    "timeout_thorough": 6000,
}
