# DRAFT for the integrator (not loaded by lib/props.py): the TCPCLv4 message-codec part of C17 and C04.
# Merge "gens"/"theorems"/"rule"/"assumptions"/"trusted_base" of P_C17 into lib/propdefs/C17.py and of
# P_C04 into lib/propdefs/C04.py; the Coq statements are in coq/Properties/C17_tcpclmsg_draft.v
# (add `TcpclMsg TcpclMsgProofs ConstsOkTcpclMsg` to the Require line of Properties/C17.v / C04.v).

P_C17 = {
    "gens": ["C17tcpclmsg"],
    "theorems": ["C17_tcpcl_contact_roundtrip", "C17_tcpcl_sess_init_roundtrip", "C17_tcpcl_sess_term_roundtrip",
                 "C17_tcpcl_xfer_segment_roundtrip", "C17_tcpcl_xfer_ack_roundtrip", "C17_tcpcl_xfer_refuse_roundtrip",
                 "C17_tcpcl_keepalive_roundtrip", "C17_tcpcl_msg_reject_roundtrip", "C17_tcpcl_read_roundtrip",
                 "C17_tcpcl_stream", "C17_tcpcl_reject", "C17_tcpcl_reject_sweep", "C17_tcpcl_sess_init_overlong"],
    "rule": "TCPCLv4 codec: rt = every message type built with its constructor, every numeric field in {0, 1, max of its "
            "width}, node id / data of length 0, 1, 255, 256, 65534, 65535 (and 65536.. beyond the encoder's limit; thorough "
            "1 MiB data), all 256 values of every reason code and of the contact flags, plus random well-formed values: "
            "Marshal, append 0-3 random bytes, ReadMessage and Unmarshal, compare value and bytes left; code = raw encodings "
            "with the type octet, each reason code, each magic/version octet and the flags octet swept over 0..255 "
            "(exhaustive); valid = the three IsValid predicates on 0..255; stream = 0-8 random well-formed messages "
            "marshalled into one buffer (clean / cut at a random offset / followed by garbage), read back with ReadMessage "
            "until EOF or error from a bytes.Reader or a bufio.Reader over it. distinct = distinct case bodies",
    "assumptions": [
        "binary.Read / binary.Write / io.ReadFull / io.MultiReader / bufio.Reader behave as documented (big-endian fixed "
        "width fields, a struct is read field by field, short input = error)",
    ],
    "trusted_base": [
        "tm_wf = values of the Go field types with an enumerated reason code, node id <= 65535 bytes, data < 2^63 bytes; "
        "beyond it Marshal neither fails nor truncates: it writes uint16(len(NodeId)) (the length wraps modulo 65536, all "
        "bytes are written - C17_tcpcl_sess_init_overlong) and writes any reason code (the decoder then rejects it)",
        "flag octets (contact, SESS_TERM, XFER_SEGMENT / XFER_ACK) are bit sets, not code fields: every value is accepted "
        "and returned unchanged (RFC 9174: unknown bits are ignored), stated in C17_tcpcl_reject / _reject_sweep",
        "session / transfer extension items are skipped by the decoder and never produced by the encoder: decoding is not "
        "injective (a message with items decodes to the value without them); XFER_SEGMENT data of length 0 decodes to nil",
        "the IsValid switch statements are tied to the model by the exhaustive 0..255 sweep (goconsts only sees the "
        "declared constants, not the case lists)",
        "WebSocket framing (message_switch_websocket.go) and the goroutine/channel plumbing of MessageSwitchReaderWriter "
        "are not modelled; the stream model is its handleIn loop",
    ],
}

P_C04 = {
    "gens": ["C04tcpclmsg"],
    "theorems": ["C04_tcpcl_no_panic", "C04_tcpcl_alloc_bounded", "C04_tcpcl_stream_safe", "C04_tcpcl_terminates",
                 "C04_tcpcl_orig_refuted"],
    "rule": "TCPCLv4 ReadMessage in child processes (address space limited to 1.25 GiB, 30 s watchdog, one child per batch, "
            "replaced when it dies): the encoding of one sample of each message type truncated at every offset; the four "
            "wire length fields (SESS_INIT node-id length and session-extension length, XFER_SEGMENT transfer-extension "
            "length and data length) overwritten with {0,1,23,24,2^16,2^20,2^27,2^31-1,2^31,2^32-1,2^62,2^63,2^64-1} as far as the "
            "width allows (thorough: 10 more values), each with the rest of the message, with nothing, and with 40 extra "
            "bytes behind it; extension items really present / one byte short; legitimate fields of 512..200000 bytes "
            "(thorough 3 MiB) complete, one byte short and cut in half; 300 (thorough 20000) random mutations of valid "
            "encodings and 100 random strings. Observed: class ok|err|panic|oom|crash|timeout, decoded value, bytes left, "
            "runtime.MemStats.TotalAlloc delta; required: class ok|err and delta <= 8*len + 65535 + 20000 (property) and "
            "<= model account + 20000 (correspondence). distinct = distinct case bodies",
    "assumptions": [
        "the allocation account covers allocations whose size comes from a wire field (make([]byte, n), string(buf), the "
        "growth of io.ReadAll's buffer, charged as 8*k+1024 for k bytes read); fixed-size scratch (binary.Read buffers, "
        "MultiReader, error values, io.Discard's pooled 8 KiB block) is covered by the constant 20000 in the harness",
    ],
    "trusted_base": [
        "memory is accounted in the model and measured on the implementation (TotalAlloc delta of one ReadMessage call in "
        "a warmed-up child); the growth policy of io.ReadAll / append is library code, bounded empirically (<= 6.2x)",
        "make([]byte, n) is modelled as: panic for n > 2^48 (linux/amd64 maxAlloc), otherwise n bytes allocated before "
        "the read; only the SESS_INIT node id (n < 2^16) still uses it after the fixes",
        "inputs are byte lists (bytes_ok); hangs inside library code cannot be exhibited by the model, only by the watchdog",
    ],
}
  # what a loader expecting a single dict would take

P = P_C17
