P = {
    "gens": [],
    "theorems": ["C11_session_receiver_progress", "C11_session_receiver_progress_real",
                 "C11_session_receiver_stalls_without_fix", "C11_send_success_sound_conc",
                 "C11_pair_bulk_stall_refuted", "C11_pair_one_direction_stall_refuted",
                 "C11_pair_stall_window", "C11_pair_progress_one_direction", "C11_pair_progress_window",
                 "C11_conc_capacities"],
    "rule": "",
    "assumptions": [
        "conc: progress is stated for runs without Send timeouts (the 10 s timer) against a peer that sends no "
        "refusals; keepalive ticks may occur in the runs of the one-session theorem but do not count as progress; the "
        "pair theorems are for runs without ticks (an established session sends a KEEPALIVE at most every 15 s). "
        "C11_send_success_sound_conc holds for all runs, timeouts, ticks and refusals included",
        "conc: the peer of the one-session theorems is ideal: it reads whatever is written, acknowledges every segment it "
        "read with the length an honest receiver produces, and writes any sequence of segments / keepalives at any speed",
        "conc: the consumer of Client.Channel() keeps reading (otherwise reportChan, capacity 32, fills and the receiving "
        "side stops by design)",
        "conc: one segment carries one unit of data (acknowledged length of the k-th segment of a transfer = k); the byte "
        "level is the subject of the other C11 theorems",
    ],
    "trusted_base": [
        "conc: Go channel semantics as modelled: a buffered channel of capacity c is a FIFO that blocks the sender at c "
        "elements and the receiver at 0; an unbuffered channel (chanBundles, the ticker channel) is a hand-over between "
        "two goroutines that are both at the operation; a select with several ready cases takes any of them",
        "conc: the transport is a FIFO of T messages per direction (T = 0: net.Pipe, a write returns when the reader has "
        "taken the message; TCP: T = what socket buffers and the reader's bufio hold, counted in messages); WebSocket "
        "(message_switch_websocket.go) has the same channel structure but is not pinned by ConstsOkTcpclConc",
        "conc: session termination is outside the model (SESS_TERM, Close, stage errors, the error exits of "
        "TransferManager.handle end the modelled world: HDead); tm.stopped / closeChan are not modelled; the "
        "correspondence of this model with the code is by reading plus the literal / operator shapes pinned in "
        "ConstsOkTcpclConc (capacities 32 x 6, unbuffered chanBundles, the select cases of Handle / handleMsgIn / "
        "TransferManager.handle), not by a differential run; the stalls it predicts were reproduced with the real "
        "code (defect (1) before b52fcd3, finding (2), and the one-direction stall over net.Pipe)",
    ],
}
