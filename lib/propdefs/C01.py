P = {
    "gens": ["C01parse", "C02rules", "C01state"],
    "theorems": ["C01_roundtrip", "C01_reserialise"],
    "rule": "C01parse: bundles built from the Go structs (dtn/ipn/none endpoints, every admissible flag combination incl. "
            "reserved bits, CRC none/16/32 per block, fragments, all eight registered block types + unknown types, field "
            "values and payload sizes on both sides of 23/24, 255/256, 65535/65536, 2^32, 2^63; thorough: one > 1 MiB) "
            "serialised by Go and parsed back; 3-4 byte-level mutants per bundle (bit flips, interesting bytes, truncation, "
            "insertion, deletion, trailing garbage, break codes) and random garbage; C02rules: ~350 hand-crafted encodings "
            "(own CBOR writer) each violating exactly one rule or using a tolerated non-minimal layout. Every case: accept/"
            "reject, parsed structure, ID string, bytes consumed, re-serialisation, second parse and second serialisation "
            "compared with the model; distinct = distinct case bodies. "
            "C01state (codec not in its initial state, not alone; harness/codecstate.go): ref = a valid bundle (every second one "
            "carries all eight registered block types + an unknown one) serialised and parsed back alone, judged like a C01parse "
            "valid case; rd = two bundles behind each other parsed from one reader that delivers the bytes in pieces (one byte, "
            "half, random sizes, a boundary at every offset around the bundle boundary, small / default bufio): same bundles and "
            "offsets as from a bytes.Reader and the model; ser = serialisations (WriteBundle, MarshalCbor, block by block) that "
            "fail - writers failing at every (quick: every 3rd) offset, or an unencodable block value - and parses that fail (cut "
            "encodings), 1-3 in a row, each run "
            "followed by a serialisation into a healthy writer: the output must be the encoding produced before any failure and "
            "parse back to the bundle (judged like a valid case, model included); reent = a bundle serialised into a writer that "
            "serialises another bundle before / after it takes each Write: both outputs must be the reference encodings; conc = 8 (12) goroutines x 1200 (5000) iterations x "
            "3 (12) rounds, each serialising (plain buffer / a writer yielding on every Write) and parsing ITS OWN two (three) bundles, "
            "which carry all block types with values that differ per goroutine: every output must be the encoding produced alone "
            "(blocks with several map entries: parse back to the bundle) - every other output is reported with what it parses to - "
            "and every parse of the own encoding must give the own bundle",
    "assumptions": ["all eight block types are registered with the ExtensionBlockManager (the harness registers them; the "
                    "daemon registers the routing blocks of the configured algorithm only)",
                    "creation time + lifetime is never within 500 ms of the wall clock (cases inside the bracket are skipped)"],
    "trusted_base": ["cboring v0.1.5 transcribed into Model/Cbor.v (modelled, covered by the correspondence)",
                     "Go regexp semantics of the dtn SSP pattern transcribed as span_node / parse_ssp"],
    "level_text": "Round-trip theorem for every well-formed valid bundle, with exact consumption (so streams stay aligned), "
                  "by structural induction over blocks and byte lists - no size bound. The model (decoder, encoder, CheckValid) "
                  "is run against ParseBundle / WriteBundle on generated, mutated and hand-crafted inputs.",
    "level_note": "Both sentences of the property are proved for the model (C01_reserialise rests on Proofs/DecodeWf.v: a "
                  "successful decode puts every field in range and the canonical re-encoding of each component is no longer "
                  "than the bytes it was read from). Proof is about the model; the tie to Go is the differential check.",
    "timeout_quick": 900,
}
