#!/usr/bin/env python3
"""regenerates MANIFEST.json from lib/props.py (single source of truth for what is claimed)"""
import json, os, subprocess, sys
sys.path.insert(0, os.path.dirname(os.path.abspath(__file__)))
from props import PROPS, NOT_CLAIMED

V = os.path.dirname(os.path.dirname(os.path.abspath(__file__)))
hooks = subprocess.run("git -C /repo log --format=%H --grep='^verif hook' ", shell=True, stdout=subprocess.PIPE,
                       universal_newlines=True).stdout.split()
checks = []
for pid in sorted(PROPS):
    P = PROPS[pid]
    checks.append({
        "property_id": pid,
        "quick_cmd": "./check %s --tier quick" % pid,
        "thorough_cmd": "./check %s --tier thorough" % pid,
        "evidence_file": "evidence/%s.json" % pid,
        "replay_cmd_template": "./check %s --replay {path}" % pid,
        "engine": "coq-model+correspondence",
        "level_claimed": {"category": "proof", "text": P["level_text"], "design_ref": "DESIGN.md §3 " + pid},
        "level_note": P["level_note"],
        "technique": P.get("technique", "machine-checked proof in Coq 8.16.1 over a hand-written executable Gallina model, "
                                        "tied to the Go code by a differential correspondence check (extracted OCaml model vs. real implementation)"),
    })
m = {
    "version": 1,
    "setup_cmd": "./setup.sh",
    "hooks": {
        "guard": "verif",
        "enable": "go build -tags verif (harness module replaces github.com/dtn7/dtn7-go => /repo)",
        "baseline_off_cmd": "cd /repo && GOFLAGS=-mod=mod GOPROXY=off GOSUMDB=off go test -vet=off -count=1 -timeout 25m ./...",
        "source_commits": hooks,
        "add_only": True,
    },
    "engines": [{
        "name": "coq-model+correspondence", "path": "check",
        "serves_properties": sorted(PROPS),
        "kind_free_text": "Coq 8.16.1 theorems over an executable Gallina model (coq/); model extracted to OCaml (ocaml/) and "
                          "run against the real Go implementation (harness/, -tags verif) on generated cases; constants "
                          "regenerated from /repo by tools/goconsts and proved equal to the model's (Proofs/ConstsOk.v)",
    }],
    "checks": checks,
    "notes": "See DESIGN.md. KNOWN_FINDINGS.txt lists genuine defects recorded rather than repaired and the fix: commits.",
    "not_applicable": [{"property_id": k, "reason": v} for k, v in sorted(NOT_CLAIMED.items())],
}
json.dump(m, open(os.path.join(V, "MANIFEST.json"), "w"), indent=1)
print("MANIFEST.json: %d checks, %d not claimed" % (len(checks), len(NOT_CLAIMED)))
