#!/bin/sh
# seedtest.sh <patch.diff> <prop> [<prop> ...]: apply a seeded change to /repo, run the checks, undo it.
P="$1"; shift
cd /repo || exit 2
if [ -n "$(git status --porcelain)" ]; then echo "/repo not clean"; exit 2; fi
git apply "$P" || { echo "patch does not apply"; exit 2; }
for id in "$@"; do
  (cd /verif && ./check "$id" 2>&1 | grep -E "VIOLATION|KNOWN-FINDING|BROKEN|MISMATCH|quick:" | cut -c1-260)
done
git checkout -- . ; git clean -fdq
[ -z "$(git status --porcelain)" ] && echo "/repo restored"
