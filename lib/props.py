# collects the per-property configuration from lib/propdefs/C??.py (each defines P = {...}) and the
# optional part files lib/propdefs/C??_<area>.py (same keys; lists are appended, the rule text is joined)
import os, glob, importlib.util, re

PROPS = {}
_d = os.path.join(os.path.dirname(os.path.abspath(__file__)), "propdefs")


def _load(f):
    spec = importlib.util.spec_from_file_location("propdef_" + os.path.basename(f)[:-3], f)
    m = importlib.util.module_from_spec(spec)
    spec.loader.exec_module(m)
    return m.P


for _f in sorted(glob.glob(os.path.join(_d, "C*.py"))):
    _n = os.path.basename(_f)[:-3]
    if re.fullmatch(r"C\d+", _n):
        PROPS[_n] = dict(_load(_f))
for _f in sorted(glob.glob(os.path.join(_d, "C*_*.py"))):
    _n = os.path.basename(_f)[:-3]
    _pid = _n.split("_")[0]
    if _pid not in PROPS:
        continue
    _part = _load(_f)
    _P = PROPS[_pid]
    for _k in ("gens", "theorems", "assumptions", "trusted_base"):
        _P[_k] = list(_P.get(_k, [])) + [x for x in _part.get(_k, []) if x not in _P.get(_k, [])]
    if _part.get("rule"):
        _P["rule"] = _P.get("rule", "") + " || " + _n + ": " + _part["rule"]
    for _k in ("timeout_quick", "timeout_thorough"):
        if _k in _part:
            _P[_k] = max(_P.get(_k, 0), _part[_k])

ALL = ["C%02d" % i for i in range(1, 21)]
# properties not (yet) claimed, with the reason (kept current; see DESIGN.md)
NOT_CLAIMED = {
    pid: "model and correspondence check for this property are not built yet in this tree (work in progress; see DESIGN.md §5)"
    for pid in ALL if pid not in PROPS
}
