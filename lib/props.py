# collects the per-property configuration from lib/propdefs/C??.py (each defines P = {...})
import os, glob, importlib.util

PROPS = {}
_d = os.path.join(os.path.dirname(os.path.abspath(__file__)), "propdefs")
for _f in sorted(glob.glob(os.path.join(_d, "C*.py"))):
    _spec = importlib.util.spec_from_file_location("propdef_" + os.path.basename(_f)[:-3], _f)
    _m = importlib.util.module_from_spec(_spec)
    _spec.loader.exec_module(_m)
    PROPS[os.path.basename(_f)[:-3]] = _m.P

ALL = ["C%02d" % i for i in range(1, 21)]
# properties not (yet) claimed, with the reason (kept current; see DESIGN.md)
NOT_CLAIMED = {
    pid: "model and correspondence check for this property are not built yet in this tree (work in progress; see DESIGN.md §5)"
    for pid in ALL if pid not in PROPS
}
