#!/bin/bash
# seedproc.sh <id>: seedverify + store as seeded/<id>-r4-1 + seedtest for one round-4 seed delivered in /tmp/mut4/w_<id>/out/1
id=$1
cd /verif
lib/seedverify.sh /tmp/mut4/w_$id/out/1 > /tmp/mut4/sv_$id.log 2>&1
d=seeded/$id-r4-1; mkdir -p $d
cp /tmp/mut4/w_$id/out/1/{patch.diff,demo_test.go,README.md,meta.json} $d/ 2>/dev/null
cp /tmp/mut4/sv_$id.log $d/seedverify.log
cat /tmp/mut4/sv_$id.log
echo "== check $id"
lib/seedtest.sh /verif/seeded/$id-r4-1/patch.diff $id 2>&1 | grep -v KNOWN-FINDING | tail -6
