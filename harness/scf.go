package main

// scf: store-carry-forward histories (C05).  A real routing.Core on a temp directory is driven through
// event histories {submit, receive, receive again, peer up (with a send-outcome script), peer down,
// pending tick, clean tick, orderly restart}; after every event the per-peer send log and the store
// status (known / pending / sent list) of every bundle the harness handed in are recorded.
//
// A bundle can be given extension blocks of types the node does not know next to the known ones (hop
// count, bundle age, previous node), each with any of the block processing flags and in any array order
// (scfB.Blk); the block array as handed in is part of the bundle's description.
//
// Histories beginning with (sched m) run under schedule control, histories beginning with (fault n) with
// one failing part-file write: see scf_sched.go.  For an event of such a history in which a send failed
// (or a schedule / fault point was reached) the observation is followed by a record
//   (atreturn now ((bundle peer) ..) (points ..) () status 0)
// = the failure reports that were still held back when forward went on / the handler returned, the points
// reached, and the store status at the moment the handler returned; the event's own record then has the
// status after everything held back was let go and had run.

import (
	"bytes"
	"fmt"
	"io/ioutil"
	"os"
	"sort"
	"strings"
	"sync"
	"sync/atomic"
	"time"

	log "github.com/sirupsen/logrus"

	"github.com/dtn7/dtn7-go/pkg/bpv7"
	"github.com/dtn7/dtn7-go/pkg/cla"
	"github.com/dtn7/dtn7-go/pkg/routing"
	"github.com/dtn7/dtn7-go/pkg/storage"
)

const (
	scfLifeLong  = 86400000 // 24 h in ms: far from expiry during a history
	scfLifeShort = 3600000  // 1 h in ms: used with a creation time / age far beyond it
	scfAgeYoung  = 1000
	scfAgeOld    = 2 * 3600000
	scfNoNode    = 5 // destination that never becomes a peer
	scfUnknownBT = 222
)

var scfAlgs = []string{"epidemic", "spray", "binary_spray", "prophet", "dtlsr", "sensor-mule"}

func scfNode(i int) string { return fmt.Sprintf("dtn://n%d/", i) }

func scfNodeNum(e bpv7.EndpointID) int {
	var k int
	if _, err := fmt.Sscanf(e.String(), "dtn://n%d/", &k); err != nil {
		return 99
	}
	return k
}

func scfConf(alg string) routing.RoutingConf {
	switch alg {
	case "spray", "binary_spray":
		return routing.RoutingConf{Algorithm: alg, SprayConf: routing.SprayConfig{Multiplicity: 3}}
	case "prophet":
		return routing.RoutingConf{Algorithm: alg, ProphetConf: routing.ProphetConfig{PInit: 0.75, Beta: 0.25, Gamma: 0.98, AgeInterval: "100000h"}}
	case "dtlsr":
		return routing.RoutingConf{Algorithm: alg, DTLSRConf: routing.DTLSRConfig{RecomputeTime: "1000h", BroadcastTime: "1000h", PurgeTime: "1000h"}}
	case "sensor-mule":
		return routing.RoutingConf{Algorithm: alg, SensorMuleConf: routing.SensorNetworkMuleConfig{
			Algorithm: &routing.RoutingConf{Algorithm: "epidemic"}, SensorNodeRegex: "^dtn://n3/$"}}
	}
	return routing.RoutingConf{Algorithm: alg}
}

// bundle specification (input)
type scfB struct {
	TsMode, Group, Dst, Prev, Hop, Del, Local, Dead int
	// Blk: the extension blocks whose position and block processing flags are prescribed, in array order
	// (kind, flags); kind 0 = a further block of a type this node does not know, 1 = the hop count block,
	// 2 = the bundle age block, 3 = the previous node block (each only if the bundle has one), 4 = the
	// payload block (always last; flags only). Unlisted extension blocks follow the listed ones.
	Blk [][2]int
	// Adm: 0 = an ordinary payload; otherwise the bundle carries the administrative-record flag and its
	// payload is (see scfAdmPayload) 1 = a status report "received" about a bundle the node does not know,
	// 2 = a status report "delivered" about such a bundle, 3 = a status report with a reason code this
	// implementation does not know, 4 / 5 = a record of type 3 / 4 (another implementation's), 6 = no bytes
	// at all, 7 = bytes that are no CBOR array, 8 = a record cut off after its type code, 9 = a CBOR array
	// of three elements.  Only for received bundles without prescribed blocks (an administrative record
	// must not carry the report flag on a block).
	Adm int
}

const scfAdmKinds = 9

const (
	scfBkUnknown = 0
	scfBkHop     = 1
	scfBkAge     = 2
	scfBkPrev    = 3
	scfBkPayload = 4
)

// event specification (input)
type scfEv struct {
	Kind string // sub rcv dup up down tickp tickc restart
	B    scfB
	K    int // dup: index of the tracked bundle
	From int // rcv, dup
	Peer int // up, down
	Mode int // up: outcome script
}

func (b scfB) s() []S {
	return []S{I(b.TsMode), I(b.Group), I(b.Dst), I(b.Prev), I(b.Hop), I(b.Del), I(b.Local), I(b.Dead)}
}

// the optional trailing element of a sub / rcv event: (blk (kind flags) ...)
func (b scfB) blkS() []S {
	if len(b.Blk) == 0 {
		return nil
	}
	l := []S{Sym("blk")}
	for _, e := range b.Blk {
		l = append(l, L(I(e[0]), I(e[1])))
	}
	return []S{LL(l)}
}

// a further optional trailing element of a rcv event: (adm kind)
func (b scfB) admS() []S {
	if b.Adm == 0 {
		return nil
	}
	return []S{L(Sym("adm"), I(b.Adm))}
}

func (e scfEv) S() S {
	switch e.Kind {
	case "sub":
		return LL(append(append([]S{Sym("sub")}, e.B.s()...), e.B.blkS()...))
	case "rcv":
		return LL(append(append(append(append([]S{Sym("rcv")}, e.B.s()...), I(e.From)), e.B.blkS()...), e.B.admS()...))
	case "sched", "fault", "conf":
		return L(Sym(e.Kind), I(e.Mode))
	case "dup":
		return L(Sym("dup"), I(e.K), I(e.From))
	case "up":
		return L(Sym("up"), I(e.Peer), I(e.Mode))
	case "down":
		return L(Sym("down"), I(e.Peer))
	}
	return L(Sym(e.Kind))
}

func scfParseEv(s S) scfEv {
	l := s.(sList)
	k := atomSym(l[0])
	e := scfEv{Kind: k}
	rb := func(opt int) {
		e.B = scfB{TsMode: atomI(l[1]), Group: atomI(l[2]), Dst: atomI(l[3]), Prev: atomI(l[4]), Hop: atomI(l[5]),
			Del: atomI(l[6]), Local: atomI(l[7]), Dead: atomI(l[8])}
		for _, tr := range l[minInt(opt, len(l)):] {
			tl := tr.(sList)
			switch atomSym(tl[0]) {
			case "blk":
				for _, x := range tl[1:] {
					xl := x.(sList)
					e.B.Blk = append(e.B.Blk, [2]int{atomI(xl[0]), atomI(xl[1])})
				}
			case "adm":
				e.B.Adm = atomI(tl[1])
			}
		}
	}
	switch k {
	case "sub":
		rb(9)
	case "rcv":
		rb(10)
		e.From = atomI(l[9])
	case "sched", "fault", "conf":
		e.Mode = atomI(l[1])
	case "dup":
		e.K, e.From = atomI(l[1]), atomI(l[2])
	case "up":
		e.Peer, e.Mode = atomI(l[1]), atomI(l[2])
	case "down":
		e.Peer = atomI(l[1])
	}
	return e
}

func minInt(a, b int) int {
	if a < b {
		return a
	}
	return b
}

// a bundle handed to the node
type scfTB struct {
	epoch    int
	received bool
	idx  int
	spec scfB
	b    bpv7.Bundle
	ts   uint64
	life uint64
	age  int64 // -1 = no age block
	hl   int   // -1 = no hop count block
	hc   int
	blks []S // the canonical blocks as handed in, in array order: (type known to this node, flags)
}

func scfTag(idx int) []byte { return []byte(fmt.Sprintf("scf-%d", idx)) }

func scfTagOf(b *bpv7.Bundle) int {
	pl, err := b.PayloadBlock()
	if err != nil {
		return -1
	}
	var k int
	if _, err := fmt.Sscanf(string(pl.Value.(*bpv7.PayloadBlock).Data()), "scf-%d", &k); err != nil {
		return -1
	}
	return k
}

// tagOf identifies a bundle the harness handed in: by its payload, or (a bundle flagged as administrative
// record has a payload of its own) by its ID.
func (h *scfRunner) tagOf(b *bpv7.Bundle) int {
	if k := scfTagOf(b); k >= 0 {
		return k
	}
	h.attMu.Lock()
	defer h.attMu.Unlock()
	if k, ok := h.byID[b.ID().String()]; ok {
		return k
	}
	return -1
}

// scfAdmPayload: the payload of a bundle flagged as administrative record (scfB.Adm)
func scfAdmPayload(kind, idx int) []byte {
	var buf bytes.Buffer
	report := func(item bpv7.StatusInformationPos, reason uint64) {
		// about a bundle of another node which this node has never seen
		ref := MkBundle(BOpt{Src: "dtn://n7/ref", Dst: "dtn://n6/in", TS: NowTS, Life: scfLifeLong, Payload: []byte("ref"), CRC: bpv7.CRC32})
		ref.PrimaryBlock.CreationTimestamp = bpv7.NewCreationTimestamp(bpv7.DtnTime(700000000000+uint64(idx)), uint64(idx))
		sr := bpv7.NewStatusReport(ref, item, bpv7.NoInformation, bpv7.DtnTimeNow())
		sr.ReportReason = bpv7.StatusReportReason(reason)
		if err := bpv7.GetAdministrativeRecordManager().WriteAdministrativeRecord(sr, &buf); err != nil {
			panic(err)
		}
	}
	switch kind {
	case 1:
		report(bpv7.ReceivedBundle, uint64(bpv7.NoInformation))
	case 2:
		report(bpv7.DeliveredBundle, uint64(bpv7.NoRouteToDestination))
	case 3:
		report(bpv7.DeletedBundle, 200)
	case 4: // [3, [idx]]
		buf.Write([]byte{0x82, 0x03, 0x81, 0x18, byte(idx)})
	case 5: // [4, h'..']
		buf.Write([]byte{0x82, 0x04, 0x42, byte(idx), byte(idx >> 8)})
	case 6:
	case 7:
		buf.Write([]byte{0xff, 0x00, 'a', 'd', 'm', byte(idx)})
	case 8:
		buf.Write([]byte{0x82, 0x01})
	default:
		buf.Write([]byte{0x83, 0x01, 0x80, byte(idx) & 0x17})
	}
	return buf.Bytes()
}

// does this implementation read the record (the expectation the tags adm-readable / adm-unreadable report)
func scfAdmReadable(kind int) bool { return kind == 1 || kind == 2 }

type scfRunner struct {
	alg     string
	inspect bool           // the Core's inspectAllBundles option ((conf 1) as first event)
	byID    map[string]int // bundle ID -> index, for bundles whose payload is not the harness' tag
	n       *Node
	t0      uint64
	epoch   int
	tracked []*scfTB
	up      map[int]int // peer -> mode
	att     map[[2]int]int
	attMu   sync.Mutex
	salt    uint64
	sched   *scfSched       // schedule control / fault injection (histories starting with (sched m) / (fault n))
	clas    map[int]*scfCLA // the registered senders
	nfailed int32           // failed sends since the last quiescence check
	// rendezvous of the sends of one forwarding attempt
	rvMu   sync.Mutex
	rvCh   chan struct{}
	rvLast time.Time
}

// all sends that are in flight together are released together
func (h *scfRunner) rendezvous() {
	h.rvMu.Lock()
	h.rvLast = time.Now()
	ch := h.rvCh
	if ch == nil {
		ch = make(chan struct{})
		h.rvCh = ch
		go func() {
			for {
				time.Sleep(40 * time.Microsecond)
				h.rvMu.Lock()
				if time.Since(h.rvLast) > 150*time.Microsecond {
					h.rvCh = nil
					h.rvMu.Unlock()
					close(ch)
					return
				}
				h.rvMu.Unlock()
			}
		}()
	}
	h.rvMu.Unlock()
	<-ch
}

// the outcome script of a peer: a pure function of (mode, peer, bundle, attempt number)
func (h *scfRunner) fails(peer, mode int, rec *SendRec) bool {
	f := h.fails0(peer, mode, rec)
	if f {
		atomic.AddInt32(&h.nfailed, 1)
		if idx := h.tagOf(&rec.Bndl); idx >= 0 && h.sched != nil {
			h.sched.noteFailed(peer, idx, rec)
		}
	}
	return f
}

// before the Core is closed: no failure report may still be running (see scfQuiesce)
func (h *scfRunner) quiesce() {
	if atomic.SwapInt32(&h.nfailed, 0) > 0 {
		scfQuiesce()
	}
}

func (h *scfRunner) fails0(peer, mode int, rec *SendRec) bool {
	idx := h.tagOf(&rec.Bndl)
	h.attMu.Lock()
	key := [2]int{peer, idx}
	a := h.att[key]
	h.att[key] = a + 1
	h.attMu.Unlock()
	switch mode {
	case 0:
		return false
	case 1:
		return true
	case 2:
		return a == 0
	default:
		x := h.salt + uint64(peer)*0x9E3779B97F4A7C15 + uint64(idx+7)*0xBF58476D1CE4E5B9 + uint64(a)*0x94D049BB133111EB
		x ^= x >> 29
		x *= 0xBF58476D1CE4E5B9
		x ^= x >> 32
		return x%5 < 2
	}
}

func (h *scfRunner) mkBundle(spec scfB, idx int, received bool) *scfTB {
	return h.mkBundleE(spec, idx, received, h.epoch, uint64(idx), received)
}

// the bundle is a function of (spec, idx, epoch, sequence number): it can be built again unchanged
func (h *scfRunner) mkBundleE(spec scfB, idx int, received bool, epoch int, seq uint64, wire bool) *scfTB {
	t := &scfTB{idx: idx, spec: spec, age: -1, hl: -1, epoch: epoch, received: received}
	src := fmt.Sprintf("dtn://n0/e%d", epoch)
	if spec.Local == 0 {
		src = "dtn://n9/x"
		if !received {
			src = "dtn://n8/x" // a foreign source handed in by an application: its own ID space
		}
	}
	dst := scfNode(spec.Dst) + "in"
	if spec.Dst == 0 {
		dst = "dtn://n0/app"
	} else if spec.Dst != scfNoNode && idx%4 == 3 {
		// every fourth bundle for a peer node is addressed to a group endpoint of that node: "its destination
		// node" is the same node, direct delivery and the algorithms must treat it like a singleton endpoint
		dst = scfNode(spec.Dst) + "~in"
	}
	t.life = scfLifeLong
	if spec.Dead == 1 {
		t.life = scfLifeShort
	}
	bl := bpv7.Builder().CRC(bpv7.CRC32).Source(src).Destination(dst).
		Lifetime(time.Duration(t.life) * time.Millisecond)
	if spec.Adm != 0 {
		bl = bl.BundleCtrlFlags(bpv7.AdministrativeRecordPayload).PayloadBlock(scfAdmPayload(spec.Adm, idx))
	} else {
		bl = bl.PayloadBlock(scfTag(idx))
	}
	// Build refuses a bundle whose lifetime is over: build it alive, make it old afterwards
	if spec.TsMode == 0 {
		t.ts = 0
		t.age = scfAgeYoung
		bl = bl.CreationTimestampEpoch().BundleAgeBlock(uint64(t.age))
	} else {
		t.ts = h.t0 - 60000 + uint64(spec.Group)
		bl = bl.CreationTimestampTime(bpv7.DtnTime(t.ts).Time())
	}
	if spec.Prev != 0 {
		bl = bl.Canonical(bpv7.NewPreviousNodeBlock(MustEID(scfNode(spec.Prev))))
	}
	switch spec.Hop {
	case 1:
		t.hl, t.hc = 5, 1
	case 2:
		t.hl, t.hc = 3, 3
	}
	if t.hl >= 0 {
		bl = bl.Canonical(&bpv7.HopCountBlock{Limit: uint8(t.hl), Count: uint8(t.hc)})
	}
	if spec.Del == 1 {
		bl = bl.Canonical(bpv7.NewGenericExtensionBlock([]byte{1, 2, 3}, scfUnknownBT), bpv7.DeleteBundle)
	}
	nu := 0
	for _, e := range spec.Blk {
		if e[0] == scfBkUnknown {
			nu++
			bl = bl.Canonical(bpv7.NewGenericExtensionBlock([]byte{byte(nu)}, uint64(scfUnknownBT+nu)), bpv7.BlockControlFlags(e[1]))
		}
	}
	b, err := bl.Build()
	if err != nil {
		panic(err)
	}
	if len(spec.Blk) > 0 {
		scfArrange(&b, spec.Blk)
	}
	if spec.Dead == 1 {
		if spec.TsMode == 0 {
			t.age = scfAgeOld
			if cb, err := b.ExtensionBlock(bpv7.ExtBlockTypeBundleAgeBlock); err == nil {
				cb.Value = bpv7.NewBundleAgeBlock(uint64(t.age))
			} else {
				panic(err)
			}
		} else {
			t.ts = h.t0 - 10*86400000 + uint64(spec.Group)
			b.PrimaryBlock.CreationTimestamp[0] = t.ts
		}
	}
	if wire {
		// a peer's bundle carries its own sequence number
		b.PrimaryBlock.CreationTimestamp[1] = seq
	}
	if wire && spec.Dead == 0 {
		// and comes over the wire (the parser refuses a bundle whose lifetime is over: such a bundle is
		// handed to the Core as it is, standing for one that was accepted earlier)
		var buf bytes.Buffer
		if err := b.WriteBundle(&buf); err != nil {
			panic(err)
		}
		if b, err = bpv7.ParseBundle(&buf); err != nil {
			panic(err)
		}
	}
	t.b = b
	if spec.Adm != 0 {
		h.attMu.Lock()
		h.byID[b.ID().String()] = idx
		h.attMu.Unlock()
	}
	// (recorded now: the Core works on the block array of the bundle it is handed, in place)
	for _, cb := range b.CanonicalBlocks {
		t.blks = append(t.blks, L(B(bpv7.GetExtensionBlockManager().IsKnown(cb.TypeCode())), U(uint64(cb.BlockControlFlags))))
	}
	return t
}

// scfArrange puts the extension blocks into the prescribed array order (the block array is kept sorted by
// block number, the payload block - number 1 - last: the order is the order of the numbers) and sets the
// prescribed block processing flags.
func scfArrange(b *bpv7.Bundle, blk [][2]int) {
	find := func(tc uint64) int {
		for i := range b.CanonicalBlocks {
			if b.CanonicalBlocks[i].TypeCode() == tc {
				return i
			}
		}
		return -1
	}
	var order []int
	used := map[int]bool{}
	nu := 0
	for _, e := range blk {
		var tc uint64
		switch e[0] {
		case scfBkUnknown:
			nu++
			tc = uint64(scfUnknownBT + nu)
		case scfBkHop:
			tc = bpv7.ExtBlockTypeHopCountBlock
		case scfBkAge:
			tc = bpv7.ExtBlockTypeBundleAgeBlock
		case scfBkPrev:
			tc = bpv7.ExtBlockTypePreviousNodeBlock
		case scfBkPayload:
			tc = bpv7.ExtBlockTypePayloadBlock
		}
		i := find(tc)
		if i < 0 || used[i] {
			continue
		}
		used[i] = true
		b.CanonicalBlocks[i].BlockControlFlags = bpv7.BlockControlFlags(e[1])
		if e[0] != scfBkPayload {
			order = append(order, i)
		}
	}
	pl := find(bpv7.ExtBlockTypePayloadBlock)
	for i := range b.CanonicalBlocks {
		if !used[i] && i != pl {
			order = append(order, i)
		}
	}
	var nb []bpv7.CanonicalBlock
	for k, i := range order {
		cb := b.CanonicalBlocks[i]
		cb.BlockNumber = uint64(2 + k)
		nb = append(nb, cb)
	}
	nb = append(nb, b.CanonicalBlocks[pl])
	b.CanonicalBlocks = nb
}

func (t *scfTB) desc() S {
	prev := t.spec.Prev
	age := S(L())
	if t.age >= 0 {
		age = L(I64(t.age))
	}
	hop := S(L())
	if t.hl >= 0 {
		hop = L(I(t.hl), I(t.hc))
	}
	d := []S{I(t.idx), I(t.spec.Local), I(t.spec.Dst), I(prev), U(t.ts), U(t.life), age, hop, I(t.spec.Del), I(t.spec.Dead), LL(t.blks)}
	if t.spec.Adm != 0 {
		// the record kind and whether this implementation can read the payload (a tag; the rule does not depend on it)
		d = append(d, L(I(t.spec.Adm), B(scfAdmReadable(t.spec.Adm))))
	}
	return LL(d)
}

func (h *scfRunner) sentKey() string {
	if h.alg == "sensor-mule" {
		return "routing/epidemic/sent"
	}
	return "routing/" + h.alg + "/sent"
}

func (h *scfRunner) status() S { return h.statusOf(h.tracked) }

// scfSparseFrom: in a history with more bundles than this, the record of a submit / receive event lists
// the status of the new bundle only (the handler touches no other item; the checker carries the last
// recorded status of the others forward); every other event lists all of them.
const scfSparseFrom = 48

func (h *scfRunner) statusOf(ts []*scfTB) S {
	var l []S
	st := h.n.Core.VerifStore()
	for _, t := range ts {
		known, pending := false, false
		var sent []int
		if bi, err := st.QueryId(t.b.ID()); err == nil && len(bi.Parts) > 0 {
			// (a stored bundle whose lifetime is over cannot be read back: ParseBundle validates it)
			if sb, err := bi.Parts[0].Load(); (err == nil && h.tagOf(&sb) == t.idx) || (err != nil && t.spec.Dead == 1) {
				known, pending = true, bi.Pending
				if eids, ok := bi.Properties[h.sentKey()].([]bpv7.EndpointID); ok {
					for _, e := range eids {
						sent = append(sent, scfNodeNum(e))
					}
				}
			}
		}
		var sl []S
		for _, p := range sent {
			sl = append(sl, I(p))
		}
		l = append(l, L(I(t.idx), B(known), B(pending), LL(sl)))
	}
	return LL(l)
}

func (h *scfRunner) prime() {
	// prophet: the peers 1..3 are known to be good carriers towards the far node, so that the
	// algorithm hands bundles to them (the real import path of a peer's metadata)
	if p := h.n.Core.VerifProphet(); p != nil {
		for i := 1; i <= 3; i++ {
			p.VerifImport(MustEID(scfNode(i)), map[bpv7.EndpointID]float64{MustEID(scfNode(scfNoNode) + "in"): 0.9})
		}
	}
}

var scfOnce sync.Once

// The store directory: a memory-backed file system when there is one (every store update is an
// fsync; on a shared disk that dominates the run time), the check's work directory otherwise.
func scfNewNode(conf routing.RoutingConf, inspect bool) *Node {
	scfOnce.Do(func() { storage.VerifSetMemtableSize(256 << 10) })
	n := &Node{ID: MustEID(scfNode(0)), Conf: conf, Peers: map[string]*MockCLA{}, ownDir: true}
	if d, err := ioutil.TempDir("/dev/shm", "scfnode"); err == nil {
		n.Dir = d
	} else {
		n.Dir = workDir()
	}
	scfOpen(n, inspect)
	return n
}

// scfOpen is Node.open with the Core's inspectAllBundles option as a parameter (cmd/dtnd hands the
// configuration's inspect-all-bundles to NewCore).
func scfOpen(n *Node, inspect bool) {
	c, err := routing.NewCore(n.Dir, n.ID, inspect, n.Conf, nil)
	if err != nil {
		panic(err)
	}
	c.VerifStopCron()
	n.Core = c
}

// scfRestart is Node.Restart for a node opened by scfOpen.
func scfRestart(n *Node, inspect bool) {
	n.closeAgents()
	n.Core.Close()
	n.Peers = map[string]*MockCLA{}
	n.Agents = nil
	scfOpen(n, inspect)
}

// the events at the head of a history that configure the run
func scfPseudo(k string) bool { return k == "sched" || k == "fault" || k == "conf" }

// run one history; returns the observation list and whether it took suspiciously long
func scfRun(alg string, evs []scfEv, salt uint64) (S, bool) {
	h := &scfRunner{alg: alg, up: map[int]int{}, att: map[[2]int]int{}, salt: salt, clas: map[int]*scfCLA{}, byID: map[string]int{}}
	nsub := 0
	for i, e := range evs {
		if e.Kind == "conf" && (i == 0 || scfPseudo(evs[i-1].Kind)) {
			h.inspect = e.Mode == 1
		}
		if e.Kind == "sub" || (e.Kind == "rcv" && e.B.TsMode == 0) {
			nsub++ // (counts the bundles that bind the history to the 20 s below)
		}
	}
	h.n = scfNewNode(scfConf(alg), h.inspect)
	defer func() {
		if h.sched != nil {
			h.sched.faultEnd()
			scfActive.Store((*scfSched)(nil))
		}
		h.quiesce()
		h.n.Destroy()
	}()
	h.prime()
	h.t0 = uint64(bpv7.DtnTimeNow())
	var obs []S
	for _, e := range evs {
		now := uint64(bpv7.DtnTimeNow())
		before := h.n.LastSendN()
		var head []S
		if h.sched != nil {
			h.sched.beginEvent()
		}
		var newTB *scfTB
		switch e.Kind {
		case "conf":
			// the Core was created with this option (first event of the history)
			head = []S{Sym("conf"), U(now), I(e.Mode)}
		case "sched", "fault":
			// the first events of a history (run one at a time, see scfJobs.run): what follows runs under
			// schedule control / with a failing part-file write
			if h.sched == nil {
				h.sched = &scfSched{h: h}
				h.sched.beginEvent()
				scfInstallHook()
				scfActive.Store(h.sched)
			}
			if e.Kind == "sched" {
				h.sched.mode = e.Mode
			} else {
				h.sched.mu.Lock()
				h.sched.faultIn = e.Mode
				h.sched.mu.Unlock()
			}
			head = []S{Sym("nop"), U(now)}
		case "sub":
			t := h.mkBundle(e.B, len(h.tracked), false)
			h.n.Event++
			h.n.Core.SendBundle(&t.b) // the sequence number is assigned to t.b
			h.tracked = append(h.tracked, t)
			newTB = t
			head = []S{Sym("sub"), U(now), t.desc()}
		case "rcv":
			t := h.mkBundle(e.B, len(h.tracked), true)
			h.n.Receive(t.b, scfNode(e.From))
			h.tracked = append(h.tracked, t)
			newTB = t
			head = []S{Sym("rcv"), U(now), t.desc(), I(e.From)}
		case "dup":
			// (a bundle an application submitted with a foreign source is dropped at once; it has no ID a
			// peer could send back without colliding with the IdKeeper's numbering after a restart)
			if e.K >= len(h.tracked) || (!h.tracked[e.K].received && h.tracked[e.K].spec.Local == 0) {
				head = []S{Sym("nop"), U(now)}
				break
			}
			// the same bundle arrives again: built anew (the Core changes the blocks of a bundle it
			// forwards in place), with the sequence number it was given
			t := h.tracked[e.K]
			again := h.mkBundleE(t.spec, t.idx, t.received, t.epoch, t.b.PrimaryBlock.CreationTimestamp[1], true)
			h.n.Receive(again.b, scfNode(e.From))
			head = []S{Sym("dup"), U(now), I(t.idx), I(e.From)}
		case "up":
			if _, isUp := h.up[e.Peer]; isUp {
				head = []S{Sym("nop"), U(now)}
				break
			}
			peer, mode := e.Peer, e.Mode
			h.up[peer] = mode
			inner := &MockCLA{Name: fmt.Sprintf("p%d", peer), Peer: MustEID(scfNode(peer)), node: h.n,
				ch:    make(chan cla.ConvergenceStatus, 16),
				Fail:  func(rec *SendRec) bool { return h.fails(peer, mode, rec) },
				Block: func(rec *SendRec) { h.rendezvous() }}
			m := &scfCLA{MockCLA: inner, h: h, peer: peer}
			h.n.Peers[inner.Name] = inner
			h.clas[peer] = m
			h.n.Event++
			h.n.Core.RegisterConvergable(m)
			h.n.Core.VerifPeerAppeared(m)
			head = []S{Sym("up"), U(now), I(peer), I(mode)}
		case "down":
			if _, isUp := h.up[e.Peer]; !isUp {
				head = []S{Sym("nop"), U(now)}
				break
			}
			delete(h.up, e.Peer)
			m := h.clas[e.Peer]
			delete(h.clas, e.Peer)
			h.n.Event++
			h.n.Core.VerifPeerDisappeared(m)
			h.n.Core.VerifClaManager().Unregister(m)
			delete(h.n.Peers, m.Name)
			head = []S{Sym("down"), U(now), I(e.Peer)}
		case "tickp":
			h.n.TickPending()
			head = []S{Sym("tickp"), U(now)}
		case "tickc":
			h.n.TickClean()
			head = []S{Sym("tickc"), U(now)}
		case "restart":
			h.quiesce()
			scfRestart(h.n, h.inspect)
			h.up = map[int]int{}
			h.clas = map[int]*scfCLA{}
			h.epoch++
			h.prime()
			head = []S{Sym("restart"), U(now)}
		default:
			panic("scf: unknown event " + e.Kind)
		}
		// The quiescence rule.  When a send failed in this event (or the history runs under schedule
		// control): the store as the handler left it; then whatever was held back is let go, the harness
		// waits until none of the sender goroutines of this Core is left, and looks at the store again.
		// The event's record carries the second, settled status; when the first one differs from it, or
		// something was held back, an (atreturn ..) record follows.
		var atReturn []S
		var settled S
		{
			var esc []*scfReport
			var pts []string
			any := false
			if h.sched != nil {
				esc, pts, any = h.sched.handlerReturned()
			}
			if any || atomic.LoadInt32(&h.nfailed) > 0 {
				st0 := h.status()
				if h.sched != nil {
					h.sched.release()
				}
				atomic.StoreInt32(&h.nfailed, 0)
				scfQuiesce()
				settled = h.status()
				if any || SString(st0) != SString(settled) {
					var el, pl []S
					for _, r := range esc {
						el = append(el, L(I(r.idx), I(r.peer)))
					}
					for _, p := range pts {
						pl = append(pl, Sym(p))
					}
					atReturn = []S{Sym("atreturn"), U(now), LL(el), LL(pl), LL(nil), st0, I(0)}
				}
			} else if h.sched != nil {
				h.sched.release()
			}
		}
		if settled == nil {
			if newTB != nil && len(h.tracked) > scfSparseFrom {
				settled = h.statusOf([]*scfTB{newTB})
			} else {
				settled = h.status()
			}
		}
		// sends of this event, in a canonical order
		type srec struct {
			p, idx int
			ok     bool
		}
		var ss []srec
		other := 0
		for _, s := range h.n.SendsSince(before) {
			b := s.Bndl
			idx := h.tagOf(&b)
			if idx < 0 {
				other++ // routing metadata bundles of prophet
				continue
			}
			var p int
			fmt.Sscanf(s.Peer, "p%d", &p)
			ss = append(ss, srec{p, idx, s.OK})
		}
		sort.Slice(ss, func(i, j int) bool {
			if ss[i].idx != ss[j].idx {
				return ss[i].idx < ss[j].idx
			}
			return ss[i].p < ss[j].p
		})
		var sl []S
		for _, s := range ss {
			sl = append(sl, L(I(s.p), I(s.idx), B(s.ok)))
		}
		obs = append(obs, LL(append(head, LL(sl), settled, I(other))))
		if len(atReturn) > 0 {
			obs = append(obs, LL(atReturn))
		}
	}
	// (the 20 s are the IdKeeper's - a submitted bundle's timestamp must not fall out of its window - and
	// the age block's: UpdateBundleAge lets the age of a clock-less bundle grow a thousand times too fast
	// (C06), 24 h are over after 86 s; a history of received, timestamped bundles only has until the
	// lifetimes are over)
	limit := uint64(20000)
	if nsub == 0 {
		limit = 600000
	}
	slow := uint64(bpv7.DtnTimeNow())-h.t0 > limit
	return LL(obs), slow
}

type scfJob struct {
	alg  string
	evs  []scfEv
	salt uint64
	obs  S
	slow bool
}

type scfJobs struct{ l []*scfJob }

func (j *scfJobs) add(alg string, evs []scfEv, salt uint64) {
	j.l = append(j.l, &scfJob{alg: alg, evs: evs, salt: salt})
}

// run the histories on a few workers (every history has its own Core and directory) and write the
// cases in the order of the job list
func (j *scfJobs) run(o *Out) {
	const workers = 6
	tStart := time.Now()
	ch := make(chan *scfJob)
	var wg sync.WaitGroup
	for w := 0; w < workers; w++ {
		wg.Add(1)
		go func() {
			defer wg.Done()
			for jb := range ch {
				jb.obs, jb.slow = scfRun(jb.alg, jb.evs, jb.salt)
			}
		}()
	}
	controlled := func(jb *scfJob) bool {
		for _, e := range jb.evs {
			if !scfPseudo(e.Kind) {
				break
			}
			if e.Kind != "conf" {
				return true
			}
		}
		return false
	}
	// (the long histories first: the pool does not end on one of them running alone; the cases are
	// written in the order of the list all the same)
	var par []*scfJob
	for _, jb := range j.l {
		if !controlled(jb) {
			par = append(par, jb)
		}
	}
	sort.SliceStable(par, func(a, b int) bool { return len(par[a].evs) > len(par[b].evs) })
	for _, jb := range par {
		ch <- jb
	}
	close(ch)
	wg.Wait()
	tPar := time.Now()
	defer func() {
		if os.Getenv("SCF_TIMING") != "" {
			fmt.Fprintf(os.Stderr, "scf: parallel part %v, controlled part %v; %d quiescence checks, %v\n", tPar.Sub(tStart), time.Since(tPar),
				atomic.LoadInt64(&scfQuiesceN), time.Duration(atomic.LoadInt64(&scfQuiesceNs)))
		}
	}()
	// histories under schedule control / fault injection: one at a time (the schedule points come from
	// the process-wide logger), with the Core's debug messages switched on
	lvl := log.GetLevel()
	for _, jb := range j.l {
		if controlled(jb) {
			log.SetLevel(log.DebugLevel)
			jb.obs, jb.slow = scfRun(jb.alg, jb.evs, jb.salt)
		}
	}
	log.SetLevel(lvl)
	for _, jb := range j.l {
		if jb.slow {
			o.Case("skipped", Sym("slow"))
			continue
		}
		var sp []S
		for _, e := range jb.evs {
			sp = append(sp, e.S())
		}
		o.Case("hist", Sym(strings.Replace(jb.alg, "-", "_", -1)), U(jb.salt), LL(sp), jb.obs)
	}
}

// the small alphabet of the bounded-exhaustive part
func scfAlphabet(pos int) []scfEv {
	return []scfEv{
		{Kind: "sub", B: scfB{TsMode: 1, Group: 1, Dst: 1, Local: 1}},       // same-millisecond group, destination n1
		{Kind: "sub", B: scfB{TsMode: 0, Dst: scfNoNode, Local: 1}},           // no clock, far destination
		{Kind: "rcv", B: scfB{TsMode: 1, Group: 2, Dst: scfNoNode, Prev: 2}, From: 2}, // from n2
		{Kind: "dup", K: 0, From: 3},
		{Kind: "up", Peer: 1, Mode: 2},  // first send of a bundle fails, later ones succeed
		{Kind: "up", Peer: 2, Mode: 1},  // every send fails
		{Kind: "tickp"},
		{Kind: "tickc"},
		{Kind: "restart"},
	}
}

func scfEnum(depth int, f func(h []scfEv)) {
	var rec func(pre []scfEv)
	rec = func(pre []scfEv) {
		if len(pre) == depth {
			f(append([]scfEv(nil), pre...))
			return
		}
		for _, e := range scfAlphabet(len(pre)) {
			rec(append(pre, e))
		}
	}
	rec(nil)
}

func scfRandB(r *Rng) scfB {
	b := scfB{TsMode: r.Intn(3) % 2, Group: 1 + r.Intn(2), Local: 1}
	switch r.Intn(6) {
	case 0:
		b.Dst = scfNoNode
	case 1:
		b.Dst = 0
		if r.Intn(3) != 0 {
			b.Dst = scfNoNode
		}
	default:
		b.Dst = 1 + r.Intn(4)
	}
	if r.Intn(12) == 0 {
		b.Hop = 2
	} else if r.Intn(4) == 0 {
		b.Hop = 1
	}
	if r.Intn(14) == 0 {
		b.Dead = 1
	}
	return b
}

// the 16 combinations of the four block processing flags
func scfFlags(k int) int {
	f := 0
	for i, bit := range []int{int(bpv7.ReplicateBlock), int(bpv7.StatusReportBlock), int(bpv7.DeleteBundle), int(bpv7.RemoveBlock)} {
		if k>>uint(i)&1 == 1 {
			f |= bit
		}
	}
	return f
}

// 1..4 blocks with prescribed position and flags for a bundle
func scfRandBlk(r *Rng, b *scfB) {
	n := 1 + r.Intn(4)
	usedK := map[int]bool{}
	for i := 0; i < n; i++ {
		kind := scfBkUnknown
		if r.Intn(5) >= 2 {
			kind = 1 + r.Intn(4)
		}
		if kind != scfBkUnknown {
			if usedK[kind] {
				continue
			}
			usedK[kind] = true
		}
		fl := scfFlags(r.Intn(16))
		if kind == scfBkUnknown && r.Intn(3) != 0 {
			fl &^= int(bpv7.DeleteBundle) // most bundles are to be kept
		}
		if kind == scfBkHop && b.Hop == 0 {
			b.Hop = 1
		}
		b.Blk = append(b.Blk, [2]int{kind, fl})
	}
}

// Bounded-exhaustive block arrays: every pair of adjacent blocks (a block of an unknown or a known type
// with each of the 16 flag combinations, directly followed by an unknown, a known or the payload block
// with each of the 16), 24 received bundles per history, then the destination of half of them appears,
// a retry, a restart, another peer.
func scfBlockHists(thin int, add func(alg string, h []scfEv)) {
	var bs []scfB
	k := 0
	for a := 0; a < 32; a++ {
		for c := 0; c < 48; c++ {
			k++
			if thin >= 0 && a >= 16 && (a+c/16+c)%2 != thin {
				continue // quick tier: half of the pairs that begin with a block of a known type
			}
			b := scfB{TsMode: k % 2, Group: 1, Dst: scfNoNode, Prev: 2, Hop: 1}
			if k%4 < 2 {
				b.Dst = 1
			}
			// the known block types take turns (the age block exists in a clock-less bundle only)
			known := []int{scfBkHop, scfBkPrev}
			if b.TsMode == 0 {
				known = append(known, scfBkAge)
			}
			ka := scfBkUnknown
			if a >= 16 {
				ka = known[k%len(known)]
			}
			var kc int
			switch c / 16 {
			case 0:
				kc = scfBkUnknown
			case 1:
				kc = known[(k+1)%len(known)]
				if kc == ka {
					kc = known[(k+2)%len(known)]
				}
			default:
				kc = scfBkPayload
			}
			b.Blk = [][2]int{{ka, scfFlags(a % 16)}, {kc, scfFlags(c % 16)}}
			bs = append(bs, b)
		}
	}
	for i, n := 0, 0; i < len(bs); i, n = i+24, n+1 {
		var h []scfEv
		for j := i; j < i+24 && j < len(bs); j++ {
			h = append(h, scfEv{Kind: "rcv", B: bs[j], From: 2})
		}
		h = append(h, scfEv{Kind: "up", Peer: 1, Mode: 0}, scfEv{Kind: "tickp"}, scfEv{Kind: "restart"},
			scfEv{Kind: "up", Peer: 3, Mode: 2}, scfEv{Kind: "tickp"})
		add(scfAlgs[n%len(scfAlgs)], h)
	}
}

// Histories under schedule control (see scf_sched.go): one to three peers of which at least one fails, a
// bundle for a far node submitted or received, retries, a further peer.
func scfSchedHist(r *Rng, mode int) []scfEv {
	h := []scfEv{{Kind: "sched", Mode: mode}}
	ps := r.Perm(4)
	np := 1 + r.Intn(2)
	for i := 0; i < np; i++ {
		m := 1
		if i > 0 {
			m = []int{1, 2, 0}[r.Intn(3)]
		}
		h = append(h, scfEv{Kind: "up", Peer: 1 + ps[i], Mode: m})
	}
	b := scfB{TsMode: r.Intn(2), Group: 1, Dst: scfNoNode, Local: 1}
	if r.Bool() {
		h = append(h, scfEv{Kind: "sub", B: b})
	} else {
		b.Local = 0
		b.Prev = 1 + ps[3]
		h = append(h, scfEv{Kind: "rcv", B: b, From: 1 + ps[3]})
	}
	h = append(h, scfEv{Kind: "tickp"})
	if r.Bool() {
		h = append(h, scfEv{Kind: "up", Peer: 1 + ps[2], Mode: 2}, scfEv{Kind: "tickp"})
	}
	return h
}

// One failing part-file write (see scf_sched.go) while bundles come in with nobody connected; then the
// destination appears, a retry, a restart, the destination again.
func scfFaultHist(r *Rng) []scfEv {
	h := []scfEv{{Kind: "fault", Mode: 1 + r.Intn(3)}}
	n := 2 + r.Intn(2)
	for i := 0; i < n; i++ {
		b := scfB{TsMode: r.Intn(2), Group: 1, Dst: 1, Local: 1}
		if r.Intn(3) == 0 {
			b.Dst = scfNoNode
		}
		if r.Bool() {
			h = append(h, scfEv{Kind: "sub", B: b})
		} else {
			b.Local = 0
			h = append(h, scfEv{Kind: "rcv", B: b, From: 2})
		}
	}
	h = append(h, scfEv{Kind: "tickp"}, scfEv{Kind: "restart"}, scfEv{Kind: "up", Peer: 1, Mode: 2}, scfEv{Kind: "tickp"})
	return h
}

func scfRandom(r *Rng, n int) []scfEv {
	var h []scfEv
	nb := 0
	for len(h) < n {
		switch x := r.Intn(20); {
		case x < 4:
			b := scfRandB(r)
			if b.Dead == 1 && b.TsMode == 1 {
				// the IdKeeper forgets (source, time) tuples older than 86.4 s at once (id_keeper.go: a threshold
				// of 60*60*24 in millisecond units), so two separately drawn expired bundles of one timestamp
				// get the same ID; such bundles are outside C05 ("whose lifetime has not ended"): keep their
				// timestamps apart (same-millisecond companions of one draw still share theirs)
				b.Group = 10 + len(h)
			}
			if r.Intn(15) == 0 {
				b.Local = 0
			}
			if r.Intn(8) == 0 {
				scfRandBlk(r, &b)
			}
			h = append(h, scfEv{Kind: "sub", B: b})
			// same-millisecond companions
			for r.Intn(3) == 0 && len(h) < n {
				if b.Dead == 1 && b.TsMode == 1 {
					// (for the same reason the companions of an expired bundle would all get sequence number 0,
					// i.e. one ID: a later duplicate of one of them could not be told from the others)
					b.Group = 10 + len(h)
				}
				h = append(h, scfEv{Kind: "sub", B: b})
				nb++
			}
			nb++
		case x < 7:
			b := scfRandB(r)
			if b.Dead == 1 && b.TsMode == 1 {
				// the IdKeeper forgets (source, time) tuples older than 86.4 s at once (id_keeper.go: a threshold
				// of 60*60*24 in millisecond units), so two separately drawn expired bundles of one timestamp
				// get the same ID; such bundles are outside C05 ("whose lifetime has not ended"): keep their
				// timestamps apart (same-millisecond companions of one draw still share theirs)
				b.Group = 10 + len(h)
			}
			b.Local = 0
			from := 1 + r.Intn(4)
			if r.Intn(4) != 0 {
				b.Prev = from
			} else if r.Bool() {
				b.Prev = 1 + r.Intn(4)
			}
			if r.Intn(12) == 0 {
				b.Del = 1
			}
			if r.Intn(3) == 0 {
				scfRandBlk(r, &b)
			}
			h = append(h, scfEv{Kind: "rcv", B: b, From: from})
			nb++
		case x < 9:
			if nb > 0 {
				h = append(h, scfEv{Kind: "dup", K: r.Intn(nb), From: 1 + r.Intn(4)})
			}
		case x < 13:
			h = append(h, scfEv{Kind: "up", Peer: 1 + r.Intn(4), Mode: r.Intn(4)})
		case x < 15:
			h = append(h, scfEv{Kind: "down", Peer: 1 + r.Intn(4)})
		case x < 17:
			h = append(h, scfEv{Kind: "tickp"})
		case x < 18:
			h = append(h, scfEv{Kind: "tickc"})
		case x < 19:
			h = append(h, scfEv{Kind: "restart"})
		default:
			h = append(h, scfEv{Kind: "tickp"})
		}
	}
	return h
}

// several transmissions of one bundle fail at the same moment
func scfRaceHist(r *Rng, zero bool) []scfEv {
	var h []scfEv
	np := 2 + r.Intn(3)
	for _, p := range r.Perm(4)[:np] {
		mode := 1
		if r.Intn(3) == 0 {
			mode = 2
		}
		h = append(h, scfEv{Kind: "up", Peer: 1 + p, Mode: mode})
	}
	b := scfB{TsMode: 1, Group: 1, Dst: scfNoNode, Local: 1}
	if zero {
		b.TsMode = 0
	}
	h = append(h, scfEv{Kind: "sub", B: b}, scfEv{Kind: "tickp"}, scfEv{Kind: "tickp"})
	return h
}

// Core configurations: the inspectAllBundles option of NewCore (cmd/dtnd: inspect-all-bundles) x bundles in
// transit that carry the administrative-record flag, with payloads this implementation reads, does not
// read, and with none.  One received bundle per payload kind (and two ordinary ones), some for a far node,
// some for n1 / n4, with a relay connected before (shape 0) or only after (shape 1) they arrive; then
// retries, a further peer, a restart, further peers, the destinations.
func scfConfHist(r *Rng, inspect, shape int) []scfEv {
	h := []scfEv{{Kind: "conf", Mode: inspect}}
	if shape == 0 {
		h = append(h, scfEv{Kind: "up", Peer: 2, Mode: 0})
	}
	kinds := r.Perm(scfAdmKinds + 2)
	for _, k := range kinds {
		b := scfB{TsMode: r.Intn(2), Group: 1 + r.Intn(2), Dst: scfNoNode, Prev: 3}
		if k < scfAdmKinds {
			b.Adm = k + 1
		}
		switch r.Intn(4) {
		case 0:
			b.Dst = 1
		case 1:
			b.Dst = 4
		}
		if r.Intn(4) == 0 {
			b.Hop = 1
		}
		h = append(h, scfEv{Kind: "rcv", B: b, From: 3})
	}
	if shape == 1 {
		h = append(h, scfEv{Kind: "tickp"}, scfEv{Kind: "up", Peer: 2, Mode: []int{0, 2}[r.Intn(2)]})
	}
	h = append(h, scfEv{Kind: "tickp"}, scfEv{Kind: "up", Peer: 3, Mode: 0}, scfEv{Kind: "tickp"}, scfEv{Kind: "restart"},
		scfEv{Kind: "up", Peer: 2, Mode: 0}, scfEv{Kind: "up", Peer: 4, Mode: []int{0, 2}[r.Intn(2)]}, scfEv{Kind: "tickp"},
		scfEv{Kind: "up", Peer: 1, Mode: 0}, scfEv{Kind: "tickp"})
	return h
}

// a random history under a configuration: some of the received bundles in transit become administrative records
func scfRandomConf(r *Rng, n, inspect int) []scfEv {
	h := scfRandom(r, n)
	for i := range h {
		if h[i].Kind == "rcv" && len(h[i].B.Blk) == 0 && h[i].B.Dst != 0 && r.Intn(2) == 0 {
			h[i].B.Adm = 1 + r.Intn(scfAdmKinds)
		}
	}
	return append([]scfEv{{Kind: "conf", Mode: inspect}}, h...)
}

// Large backlogs: n bundles accepted and waiting at once, most of them for a node that never appears, a few
// (anywhere in the order of acceptance, hence of the store's indices) for n1 and n4; loaded with nobody
// connected (shape 0) or with a relay connected that is handed every one of them at once (shape 1: "all
// peers have it already"); then retry ticks, the destination n1, a new relay, a restart, n4, n1 again.
func scfBulkHist(r *Rng, n, inspect int) []scfEv {
	var h []scfEv
	if inspect >= 0 {
		h = append(h, scfEv{Kind: "conf", Mode: inspect})
	}
	shape := r.Intn(3) / 2
	if shape == 1 {
		h = append(h, scfEv{Kind: "up", Peer: 2, Mode: 0})
	}
	special := map[int]int{}
	for i := 0; i < 6; i++ {
		special[r.Intn(n)] = 1
	}
	for i := 0; i < 3; i++ {
		special[r.Intn(n)] = 4
	}
	special[n-1-r.Intn(2)] = 1 // the youngest ones too
	for i := 0; i < n; i++ {
		// (timestamped bundles only: a backlog takes its time, see the limit in scfRun)
		b := scfB{TsMode: 1, Group: 1 + i%3, Dst: scfNoNode, Prev: 3}
		if d, ok := special[i]; ok {
			b.Dst = d
		}
		if i%11 == 5 {
			b.Hop = 1
		}
		if i%37 == 7 && inspect >= 0 {
			b.Adm = 1 + r.Intn(scfAdmKinds)
		}
		h = append(h, scfEv{Kind: "rcv", B: b, From: 3})
	}
	okOrFirstFails := func() int { return []int{0, 0, 2}[r.Intn(3)] }
	switch r.Intn(3) {
	case 0:
		h = append(h, scfEv{Kind: "up", Peer: 1, Mode: 0}, scfEv{Kind: "tickp"}, scfEv{Kind: "up", Peer: 4, Mode: okOrFirstFails()},
			scfEv{Kind: "tickp"}, scfEv{Kind: "restart"}, scfEv{Kind: "up", Peer: 3, Mode: 0}, scfEv{Kind: "up", Peer: 1, Mode: 0})
	case 1:
		h = append(h, scfEv{Kind: "tickp"}, scfEv{Kind: "up", Peer: 4, Mode: 0}, scfEv{Kind: "up", Peer: 1, Mode: okOrFirstFails()},
			scfEv{Kind: "tickp"}, scfEv{Kind: "tickp"})
	default:
		h = append(h, scfEv{Kind: "tickp"}, scfEv{Kind: "restart"}, scfEv{Kind: "tickp"}, scfEv{Kind: "up", Peer: 1, Mode: okOrFirstFails()},
			scfEv{Kind: "tickp"}, scfEv{Kind: "up", Peer: 2, Mode: 0}, scfEv{Kind: "up", Peer: 4, Mode: 0})
	}
	return h
}

var scfBulkSizes = []int{100, 128, 129, 200, 256, 257}

func genC05scf(o *Out, r *Rng, thorough bool) {
	if os.Getenv("SCF_DEBUG") != "" { // debugging aid for replays: the Core's own log
		log.SetOutput(os.Stderr)
		log.SetLevel(log.DebugLevel)
	}
	jobs := &scfJobs{}
	defer jobs.run(o)
	if ReplayFile != "" {
		data, err := ioutil.ReadFile(ReplayFile)
		if err != nil {
			panic(err)
		}
		for _, ln := range strings.Split(string(data), "\n") {
			// a file of case lines, or a replay file written by ./check (JSON with the case line in a string)
			i := strings.Index(ln, "(case ")
			if i < 0 {
				continue
			}
			ln = strings.TrimRight(strings.TrimSpace(ln[i:]), "\",")
			s, err := ParseS(ln)
			if err != nil {
				panic(err)
			}
			l := s.(sList)
			if atomSym(l[2]) != "hist" {
				continue
			}
			alg := atomSym(l[3])
			if alg == "sensor_mule" {
				alg = "sensor-mule"
			}
			var evs []scfEv
			for _, e := range l[5].(sList) {
				evs = append(evs, scfParseEv(e))
			}
			jobs.add(alg, evs, atomU(l[4]))
		}
		return
	}
	// 1. zero-time bundles and the store sweep; concurrent failures (the two observed defects first)
	for _, alg := range scfAlgs {
		jobs.add(alg, []scfEv{
			{Kind: "sub", B: scfB{TsMode: 0, Dst: scfNoNode, Local: 1}},
			{Kind: "rcv", B: scfB{TsMode: 0, Dst: 1, Prev: 2}, From: 2},
			{Kind: "tickc"}, {Kind: "tickp"}, {Kind: "restart"}, {Kind: "tickc"},
			{Kind: "up", Peer: 1, Mode: 0}}, 0)
	}
	nrace := 10
	if thorough {
		nrace = 150
	}
	for i := 0; i < nrace; i++ {
		for _, alg := range []string{"epidemic", "prophet", "sensor-mule"} {
			jobs.add(alg, scfRaceHist(r, i%2 == 1), r.U64()%1000)
		}
	}
	// 1b. received bundles with several blocks, known and unknown, with every combination of the block
	// processing flags in every adjacent order (quick: half of the pairs that begin with a known block)
	thin := r.Intn(2)
	if thorough {
		thin = -1
	}
	scfBlockHists(thin, func(alg string, h []scfEv) { jobs.add(alg, h, 0) })
	// 1c. schedules: a failure report that is slower than the rest of the forwarding attempt; and one
	// failing part-file write
	nsched := 2
	if thorough {
		nsched = 12
	}
	for i := 0; i < nsched; i++ {
		for _, alg := range []string{"epidemic", "prophet", "sensor-mule"} {
			jobs.add(alg, scfSchedHist(r, 1), r.U64()%1000)
			jobs.add(alg, scfSchedHist(r, 2), r.U64()%1000)
		}
		for _, alg := range []string{"spray", "binary_spray", "dtlsr"} {
			jobs.add(alg, scfSchedHist(r, 2), r.U64()%1000)
		}
		for _, alg := range scfAlgs {
			jobs.add(alg, scfFaultHist(r), 0)
		}
	}
	// 2. bounded-exhaustive histories: every history up to the depth; in the quick tier the deepest
	// level of the epidemic sweep is thinned to a third (which third rotates with the seed)
	depthE, depthO := 3, 2
	if thorough {
		depthE, depthO = 4, 3
	}
	rot := r.Intn(3)
	for _, alg := range scfAlgs {
		d := depthO
		if alg == "epidemic" {
			d = depthE
		}
		k := 0
		scfEnum(d, func(h []scfEv) {
			k++
			if !thorough && alg == "epidemic" && k%3 != rot {
				return
			}
			jobs.add(alg, h, 0)
		})
		if !thorough && alg == "epidemic" {
			scfEnum(d-1, func(h []scfEv) { jobs.add(alg, h, 0) })
		}
	}
	// 3. random histories
	nr := 8
	if thorough {
		nr = 150
	}
	for i := 0; i < nr; i++ {
		for _, alg := range scfAlgs {
			jobs.add(alg, scfRandom(r, 10+r.Intn(31)), r.U64()%1000)
		}
	}
	// 4. configurations: the Core with and without inspectAllBundles x administrative records in transit
	for _, alg := range scfAlgs {
		for inspect := 0; inspect < 2; inspect++ {
			for shape := 0; shape < 2; shape++ {
				jobs.add(alg, scfConfHist(r, inspect, shape), 0)
			}
		}
	}
	nrc := 2
	if thorough {
		nrc = 40
	}
	for i := 0; i < nrc; i++ {
		for _, alg := range scfAlgs {
			jobs.add(alg, scfRandomConf(r, 10+r.Intn(31), (i+1)%2), r.U64()%1000)
		}
	}
	// 5. large backlogs: sizes around powers of two and round numbers (quick: one size per algorithm, the
	// assignment rotating with the seed, and one more of 130..249 for epidemic; thorough: every size for every
	// algorithm, 500 and 1000 for three of them)
	rotB := r.Intn(len(scfBulkSizes))
	for i, alg := range scfAlgs {
		if thorough {
			for _, n := range scfBulkSizes {
				jobs.add(alg, scfBulkHist(r, n, r.Intn(3)-1), r.U64()%1000)
			}
			continue
		}
		jobs.add(alg, scfBulkHist(r, scfBulkSizes[(i+rotB)%len(scfBulkSizes)], r.Intn(3)-1), r.U64()%1000)
	}
	if thorough {
		for _, alg := range []string{"epidemic", "spray", "dtlsr"} {
			jobs.add(alg, scfBulkHist(r, 500, -1), r.U64()%1000)
			jobs.add(alg, scfBulkHist(r, 1000, -1), r.U64()%1000)
		}
		jobs.add("prophet", scfBulkHist(r, 130+r.Intn(400), 1), r.U64()%1000)
	} else {
		jobs.add("epidemic", scfBulkHist(r, 130+r.Intn(120), r.Intn(2)), r.U64()%1000)
	}
}

func init() { register("C05scf", genC05scf) }
