package main

// scf: store-carry-forward histories (C05).  A real routing.Core on a temp directory is driven through
// event histories {submit, receive, receive again, peer up (with a send-outcome script), peer down,
// pending tick, clean tick, orderly restart}; after every event the per-peer send log and the store
// status (known / pending / sent list) of every bundle the harness handed in are recorded.

import (
	"bytes"
	"fmt"
	"io/ioutil"
	"os"
	"sort"
	"strings"
	"sync"
	"time"

	log "github.com/sirupsen/logrus"

	"github.com/dtn7/dtn7-go/pkg/bpv7"
	"github.com/dtn7/dtn7-go/pkg/cla"
	"github.com/dtn7/dtn7-go/pkg/routing"
	"github.com/dtn7/dtn7-go/pkg/storage"
)

const (
	scfLifeLong  = 86400000 // 24 h in ms: far from expiry during a history
	scfLifeShort = 3600000  // 1 h in ms: used with a creation time / age far beyond it
	scfAgeYoung  = 1000
	scfAgeOld    = 2 * 3600000
	scfNoNode    = 5 // destination that never becomes a peer
	scfUnknownBT = 222
)

var scfAlgs = []string{"epidemic", "spray", "binary_spray", "prophet", "dtlsr", "sensor-mule"}

func scfNode(i int) string { return fmt.Sprintf("dtn://n%d/", i) }

func scfNodeNum(e bpv7.EndpointID) int {
	var k int
	if _, err := fmt.Sscanf(e.String(), "dtn://n%d/", &k); err != nil {
		return 99
	}
	return k
}

func scfConf(alg string) routing.RoutingConf {
	switch alg {
	case "spray", "binary_spray":
		return routing.RoutingConf{Algorithm: alg, SprayConf: routing.SprayConfig{Multiplicity: 3}}
	case "prophet":
		return routing.RoutingConf{Algorithm: alg, ProphetConf: routing.ProphetConfig{PInit: 0.75, Beta: 0.25, Gamma: 0.98, AgeInterval: "100000h"}}
	case "dtlsr":
		return routing.RoutingConf{Algorithm: alg, DTLSRConf: routing.DTLSRConfig{RecomputeTime: "1000h", BroadcastTime: "1000h", PurgeTime: "1000h"}}
	case "sensor-mule":
		return routing.RoutingConf{Algorithm: alg, SensorMuleConf: routing.SensorNetworkMuleConfig{
			Algorithm: &routing.RoutingConf{Algorithm: "epidemic"}, SensorNodeRegex: "^dtn://n3/$"}}
	}
	return routing.RoutingConf{Algorithm: alg}
}

// bundle specification (input)
type scfB struct{ TsMode, Group, Dst, Prev, Hop, Del, Local, Dead int }

// event specification (input)
type scfEv struct {
	Kind string // sub rcv dup up down tickp tickc restart
	B    scfB
	K    int // dup: index of the tracked bundle
	From int // rcv, dup
	Peer int // up, down
	Mode int // up: outcome script
}

func (b scfB) s() []S {
	return []S{I(b.TsMode), I(b.Group), I(b.Dst), I(b.Prev), I(b.Hop), I(b.Del), I(b.Local), I(b.Dead)}
}

func (e scfEv) S() S {
	switch e.Kind {
	case "sub":
		return LL(append([]S{Sym("sub")}, e.B.s()...))
	case "rcv":
		return LL(append(append([]S{Sym("rcv")}, e.B.s()...), I(e.From)))
	case "dup":
		return L(Sym("dup"), I(e.K), I(e.From))
	case "up":
		return L(Sym("up"), I(e.Peer), I(e.Mode))
	case "down":
		return L(Sym("down"), I(e.Peer))
	}
	return L(Sym(e.Kind))
}

func scfParseEv(s S) scfEv {
	l := s.(sList)
	k := atomSym(l[0])
	e := scfEv{Kind: k}
	rb := func() {
		e.B = scfB{atomI(l[1]), atomI(l[2]), atomI(l[3]), atomI(l[4]), atomI(l[5]), atomI(l[6]), atomI(l[7]), atomI(l[8])}
	}
	switch k {
	case "sub":
		rb()
	case "rcv":
		rb()
		e.From = atomI(l[9])
	case "dup":
		e.K, e.From = atomI(l[1]), atomI(l[2])
	case "up":
		e.Peer, e.Mode = atomI(l[1]), atomI(l[2])
	case "down":
		e.Peer = atomI(l[1])
	}
	return e
}

// a bundle handed to the node
type scfTB struct {
	epoch    int
	received bool
	idx  int
	spec scfB
	b    bpv7.Bundle
	ts   uint64
	life uint64
	age  int64 // -1 = no age block
	hl   int   // -1 = no hop count block
	hc   int
}

func scfTag(idx int) []byte { return []byte(fmt.Sprintf("scf-%d", idx)) }

func scfTagOf(b *bpv7.Bundle) int {
	pl, err := b.PayloadBlock()
	if err != nil {
		return -1
	}
	var k int
	if _, err := fmt.Sscanf(string(pl.Value.(*bpv7.PayloadBlock).Data()), "scf-%d", &k); err != nil {
		return -1
	}
	return k
}

type scfRunner struct {
	alg     string
	n       *Node
	t0      uint64
	epoch   int
	tracked []*scfTB
	up      map[int]int // peer -> mode
	att     map[[2]int]int
	attMu   sync.Mutex
	salt    uint64
	// rendezvous of the sends of one forwarding attempt
	rvMu   sync.Mutex
	rvCh   chan struct{}
	rvLast time.Time
}

// all sends that are in flight together are released together
func (h *scfRunner) rendezvous() {
	h.rvMu.Lock()
	h.rvLast = time.Now()
	ch := h.rvCh
	if ch == nil {
		ch = make(chan struct{})
		h.rvCh = ch
		go func() {
			for {
				time.Sleep(40 * time.Microsecond)
				h.rvMu.Lock()
				if time.Since(h.rvLast) > 150*time.Microsecond {
					h.rvCh = nil
					h.rvMu.Unlock()
					close(ch)
					return
				}
				h.rvMu.Unlock()
			}
		}()
	}
	h.rvMu.Unlock()
	<-ch
}

// the outcome script of a peer: a pure function of (mode, peer, bundle, attempt number)
func (h *scfRunner) fails(peer, mode int, rec *SendRec) bool {
	idx := scfTagOf(&rec.Bndl)
	h.attMu.Lock()
	key := [2]int{peer, idx}
	a := h.att[key]
	h.att[key] = a + 1
	h.attMu.Unlock()
	switch mode {
	case 0:
		return false
	case 1:
		return true
	case 2:
		return a == 0
	default:
		x := h.salt + uint64(peer)*0x9E3779B97F4A7C15 + uint64(idx+7)*0xBF58476D1CE4E5B9 + uint64(a)*0x94D049BB133111EB
		x ^= x >> 29
		x *= 0xBF58476D1CE4E5B9
		x ^= x >> 32
		return x%5 < 2
	}
}

func (h *scfRunner) mkBundle(spec scfB, idx int, received bool) *scfTB {
	return h.mkBundleE(spec, idx, received, h.epoch, uint64(idx), received)
}

// the bundle is a function of (spec, idx, epoch, sequence number): it can be built again unchanged
func (h *scfRunner) mkBundleE(spec scfB, idx int, received bool, epoch int, seq uint64, wire bool) *scfTB {
	t := &scfTB{idx: idx, spec: spec, age: -1, hl: -1, epoch: epoch, received: received}
	src := fmt.Sprintf("dtn://n0/e%d", epoch)
	if spec.Local == 0 {
		src = "dtn://n9/x"
		if !received {
			src = "dtn://n8/x" // a foreign source handed in by an application: its own ID space
		}
	}
	dst := scfNode(spec.Dst) + "in"
	if spec.Dst == 0 {
		dst = "dtn://n0/app"
	}
	t.life = scfLifeLong
	if spec.Dead == 1 {
		t.life = scfLifeShort
	}
	bl := bpv7.Builder().CRC(bpv7.CRC32).Source(src).Destination(dst).
		Lifetime(time.Duration(t.life) * time.Millisecond).PayloadBlock(scfTag(idx))
	// Build refuses a bundle whose lifetime is over: build it alive, make it old afterwards
	if spec.TsMode == 0 {
		t.ts = 0
		t.age = scfAgeYoung
		bl = bl.CreationTimestampEpoch().BundleAgeBlock(uint64(t.age))
	} else {
		t.ts = h.t0 - 60000 + uint64(spec.Group)
		bl = bl.CreationTimestampTime(bpv7.DtnTime(t.ts).Time())
	}
	if spec.Prev != 0 {
		bl = bl.Canonical(bpv7.NewPreviousNodeBlock(MustEID(scfNode(spec.Prev))))
	}
	switch spec.Hop {
	case 1:
		t.hl, t.hc = 5, 1
	case 2:
		t.hl, t.hc = 3, 3
	}
	if t.hl >= 0 {
		bl = bl.Canonical(&bpv7.HopCountBlock{Limit: uint8(t.hl), Count: uint8(t.hc)})
	}
	if spec.Del == 1 {
		bl = bl.Canonical(bpv7.NewGenericExtensionBlock([]byte{1, 2, 3}, scfUnknownBT), bpv7.DeleteBundle)
	}
	b, err := bl.Build()
	if err != nil {
		panic(err)
	}
	if spec.Dead == 1 {
		if spec.TsMode == 0 {
			t.age = scfAgeOld
			if cb, err := b.ExtensionBlock(bpv7.ExtBlockTypeBundleAgeBlock); err == nil {
				cb.Value = bpv7.NewBundleAgeBlock(uint64(t.age))
			} else {
				panic(err)
			}
		} else {
			t.ts = h.t0 - 10*86400000 + uint64(spec.Group)
			b.PrimaryBlock.CreationTimestamp[0] = t.ts
		}
	}
	if wire {
		// a peer's bundle carries its own sequence number
		b.PrimaryBlock.CreationTimestamp[1] = seq
	}
	if wire && spec.Dead == 0 {
		// and comes over the wire (the parser refuses a bundle whose lifetime is over: such a bundle is
		// handed to the Core as it is, standing for one that was accepted earlier)
		var buf bytes.Buffer
		if err := b.WriteBundle(&buf); err != nil {
			panic(err)
		}
		if b, err = bpv7.ParseBundle(&buf); err != nil {
			panic(err)
		}
	}
	t.b = b
	return t
}

func (t *scfTB) desc() S {
	prev := t.spec.Prev
	age := S(L())
	if t.age >= 0 {
		age = L(I64(t.age))
	}
	hop := S(L())
	if t.hl >= 0 {
		hop = L(I(t.hl), I(t.hc))
	}
	return L(I(t.idx), I(t.spec.Local), I(t.spec.Dst), I(prev), U(t.ts), U(t.life), age, hop, I(t.spec.Del), I(t.spec.Dead))
}

func (h *scfRunner) sentKey() string {
	if h.alg == "sensor-mule" {
		return "routing/epidemic/sent"
	}
	return "routing/" + h.alg + "/sent"
}

func (h *scfRunner) status() S {
	var l []S
	st := h.n.Core.VerifStore()
	for _, t := range h.tracked {
		known, pending := false, false
		var sent []int
		if bi, err := st.QueryId(t.b.ID()); err == nil && len(bi.Parts) > 0 {
			// (a stored bundle whose lifetime is over cannot be read back: ParseBundle validates it)
			if sb, err := bi.Parts[0].Load(); (err == nil && scfTagOf(&sb) == t.idx) || (err != nil && t.spec.Dead == 1) {
				known, pending = true, bi.Pending
				if eids, ok := bi.Properties[h.sentKey()].([]bpv7.EndpointID); ok {
					for _, e := range eids {
						sent = append(sent, scfNodeNum(e))
					}
				}
			}
		}
		var sl []S
		for _, p := range sent {
			sl = append(sl, I(p))
		}
		l = append(l, L(I(t.idx), B(known), B(pending), LL(sl)))
	}
	return LL(l)
}

func (h *scfRunner) prime() {
	// prophet: the peers 1..3 are known to be good carriers towards the far node, so that the
	// algorithm hands bundles to them (the real import path of a peer's metadata)
	if p := h.n.Core.VerifProphet(); p != nil {
		for i := 1; i <= 3; i++ {
			p.VerifImport(MustEID(scfNode(i)), map[bpv7.EndpointID]float64{MustEID(scfNode(scfNoNode) + "in"): 0.9})
		}
	}
}

var scfOnce sync.Once

// The store directory: a memory-backed file system when there is one (every store update is an
// fsync; on a shared disk that dominates the run time), the check's work directory otherwise.
func scfNewNode(conf routing.RoutingConf) *Node {
	scfOnce.Do(func() { storage.VerifSetMemtableSize(256 << 10) })
	n := &Node{ID: MustEID(scfNode(0)), Conf: conf, Peers: map[string]*MockCLA{}, ownDir: true}
	if d, err := ioutil.TempDir("/dev/shm", "scfnode"); err == nil {
		n.Dir = d
	} else {
		n.Dir = workDir()
	}
	n.open()
	return n
}

// run one history; returns the observation list and whether it took suspiciously long
func scfRun(alg string, evs []scfEv, salt uint64) (S, bool) {
	h := &scfRunner{alg: alg, up: map[int]int{}, att: map[[2]int]int{}, salt: salt}
	h.n = scfNewNode(scfConf(alg))
	defer func() { h.n.Destroy() }()
	h.prime()
	h.t0 = uint64(bpv7.DtnTimeNow())
	var obs []S
	for _, e := range evs {
		now := uint64(bpv7.DtnTimeNow())
		before := h.n.LastSendN()
		var head []S
		switch e.Kind {
		case "sub":
			t := h.mkBundle(e.B, len(h.tracked), false)
			h.n.Event++
			h.n.Core.SendBundle(&t.b) // the sequence number is assigned to t.b
			h.tracked = append(h.tracked, t)
			head = []S{Sym("sub"), U(now), t.desc()}
		case "rcv":
			t := h.mkBundle(e.B, len(h.tracked), true)
			h.n.Receive(t.b, scfNode(e.From))
			h.tracked = append(h.tracked, t)
			head = []S{Sym("rcv"), U(now), t.desc(), I(e.From)}
		case "dup":
			// (a bundle an application submitted with a foreign source is dropped at once; it has no ID a
			// peer could send back without colliding with the IdKeeper's numbering after a restart)
			if e.K >= len(h.tracked) || (!h.tracked[e.K].received && h.tracked[e.K].spec.Local == 0) {
				head = []S{Sym("nop"), U(now)}
				break
			}
			// the same bundle arrives again: built anew (the Core changes the blocks of a bundle it
			// forwards in place), with the sequence number it was given
			t := h.tracked[e.K]
			again := h.mkBundleE(t.spec, t.idx, t.received, t.epoch, t.b.PrimaryBlock.CreationTimestamp[1], true)
			h.n.Receive(again.b, scfNode(e.From))
			head = []S{Sym("dup"), U(now), I(t.idx), I(e.From)}
		case "up":
			if _, isUp := h.up[e.Peer]; isUp {
				head = []S{Sym("nop"), U(now)}
				break
			}
			peer, mode := e.Peer, e.Mode
			h.up[peer] = mode
			m := &MockCLA{Name: fmt.Sprintf("p%d", peer), Peer: MustEID(scfNode(peer)), node: h.n,
				ch:    make(chan cla.ConvergenceStatus, 16),
				Fail:  func(rec *SendRec) bool { return h.fails(peer, mode, rec) },
				Block: func(rec *SendRec) { h.rendezvous() }}
			h.n.Peers[m.Name] = m
			h.n.Event++
			h.n.Core.RegisterConvergable(m)
			h.n.Core.VerifPeerAppeared(m)
			head = []S{Sym("up"), U(now), I(peer), I(mode)}
		case "down":
			if _, isUp := h.up[e.Peer]; !isUp {
				head = []S{Sym("nop"), U(now)}
				break
			}
			delete(h.up, e.Peer)
			h.n.PeerDown(fmt.Sprintf("p%d", e.Peer))
			head = []S{Sym("down"), U(now), I(e.Peer)}
		case "tickp":
			h.n.TickPending()
			head = []S{Sym("tickp"), U(now)}
		case "tickc":
			h.n.TickClean()
			head = []S{Sym("tickc"), U(now)}
		case "restart":
			h.n.Restart()
			h.up = map[int]int{}
			h.epoch++
			h.prime()
			head = []S{Sym("restart"), U(now)}
		default:
			panic("scf: unknown event " + e.Kind)
		}
		// sends of this event, in a canonical order
		type srec struct {
			p, idx int
			ok     bool
		}
		var ss []srec
		other := 0
		for _, s := range h.n.SendsSince(before) {
			b := s.Bndl
			idx := scfTagOf(&b)
			if idx < 0 {
				other++ // routing metadata bundles of prophet
				continue
			}
			var p int
			fmt.Sscanf(s.Peer, "p%d", &p)
			ss = append(ss, srec{p, idx, s.OK})
		}
		sort.Slice(ss, func(i, j int) bool {
			if ss[i].idx != ss[j].idx {
				return ss[i].idx < ss[j].idx
			}
			return ss[i].p < ss[j].p
		})
		var sl []S
		for _, s := range ss {
			sl = append(sl, L(I(s.p), I(s.idx), B(s.ok)))
		}
		obs = append(obs, LL(append(head, LL(sl), h.status(), I(other))))
	}
	slow := uint64(bpv7.DtnTimeNow())-h.t0 > 20000
	return LL(obs), slow
}

type scfJob struct {
	alg  string
	evs  []scfEv
	salt uint64
	obs  S
	slow bool
}

type scfJobs struct{ l []*scfJob }

func (j *scfJobs) add(alg string, evs []scfEv, salt uint64) {
	j.l = append(j.l, &scfJob{alg: alg, evs: evs, salt: salt})
}

// run the histories on a few workers (every history has its own Core and directory) and write the
// cases in the order of the job list
func (j *scfJobs) run(o *Out) {
	const workers = 6
	ch := make(chan *scfJob)
	var wg sync.WaitGroup
	for w := 0; w < workers; w++ {
		wg.Add(1)
		go func() {
			defer wg.Done()
			for jb := range ch {
				jb.obs, jb.slow = scfRun(jb.alg, jb.evs, jb.salt)
			}
		}()
	}
	for _, jb := range j.l {
		ch <- jb
	}
	close(ch)
	wg.Wait()
	for _, jb := range j.l {
		if jb.slow {
			o.Case("skipped", Sym("slow"))
			continue
		}
		var sp []S
		for _, e := range jb.evs {
			sp = append(sp, e.S())
		}
		o.Case("hist", Sym(strings.Replace(jb.alg, "-", "_", -1)), U(jb.salt), LL(sp), jb.obs)
	}
}

// the small alphabet of the bounded-exhaustive part
func scfAlphabet(pos int) []scfEv {
	return []scfEv{
		{Kind: "sub", B: scfB{TsMode: 1, Group: 1, Dst: 1, Local: 1}},       // same-millisecond group, destination n1
		{Kind: "sub", B: scfB{TsMode: 0, Dst: scfNoNode, Local: 1}},           // no clock, far destination
		{Kind: "rcv", B: scfB{TsMode: 1, Group: 2, Dst: scfNoNode, Prev: 2}, From: 2}, // from n2
		{Kind: "dup", K: 0, From: 3},
		{Kind: "up", Peer: 1, Mode: 2},  // first send of a bundle fails, later ones succeed
		{Kind: "up", Peer: 2, Mode: 1},  // every send fails
		{Kind: "tickp"},
		{Kind: "tickc"},
		{Kind: "restart"},
	}
}

func scfEnum(depth int, f func(h []scfEv)) {
	var rec func(pre []scfEv)
	rec = func(pre []scfEv) {
		if len(pre) == depth {
			f(append([]scfEv(nil), pre...))
			return
		}
		for _, e := range scfAlphabet(len(pre)) {
			rec(append(pre, e))
		}
	}
	rec(nil)
}

func scfRandB(r *Rng) scfB {
	b := scfB{TsMode: r.Intn(3) % 2, Group: 1 + r.Intn(2), Local: 1}
	switch r.Intn(6) {
	case 0:
		b.Dst = scfNoNode
	case 1:
		b.Dst = 0
		if r.Intn(3) != 0 {
			b.Dst = scfNoNode
		}
	default:
		b.Dst = 1 + r.Intn(4)
	}
	if r.Intn(12) == 0 {
		b.Hop = 2
	} else if r.Intn(4) == 0 {
		b.Hop = 1
	}
	if r.Intn(14) == 0 {
		b.Dead = 1
	}
	return b
}

func scfRandom(r *Rng, n int) []scfEv {
	var h []scfEv
	nb := 0
	for len(h) < n {
		switch x := r.Intn(20); {
		case x < 4:
			b := scfRandB(r)
			if b.Dead == 1 && b.TsMode == 1 {
				// the IdKeeper forgets (source, time) tuples older than 86.4 s at once (id_keeper.go: a threshold
				// of 60*60*24 in millisecond units), so two separately drawn expired bundles of one timestamp
				// get the same ID; such bundles are outside C05 ("whose lifetime has not ended"): keep their
				// timestamps apart (same-millisecond companions of one draw still share theirs)
				b.Group = 10 + len(h)
			}
			if r.Intn(15) == 0 {
				b.Local = 0
			}
			h = append(h, scfEv{Kind: "sub", B: b})
			// same-millisecond companions
			for r.Intn(3) == 0 && len(h) < n {
				h = append(h, scfEv{Kind: "sub", B: b})
				nb++
			}
			nb++
		case x < 7:
			b := scfRandB(r)
			if b.Dead == 1 && b.TsMode == 1 {
				// the IdKeeper forgets (source, time) tuples older than 86.4 s at once (id_keeper.go: a threshold
				// of 60*60*24 in millisecond units), so two separately drawn expired bundles of one timestamp
				// get the same ID; such bundles are outside C05 ("whose lifetime has not ended"): keep their
				// timestamps apart (same-millisecond companions of one draw still share theirs)
				b.Group = 10 + len(h)
			}
			b.Local = 0
			from := 1 + r.Intn(4)
			if r.Intn(4) != 0 {
				b.Prev = from
			} else if r.Bool() {
				b.Prev = 1 + r.Intn(4)
			}
			if r.Intn(12) == 0 {
				b.Del = 1
			}
			h = append(h, scfEv{Kind: "rcv", B: b, From: from})
			nb++
		case x < 9:
			if nb > 0 {
				h = append(h, scfEv{Kind: "dup", K: r.Intn(nb), From: 1 + r.Intn(4)})
			}
		case x < 13:
			h = append(h, scfEv{Kind: "up", Peer: 1 + r.Intn(4), Mode: r.Intn(4)})
		case x < 15:
			h = append(h, scfEv{Kind: "down", Peer: 1 + r.Intn(4)})
		case x < 17:
			h = append(h, scfEv{Kind: "tickp"})
		case x < 18:
			h = append(h, scfEv{Kind: "tickc"})
		case x < 19:
			h = append(h, scfEv{Kind: "restart"})
		default:
			h = append(h, scfEv{Kind: "tickp"})
		}
	}
	return h
}

// several transmissions of one bundle fail at the same moment
func scfRaceHist(r *Rng, zero bool) []scfEv {
	var h []scfEv
	np := 2 + r.Intn(3)
	for _, p := range r.Perm(4)[:np] {
		mode := 1
		if r.Intn(3) == 0 {
			mode = 2
		}
		h = append(h, scfEv{Kind: "up", Peer: 1 + p, Mode: mode})
	}
	b := scfB{TsMode: 1, Group: 1, Dst: scfNoNode, Local: 1}
	if zero {
		b.TsMode = 0
	}
	h = append(h, scfEv{Kind: "sub", B: b}, scfEv{Kind: "tickp"}, scfEv{Kind: "tickp"})
	return h
}

func genC05scf(o *Out, r *Rng, thorough bool) {
	if os.Getenv("SCF_DEBUG") != "" { // debugging aid for replays: the Core's own log
		log.SetOutput(os.Stderr)
		log.SetLevel(log.DebugLevel)
	}
	jobs := &scfJobs{}
	defer jobs.run(o)
	if ReplayFile != "" {
		data, err := ioutil.ReadFile(ReplayFile)
		if err != nil {
			panic(err)
		}
		for _, ln := range strings.Split(string(data), "\n") {
			// a file of case lines, or a replay file written by ./check (JSON with the case line in a string)
			i := strings.Index(ln, "(case ")
			if i < 0 {
				continue
			}
			ln = strings.TrimRight(strings.TrimSpace(ln[i:]), "\",")
			s, err := ParseS(ln)
			if err != nil {
				panic(err)
			}
			l := s.(sList)
			if atomSym(l[2]) != "hist" {
				continue
			}
			alg := strings.Replace(atomSym(l[3]), "_", "-", -1)
			var evs []scfEv
			for _, e := range l[5].(sList) {
				evs = append(evs, scfParseEv(e))
			}
			jobs.add(alg, evs, atomU(l[4]))
		}
		return
	}
	// 1. zero-time bundles and the store sweep; concurrent failures (the two observed defects first)
	for _, alg := range scfAlgs {
		jobs.add(alg, []scfEv{
			{Kind: "sub", B: scfB{TsMode: 0, Dst: scfNoNode, Local: 1}},
			{Kind: "rcv", B: scfB{TsMode: 0, Dst: 1, Prev: 2}, From: 2},
			{Kind: "tickc"}, {Kind: "tickp"}, {Kind: "restart"}, {Kind: "tickc"},
			{Kind: "up", Peer: 1, Mode: 0}}, 0)
	}
	nrace := 10
	if thorough {
		nrace = 150
	}
	for i := 0; i < nrace; i++ {
		for _, alg := range []string{"epidemic", "prophet", "sensor-mule"} {
			jobs.add(alg, scfRaceHist(r, i%2 == 1), r.U64()%1000)
		}
	}
	// 2. bounded-exhaustive histories: every history up to the depth; in the quick tier the deepest
	// level of the epidemic sweep is thinned to a third (which third rotates with the seed)
	depthE, depthO := 3, 2
	if thorough {
		depthE, depthO = 4, 3
	}
	rot := r.Intn(3)
	for _, alg := range scfAlgs {
		d := depthO
		if alg == "epidemic" {
			d = depthE
		}
		k := 0
		scfEnum(d, func(h []scfEv) {
			k++
			if !thorough && alg == "epidemic" && k%3 != rot {
				return
			}
			jobs.add(alg, h, 0)
		})
		if !thorough && alg == "epidemic" {
			scfEnum(d-1, func(h []scfEv) { jobs.add(alg, h, 0) })
		}
	}
	// 3. random histories
	nr := 8
	if thorough {
		nr = 150
	}
	for i := 0; i < nr; i++ {
		for _, alg := range scfAlgs {
			jobs.add(alg, scfRandom(r, 10+r.Intn(31)), r.U64()%1000)
		}
	}
}

func init() { register("C05scf", genC05scf) }
