package main

// C16 - CLA manager: the real cla.Manager under scripted mock adapters.
//
// Generators (all registered under "C16clamgr"):
//   kind "seq"    - event sequences {register, unregister, restart, tick, peer-disappeared, close}
//                   with a per-step oracle (outcome of Start per adapter); a tick is one synchronous
//                   retry pass (hook VerifRetryPass, the real ticker is parked at 1 h).
//                   (a) bounded-exhaustive for one adapter x permanent/non-permanent x budget 0..3,
//                   (b) random with 2..4 adapters sharing addresses / endpoint ids.
//   kind "ticker" - one adapter on the REAL retry ticker (1 ms): register, let the ticker run
//                   until the registry is stable (empty or everything active), peer loss, close.
//
// Observed after each step: status (ok | panic | timeout), the Start/Close calls the step made on
// the mocks, the ids in Sender() / Receiver(), and a registry snapshot (address, instance, ttl).

import (
	"errors"
	"fmt"
	"sort"
	"sync"
	"time"

	"github.com/dtn7/dtn7-go/pkg/bpv7"
	"github.com/dtn7/dtn7-go/pkg/cla"
)

const (
	cmOk = iota
	cmFailRetry
	cmFailNo
	cmClose
)

var cmKindSym = []string{"ok", "fr", "fn", "close"}

type cmCall struct{ id, kind int }

type cmLog struct {
	mu    sync.Mutex
	calls []cmCall
}

func (l *cmLog) add(id, kind int) {
	l.mu.Lock()
	l.calls = append(l.calls, cmCall{id, kind})
	l.mu.Unlock()
}
func (l *cmLog) take() []cmCall {
	l.mu.Lock()
	c := l.calls
	l.calls = nil
	l.mu.Unlock()
	return c
}

type cmAdCfg struct {
	addr int
	perm bool
	role int // 0 sender, 1 receiver, 2 both
	eid  int
	peer int
}

// cmConv is the scripted adapter; the three role types below embed it.
type cmConv struct {
	id   int
	cfg  cmAdCfg
	eid  bpv7.EndpointID
	peer bpv7.EndpointID
	ch   chan cla.ConvergenceStatus
	log  *cmLog

	mu        sync.Mutex
	next      int   // outcome of the next Start (per-step oracle)
	script    []int // ticker mode: outcomes consumed in order (then ok)
	useScript bool
	running   bool // the last Start succeeded and Close was not called since
	closeErr  bool // outcome of the next Close (per-step oracle, clamgr_ext.go): nil / an error

	// schedule points for clamgr_conc.go: when armed, called once from inside the next Start / Close
	onStart, onClose func()
}

func (c *cmConv) takeHook(p *func()) func() {
	c.mu.Lock()
	h := *p
	*p = nil
	c.mu.Unlock()
	return h
}

func (c *cmConv) Start() (error, bool) {
	if h := c.takeHook(&c.onStart); h != nil {
		h()
	}
	c.mu.Lock()
	o := c.next
	if c.useScript {
		o = cmOk
		if len(c.script) > 0 {
			o = c.script[0]
			c.script = c.script[1:]
		}
	}
	c.running = o == cmOk
	c.mu.Unlock()
	c.log.add(c.id, o)
	switch o {
	case cmOk:
		return nil, false
	case cmFailRetry:
		return errors.New("scripted failure"), true
	default:
		return errors.New("scripted failure"), false
	}
}
func (c *cmConv) Close() error {
	if h := c.takeHook(&c.onClose); h != nil {
		h()
	}
	c.mu.Lock()
	c.running = false
	fail := c.closeErr
	c.mu.Unlock()
	c.log.add(c.id, cmClose)
	if fail {
		// the adapter is stopped all the same (the property speaks of "stopped", not of Close() == nil)
		return errors.New("scripted close failure")
	}
	return nil
}
func (c *cmConv) isRunning() bool {
	c.mu.Lock()
	defer c.mu.Unlock()
	return c.running
}
func (c *cmConv) Channel() chan cla.ConvergenceStatus { return c.ch }
func (c *cmConv) Address() string                     { return fmt.Sprintf("mock://%d", c.cfg.addr) }
func (c *cmConv) IsPermanent() bool                   { return c.cfg.perm }

type cmSender struct{ *cmConv }

func (s *cmSender) Send(bpv7.Bundle) error             { return nil }
func (s *cmSender) GetPeerEndpointID() bpv7.EndpointID { return s.peer }

type cmReceiver struct{ *cmConv }

func (r *cmReceiver) GetEndpointID() bpv7.EndpointID { return r.eid }

type cmBoth struct{ *cmConv }

func (b *cmBoth) Send(bpv7.Bundle) error             { return nil }
func (b *cmBoth) GetPeerEndpointID() bpv7.EndpointID { return b.peer }
func (b *cmBoth) GetEndpointID() bpv7.EndpointID     { return b.eid }

var cmEids = func() []bpv7.EndpointID {
	var es []bpv7.EndpointID
	for i := 0; i < 8; i++ {
		es = append(es, bpv7.MustNewEndpointID(fmt.Sprintf("dtn://n%d/", i)))
	}
	return es
}()

type cmWorld struct {
	qttl   int
	ads    []cmAdCfg
	convs  []*cmConv
	ifaces []cla.Convergence
	log    *cmLog
	mgr    *cla.Manager
	fwd    chan cla.ConvergenceStatus // what the manager forwarded on Channel()
	closed bool
	hung   bool // a step did not return: a goroutine of the manager may hold an element mutex for ever
}

func cmNewWorld(qttl int, ads []cmAdCfg, retry time.Duration) *cmWorld {
	w := &cmWorld{qttl: qttl, ads: ads, log: &cmLog{}, fwd: make(chan cla.ConvergenceStatus, 256)}
	for i, a := range ads {
		c := &cmConv{id: i, cfg: a, eid: cmEids[a.eid%8], peer: cmEids[a.peer%8],
			ch: make(chan cla.ConvergenceStatus), log: w.log}
		w.convs = append(w.convs, c)
		switch a.role {
		case 0:
			w.ifaces = append(w.ifaces, &cmSender{c})
		case 1:
			w.ifaces = append(w.ifaces, &cmReceiver{c})
		default:
			w.ifaces = append(w.ifaces, &cmBoth{c})
		}
	}
	w.mgr = cla.NewManagerVerif(int32(qttl), retry)
	go func(ch chan cla.ConvergenceStatus, fwd chan cla.ConvergenceStatus) { // outChnl is unbuffered: always drain it
		for cs := range ch {
			select {
			case fwd <- cs:
			default:
			}
		}
	}(w.mgr.Channel(), w.fwd)
	return w
}

func (w *cmWorld) idOf(c interface{}) int {
	for i, x := range w.ifaces {
		if x == c {
			return i
		}
	}
	return 99
}

// guarded runs f in its own goroutine: a panic is recovered, a hang is reported after 10 s.
func cmGuarded(f func()) string {
	done := make(chan string, 1)
	go func() {
		defer func() {
			if r := recover(); r != nil {
				done <- "panic"
			}
		}()
		f()
		done <- "ok"
	}()
	t := time.NewTimer(10 * time.Second)
	defer t.Stop()
	select {
	case s := <-done:
		return s
	case <-t.C:
		return "timeout"
	}
}

// phantoms: registry entries which the manager treats as active (negative ttl, or listed by
// Sender()/Receiver()) although the adapter is not running. The manager would close their
// (nil / closed) stop channel and panic.
func (w *cmWorld) phantoms() (ps []cla.VerifElem) {
	listed := map[int]bool{}
	for _, s := range w.mgr.Sender() {
		listed[w.idOf(s)] = true
	}
	for _, r := range w.mgr.Receiver() {
		listed[w.idOf(r)] = true
	}
	for _, e := range w.mgr.VerifDump() {
		id := w.idOf(e.Conv)
		if (e.Ttl < 0 || listed[id]) && (id >= len(w.convs) || !w.convs[id].isRunning()) {
			ps = append(ps, e)
		}
	}
	return
}

// closeMgr performs Manager.Close().  The shutdown unregisters every element inside the manager's
// own goroutine, where a panic would kill the whole harness process; when a phantom entry exists
// the same Unregister call is therefore made from here (recoverable) and its panic is reported
// as the outcome of the close.
func (w *cmWorld) closeMgr() string {
	if !w.closed {
		for _, p := range w.phantoms() {
			p := p
			if st := cmGuarded(func() { w.mgr.Unregister(p.Conv) }); st != "ok" {
				return st
			}
		}
	}
	st := cmGuarded(func() { _ = w.mgr.Close() })
	if st == "ok" {
		w.closed = true
	}
	return st
}

// cleanup leaves no goroutines behind (not recorded).
func (w *cmWorld) cleanup() {
	if w.closed || w.hung {
		return
	}
	for _, p := range w.phantoms() {
		w.mgr.VerifForget(p.Address)
	}
	cmGuarded(func() { _ = w.mgr.Close() })
	w.closed = true
}

type cmStep struct {
	ev     int // 0 reg 1 unreg 2 restart 3 tick 4 pg 5 close
	id     int
	oracle []int
	// outcome of Close per adapter during this step (true = Close returns an error); nil = all succeed
	coracle []bool
}

var cmEvSym = []string{"reg", "unreg", "restart", "tick", "pg", "close"}

func (w *cmWorld) setOracle(o []int) {
	for i, c := range w.convs {
		c.mu.Lock()
		if i < len(o) {
			c.next = o[i]
		} else {
			c.next = cmOk
		}
		c.mu.Unlock()
	}
}

func (w *cmWorld) setCloseOracle(co []bool) {
	for i, c := range w.convs {
		c.mu.Lock()
		c.closeErr = i < len(co) && co[i]
		c.mu.Unlock()
	}
}

func (w *cmWorld) peerGone(id int) string {
	c := w.convs[id]
	if w.closed || !c.isRunning() {
		return "ok" // nobody reads the adapter's channel: the message never reaches the manager
	}
	for len(w.fwd) > 0 {
		<-w.fwd
	}
	msg := cla.ConvergenceStatus{Sender: w.ifaces[id], MessageType: cla.PeerDisappeared, Message: c.eid}
	select {
	case c.ch <- msg:
	case <-time.After(10 * time.Second):
		return "timeout"
	}
	// the manager forwards the message after it has restarted the adapter
	select {
	case <-w.fwd:
		return "ok"
	case <-time.After(10 * time.Second):
		return "timeout"
	}
}

func (w *cmWorld) exec(s cmStep) string {
	w.setOracle(s.oracle)
	w.setCloseOracle(s.coracle)
	switch s.ev {
	case 0:
		return cmGuarded(func() { w.mgr.Register(w.ifaces[s.id]) })
	case 1:
		return cmGuarded(func() { w.mgr.Unregister(w.ifaces[s.id]) })
	case 2:
		return cmGuarded(func() { w.mgr.Restart(w.ifaces[s.id]) })
	case 3:
		if w.closed {
			return "ok" // the handler goroutine (and its ticker) is gone
		}
		return cmGuarded(func() { w.mgr.VerifRetryPass() })
	case 4:
		return w.peerGone(s.id)
	default:
		return w.closeMgr()
	}
}

func (w *cmWorld) observe(status string) (S, int) {
	if status == "timeout" {
		w.hung = true
	}
	calls := w.log.take()
	var cs []S
	starts := 0
	for _, c := range calls {
		cs = append(cs, L(I(c.id), Sym(cmKindSym[c.kind])))
		if c.kind != cmClose {
			starts++
		}
	}
	var snd, rcv []int
	for _, s := range w.mgr.Sender() {
		snd = append(snd, w.idOf(s))
	}
	for _, r := range w.mgr.Receiver() {
		rcv = append(rcv, w.idOf(r))
	}
	sort.Ints(snd)
	sort.Ints(rcv)
	ints := func(xs []int) S {
		var l []S
		for _, x := range xs {
			l = append(l, I(x))
		}
		return LL(l)
	}
	var dump []cla.VerifElem
	if !w.hung { // VerifDump takes the element mutexes, which a hung deactivate() holds for ever
		dump = w.mgr.VerifDump()
	}
	sort.Slice(dump, func(i, j int) bool { return dump[i].Address < dump[j].Address })
	var ds []S
	for _, e := range dump {
		var a int
		fmt.Sscanf(e.Address, "mock://%d", &a)
		ds = append(ds, L(I(a), I(w.idOf(e.Conv)), I(int(e.Ttl)), B(e.HasStop)))
	}
	return L(Sym(status), LL(cs), ints(snd), ints(rcv), LL(ds)), starts
}

func cmCfgS(qttl int, ads []cmAdCfg) S {
	var as []S
	for _, a := range ads {
		as = append(as, L(I(a.addr), B(a.perm), Sym([]string{"s", "r", "b"}[a.role]), I(a.eid), I(a.peer)))
	}
	return L(I(qttl), LL(as))
}

func cmOracleS(o []int) S {
	var l []S
	for _, x := range o {
		l = append(l, Sym(cmKindSym[x]))
	}
	return LL(l)
}

// cmRunSeq runs one sequence on a fresh manager; returns the per-step S-expressions and whether
// the last step called Start at all (then its oracle mattered).
func cmRunSeq(qttl int, ads []cmAdCfg, steps []cmStep) ([]S, bool, bool) {
	w := cmNewWorld(qttl, ads, time.Hour)
	defer w.cleanup()
	var out []S
	lastStarts := false
	for _, s := range steps {
		st := w.exec(s)
		obs, starts := w.observe(st)
		lastStarts = starts > 0
		out = append(out, L(L(Sym(cmEvSym[s.ev]), I(s.id)), cmOracleS(s.oracle), obs))
		if st != "ok" {
			return out, lastStarts, false
		}
	}
	return out, lastStarts, true
}

func cmExhaustive(o *Out, qttl int, ad cmAdCfg, maxLen int) {
	ads := []cmAdCfg{ad}
	var dfs func(prefix []cmStep)
	emit := func(obs []S) { o.Case("seq", cmCfgS(qttl, ads), LL(obs)) }
	dfs = func(prefix []cmStep) {
		for ev := 0; ev < 6; ev++ {
			for oc := 0; oc < 3; oc++ {
				steps := append(append([]cmStep{}, prefix...), cmStep{ev: ev, id: 0, oracle: []int{oc}})
				obs, started, alive := cmRunSeq(qttl, ads, steps)
				if !alive || len(steps) >= maxLen {
					emit(obs)
				} else {
					dfs(steps)
				}
				if !started {
					break // the oracle was not consulted: the other outcomes give the same run
				}
			}
		}
	}
	dfs(nil)
}

func cmRandom(o *Out, r *Rng, n int) {
	for i := 0; i < n; i++ {
		nad := 2 + r.Intn(3)
		qttl := r.Intn(4)
		var ads []cmAdCfg
		for j := 0; j < nad; j++ {
			ads = append(ads, cmAdCfg{addr: r.Intn(3), perm: r.Intn(2) == 0, role: r.Intn(3), eid: 1 + r.Intn(3), peer: 1 + r.Intn(3)})
		}
		ln := 4 + r.Intn(12)
		var steps []cmStep
		for k := 0; k < ln; k++ {
			var ev int
			switch x := r.Intn(100); {
			case x < 30:
				ev = 0
			case x < 40:
				ev = 1
			case x < 48:
				ev = 2
			case x < 78:
				ev = 3
			case x < 95:
				ev = 4
			default:
				ev = 5
			}
			orc := make([]int, nad)
			for j := range orc {
				switch x := r.Intn(100); {
				case x < 35:
					orc[j] = cmOk
				case x < 82:
					orc[j] = cmFailRetry
				default:
					orc[j] = cmFailNo
				}
			}
			id := r.Intn(nad)
			if ev == 3 || ev == 5 {
				id = 0
			}
			steps = append(steps, cmStep{ev: ev, id: id, oracle: orc})
		}
		obs, _, _ := cmRunSeq(qttl, ads, steps)
		o.Case("seq", cmCfgS(qttl, ads), LL(obs))
	}
}

// ---- real ticker ----

// settle waits until the registry is stable under further ticks: empty, or every element active.
func (w *cmWorld) settle() string {
	deadline := time.Now().Add(5 * time.Second)
	for {
		stable := true
		for _, e := range w.mgr.VerifDump() {
			if e.Ttl >= 0 {
				stable = false
			}
		}
		if stable {
			return "ok"
		}
		if time.Now().After(deadline) {
			return "timeout"
		}
		time.Sleep(200 * time.Microsecond)
	}
}

func cmTickerCase(o *Out, qttl int, ad cmAdCfg, script []int, withPg bool) {
	ads := []cmAdCfg{ad}
	w := cmNewWorld(qttl, ads, time.Millisecond)
	defer w.cleanup()
	w.convs[0].useScript = true
	w.convs[0].script = append([]int{}, script...)
	var out []S
	phase := func(name string, st string) bool {
		obs, _ := w.observe(st)
		out = append(out, L(Sym(name), obs))
		return st == "ok"
	}
	// every phase ends with settle(): the ticker keeps running while the harness looks, so only
	// states that are stable under further ticks are observed.
	both := func(st string) string {
		if st != "ok" {
			return st
		}
		return w.settle()
	}
	ok := phase("reg", both(cmGuarded(func() { w.mgr.Register(w.ifaces[0]) })))
	if ok && withPg {
		ok = phase("pg", both(w.peerGone(0)))
	}
	if ok {
		phase("close", w.closeMgr())
	}
	o.Case("ticker", cmCfgS(qttl, ads), cmOracleS(script), LL(out))
}

func cmTicker(o *Out, r *Rng, n int) {
	// fixed boundary scripts first, then random ones
	for qttl := 0; qttl < 4; qttl++ {
		for perm := 0; perm < 2; perm++ {
			ad := cmAdCfg{addr: 0, perm: perm == 1, role: (qttl + perm) % 3, eid: 1, peer: 2}
			cmTickerCase(o, qttl, ad, []int{cmFailRetry, cmFailRetry, cmFailRetry, cmFailRetry, cmFailRetry, cmOk}, true)
			cmTickerCase(o, qttl, ad, []int{cmOk, cmFailRetry, cmFailRetry, cmFailRetry, cmFailRetry, cmFailRetry, cmFailRetry}, true)
			cmTickerCase(o, qttl, ad, []int{cmFailRetry, cmFailNo}, false)
		}
	}
	for i := 0; i < n; i++ {
		ad := cmAdCfg{addr: 0, perm: r.Intn(2) == 0, role: r.Intn(3), eid: 1, peer: 2}
		ln := r.Intn(8)
		var script []int
		for k := 0; k < ln; k++ {
			switch x := r.Intn(100); {
			case x < 25:
				script = append(script, cmOk)
			case x < 88:
				script = append(script, cmFailRetry)
			default:
				script = append(script, cmFailNo)
			}
		}
		cmTickerCase(o, r.Intn(4), ad, script, r.Intn(3) > 0)
	}
}

func genC16clamgr(o *Out, r *Rng, thorough bool) {
	maxLen, nrand, ntick := 4, 2500, 60
	if thorough {
		maxLen, nrand, ntick = 5, 60000, 1500
	}
	for qttl := 0; qttl < 4; qttl++ {
		for perm := 0; perm < 2; perm++ {
			cmExhaustive(o, qttl, cmAdCfg{addr: 0, perm: perm == 1, role: (qttl + 2*perm) % 3, eid: 1, peer: 2}, maxLen)
		}
	}
	cmRandom(o, r, nrand)
	cmTicker(o, r, ntick)
}

func init() { register("C16clamgr", genC16clamgr) }
