package main

// C02produce: the second sentence of C02. Every bundle that the implementation itself produces
// (builder call sequences incl. re-use of a builder after Build, BuildFromMap argument maps,
// fragmentation, reassembly, blocks attached by the node to a received bundle, and everything a
// running Core hands to a convergence layer: forwarded bundles, status reports, pongs, routing
// metadata) is serialised and run through the real parser. The model driver parses the same
// bytes with the model's decoder (proved sound w.r.t. the structural rules) and demands
// acceptance by both.
//
// case: (produced now bytes obs origin recipe)

import (
	"bufio"
	"fmt"
	"math"
	"os"
	"strings"
	"time"

	"github.com/dtn7/dtn7-go/pkg/agent"
	"github.com/dtn7/dtn7-go/pkg/bpv7"
	"github.com/dtn7/dtn7-go/pkg/routing"
)

type prodOut struct {
	o      *Out
	counts map[string]int
}

func (p *prodOut) emitBytes(origin, recipe string, bs []byte) {
	now := dtnNowMs()
	obs, _, _ := parseObs(bs)
	if dtnNowMs()-now > 500 {
		return
	}
	p.counts[origin]++
	p.o.Case("produced", U(now), X(bs), obs, Sym(origin), Str(recipe))
}

func (p *prodOut) emit(origin, recipe string, b *bpv7.Bundle) {
	// the verdict of a bundle within two minutes of its expiry instant depends on the clock: skip those
	if ts := uint64(b.PrimaryBlock.CreationTimestamp.DtnTime()); ts != 0 {
		exp := float64(ts) + float64(b.PrimaryBlock.Lifetime)
		if math.Abs(exp-float64(dtnNowMs())) < 120000 {
			p.counts["skipped.near-expiry"]++
			return
		}
	}
	bs, err := safeEncode(b)
	if err != nil {
		p.counts[origin]++
		p.o.Case("produced", U(dtnNowMs()), X(nil), L(Sym("unserialisable"), Str(err.Error())), Sym(origin), Str(recipe))
		return
	}
	p.emitBytes(origin, recipe, bs)
}

func safeEncode(b *bpv7.Bundle) (bs []byte, err error) {
	defer func() {
		if r := recover(); r != nil {
			err = fmt.Errorf("panic: %v", r)
		}
	}()
	return encodeBundle(b)
}

// ---- builder call sequences ----

var prodEidStrs = []string{"dtn://src/", "dtn://dst/app", "dtn://n1/", "dtn:none", "ipn:1.2", "ipn:23.0", "dtn://a/b/c",
	"dtn://", "dtn:foo", "ipn:0.0", "http://x/", "", "dtn://~grp/x"}

func prodBundleFlags(r *Rng) bpv7.BundleControlFlags {
	all := []bpv7.BundleControlFlags{bpv7.IsFragment, bpv7.AdministrativeRecordPayload, bpv7.MustNotFragmented,
		bpv7.RequestUserApplicationAck, bpv7.RequestStatusTime, bpv7.StatusRequestReception, bpv7.StatusRequestForward,
		bpv7.StatusRequestDelivery, bpv7.StatusRequestDeletion}
	var f bpv7.BundleControlFlags
	for _, x := range all {
		if r.Intn(4) == 0 {
			f |= x
		}
	}
	return f
}

func prodBlockFlags(r *Rng) bpv7.BlockControlFlags {
	var f bpv7.BlockControlFlags
	for _, x := range []bpv7.BlockControlFlags{bpv7.ReplicateBlock, bpv7.StatusReportBlock, bpv7.DeleteBundle, bpv7.RemoveBlock} {
		if r.Intn(4) == 0 {
			f |= x
		}
	}
	return f
}

func prodBuilderSeq(p *prodOut, r *Rng) {
	bl := bpv7.Builder()
	var rec []string
	say := func(f string, a ...interface{}) { rec = append(rec, fmt.Sprintf(f, a...)) }
	type built struct {
		b    bpv7.Bundle
		at   int
		reci string
	}
	var builds []built
	// mostly-complete prefix so that many sequences reach a successful Build
	if r.Intn(6) != 0 {
		s := prodEidStrs[r.Intn(3)]
		bl.Source(s)
		say("Source(%q)", s)
	}
	if r.Intn(6) != 0 {
		s := prodEidStrs[r.Intn(5)]
		bl.Destination(s)
		say("Destination(%q)", s)
	}
	if r.Intn(4) != 0 {
		bl.CreationTimestampNow()
		say("CreationTimestampNow()")
	}
	if r.Intn(6) != 0 {
		bl.Lifetime("1h")
		say("Lifetime(1h)")
	}
	if r.Intn(3) != 0 {
		bl.PayloadBlock([]byte("hello"))
		say("PayloadBlock(hello)")
	}
	steps := 1 + r.Intn(9)
	for i := 0; i < steps; i++ {
		switch r.Intn(17) {
		case 0:
			s := prodEidStrs[r.Intn(len(prodEidStrs))]
			bl.Source(s)
			say("Source(%q)", s)
		case 1:
			s := prodEidStrs[r.Intn(len(prodEidStrs))]
			bl.Destination(s)
			say("Destination(%q)", s)
		case 2:
			if r.Bool() {
				e := randEID(r, true)
				bl.ReportTo(e)
				say("ReportTo(EID %s)", e)
			} else {
				s := prodEidStrs[r.Intn(len(prodEidStrs))]
				bl.ReportTo(s)
				say("ReportTo(%q)", s)
			}
		case 3:
			switch r.Intn(3) {
			case 0:
				bl.CreationTimestampEpoch()
				say("CreationTimestampEpoch()")
			case 1:
				bl.CreationTimestampNow()
				say("CreationTimestampNow()")
			case 2:
				back := []time.Duration{0, time.Minute, 30 * time.Minute, 3 * time.Hour, 48 * time.Hour}[r.Intn(5)]
				bl.CreationTimestampTime(time.Now().Add(-back))
				say("CreationTimestampTime(now-%v)", back)
			}
		case 4:
			var v interface{}
			switch r.Intn(7) {
			case 0:
				v = "2h"
			case 1:
				v = uint64(7200000)
			case 2:
				v = 86400000
			case 3:
				v = float64(7200000)
			case 4:
				v = 100 * time.Hour
			case 5:
				v = "-5m"
			case 6:
				v = []string{"bogus", "90s", "0"}[r.Intn(3)]
			}
			bl.Lifetime(v)
			say("Lifetime(%T %v)", v, v)
		case 5:
			f := prodBundleFlags(r)
			bl.BundleCtrlFlags(f)
			say("BundleCtrlFlags(%#x)", uint64(f))
		case 6:
			c := bpv7.CRCType(r.Intn(3))
			bl.CRC(c)
			say("CRC(%d)", c)
		case 7:
			lim := []int{0, 1, 23, 64, 255}[r.Intn(5)]
			if r.Bool() {
				bl.HopCountBlock(lim)
				say("HopCountBlock(%d)", lim)
			} else {
				f := prodBlockFlags(r)
				bl.HopCountBlock(lim, f)
				say("HopCountBlock(%d,%#x)", lim, uint64(f))
			}
		case 8:
			var v interface{} = []interface{}{uint64(0), 1000, "5s", float64(23)}[r.Intn(4)]
			if r.Bool() {
				bl.BundleAgeBlock(v)
				say("BundleAgeBlock(%T %v)", v, v)
			} else {
				f := prodBlockFlags(r)
				bl.BundleAgeBlock(v, f)
				say("BundleAgeBlock(%T %v,%#x)", v, v, uint64(f))
			}
		case 9:
			s := prodEidStrs[r.Intn(len(prodEidStrs))]
			bl.PreviousNodeBlock(s)
			say("PreviousNodeBlock(%q)", s)
		case 10:
			d := randPayload(r, false)
			if r.Bool() {
				bl.PayloadBlock(d)
				say("PayloadBlock(%d bytes)", len(d))
			} else {
				f := prodBlockFlags(r)
				bl.PayloadBlock(d, f)
				say("PayloadBlock(%d bytes,%#x)", len(d), uint64(f))
			}
		case 11:
			var eb bpv7.ExtensionBlock
			switch r.Intn(5) {
			case 0:
				eb = bpv7.NewGenericExtensionBlock(r.Bytes(r.Intn(20)), []uint64{2, 11, 200, 255, 70000}[r.Intn(5)])
			case 1:
				eb = bpv7.NewBundleAgeBlock(uint64(r.Intn(5000)))
			case 2:
				h := bpv7.NewHopCountBlock(uint8(r.Intn(256)))
				eb = h
			case 3:
				eb = bpv7.NewPreviousNodeBlock(randEID(r, true))
			case 4:
				eb = bpv7.NewPayloadBlock(r.Bytes(r.Intn(30)))
			}
			switch r.Intn(3) {
			case 0:
				bl.Canonical(eb)
				say("Canonical(ext type %d)", eb.BlockTypeCode())
			case 1:
				f := prodBlockFlags(r)
				bl.Canonical(eb, f)
				say("Canonical(ext type %d,%#x)", eb.BlockTypeCode(), uint64(f))
			case 2:
				cb := bpv7.NewCanonicalBlock(uint64(r.Intn(5)), prodBlockFlags(r), eb)
				cb.SetCRCType(bpv7.CRCType(r.Intn(3)))
				bl.Canonical(cb)
				say("Canonical(CanonicalBlock num %d type %d flags %#x)", cb.BlockNumber, eb.BlockTypeCode(), uint64(cb.BlockControlFlags))
			}
		case 12:
			ref := randBundle(r, false)
			pos := bpv7.StatusInformationPos(r.Intn(4))
			reason := bpv7.StatusReportReason(r.Intn(10))
			if r.Bool() {
				bl.StatusReport(ref, pos, reason)
			} else {
				bl.StatusReport(ref, pos, reason, bpv7.DtnTimeNow())
			}
			say("StatusReport(ref %s,%d,%d)", ref.ID(), pos, reason)
		default:
			b, err := bl.Build()
			say("Build()->%v", err == nil)
			if err == nil {
				builds = append(builds, built{b, len(rec), strings.Join(rec, "; ")})
				// the returned bundle as it is now
				p.emit("builder.seq", strings.Join(rec, "; "), &b)
			}
		}
	}
	b, err := bl.Build()
	say("Build()->%v", err == nil)
	if err == nil {
		p.emit("builder.seq", strings.Join(rec, "; "), &b)
	}
	// bundles returned by earlier Build calls must still be what they were
	for i := range builds {
		if builds[i].at < len(rec) {
			p.emit("builder.earlier", strings.Join(rec, "; ")+fmt.Sprintf(" [bundle of Build #%d re-checked at the end]", i+1), &builds[i].b)
		}
	}
}

// prodBuilderReuse: a builder that is used further after Build (k blocks, Build, more blocks, Build ...).
func prodBuilderReuse(p *prodOut, r *Rng) {
	bl := bpv7.Builder().Source("dtn://src/").Destination("dtn://dst/").CreationTimestampNow().Lifetime("1h").CRC(bpv7.CRCType(r.Intn(3)))
	rec := []string{"Source; Destination; CreationTimestampNow; Lifetime(1h)"}
	adders := r.Perm(6)
	ai := 0
	add := func() {
		if ai >= len(adders) {
			return
		}
		k := adders[ai]
		ai++
		switch k {
		case 0:
			bl.PayloadBlock(r.Bytes(1 + r.Intn(20)))
			rec = append(rec, "PayloadBlock")
		case 1:
			bl.HopCountBlock(64)
			rec = append(rec, "HopCountBlock(64)")
		case 2:
			bl.BundleAgeBlock(uint64(7))
			rec = append(rec, "BundleAgeBlock(7)")
		case 3:
			bl.PreviousNodeBlock("dtn://prev/")
			rec = append(rec, "PreviousNodeBlock")
		case 4:
			bl.Canonical(bpv7.NewGenericExtensionBlock(r.Bytes(4), 200))
			rec = append(rec, "Canonical(generic 200)")
		case 5:
			bl.Canonical(bpv7.NewGenericExtensionBlock(r.Bytes(4), 201), bpv7.ReplicateBlock)
			rec = append(rec, "Canonical(generic 201)")
		}
	}
	var results []bpv7.Bundle
	rounds := 2 + r.Intn(2)
	for round := 0; round < rounds; round++ {
		for i, n := 0, 1+r.Intn(4); i < n; i++ {
			add()
		}
		b, err := bl.Build()
		rec = append(rec, fmt.Sprintf("Build()->%v", err == nil))
		if err == nil {
			results = append(results, b)
			p.emit("builder.seq", strings.Join(rec, "; "), &b)
		}
	}
	for i := range results {
		p.emit("builder.earlier", strings.Join(rec, "; ")+fmt.Sprintf(" [result of successful Build #%d re-checked at the end]", i+1), &results[i])
	}
}

// ---- BuildFromMap ----

func prodMap(p *prodOut, r *Rng) {
	m := map[string]interface{}{}
	val := func(kind int) interface{} {
		switch kind {
		case 0:
			return prodEidStrs[r.Intn(len(prodEidStrs))]
		case 1:
			return []interface{}{"1h", "24h", "10m", float64(3600000), 3600000, uint64(3600000), "-1h", "x", float64(-5), math.NaN(), math.Inf(1), 1e30}[r.Intn(12)]
		case 2:
			return []interface{}{64, float64(64), 0, 255, 256, -1, "64", uint64(3)}[r.Intn(8)]
		case 3:
			return []interface{}{"hello world", []byte("bytes"), "", float64(1.5), int32(7), []int{1, 2}, true, nil, map[string]interface{}{"a": 1}}[r.Intn(9)]
		default:
			return []interface{}{true, false, nil, "now", float64(0), time.Now(), time.Now().Add(-2 * time.Hour)}[r.Intn(7)]
		}
	}
	if r.Intn(8) != 0 {
		m["source"] = prodEidStrs[r.Intn(3)]
	}
	if r.Intn(8) != 0 {
		m["destination"] = prodEidStrs[r.Intn(5)]
	}
	if r.Intn(8) != 0 {
		m["payload_block"] = "hello world"
	}
	if r.Intn(4) != 0 {
		m["creation_timestamp_now"] = true
	}
	if r.Intn(4) != 0 {
		m["lifetime"] = "24h"
	}
	for i, n := 0, r.Intn(5); i < n; i++ {
		switch r.Intn(13) {
		case 0:
			m["source"] = val(0)
		case 1:
			m["destination"] = val(0)
		case 2:
			m["report_to"] = val(0)
		case 3:
			m["creation_timestamp_epoch"] = val(4)
		case 4:
			m["creation_timestamp_now"] = val(4)
		case 5:
			m["creation_timestamp_time"] = val(4)
		case 6:
			m["lifetime"] = val(1)
		case 7:
			m["bundle_age_block"] = val(1)
		case 8:
			m["hop_count_block"] = val(2)
		case 9:
			m["payload_block"] = val(3)
		case 10:
			m["previous_node_block"] = val(0)
		case 11:
			m["bundle_ctrl_flags"] = 4
		case 12:
			m[[]string{"canonical", "nonsense", "Source", ""}[r.Intn(4)]] = val(r.Intn(5))
		}
	}
	recipe := fmt.Sprintf("BuildFromMap(%#v)", m)
	var b bpv7.Bundle
	var err error
	func() {
		defer func() {
			if rc := recover(); rc != nil {
				err = fmt.Errorf("panic")
				p.counts["builder.map"]++
				p.o.Case("produced", U(dtnNowMs()), X(nil), L(Sym("panic"), Str(fmt.Sprint(rc))), Sym("builder.map"), Str(recipe))
			}
		}()
		b, err = bpv7.BuildFromMap(m)
	}()
	if err == nil {
		p.emit("builder.map", recipe, &b)
	} else {
		p.counts["builder.map.err"]++
	}
}

// ---- received bundles: arbitrary wire order ----

// prodReceived returns a valid bundle as the parser delivers it for an encoding whose extension
// blocks are in random order on the wire (payload last).
func prodReceived(r *Rng, minPayload int) (bpv7.Bundle, bool) {
	for tries := 0; tries < 20; tries++ {
		b := randBundle(r, false)
		if b.CheckValid() != nil {
			continue
		}
		if minPayload > 0 {
			pl, err := b.PayloadBlock()
			if err != nil {
				continue
			}
			*pl = bpv7.NewCanonicalBlock(1, pl.BlockControlFlags, bpv7.NewPayloadBlock(r.Bytes(minPayload+r.Intn(600))))
			pl.SetCRCType(bpv7.CRCType(r.Intn(3)))
		}
		n := len(b.CanonicalBlocks) - 1
		for i := n - 1; i > 0; i-- {
			j := r.Intn(i + 1)
			b.CanonicalBlocks[i], b.CanonicalBlocks[j] = b.CanonicalBlocks[j], b.CanonicalBlocks[i]
		}
		bs, err := encodeBundle(&b)
		if err != nil {
			continue
		}
		rb, err := bpv7.ParseBundle(strings.NewReader(string(bs)))
		if err != nil {
			continue
		}
		return rb, true
	}
	return bpv7.Bundle{}, false
}

func prodOrder(b *bpv7.Bundle) string {
	var s []string
	for _, c := range b.CanonicalBlocks {
		s = append(s, fmt.Sprintf("#%d:t%d:f%#x", c.BlockNumber, c.TypeCode(), uint64(c.BlockControlFlags)))
	}
	return strings.Join(s, ",")
}

func prodFragment(p *prodOut, r *Rng) {
	b, ok := prodReceived(r, 300)
	if !ok {
		return
	}
	desc := fmt.Sprintf("received %s flags %#x ts %d blocks [%s]", b.ID(), uint64(b.PrimaryBlock.BundleControlFlags), b.PrimaryBlock.CreationTimestamp.DtnTime(), prodOrder(&b))
	mtu := []int{150, 200, 256, 300, 400, 512, 1000}[r.Intn(7)]
	var frags []bpv7.Bundle
	var err error
	func() {
		defer func() {
			if rc := recover(); rc != nil {
				err = fmt.Errorf("panic: %v", rc)
			}
		}()
		frags, err = b.Fragment(mtu)
	}()
	if err != nil {
		p.counts["fragment.err"]++
		return
	}
	for i := range frags {
		p.emit("fragment", fmt.Sprintf("%s; Fragment(%d) -> fragment %d of %d", desc, mtu, i+1, len(frags)), &frags[i])
	}
	if len(frags) < 2 {
		return
	}
	// reassembly of what fragmentation produced, fragments in random order
	perm := r.Perm(len(frags))
	var sh []bpv7.Bundle
	for _, i := range perm {
		// through the wire, as a receiving node would hold them
		bs, e := encodeBundle(&frags[i])
		if e != nil {
			return
		}
		fb, e := bpv7.ParseBundle(strings.NewReader(string(bs)))
		if e != nil {
			return // reported above
		}
		sh = append(sh, fb)
	}
	var rb bpv7.Bundle
	func() {
		defer func() {
			if rc := recover(); rc != nil {
				err = fmt.Errorf("panic: %v", rc)
			}
		}()
		rb, err = bpv7.ReassembleFragments(sh)
	}()
	if err != nil {
		p.counts["reassemble.err"]++
		return
	}
	p.emit("reassemble", fmt.Sprintf("%s; Fragment(%d); ReassembleFragments(order %v)", desc, mtu, perm), &rb)
}

func prodAddExt(p *prodOut, r *Rng) {
	b, ok := prodReceived(r, 0)
	if !ok {
		return
	}
	desc := fmt.Sprintf("received %s blocks [%s]", b.ID(), prodOrder(&b))
	n := 1 + r.Intn(3)
	for i := 0; i < n; i++ {
		var eb bpv7.ExtensionBlock
		switch r.Intn(5) {
		case 0:
			eb = bpv7.NewPreviousNodeBlock(bpv7.MustNewEndpointID("dtn://me/"))
		case 1:
			eb = bpv7.NewHopCountBlock(64)
		case 2:
			eb = bpv7.NewBundleAgeBlock(5)
		case 3:
			eb = bpv7.NewBinarySprayBlock(4)
		case 4:
			eb = &bpv7.SignatureBlock{PublicKey: r.Bytes(32), Signature: r.Bytes(64)}
		}
		if _, err := b.ExtensionBlock(eb.BlockTypeCode()); err == nil {
			continue
		}
		b.AddExtensionBlock(bpv7.NewCanonicalBlock(0, 0, eb))
		desc += fmt.Sprintf("; AddExtensionBlock(type %d)", eb.BlockTypeCode())
		p.emit("node.addext", desc, &b)
	}
}

// ---- a running Core: everything handed to a convergence layer ----

func prodNode(p *prodOut, r *Rng, alg string, rounds int) {
	conf := fwConf(alg)
	n := NewNode("dtn://n0/", conf)
	defer n.Destroy()
	ping := agent.NewPing(MustEID("dtn://n0/ping"))
	n.Core.RegisterApplicationAgent(ping)
	n.AddAgent("app", "dtn://n0/app")
	n.PeerUp("p1", "dtn://n1/")
	n.PeerUp("p2", "dtn://n2/")
	n.PeerUp("rs", "dtn://rpt/")
	seen := 0
	flush := func(what string) {
		for _, s := range n.SendsSince(seen) {
			seen = s.N
			if s.Raw == nil {
				continue
			}
			p.emitBytes("node."+alg, fmt.Sprintf("%s; sent to %s as %s", what, s.Peer, s.ID), s.Raw)
		}
	}
	flush("peers up")
	switch alg {
	case "dtlsr":
		n.Core.VerifDTLSR().VerifBroadcastCron()
		flush("dtlsr broadcast")
	case "prophet":
		n.Core.VerifProphet().VerifSendMetadata(MustEID("dtn://n1/"))
		flush("prophet metadata")
	}
	for i := 0; i < rounds; i++ {
		b, ok := prodReceived(r, 0)
		if !ok {
			continue
		}
		what := ""
		switch r.Intn(4) {
		case 0: // a ping
			b.PrimaryBlock.Destination = MustEID("dtn://n0/ping")
			what = "ping "
		case 1: // for a local agent
			b.PrimaryBlock.Destination = MustEID("dtn://n0/app")
			what = "local "
		case 2:
			b.PrimaryBlock.Destination = MustEID("dtn://n2/x")
			what = "direct "
		}
		if b.PrimaryBlock.ReportTo != bpv7.DtnNone() && r.Bool() {
			b.PrimaryBlock.ReportTo = MustEID("dtn://rpt/in")
		}
		if b.CheckValid() != nil {
			continue
		}
		// as received from the wire
		bs, err := encodeBundle(&b)
		if err != nil {
			continue
		}
		rb, err := bpv7.ParseBundle(strings.NewReader(string(bs)))
		if err != nil {
			continue
		}
		what += fmt.Sprintf("received %s flags %#x blocks [%s] from dtn://n1/", rb.ID(), uint64(rb.PrimaryBlock.BundleControlFlags), prodOrder(&rb))
		n.Receive(rb, "dtn://n1/")
		if strings.HasPrefix(what, "ping") {
			for k := 0; k < 40 && n.LastSendN() == seen; k++ {
				time.Sleep(time.Millisecond)
			}
		}
		flush(what)
		if i%5 == 4 {
			n.TickPending()
			flush("pending tick after " + what)
		}
	}
	time.Sleep(5 * time.Millisecond)
	flush("tail")
}

func prodReplay(p *prodOut, path string) {
	f, err := os.Open(path)
	if err != nil {
		return
	}
	defer f.Close()
	sc := bufio.NewScanner(f)
	sc.Buffer(make([]byte, 1<<20), 1<<26)
	for sc.Scan() {
		s, err := ParseS(sc.Text())
		if err != nil {
			continue
		}
		l, ok := s.(sList)
		if !ok || len(l) < 8 || atomSym(l[2]) != "produced" {
			continue
		}
		p.emitBytes(atomSym(l[6]), string(atomX(l[7])), atomX(l[4]))
	}
}

func genC02produce(o *Out, r *Rng, thorough bool) {
	registerAllBlocks()
	p := &prodOut{o: o, counts: map[string]int{}}
	if ReplayFile != "" {
		prodReplay(p, ReplayFile)
		return
	}
	n := 1
	if thorough {
		n = 10
	}
	for i := 0; i < 500*n; i++ {
		prodBuilderSeq(p, r)
	}
	for i := 0; i < 200*n; i++ {
		prodBuilderReuse(p, r)
	}
	for i := 0; i < 400*n; i++ {
		prodMap(p, r)
	}
	for i := 0; i < 250*n; i++ {
		prodFragment(p, r)
	}
	for i := 0; i < 300*n; i++ {
		prodAddExt(p, r)
	}
	for _, alg := range []string{"epidemic", "spray", "binary_spray", "dtlsr", "prophet"} {
		for k := 0; k < n; k++ {
			prodNode(p, r, alg, 30)
		}
	}
	var keys []S
	for k, v := range p.counts {
		keys = append(keys, L(Sym(k), I(v)))
	}
	o.Case("produce-dist", keys...)
	_ = routing.RoutingConf{}
}

func init() { register("C02produce", genC02produce) }
