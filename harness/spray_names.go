package main

// C18spraynames - the spray histories of spray.go (same events, same observations, same case format with
// a sixth field (naming mule)) for two classes the plain generator leaves out:
//
//  1. MIXED NAMING: peers and destinations whose endpoint IDs nearly collide - the same authority /
//     node number under the other URI scheme (dtn://23/ vs ipn:23.1), node names that differ only in
//     letter case (dtn://relay/ vs dtn://Relay/), names that are prefixes of each other (dtn://n1/ vs
//     dtn://n10/, dtn://a.b/ vs dtn://ab/).  The twin of the destination is a connected peer, with the real
//     destination absent, present (link fine / failing) or appearing later.  A twin is just another relay:
//     it takes a copy from the budget or, in the wait phase, gets nothing.
//  2. CONFIGURATION sensor-mule around spray / binary_spray: several peers of which some are sensors (nodes
//     1, 3, 5), budgets large enough to select several peers in one pass, so that the overlay hands several
//     selected sensors back at once.  Budget accounting as for plain spray: remaining + handed over = L per
//     life, an excluded sensor neither consumes a copy nor stays in the sent list.

import (
	"os"
	"runtime/debug"

	"github.com/dtn7/dtn7-go/pkg/bpv7"
)

// twins of each naming: pairs of distinct nodes whose endpoint IDs nearly collide
var sprayTwins = [sprayNamings][][2]int{
	{},
	{{1, 2}, {3, 4}, {6, 7}},
	{{1, 2}, {3, 4}, {2, 6}, {6, 7}},
	{{1, 2}, {3, 4}, {4, 5}, {6, 7}},
}

func sprayOther(a, b, k int) int { // k-th node (1..6) that is neither a nor b
	for n := 1; n <= 6; n++ {
		if n != a && n != b {
			if k == 0 {
				return n
			}
			k--
		}
	}
	return 0
}

func sprayNamesCorpus(thorough bool) (hs []sprayHist, opts []sprayOpt) {
	up := func(c, node int, fail bool) sprayEv { return sprayEv{kind: sePeerUp, cla: c, node: node, fail: fail} }
	down := func(c int) sprayEv { return sprayEv{kind: sePeerDown, cla: c} }
	setf := func(c int, f bool) sprayEv { return sprayEv{kind: seSetFail, cla: c, fail: f} }
	tick := sprayEv{kind: seTick}
	gc := sprayEv{kind: seGC}
	submit := func(dst int) sprayEv { return sprayEv{kind: seCreate, b: 0, origin: true, dst: dst, blk: -1, prev: -1} }
	recv := func(dst, blk, prev int) sprayEv {
		return sprayEv{kind: seCreate, b: 0, origin: false, dst: dst, blk: blk, prev: prev}
	}
	add := func(opt sprayOpt, bin bool, L uint64, evs ...sprayEv) {
		hs = append(hs, sprayHist{bin, L, false, 1, evs})
		opts = append(opts, opt)
	}
	Ls := []uint64{1, 2, 4}
	if thorough {
		Ls = []uint64{1, 2, 3, 4, 5, 8}
	}
	for naming := 1; naming < sprayNamings; naming++ {
		opt := sprayOpt{naming: naming}
		for _, tw := range sprayTwins[naming] {
			for dir := 0; dir < 2; dir++ {
				d, t := tw[dir], tw[1-dir] // destination and its twin
				if t == 7 {
					continue // node 7 is never a peer
				}
				x, y := sprayOther(d, t, 0), sprayOther(d, t, 1)
				for _, bin := range []bool{false, true} {
					for _, L := range Ls {
						// the twin is connected, the destination is not; another relay and finally the destination appear
						add(opt, bin, L, up(0, t, false), submit(d), tick, up(1, x, false), tick, up(2, d, false), tick, gc)
						// the destination is connected but its link fails; the twin appears
						if d != 7 {
							add(opt, bin, L, up(0, d, true), submit(d), up(1, t, false), tick, up(2, x, true), tick, setf(2, false), tick,
								setf(0, false), tick)
						}
						if L == 2 || thorough {
							// a received bundle (one copy / k copies announced): wait phase, only the destination itself
							add(opt, bin, L, recv(d, -1, x), up(0, t, false), tick, up(1, y, false), tick)
							if bin {
								add(opt, bin, L, recv(d, 3, x), up(0, t, false), tick, up(1, y, false), tick, down(0), up(2, t, true), tick)
							}
							// the twin's link fails: the copy comes back, later it succeeds
							add(opt, bin, L, submit(d), up(0, t, true), tick, tick, setf(0, false), tick, up(1, x, false), up(2, y, false), tick)
						}
					}
				}
			}
		}
	}
	// sensor-mule around spray: sensors 1, 3, 5; relays 2, 4, 6; destination 7 (never a peer), a sensor, a relay
	mule := sprayOpt{mule: true}
	mLs := []uint64{2, 3, 4, 6, 8}
	reps := 2
	if thorough {
		mLs = []uint64{1, 2, 3, 4, 5, 6, 7, 8}
		reps = 6
	}
	for _, bin := range []bool{false, true} {
		for _, L := range mLs {
			for rep := 0; rep < reps; rep++ { // the order of the selection is the CLA manager's map order: repeat
				// two sensors and a server, then the remaining nodes
				add(mule, bin, L, up(0, 1, false), up(1, 3, false), up(2, 2, false), submit(7), tick, tick,
					up(3, 5, false), up(4, 4, false), tick, up(5, 6, false), tick, tick, gc)
				// all there before the bundle; one relay link failing at first
				add(mule, bin, L, up(0, 1, false), up(1, 2, true), up(2, 3, false), up(3, 4, false), up(4, 5, false), up(5, 6, false),
					submit(7), tick, setf(1, false), tick, tick, tick)
			}
			// addressed to a sensor: the sensor itself is served (directly), the other sensors are not
			add(mule, bin, L, up(0, 1, false), up(1, 5, false), up(2, 2, false), submit(3), tick, up(3, 3, true), tick, setf(3, false), tick)
			// addressed to a relay that is connected from the start
			add(mule, bin, L, up(0, 1, false), up(1, 3, false), up(2, 4, false), up(3, 2, false), submit(2), tick)
		}
	}
	return
}

func genC18spraynames(o *Out, r *Rng, thorough bool) {
	defer sprayWork()()
	defer debug.SetGCPercent(debug.SetGCPercent(400))
	mgr := bpv7.GetExtensionBlockManager()
	if !mgr.IsKnown(bpv7.ExtBlockTypeBinarySprayBlock) {
		_ = mgr.Register(bpv7.NewBinarySprayBlock(0))
	}
	if sprayReplay(o) {
		return
	}
	hs, opts := sprayNamesCorpus(thorough)
	for i, h := range hs {
		o.Case("hist", sprayRunOpt(opts[i], h.binary, h.L, h.sync, h.nb, h.evs)...)
	}
	// random histories under the colliding namings / with the mule overlay
	nh := 40
	if thorough {
		nh = 1200
	}
	if os.Getenv("VERIF_SPRAY_NORANDOM") != "" {
		nh = 0
	}
	for i := 0; i < nh; i++ {
		bin := r.Bool()
		L := uint64(1 + r.Intn(8))
		nb := 1 + r.Intn(2)
		length := 8 + r.Intn(24)
		maxCla := 2 + r.Intn(5)
		var opt sprayOpt
		if i%2 == 0 {
			opt.naming = 1 + r.Intn(sprayNamings-1)
		} else {
			opt.mule = true
			if L < 3 && r.Bool() {
				L += 3
			}
			maxCla = 4 + r.Intn(3)
		}
		evs := sprayRandomHistory(r, bin, nb, length, maxCla, -1)
		o.Case("hist", sprayRunOpt(opt, bin, L, false, nb, evs)...)
	}
}

func init() { register("C18spraynames", genC18spraynames) }
