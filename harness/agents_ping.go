package main

// C07 (generator C07ping): bursts of ping bundles for the real PingAgent behind the real AgentManager of a
// real Core.  The PingAgent's answers travel back through the multiplexer's sender to the AgentManager's
// handler, whose Core.SendBundle calls back into the multiplexer (HasEndpoint / Deliver): a cycle of
// unbuffered channels and the multiplexer's lock (model: coq/Model/MuxConc.v, theorem C07_mux_no_deadlock,
// witness C07_mux_deadlock_unfixed_ping).
//
// forced: the handler goroutine is held at routing.Algorithm.NotifyNewBundle of pong 0 (hook
//         Core.VerifWrapRouting) while `hold` further pings are received one after the other as Core.handler
//         does it, then released; the remaining pings follow.  With hold = 3 the chain PingAgent ->
//         handleChild -> handler is full and MuxAgent.handle waits with the lock held.
// stress: no hook; several goroutines receive pings concurrently while a local agent pings through the
//         AgentManager (pongs come back to it).
//
// One case per scenario: (ping <mode> <k> <local> <hold> (recv n) (pongs i ...) (probe 0|1) (stuck [what]) (err ...)).
// Ping i is recognised in its pong by the lifetime 3600000 + i ms.  Rule (ocaml/d_agents_ping.ml): every
// receive returns within a generous bound, HasEndpoint answers, every pong reaches the mock CLA / the local
// agent exactly once (keys c07.ping.stuck, c07.ping.pong-missing, c07.ping.pong-twice).

import (
	"fmt"
	"sort"
	"sync"
	"sync/atomic"
	"time"

	"github.com/dtn7/dtn7-go/pkg/agent"
	"github.com/dtn7/dtn7-go/pkg/bpv7"
	"github.com/dtn7/dtn7-go/pkg/routing"
)

const (
	c07PingEp   = "dtn://n0/ping"
	c07PingLife = 3600000
	c07PingT    = 4 * time.Second  // bound for one receive / one HasEndpoint
	c07PingTAll = 20 * time.Second // bound for the pongs to arrive
)

// c07Gate holds the first NotifyNewBundle of a bundle whose source is the ping agent.
type c07Gate struct {
	routing.Algorithm
	entered chan struct{}
	release chan struct{}
	armed   int32
}

func (g *c07Gate) NotifyNewBundle(d routing.BundleDescriptor) {
	if b, err := d.Bundle(); err == nil && b.PrimaryBlock.SourceNode.String() == c07PingEp &&
		atomic.CompareAndSwapInt32(&g.armed, 1, 0) {
		close(g.entered)
		<-g.release
	}
	g.Algorithm.NotifyNewBundle(d)
}

func c07PingBundle(i int, src, rpt string) bpv7.Bundle {
	return MkBundle(BOpt{Src: src, Dst: c07PingEp, ReportTo: rpt, TS: NowTS, Life: uint64(c07PingLife + i),
		Payload: []byte(fmt.Sprintf("ping %d", i)), CRC: bpv7.CRC32})
}

func c07Timed(d time.Duration, f func()) bool {
	done := make(chan struct{})
	go func() { f(); close(done) }()
	select {
	case <-done:
		return true
	case <-time.After(d):
		return false
	}
}

// c07Pongs lists the ping numbers of the pongs seen so far (mock CLA sends and bundles handed to agents).
func c07Pongs(n *Node, agents ...*MockAgent) []int {
	var is []int
	add := func(b bpv7.Bundle) {
		if b.PrimaryBlock.SourceNode.String() == c07PingEp {
			is = append(is, int(b.PrimaryBlock.Lifetime)-c07PingLife)
		}
	}
	for _, s := range n.SendsSince(0) {
		add(s.Bndl)
	}
	for _, a := range agents {
		a.mu.Lock()
		for _, b := range a.Got {
			add(b)
		}
		a.mu.Unlock()
	}
	sort.Ints(is)
	return is
}

func c07PingReport(o *Out, mode string, k int, local bool, hold int, recv int, pongs []int, probe bool, stuck string, errs []string) {
	var ps, es []S
	for _, p := range pongs {
		ps = append(ps, I(p))
	}
	for _, e := range errs {
		es = append(es, Sym(e))
	}
	st := L(Sym("stuck"))
	if stuck != "" {
		st = L(Sym("stuck"), Sym(stuck))
	}
	o.Case("ping", Sym(mode), I(k), B(local), I(hold), L(Sym("recv"), I(recv)), L(append([]S{Sym("pongs")}, ps...)...),
		L(Sym("probe"), B(probe)), st, L(append([]S{Sym("err")}, es...)...))
}

func c07PingNode(local bool) (n *Node, rcv *MockAgent, rpt string) {
	n = NewNode("dtn://n0/", routing.RoutingConf{Algorithm: "epidemic"})
	n.Core.RegisterApplicationAgent(agent.NewPing(MustEID(c07PingEp)))
	if local {
		rcv = n.AddAgent("rcv", "dtn://n0/rcv")
		rpt = "dtn://n0/rcv"
	} else {
		n.PeerUp("p1", "dtn://n1/")
		rpt = "dtn://n1/app"
	}
	return
}

func c07WaitPongs(n *Node, k int, stuck bool, agents ...*MockAgent) []int {
	limit := c07PingTAll
	if stuck {
		limit = 300 * time.Millisecond
	}
	deadline := time.Now().Add(limit)
	for {
		ps := c07Pongs(n, agents...)
		if len(ps) >= k || time.Now().After(deadline) {
			if len(ps) >= k {
				time.Sleep(20 * time.Millisecond) // a second copy would follow at once
				ps = c07Pongs(n, agents...)
			}
			return ps
		}
		time.Sleep(5 * time.Millisecond)
	}
}

func c07PingForced(o *Out, k int, local bool, hold int) {
	n, rcv, rpt := c07PingNode(local)
	var agents []*MockAgent
	if rcv != nil {
		agents = append(agents, rcv)
	}
	gate := &c07Gate{entered: make(chan struct{}), release: make(chan struct{}), armed: 1}
	n.Core.VerifWrapRouting(func(a routing.Algorithm) routing.Algorithm { gate.Algorithm = a; return gate })
	from := MustEID("dtn://n1/")
	var errs []string
	stuck := ""
	recv := 0
	inject := func(i int) bool {
		b := c07PingBundle(i, fmt.Sprintf("dtn://n2/s%d", i), rpt)
		if c07Timed(c07PingT, func() { n.Core.VerifReceive(b, from) }) {
			recv++
			return true
		}
		return false
	}
	released := false
	release := func() {
		if !released {
			released = true
			close(gate.release)
		}
	}
	if !inject(0) {
		stuck = "receive-0"
	} else {
		select {
		case <-gate.entered:
		case <-time.After(c07PingT):
			errs = append(errs, "gate-not-reached")
		}
		for i := 1; i <= hold && stuck == "" && len(errs) == 0; i++ {
			if !inject(i) {
				// with the handler held nothing but the chain of three may wait: a harness anomaly
				errs = append(errs, "receive-while-held")
			}
		}
		time.Sleep(100 * time.Millisecond) // MuxAgent.handle reaches its send
		release()
		for i := hold + 1; i < k && stuck == ""; i++ {
			if !inject(i) {
				stuck = "receive"
			}
		}
	}
	release()
	probe := c07Timed(c07PingT, func() { n.Core.HasEndpoint(MustEID("dtn://n9/nobody")) })
	if !probe && stuck == "" {
		stuck = "hasendpoint"
	}
	pongs := c07WaitPongs(n, k, stuck != "", agents...)
	c07PingReport(o, "forced", k, local, hold, recv, pongs, probe, stuck, errs)
	if stuck == "" {
		n.Destroy()
	}
}

func c07PingStress(o *Out, r *Rng, g, m int, local bool) {
	n, rcv, rpt := c07PingNode(local)
	cli := n.AddAgent("cli", "dtn://n0/cli")
	agents := []*MockAgent{cli}
	if rcv != nil {
		agents = append(agents, rcv)
	}
	from := MustEID("dtn://n1/")
	k := (g + 1) * m
	var recv int32
	var wg sync.WaitGroup
	for t := 0; t < g; t++ {
		wg.Add(1)
		go func(t int) {
			defer wg.Done()
			for j := 0; j < m; j++ {
				i := t*m + j
				n.Core.VerifReceive(c07PingBundle(i, fmt.Sprintf("dtn://n2/s%d", i), rpt), from)
				atomic.AddInt32(&recv, 1)
			}
		}(t)
	}
	// a local application pings through the AgentManager; its pongs come back to it
	wg.Add(1)
	go func() {
		defer wg.Done()
		for j := 0; j < m; j++ {
			i := g*m + j
			cli.send <- agent.BundleMessage{Bundle: c07PingBundle(i, fmt.Sprintf("dtn://n0/cli"), "dtn://n0/cli")}
			atomic.AddInt32(&recv, 1)
			if r.Intn(4) == 0 {
				time.Sleep(time.Millisecond)
			}
		}
	}()
	stuck := ""
	if !c07Timed(c07PingTAll+time.Duration(k)*100*time.Millisecond, wg.Wait) {
		stuck = "receive"
	}
	probe := c07Timed(c07PingT, func() { n.Core.HasEndpoint(MustEID("dtn://n9/nobody")) })
	if !probe && stuck == "" {
		stuck = "hasendpoint"
	}
	pongs := c07WaitPongs(n, k, stuck != "", agents...)
	c07PingReport(o, "stress", k, local, g, int(atomic.LoadInt32(&recv)), pongs, probe, stuck, nil)
	if stuck == "" {
		n.Destroy()
	}
}

func genC07ping(o *Out, r *Rng, thorough bool) {
	// forced: hold 1..3 pings behind the held handler, 2..4 more afterwards, pongs for a remote / a local endpoint
	extra := []int{2, 4}
	if thorough {
		extra = []int{1, 2, 3, 4, 6, 12}
	}
	for _, local := range []bool{false, true} {
		for hold := 1; hold <= 3; hold++ {
			for _, x := range extra {
				c07PingForced(o, hold+1+x, local, hold)
			}
		}
	}
	rounds, g, m := 2, 3, 20
	if thorough {
		rounds, g, m = 10, 4, 120
	}
	for i := 0; i < rounds; i++ {
		c07PingStress(o, r, g, m, i%2 == 1)
	}
}

func init() { register("C07ping", genC07ping) }
