package main

import (
	"github.com/dtn7/dtn7-go/pkg/bpv7"
	"github.com/dtn7/dtn7-go/pkg/routing"
)

// coresmoke: a smoke run of corelib (not a property check): submit, peer up, delivery.
func genCoreSmoke(o *Out, r *Rng, thorough bool) {
	n := NewNode("dtn://n0/", routing.RoutingConf{Algorithm: "epidemic"})
	defer n.Destroy()
	a := n.AddAgent("a", "dtn://n0/app")
	b := MkBundle(BOpt{Src: "dtn://n0/app", Dst: "dtn://n9/x", TS: NowTS, Life: 600000, Flags: 0, Payload: []byte("hello"), CRC: bpv7.CRC32})
	n.Submit(b)
	pend1 := len(n.Pending())
	n.PeerUp("p1", "dtn://n1/")
	sends := n.SendsSince(0)
	b2 := MkBundle(BOpt{Src: "dtn://n5/app", Dst: "dtn://n0/app", TS: NowTS, Life: 600000, Payload: []byte("to-me")})
	n.Receive(b2, "dtn://n5/")
	got := a.Received()
	o.Case("smoke", I(pend1), I(len(sends)), I(len(got)), I(len(n.Pending())))
}

func init() { register("coresmoke", genCoreSmoke) }
