package main

import (
	"bytes"
	"fmt"
	"math"
	"sort"
	"time"

	"github.com/dtn7/dtn7-go/pkg/bpv7"
)

func registerAllBlocks() {
	m := bpv7.GetExtensionBlockManager()
	_ = m.Register(bpv7.NewBinarySprayBlock(0))
	_ = m.Register(bpv7.NewDTLSRBlock(bpv7.DTLSRPeerData{}))
	_ = m.Register(bpv7.NewProphetBlock(nil))
	_ = m.Register(&bpv7.SignatureBlock{})
}

func eidS(e bpv7.EndpointID) S { return Str(e.String()) }

type kv struct {
	k string
	v uint64
}

func extS(v bpv7.ExtensionBlock) S {
	switch x := v.(type) {
	case *bpv7.PayloadBlock:
		return L(Sym("raw"), X(x.Data()))
	case *bpv7.GenericExtensionBlock:
		d, _ := x.MarshalBinary()
		return L(Sym("raw"), X(d))
	case *bpv7.PreviousNodeBlock:
		return L(Sym("eid"), eidS(x.Endpoint()))
	case *bpv7.BundleAgeBlock:
		return L(Sym("u"), U(x.Age()))
	case *bpv7.HopCountBlock:
		return L(Sym("hop"), U(uint64(x.Limit)), U(uint64(x.Count)))
	case *bpv7.BinarySprayBlock:
		return L(Sym("u"), U(x.RemainingCopies()))
	case *bpv7.DTLSRBlock:
		pd := x.GetPeerData()
		var kvs []kv
		for k, t := range pd.Peers {
			kvs = append(kvs, kv{k.String(), uint64(t)})
		}
		sort.Slice(kvs, func(i, j int) bool { return kvs[i].k < kvs[j].k })
		var es []S
		for _, e := range kvs {
			es = append(es, L(Str(e.k), U(e.v)))
		}
		return L(Sym("dtlsr"), eidS(pd.ID), U(uint64(pd.Timestamp)), LL(es))
	case *bpv7.ProphetBlock:
		var kvs []kv
		for k, p := range x.GetPredictabilities() {
			kvs = append(kvs, kv{k.String(), math.Float64bits(p)})
		}
		sort.Slice(kvs, func(i, j int) bool { return kvs[i].k < kvs[j].k })
		var es []S
		for _, e := range kvs {
			es = append(es, L(Str(e.k), U(e.v)))
		}
		return L(Sym("prophet"), LL(es))
	case *bpv7.SignatureBlock:
		return L(Sym("sig"), X(x.PublicKey), X(x.Signature))
	}
	return L(Sym("unknown"))
}

// dumpBundle: canonical structure dump (map entries sorted by printed key).
func dumpBundle(b *bpv7.Bundle) S {
	p := b.PrimaryBlock
	ps := L(Sym("p"), U(uint64(p.BundleControlFlags)), U(uint64(p.CRCType)), eidS(p.Destination), eidS(p.SourceNode), eidS(p.ReportTo),
		U(p.CreationTimestamp[0]), U(p.CreationTimestamp[1]), U(p.Lifetime), U(p.FragmentOffset), U(p.TotalDataLength))
	var bl []S
	for i := range b.CanonicalBlocks {
		c := &b.CanonicalBlocks[i]
		bl = append(bl, L(U(c.BlockNumber), U(c.TypeCode()), U(uint64(c.BlockControlFlags)), U(uint64(c.CRCType)), extS(c.Value)))
	}
	return L(Sym("b"), ps, LL(bl))
}

func dtnNowMs() uint64 { return uint64(bpv7.DtnTimeNow()) }

// parseObs parses bs with the real parser and returns the observation S-expression:
// (err) | (panic) | (ok dump idstr consumed (reenc ...)) where reenc = (err) | (ok bytes second-parse)
// and second-parse = (err) | (ok dump idstr reenc2-bytes)
func parseObs(bs []byte) (obs S, b bpv7.Bundle, ok bool) {
	defer func() {
		if r := recover(); r != nil {
			obs, ok = L(Sym("panic"), Str(fmt.Sprint(r))), false
		}
	}()
	rd := bytes.NewReader(bs)
	b, err := bpv7.ParseBundle(rd)
	if err != nil {
		return L(Sym("err")), b, false
	}
	consumed := len(bs) - rd.Len()
	var re S
	var buf bytes.Buffer
	if werr := b.WriteBundle(&buf); werr != nil {
		re = L(Sym("err"))
	} else {
		rd2 := bytes.NewReader(buf.Bytes())
		b2, err2 := bpv7.ParseBundle(rd2)
		if err2 != nil {
			re = L(Sym("ok"), X(buf.Bytes()), L(Sym("err")))
		} else {
			var buf2 bytes.Buffer
			if w2 := b2.WriteBundle(&buf2); w2 != nil {
				re = L(Sym("ok"), X(buf.Bytes()), L(Sym("ok"), dumpBundle(&b2), Str(b2.ID().String()), L(Sym("err"))))
			} else {
				re = L(Sym("ok"), X(buf.Bytes()), L(Sym("ok"), dumpBundle(&b2), Str(b2.ID().String()), L(Sym("ok"), X(buf2.Bytes()))))
			}
		}
	}
	return L(Sym("ok"), dumpBundle(&b), Str(b.ID().String()), I(consumed), re), b, true
}

var boundaryU = []uint64{0, 1, 23, 24, 255, 256, 65535, 65536, 1<<32 - 1, 1 << 32, 1<<63 - 1, 1 << 63, 1<<64 - 1}

func randEID(r *Rng, allowNone bool) bpv7.EndpointID {
	switch k := r.Intn(10); {
	case k == 0 && allowNone:
		return bpv7.DtnNone()
	case k < 4:
		n := r.Pick([]uint64{1, 2, 23, 24, 255, 256, 65535, 65536, 1<<32 - 1, 1 << 32, 1<<64 - 1})
		s := r.Pick([]uint64{1, 2, 23, 24, 255, 256, 65535, 65536, 1<<32 - 1, 1 << 32, 1<<64 - 1})
		return bpv7.EndpointID{EndpointType: bpv7.IpnEndpoint{Node: n, Service: s}}
	default:
		nodes := []string{"a", "n0", "node-1", "x.y_z", "A9", "none", "routing", "node23456789012345678901", "-", "_", "."}
		demux := []string{"", "app", "~group", "a/b/c", "x y", "ünï", "\x80\xff", "dtn/..", "0123456789012345678901234567890", "/"}
		return bpv7.EndpointID{EndpointType: bpv7.DtnEndpoint{NodeName: nodes[r.Intn(len(nodes))], Demux: demux[r.Intn(len(demux))]}}
	}
}

var payloadSizes = []int{0, 1, 2, 22, 23, 24, 25, 100, 254, 255, 256, 257, 1000}

func randPayload(r *Rng, big bool) []byte {
	n := payloadSizes[r.Intn(len(payloadSizes))]
	if big && r.Intn(4) == 0 {
		n = []int{65535, 65536, 65537, 70000}[r.Intn(4)]
	}
	return r.Bytes(n)
}

// randBundle builds a mostly-valid bundle directly from the structs (MustNewBundle sorts blocks).
func randBundle(r *Rng, big bool) bpv7.Bundle {
	now := dtnNowMs()
	src := randEID(r, true)
	var flags bpv7.BundleControlFlags
	if src == bpv7.DtnNone() {
		flags = bpv7.MustNotFragmented
		if r.Intn(3) == 0 {
			flags |= bpv7.RequestUserApplicationAck
		}
		if r.Intn(3) == 0 {
			flags |= bpv7.AdministrativeRecordPayload
		}
	} else {
		admin := r.Intn(5) == 0
		if admin {
			flags |= bpv7.AdministrativeRecordPayload
		} else {
			for _, f := range []bpv7.BundleControlFlags{bpv7.StatusRequestReception, bpv7.StatusRequestForward, bpv7.StatusRequestDelivery, bpv7.StatusRequestDeletion} {
				if r.Intn(3) == 0 {
					flags |= f
				}
			}
		}
		switch r.Intn(4) {
		case 0:
			flags |= bpv7.IsFragment
		case 1:
			flags |= bpv7.MustNotFragmented
		}
		if r.Intn(3) == 0 {
			flags |= bpv7.RequestStatusTime
		}
		if r.Intn(4) == 0 {
			flags |= bpv7.RequestUserApplicationAck
		}
		if r.Intn(10) == 0 {
			flags |= 0x100 << uint(r.Intn(4)) // reserved bits
		}
	}
	zeroTime := r.Intn(5) == 0
	var ts, life uint64
	if zeroTime {
		ts = 0
		life = r.Pick([]uint64{1000, 3600000, 1 << 32, 1 << 40})
	} else {
		ts = now - r.Pick([]uint64{0, 1000, 3600000, 86400000})
		life = (now - ts) + r.Pick([]uint64{3600000, 86400000, 1 << 32, 1 << 40})
	}
	pb := bpv7.PrimaryBlock{
		Version: 7, BundleControlFlags: flags, CRCType: bpv7.CRCType(r.Intn(3)),
		Destination: randEID(r, true), SourceNode: src, ReportTo: randEID(r, true),
		CreationTimestamp: bpv7.NewCreationTimestamp(bpv7.DtnTime(ts), r.Pick(boundaryU)), Lifetime: life,
	}
	if flags.Has(bpv7.IsFragment) {
		pb.FragmentOffset = r.Pick(boundaryU)
		pb.TotalDataLength = r.Pick(boundaryU)
	}
	noReport := flags.Has(bpv7.AdministrativeRecordPayload) || src == bpv7.DtnNone()
	bflags := func() bpv7.BlockControlFlags {
		var f bpv7.BlockControlFlags
		for _, x := range []bpv7.BlockControlFlags{bpv7.ReplicateBlock, bpv7.StatusReportBlock, bpv7.DeleteBundle, bpv7.RemoveBlock} {
			if r.Intn(3) == 0 && !(x == bpv7.StatusReportBlock && noReport) {
				f |= x
			}
		}
		if r.Intn(12) == 0 {
			f |= 0x20 << uint(r.Intn(3))
		}
		return f
	}
	var cbs []bpv7.CanonicalBlock
	nums := r.Perm(12)
	ni := 0
	nextNum := func() uint64 {
		n := uint64(nums[ni]) + 2
		ni++
		if r.Intn(8) == 0 {
			n = r.Pick([]uint64{24 + uint64(ni), 255 + uint64(ni), 256 + uint64(ni), 65536 + uint64(ni), 1<<32 + uint64(ni), 1<<64 - 1 - uint64(ni)})
		}
		return n
	}
	add := func(v bpv7.ExtensionBlock) {
		cb := bpv7.NewCanonicalBlock(nextNum(), bflags(), v)
		cb.SetCRCType(bpv7.CRCType(r.Intn(3)))
		cbs = append(cbs, cb)
	}
	if zeroTime || r.Intn(3) == 0 {
		add(bpv7.NewBundleAgeBlock(r.Pick([]uint64{0, 1, 23, 24, 255, 256, 999})))
	}
	if r.Intn(3) == 0 {
		add(bpv7.NewPreviousNodeBlock(randEID(r, true)))
	}
	if r.Intn(3) == 0 {
		h := bpv7.NewHopCountBlock(uint8(r.Pick([]uint64{0, 1, 23, 24, 254, 255})))
		if h.Limit > 0 {
			h.Count = uint8(r.Intn(int(h.Limit) + 1))
		}
		add(h)
	}
	if r.Intn(5) == 0 {
		add(bpv7.NewBinarySprayBlock(r.Pick(boundaryU)))
	}
	if r.Intn(5) == 0 {
		peers := map[bpv7.EndpointID]bpv7.DtnTime{}
		for i, n := 0, r.Intn(4); i < n; i++ {
			peers[randEID(r, true)] = bpv7.DtnTime(r.Pick(boundaryU))
		}
		add(bpv7.NewDTLSRBlock(bpv7.DTLSRPeerData{ID: randEID(r, true), Timestamp: bpv7.DtnTime(r.Pick(boundaryU)), Peers: peers}))
	}
	if r.Intn(5) == 0 {
		preds := map[bpv7.EndpointID]float64{}
		for i, n := 0, r.Intn(4); i < n; i++ {
			preds[randEID(r, true)] = []float64{0, 1, 0.5, 0.75, 1e-310, math.Float64frombits(0x3FEFFFFFFFFFFFFF), math.Float64frombits(23), math.Float64frombits(65536)}[r.Intn(8)]
		}
		add(bpv7.NewProphetBlock(preds))
	}
	if r.Intn(6) == 0 {
		add(&bpv7.SignatureBlock{PublicKey: r.Bytes(32), Signature: r.Bytes(64)})
	}
	for i, n := 0, r.Intn(3); i < n && r.Intn(2) == 0; i++ {
		tc := []uint64{2, 3, 11, 23, 24, 191, 196, 255, 256, 65536, 1 << 32, 1<<64 - 1}[r.Intn(12)]
		dup := false
		for _, c := range cbs {
			if c.TypeCode() == tc {
				dup = true
			}
		}
		if !dup {
			add(bpv7.NewGenericExtensionBlock(randPayload(r, false), tc))
		}
	}
	pl := bpv7.NewCanonicalBlock(1, bflags()&^bpv7.RemoveBlock, bpv7.NewPayloadBlock(randPayload(r, big)))
	pl.SetCRCType(bpv7.CRCType(r.Intn(3)))
	cbs = append(cbs, pl)
	return bpv7.MustNewBundle(pb, cbs)
}

func encodeBundle(b *bpv7.Bundle) ([]byte, error) {
	var buf bytes.Buffer
	err := b.WriteBundle(&buf)
	return buf.Bytes(), err
}

// mutate returns a structure-unaware mutation of a valid encoding.
func mutate(r *Rng, bs []byte) []byte {
	out := append([]byte(nil), bs...)
	if len(out) == 0 {
		return out
	}
	switch r.Intn(7) {
	case 0: // bit flip
		i := r.Intn(len(out))
		out[i] ^= 1 << uint(r.Intn(8))
	case 1: // byte set to an interesting value
		i := r.Intn(len(out))
		out[i] = []byte{0x00, 0x17, 0x18, 0x19, 0x1a, 0x1b, 0x1c, 0x1f, 0x40, 0x58, 0x5f, 0x60, 0x7f, 0x80, 0x82, 0x9f, 0xff, 0xe0, 0xf4, 0xf5, 0xfb}[r.Intn(21)]
	case 2: // truncate
		out = out[:r.Intn(len(out))]
	case 3: // insert
		i := r.Intn(len(out) + 1)
		ins := r.Bytes(1 + r.Intn(3))
		out = append(out[:i], append(ins, out[i:]...)...)
	case 4: // delete
		i := r.Intn(len(out))
		out = append(out[:i], out[i+1:]...)
	case 5: // append garbage / second bundle
		out = append(out, r.Bytes(r.Intn(5))...)
	case 6: // break code somewhere
		i := r.Intn(len(out))
		out[i] = 0xff
	}
	return out
}

// C01parse: valid bundles, mutations, garbage through the real parser.
func genC01parse(o *Out, r *Rng, thorough bool) {
	registerAllBlocks()
	n := 400
	if thorough {
		n = 6000
	}
	emit := func(kind string, bs []byte, extra ...S) {
		now := dtnNowMs()
		obs, _, _ := parseObs(bs)
		now2 := dtnNowMs()
		if now2-now > 500 {
			return // clock bracket too wide; skip (counted by absence)
		}
		o.Case(kind, append([]S{U(now), X(bs), obs}, extra...)...)
	}
	for i := 0; i < n; i++ {
		b := randBundle(r, i%50 == 0) // every 50th bundle may carry a 64 KiB payload (the model's bit-serial CRC makes those slow)
		if i%3 == 1 {
			// extension blocks in arbitrary (non-ascending) order on the wire, payload last: what another
			// implementation may send; the parser must hand back exactly this order
			n := len(b.CanonicalBlocks) - 1
			for k := n - 1; k > 0; k-- {
				j := r.Intn(k + 1)
				b.CanonicalBlocks[k], b.CanonicalBlocks[j] = b.CanonicalBlocks[j], b.CanonicalBlocks[k]
			}
		}
		bs, err := encodeBundle(&b)
		if err != nil {
			o.Case("encfail", dumpBundle(&b))
			continue
		}
		emit("valid", bs, dumpBundle(&b), B(b.CheckValid() == nil))
		for j := 0; j < 3; j++ {
			emit("mutant", mutate(r, bs))
		}
		if i%10 == 0 {
			emit("mutant", mutate(r, mutate(r, bs)))
		}
	}
	for i := 0; i < n/4; i++ {
		emit("garbage", r.Bytes(r.Intn(40)))
	}
	if thorough {
		// one bundle above 1 MiB
		b := bpv7.MustNewBundle(bpv7.NewPrimaryBlock(0, bpv7.MustNewEndpointID("dtn://dst/"), bpv7.MustNewEndpointID("dtn://src/"), bpv7.NewCreationTimestamp(bpv7.DtnTimeNow(), 0), 3600000),
			[]bpv7.CanonicalBlock{bpv7.NewCanonicalBlock(1, 0, bpv7.NewPayloadBlock(r.Bytes(1<<20+17)))})
		b.SetCRCType(bpv7.CRC32)
		bs, _ := encodeBundle(&b)
		emit("valid", bs)
	}
	_ = time.Now
}

func init() { register("C01parse", genC01parse) }
