package main

// C06 - forwarded bundles are faithful copies and respect hop limit and lifetime.
//
// C06forward: a real routing.Core (temp dir, cron stopped) with scripted mock convergence senders
// which serialise the bundle inside Send.  One case = one bundle accepted through the receive
// path, followed by rounds:
//   recv   the reception itself (with or without a peer being up; the peer may be scripted to fail)
//   retry  the stored reception timestamp is moved back by the chosen residence time (hook
//          VerifSetReceptionTime), then the pending_bundles job runs (or a peer appears, which runs it)
//   clean  the clean_store job runs
//   dup    the SAME bundle (same ID; optionally a copy that took another path: other hop count, age,
//          previous node) is handed in again through the receive path, from the node's own endpoint,
//          the peer or a third endpoint.  While the first copy is still stored the duplicate changes
//          nothing: later retries still count the residence from the FIRST reception (the stamp set
//          through the hook before the duplicate, or the real reception).  When the bundle has left the
//          store meanwhile, the duplicate is a new reception.
// Per round the case records: a bracket [now_lo, now_hi] of the clock (DTN ms) around the round, a
// bracket [res_lo, res_hi] of the residence time in ms, every Send call for this bundle (the bytes
// serialised inside Send parsed back and dumped, whether they pass CheckValid, the re-encoded
// primary block, the scripted outcome) and whether the store still knows the bundle afterwards.
// The driver replays the rounds through the model (the residence time and the binary-spray copies
// are taken from the observation and validated against the brackets) and evaluates the property
// checker on the implementation's output alone.
//
// The node is reused for many cases (fresh peer per case; at the end of a case the peer goes
// down and everything pending is deleted from the store), and re-created every fwNodeReuse cases.

import (
	"bytes"
	"fmt"
	"io/ioutil"
	"os"
	"time"

	"github.com/dtn7/cboring"
	"github.com/dtn7/dtn7-go/pkg/bpv7"
	"github.com/dtn7/dtn7-go/pkg/cla"
	"github.com/dtn7/dtn7-go/pkg/routing"
)

const (
	fwNodeID    = "dtn://n0/"
	fwPrevHop   = "dtn://prevhop/"
	fwNodeReuse = 2000
)

var fwAlgs = []string{"epidemic", "spray", "binary_spray", "prophet", "dtlsr"}

func fwConf(alg string) routing.RoutingConf {
	return routing.RoutingConf{
		Algorithm:   alg,
		SprayConf:   routing.SprayConfig{Multiplicity: 8},
		DTLSRConf:   routing.DTLSRConfig{RecomputeTime: "1h", BroadcastTime: "1h", PurgeTime: "1h"},
		ProphetConf: routing.ProphetConfig{PInit: 0.75, Beta: 0.25, Gamma: 0.98, AgeInterval: "100000h"},
	}
}

// ---- bundle specification ----
type fwUnknown struct {
	typ   uint64
	flags bpv7.BlockControlFlags
}

type fwSpec struct {
	hop      *[2]uint8 // limit, count
	age      *uint64
	zeroTime bool
	tsBack   uint64 // creation time = now - tsBack (ms), when not zeroTime
	life     uint64
	prev     string // "" = no previous node block
	unknown  []fwUnknown
	spray    *uint64
	pflags   bpv7.BundleControlFlags
	direct   bool // destination is the peer's node
	payload  []byte
	seq      uint64
	admin    int // 0 = ordinary bundle; 1 = relayed administrative record, valid status report payload; 2 = the flag with a garbage payload
}

var fwUnknownTypes = []uint64{11, 42, 191, 196, 200, 65000}

// fwStatusReportPayload: the payload of a status report another node produced about some bundle of
// its own (the referenced bundle is unknown to this node).
func fwStatusReportPayload(r *Rng) []byte {
	ref := bpv7.Bundle{PrimaryBlock: bpv7.PrimaryBlock{
		Version: 7, Destination: MustEID("dtn://far/y"), SourceNode: MustEID("dtn://rpt/app"), ReportTo: MustEID("dtn://rpt/x"),
		CreationTimestamp: bpv7.NewCreationTimestamp(bpv7.DtnTime(dtnNowMs()-r.U64()%100000), r.U64()%50), Lifetime: 3600000,
	}}
	if r.Intn(3) == 0 {
		ref.PrimaryBlock.BundleControlFlags |= bpv7.RequestStatusTime
	}
	sip := []bpv7.StatusInformationPos{bpv7.ReceivedBundle, bpv7.ForwardedBundle, bpv7.DeliveredBundle, bpv7.DeletedBundle}[r.Intn(4)]
	reason := []bpv7.StatusReportReason{bpv7.NoInformation, bpv7.LifetimeExpired, bpv7.HopLimitExceeded, bpv7.BlockUnsupported}[r.Intn(4)]
	cb, err := bpv7.AdministrativeRecordToCbor(bpv7.NewStatusReport(ref, sip, reason, bpv7.DtnTimeNow()))
	if err != nil {
		panic(err)
	}
	return cb.Value.(*bpv7.PayloadBlock).Data()
}

// fwMakeAdmin turns the spec into an administrative record of ANOTHER node that this node merely
// relays (source, destination and report-to are foreign): the administrative-record flag is set, and
// what CheckValid forbids together with it (status requests, report-requesting blocks) is cleared.
func fwMakeAdmin(r *Rng, s *fwSpec, kind int) {
	s.admin = kind
	s.pflags |= bpv7.AdministrativeRecordPayload
	s.pflags &^= bpv7.StatusRequestReception | bpv7.StatusRequestForward | bpv7.StatusRequestDelivery | bpv7.StatusRequestDeletion
	for i := range s.unknown {
		s.unknown[i].flags &^= bpv7.StatusReportBlock
	}
	if kind == 1 {
		s.payload = fwStatusReportPayload(r)
	} else if len(s.payload) == 0 || r.Intn(3) == 0 {
		s.payload = r.Bytes(1 + r.Intn(40))
	}
}

func fwBuild(r *Rng, s *fwSpec, now uint64, peer string) bpv7.Bundle {
	dst := "dtn://far/x"
	if s.direct {
		dst = peer + "in"
	}
	var ts uint64
	if !s.zeroTime {
		ts = now - s.tsBack
	}
	pb := bpv7.PrimaryBlock{
		Version: 7, BundleControlFlags: s.pflags, CRCType: bpv7.CRCType(r.Intn(3)),
		Destination: MustEID(dst), SourceNode: MustEID("dtn://src/app"), ReportTo: MustEID("dtn://rpt/x"),
		CreationTimestamp: bpv7.NewCreationTimestamp(bpv7.DtnTime(ts), s.seq), Lifetime: s.life,
	}
	var vals []bpv7.ExtensionBlock
	var flags []bpv7.BlockControlFlags
	add := func(v bpv7.ExtensionBlock, f bpv7.BlockControlFlags) {
		vals = append(vals, v)
		flags = append(flags, f)
	}
	kf := func() bpv7.BlockControlFlags { // flags of known blocks: none of them matters to forward
		if r.Intn(4) == 0 {
			return bpv7.ReplicateBlock
		}
		if r.Intn(8) == 0 {
			return bpv7.RemoveBlock // on a known block: must NOT be removed
		}
		return 0
	}
	if s.hop != nil {
		h := bpv7.NewHopCountBlock(s.hop[0])
		h.Count = s.hop[1]
		add(h, kf())
	}
	if s.age != nil {
		add(bpv7.NewBundleAgeBlock(*s.age), kf())
	}
	if s.prev != "" {
		add(bpv7.NewPreviousNodeBlock(MustEID(s.prev)), kf())
	}
	if s.spray != nil {
		add(bpv7.NewBinarySprayBlock(*s.spray), kf())
	}
	for _, u := range s.unknown {
		add(bpv7.NewGenericExtensionBlock(r.Bytes(r.Intn(6)), u.typ), u.flags)
	}
	// block numbers: distinct, from 2..(n+4) so that the smallest free number varies; order random
	nums := r.Perm(len(vals) + 3)
	order := r.Perm(len(vals))
	var cbs []bpv7.CanonicalBlock
	used := map[uint64]bool{1: true}
	for _, i := range order {
		num := uint64(nums[i]) + 2
		if r.Intn(12) == 0 {
			num = r.Pick([]uint64{100, 255, 256, 65536, 1 << 32, 1<<64 - 1}) - uint64(i)
		}
		for used[num] { // block numbers stay pairwise distinct (the small ones are distinct by construction)
			num += 1000
		}
		used[num] = true
		cb := bpv7.NewCanonicalBlock(num, flags[i], vals[i])
		cb.SetCRCType(bpv7.CRCType(r.Intn(3)))
		cbs = append(cbs, cb)
	}
	pl := bpv7.NewCanonicalBlock(1, 0, bpv7.NewPayloadBlock(s.payload))
	pl.SetCRCType(bpv7.CRCType(r.Intn(3)))
	cbs = append(cbs, pl)
	return bpv7.Bundle{PrimaryBlock: pb, CanonicalBlocks: cbs}
}

func fwPrimaryBytes(b *bpv7.Bundle) []byte {
	var buf bytes.Buffer
	pb := b.PrimaryBlock
	if err := cboring.Marshal(&pb, &buf); err != nil {
		return nil
	}
	return buf.Bytes()
}

// deep copy through the codec where possible, else a structural copy of the block list
func fwCopy(b bpv7.Bundle) bpv7.Bundle {
	c := bpv7.Bundle{PrimaryBlock: b.PrimaryBlock}
	for _, cb := range b.CanonicalBlocks {
		nb := cb
		switch v := cb.Value.(type) {
		case *bpv7.HopCountBlock:
			x := *v
			nb.Value = &x
		case *bpv7.BundleAgeBlock:
			x := *v
			nb.Value = &x
		case *bpv7.PreviousNodeBlock:
			x := *v
			nb.Value = &x
		case *bpv7.BinarySprayBlock:
			nb.Value = bpv7.NewBinarySprayBlock(v.RemainingCopies())
		}
		c.CanonicalBlocks = append(c.CanonicalBlocks, nb)
	}
	return c
}

// fwVary turns a copy into the same bundle as it arrives over another path: more hops, older,
// another previous node (the bundle ID, the primary block and the payload are the same).
func fwVary(b *bpv7.Bundle) {
	for i := range b.CanonicalBlocks {
		switch v := b.CanonicalBlocks[i].Value.(type) {
		case *bpv7.HopCountBlock:
			if v.Count < 255 {
				v.Count++
			}
		case *bpv7.BundleAgeBlock:
			v.Increment(777)
		case *bpv7.PreviousNodeBlock:
			b.CanonicalBlocks[i].Value = bpv7.NewPreviousNodeBlock(MustEID("dtn://otherpath/"))
		}
	}
}

// ---- scenario ----
type fwRound struct {
	kind    string // retry | clean | dup
	resMs   uint64 // residence to set before a retry
	viaPeer bool   // the retry is triggered by the peer's appearance (peer was not up before)
	sleepMs int    // real sleep before the round (expiry stream only)
	keep    bool   // do not rewrite the stored reception timestamp: the residence keeps counting from the stamp of the previous round (or, when none was set, from the reception itself)
	from    int    // dup: handed in at 0 = the node's endpoint, 1 = the peer's, 2 = a third endpoint
	variant bool   // dup: the duplicate took another path (hop count, age, previous node differ)
}

type fwScenario struct {
	alg       string
	peerFirst bool // the peer is up before the reception
	fails     int  // the peer fails the first `fails` sends of this bundle
	rounds    []fwRound
}

type fwEnv struct {
	nodes map[string]*Node
	used  map[string]int
	peerN int
}

func (e *fwEnv) node(alg string) *Node {
	if n, ok := e.nodes[alg]; ok {
		if e.used[alg] < fwNodeReuse {
			e.used[alg]++
			return n
		}
		n.Destroy()
	}
	n := NewNode(fwNodeID, fwConf(alg))
	e.nodes[alg] = n
	e.used[alg] = 1
	return n
}

func (e *fwEnv) close() {
	for _, n := range e.nodes {
		n.Destroy()
	}
	if fwWorkBase != "" {
		os.RemoveAll(fwWorkBase)
	}
}

// fwFastWorkDir puts the nodes' stores on a memory file system when there is one (the badger
// store syncs a lot; nothing in C06 depends on the medium).
func fwFastWorkDir() {
	base := "/dev/shm"
	if st, err := os.Stat(base); err == nil && st.IsDir() {
		// left-overs of runs that were killed (older than 3 hours: no run takes that long)
		if old, err := ioutil.ReadDir(base); err == nil {
			for _, fi := range old {
				if fi.IsDir() && len(fi.Name()) > 10 && fi.Name()[:10] == "verif-c06-" && time.Since(fi.ModTime()) > 3*time.Hour {
					os.RemoveAll(base + "/" + fi.Name())
				}
			}
		}
		if d, err := ioutil.TempDir(base, "verif-c06-"); err == nil {
			fwWorkBase = d
			os.Setenv("VERIF_WORK", d)
		}
	}
}

var fwWorkBase string

func fwDtnMs(t time.Time) uint64 { return uint64(bpv7.DtnTimeFromTime(t)) }

// fwConstraints: the retention constraints stored for the bundle, as symbols (empty: no item, or an
// item without the property).  dp = dispatch pending only means: forward has not been entered.
func fwConstraints(n *Node, bid bpv7.BundleID) S {
	var ss []S
	bi, err := n.Core.VerifStore().QueryId(bid)
	if err != nil {
		return LL(ss)
	}
	cs, _ := bi.Properties["bundlepack/constraints"].(map[routing.Constraint]bool)
	for _, c := range []struct {
		c routing.Constraint
		s string
	}{{routing.DispatchPending, "dp"}, {routing.ForwardPending, "fp"}, {routing.ReassemblyPending_, "rp"}, {routing.Contraindicated, "ci"}, {routing.LocalEndpoint, "le"}} {
		if _, ok := cs[c.c]; ok {
			ss = append(ss, Sym(c.s))
		}
	}
	if bi.Pending {
		ss = append(ss, Sym("pending"))
	}
	return LL(ss)
}

// fwDispatchAllowed asks the routing algorithm what dispatching will ask it next: may the stored
// bundle be dispatched now?  (Epidemic routing says no while no peer lacks the bundle; forward is
// then not entered at all.  For epidemic routing the call marks the item pending, exactly as the
// call made by dispatching itself does; the other algorithms just say yes.)
func fwDispatchAllowed(n *Node, bid bpv7.BundleID) bool {
	if !n.Knows(bid) {
		return true
	}
	return n.Core.VerifRouting().DispatchingAllowed(routing.NewBundleDescriptor(bid, n.Core.VerifStore()))
}

func fwSends(n *Node, after int, id string) S {
	var ss []S
	for _, rec := range n.SendsSince(after) {
		if rec.ID != id {
			continue
		}
		rd := bytes.NewReader(rec.Raw)
		pb, err := bpv7.ParseBundle(rd)
		if err != nil && len(pb.CanonicalBlocks) == 0 {
			ss = append(ss, L(Sym("unparsable"), B(rec.OK)))
			continue
		}
		ss = append(ss, L(Sym("sent"), dumpBundle(&pb), B(err == nil), X(fwPrimaryBytes(&pb)), B(rec.OK), I(rd.Len())))
	}
	return LL(ss)
}

func fwRunCase(o *Out, r *Rng, e *fwEnv, sc fwScenario, spec *fwSpec, stream string) {
	n := e.node(sc.alg)
	e.peerN++
	peerName := fmt.Sprintf("q%d", e.peerN)
	peerEID := fmt.Sprintf("dtn://q%d/", e.peerN)
	now := dtnNowMs()
	b := fwBuild(r, spec, now, peerEID)
	bid := b.ID()
	id := bid.String()
	accepted := fwCopy(b)
	attempts := 0
	fail := func(rec *SendRec) bool {
		if rec.ID != id {
			return false
		}
		attempts++
		return attempts <= sc.fails
	}
	peerUp := false
	if sc.peerFirst {
		n.PeerUpWith(peerName, peerEID, fail)
		peerUp = true
	}
	var rounds []S
	var recvStart, recvEnd time.Time
	// reception
	{
		after := n.LastSendN()
		t0 := time.Now()
		n.Receive(b, fwNodeID)
		t1 := time.Now()
		recvStart, recvEnd = t0, t1
		resHi := uint64(t1.Sub(t0).Milliseconds()) + 1
		rounds = append(rounds, L(Sym("recv"), U(fwDtnMs(t0)-2), U(fwDtnMs(t1)+2), U(0), U(resHi),
			fwSends(n, after, id), B(n.Knows(bid)), B(peerUp), fwConstraints(n, bid), B(true), B(false)))
	}
	var lastStamp time.Time
	haveStamp := false
	for _, rd := range sc.rounds {
		if rd.sleepMs > 0 {
			time.Sleep(time.Duration(rd.sleepMs) * time.Millisecond)
		}
		after := n.LastSendN()
		switch rd.kind {
		case "retry":
			var stamp time.Time
			known := n.Knows(bid)
			setOK := false
			if known && rd.keep {
				// nothing is rewritten: counted from the last stamp set, or from the reception itself
				if haveStamp {
					stamp, setOK = lastStamp, true
				}
			} else if known {
				stamp = time.Now().Add(-time.Duration(rd.resMs) * time.Millisecond)
				setOK = n.Core.VerifSetReceptionTime(bid, stamp) == nil
				lastStamp, haveStamp = stamp, setOK
			}
			t0 := time.Now()
			var allowed bool
			if rd.viaPeer && !peerUp {
				// as Node.PeerUpWith, with the algorithm asked in between whether it will let the bundle
				// be dispatched now that the peer is registered
				m := &MockCLA{Name: peerName, Peer: MustEID(peerEID), node: n, ch: make(chan cla.ConvergenceStatus, 16), Fail: fail}
				n.Peers[peerName] = m
				n.Event++
				n.Core.RegisterConvergable(m)
				allowed = fwDispatchAllowed(n, bid)
				t0 = time.Now()
				n.Core.VerifPeerAppeared(m)
				peerUp = true
			} else {
				allowed = fwDispatchAllowed(n, bid)
				t0 = time.Now()
				n.TickPending()
			}
			t1 := time.Now()
			// the residence time: counted from the stamp just stored; when no reception timestamp is
			// stored for the bundle (nothing to rewrite), from the reception itself
			lo := uint64(t0.Sub(recvEnd).Milliseconds())
			hi := uint64(t1.Sub(recvStart).Milliseconds()) + 1
			if setOK {
				lo = uint64(t0.Sub(stamp).Milliseconds())
				hi = uint64(t1.Sub(stamp).Milliseconds()) + 1
			}
			if lo > 0 {
				lo--
			}
			rounds = append(rounds, L(Sym("retry"), U(fwDtnMs(t0)-2), U(fwDtnMs(t1)+2), U(lo), U(hi),
				fwSends(n, after, id), B(n.Knows(bid)), B(peerUp), fwConstraints(n, bid), B(allowed), B(known)))
		case "dup":
			known := n.Knows(bid)
			if known && rd.resMs > 0 {
				// the bundle has been here for resMs already when the duplicate arrives
				stamp := time.Now().Add(-time.Duration(rd.resMs) * time.Millisecond)
				if n.Core.VerifSetReceptionTime(bid, stamp) == nil {
					lastStamp, haveStamp = stamp, true
				}
			}
			d := fwCopy(accepted)
			if known && rd.variant {
				fwVary(&d)
			}
			from := []string{fwNodeID, peerEID, "dtn://elsewhere/"}[rd.from%3]
			t0 := time.Now()
			n.Receive(d, from)
			t1 := time.Now()
			var lo, hi uint64
			switch {
			case !known: // the bundle had left the store: a new reception
				recvStart, recvEnd, haveStamp = t0, t1, false
				hi = uint64(t1.Sub(t0).Milliseconds()) + 1
			case haveStamp:
				lo = uint64(t0.Sub(lastStamp).Milliseconds())
				hi = uint64(t1.Sub(lastStamp).Milliseconds()) + 1
			default:
				lo = uint64(t0.Sub(recvEnd).Milliseconds())
				hi = uint64(t1.Sub(recvStart).Milliseconds()) + 1
			}
			if lo > 0 {
				lo--
			}
			rounds = append(rounds, L(Sym("dup"), U(fwDtnMs(t0)-2), U(fwDtnMs(t1)+2), U(lo), U(hi),
				fwSends(n, after, id), B(n.Knows(bid)), B(peerUp), fwConstraints(n, bid), B(true), B(known)))
		case "clean":
			t0 := time.Now()
			n.TickClean()
			t1 := time.Now()
			rounds = append(rounds, L(Sym("clean"), U(fwDtnMs(t0)-2), U(fwDtnMs(t1)+2), U(0), U(0),
				LL(nil), B(n.Knows(bid)), B(peerUp), fwConstraints(n, bid), B(true), B(false)))
		}
	}
	o.Case("fwd", Sym(stream), Sym(sc.alg), Str(fwNodeID), dumpBundle(&accepted), X(fwPrimaryBytes(&accepted)), LL(rounds))
	// leave the node clean for the next case
	if peerUp {
		n.PeerDown(peerName)
	}
	st := n.Core.VerifStore()
	_ = st.Delete(bid.Scrub())
	if bis, err := st.QueryPending(); err == nil {
		for _, bi := range bis {
			_ = st.Delete(bi.BId)
		}
	}
}

// ---- generators of specs and scenarios ----
func fwPayload(r *Rng) []byte { return r.Bytes([]int{0, 1, 5, 23, 24, 100, 300}[r.Intn(7)]) }

func fwRandUnknown(r *Rng, s *fwSpec) {
	k := []int{0, 0, 0, 1, 1, 2, 3}[r.Intn(7)]
	perm := r.Perm(len(fwUnknownTypes))
	for i := 0; i < k; i++ {
		var f bpv7.BlockControlFlags
		// deletion is rarer, so that most bundles survive
		if r.Intn(2) == 0 {
			f |= bpv7.RemoveBlock
		}
		if r.Intn(3) == 0 {
			f |= bpv7.ReplicateBlock
		}
		if r.Intn(4) == 0 {
			f |= bpv7.StatusReportBlock
		}
		if r.Intn(6) == 0 {
			f |= bpv7.DeleteBundle
		}
		s.unknown = append(s.unknown, fwUnknown{fwUnknownTypes[perm[i]], f})
	}
}

func fwRandSpec(r *Rng, seq uint64) *fwSpec {
	s := &fwSpec{seq: seq, payload: fwPayload(r), direct: true}
	s.zeroTime = r.Intn(3) == 0
	if s.zeroTime {
		a := r.Pick([]uint64{0, 1, 5, 23, 24, 999, 65535, 3600000})
		s.age = &a
		s.life = a + r.Pick([]uint64{3600000, 86400000, 1 << 40})
	} else {
		s.tsBack = r.Pick([]uint64{0, 1, 1000, 3600000, 86400000})
		s.life = s.tsBack + r.Pick([]uint64{3600000, 86400000, 1 << 40})
		if r.Intn(2) == 0 {
			a := r.Pick([]uint64{0, 1, 5, 23, 24, 999, 65535, 3599000})
			s.age = &a
			if a >= s.life {
				s.life = a + 3600000
			}
		}
	}
	if r.Intn(2) == 0 {
		s.prev = []string{fwPrevHop, "dtn://other/", "ipn:5.1", "dtn://n0/"}[r.Intn(4)]
	}
	switch r.Intn(4) {
	case 0:
	case 1:
		l := uint8(r.Pick([]uint64{1, 2, 23, 24, 32, 64, 254, 255}))
		c := uint8(r.Intn(int(l)))
		s.hop = &[2]uint8{l, c}
	default:
		l := uint8(r.Intn(256))
		c := uint8(r.Intn(256))
		if c > l && r.Intn(4) != 0 {
			l, c = c, l
		}
		s.hop = &[2]uint8{l, c}
	}
	if r.Intn(6) == 0 {
		c := r.Pick([]uint64{0, 1, 2, 3, 8, 1000})
		s.spray = &c
	}
	fwRandUnknown(r, s)
	if r.Intn(6) == 0 {
		for _, f := range []bpv7.BundleControlFlags{bpv7.StatusRequestReception, bpv7.StatusRequestForward, bpv7.StatusRequestDeletion} {
			if r.Bool() {
				s.pflags |= f
			}
		}
	}
	if r.Intn(4) == 0 {
		s.pflags |= bpv7.MustNotFragmented
	}
	return s
}

func fwDirectFor(r *Rng, alg string) bool {
	switch alg {
	case "epidemic":
		return r.Intn(2) == 0
	case "binary_spray":
		return r.Intn(3) == 0
	}
	return true
}

var fwResidences = []uint64{0, 50, 3000}

func fwRandScenario(r *Rng, alg string) fwScenario {
	sc := fwScenario{alg: alg}
	switch r.Intn(5) {
	case 0: // peer up, success at once
		sc.peerFirst = true
	case 1: // peer up, first sends fail, retries
		sc.peerFirst = true
		sc.fails = 1 + r.Intn(3)
		for i := 0; i <= sc.fails; i++ {
			sc.rounds = append(sc.rounds, fwRound{kind: "retry", resMs: fwResidences[r.Intn(3)] + uint64(i)*7})
		}
	case 2: // stored without a peer, first transmission after a residence when the peer appears
		sc.rounds = append(sc.rounds, fwRound{kind: "retry", resMs: fwResidences[r.Intn(3)], viaPeer: true})
	case 3: // the residence keeps counting across failed attempts: the stamp is set once, two sends fail,
		// the later retries must still add the whole time since the (back-dated) reception
		sc.peerFirst = true
		sc.fails = 2
		sc.rounds = append(sc.rounds, fwRound{kind: "retry", resMs: 2000 + fwResidences[r.Intn(3)]})
		sc.rounds = append(sc.rounds, fwRound{kind: "retry", keep: true})
		sc.rounds = append(sc.rounds, fwRound{kind: "retry", keep: true})
	default: // stored without a peer; the peer fails; 3rd retry succeeds
		sc.fails = 2
		sc.rounds = append(sc.rounds, fwRound{kind: "retry", resMs: fwResidences[r.Intn(3)], viaPeer: true})
		sc.rounds = append(sc.rounds, fwRound{kind: "retry", resMs: 100 + fwResidences[r.Intn(3)]})
		sc.rounds = append(sc.rounds, fwRound{kind: "retry", resMs: 4000})
	}
	return sc
}

// fwDupScenario: histories in which the same bundle is received again between its reception and a
// (first or later) transmission.  The duplicates come 1-3 at a time, from the node's endpoint, the
// peer or a third endpoint, as exact copies or as copies that took another path; the residence is
// hook-shifted (the stamp is moved back once, BEFORE a duplicate, and never rewritten afterwards) or
// real (short sleeps); every retry after a duplicate keeps the stamp.
func fwDupScenario(r *Rng, alg string) fwScenario {
	sc := fwScenario{alg: alg}
	dups := func(first uint64, real bool) {
		k := 1 + r.Intn(3)
		for i := 0; i < k; i++ {
			rd := fwRound{kind: "dup", from: r.Intn(3), variant: r.Intn(3) == 0}
			if i == 0 {
				rd.resMs = first
			}
			if real {
				rd.sleepMs = 30 + r.Intn(30)
			}
			sc.rounds = append(sc.rounds, rd)
		}
	}
	shifted := []uint64{3000, 3000, 1500, 60000}[r.Intn(4)]
	real := r.Intn(6) == 0
	if real {
		shifted = 0
	}
	keep := func(viaPeer bool) {
		rd := fwRound{kind: "retry", keep: true, viaPeer: viaPeer}
		if real {
			rd.sleepMs = 30 + r.Intn(30)
		}
		sc.rounds = append(sc.rounds, rd)
	}
	switch r.Intn(6) {
	case 0, 1: // stored without a peer; duplicates; the peer appears: FIRST transmission
		dups(shifted, real)
		keep(true)
	case 2: // the peer refuses once or twice; duplicates between the attempts
		sc.peerFirst = true
		sc.fails = 1 + r.Intn(2)
		dups(shifted, real)
		keep(false)
		if sc.fails == 2 {
			dups(0, real)
			keep(false)
		}
	case 3: // stored without a peer, duplicates, the appearing peer refuses, more duplicates, later retries
		sc.fails = 2
		dups(shifted, real)
		keep(true)
		dups(0, false)
		keep(false)
		dups(0, real)
		keep(false)
	case 4: // an ordinary retry (stamp rewritten by the hook) first, then duplicates, then the retry that sends
		sc.peerFirst = true
		sc.fails = 2
		sc.rounds = append(sc.rounds, fwRound{kind: "retry", resMs: 2000 + fwResidences[r.Intn(3)]})
		dups(0, real)
		keep(false)
	default: // transmitted at once; the duplicate finds the bundle still retained (ignored) or gone (a new
		// reception, transmitted as such); one more retry
		sc.peerFirst = true
		dups(0, false)
		keep(false)
	}
	return sc
}

func genC06forward(o *Out, r *Rng, thorough bool) {
	fwFastWorkDir()
	registerAllBlocks()
	e := &fwEnv{nodes: map[string]*Node{}, used: map[string]int{}}
	defer e.close()
	seq := uint64(0)
	next := func() uint64 { seq++; return seq }

	// ---- stream "hop": the (limit, count) square, first transmission and one retry ----
	var pts [][2]uint8
	if thorough {
		for l := 0; l < 256; l++ {
			for c := 0; c < 256; c++ {
				pts = append(pts, [2]uint8{uint8(l), uint8(c)})
			}
		}
	} else {
		for i := 0; i < 256; i++ {
			if i%3 == 0 || i < 3 || i > 252 {
				pts = append(pts, [2]uint8{uint8(i), 0}, [2]uint8{uint8(i), 255}, [2]uint8{0, uint8(i)}, [2]uint8{255, uint8(i)})
			}
			pts = append(pts, [2]uint8{uint8(i), uint8(i)})
			if i > 0 {
				pts = append(pts, [2]uint8{uint8(i), uint8(i - 1)}, [2]uint8{uint8(i - 1), uint8(i)})
			}
		}
		for i := 0; i < 150; i++ {
			pts = append(pts, [2]uint8{uint8(r.Intn(256)), uint8(r.Intn(256))})
		}
	}
	for i, p := range pts {
		alg := fwAlgs[i%len(fwAlgs)]
		if thorough {
			alg = fwAlgs[r.Intn(len(fwAlgs))]
		}
		pp := p
		s := &fwSpec{seq: next(), payload: []byte("hop"), direct: true, hop: &pp, tsBack: 1000, life: 3600000 + 1000}
		if r.Intn(4) == 0 {
			a := uint64(r.Intn(1000))
			s.age = &a
		}
		if r.Intn(3) == 0 {
			s.prev = fwPrevHop
		}
		sc := fwScenario{alg: alg, peerFirst: true}
		switch r.Intn(4) {
		case 0:
			sc.fails = 1
			sc.rounds = []fwRound{{kind: "retry", resMs: 50}, {kind: "retry", resMs: 60}}
		case 1:
			sc.peerFirst = false
			sc.rounds = []fwRound{{kind: "retry", resMs: 0, viaPeer: true}}
		}
		fwRunCase(o, r, e, sc, s, "hop")
	}

	// ---- stream "mix": everything crossed at random, lifetimes far from the expiry instant ----
	nmix := 700
	if thorough {
		nmix = 12000
	}
	for i := 0; i < nmix; i++ {
		alg := fwAlgs[i%len(fwAlgs)]
		s := fwRandSpec(r, next())
		s.direct = fwDirectFor(r, alg)
		if r.Intn(8) == 0 {
			fwMakeAdmin(r, s, 1+r.Intn(2))
		}
		sc := fwRandScenario(r, alg)
		if !sc.peerFirst && r.Intn(4) == 0 {
			// a real residence before the first transmission (no stored timestamp is involved)
			sc.rounds[0].sleepMs = 60
		}
		fwRunCase(o, r, e, sc, s, "mix")
	}

	// ---- stream "dup": the same bundle received again while it waits for its transmission ----
	ndup := 150
	if thorough {
		ndup = 3000
	}
	for i := 0; i < ndup; i++ {
		alg := fwAlgs[i%len(fwAlgs)]
		s := fwRandSpec(r, next())
		s.direct = fwDirectFor(r, alg)
		if s.age == nil && r.Intn(4) != 0 {
			a := r.Pick([]uint64{0, 1, 999, 65535, 3599000})
			s.age = &a
			if a+120000 >= s.life {
				s.life = a + 3600000
			}
		}
		fwRunCase(o, r, e, fwDupScenario(r, alg), s, "dup")
	}

	// ---- stream "unk": one unknown block with each of the 16 flag combinations x first / retry ----
	for rep := 0; rep < map[bool]int{false: 2, true: 10}[thorough]; rep++ {
		for fl := 0; fl < 16; fl++ {
			var f bpv7.BlockControlFlags
			if fl&1 != 0 {
				f |= bpv7.ReplicateBlock
			}
			if fl&2 != 0 {
				f |= bpv7.StatusReportBlock
			}
			if fl&4 != 0 {
				f |= bpv7.DeleteBundle
			}
			if fl&8 != 0 {
				f |= bpv7.RemoveBlock
			}
			for k := 0; k < 3; k++ {
				alg := fwAlgs[(fl+k+rep)%len(fwAlgs)]
				s := &fwSpec{seq: next(), payload: fwPayload(r), direct: fwDirectFor(r, alg), tsBack: 10, life: 7200000}
				s.unknown = []fwUnknown{{fwUnknownTypes[r.Intn(len(fwUnknownTypes))], f}}
				if r.Bool() {
					s.unknown = append(s.unknown, fwUnknown{77, bpv7.BlockControlFlags(r.Pick([]uint64{0, 1, 16, 17}))})
				}
				if r.Bool() {
					s.prev = fwPrevHop
				}
				sc := fwScenario{alg: alg, peerFirst: true}
				switch k {
				case 1:
					sc.fails = 2
					sc.rounds = []fwRound{{kind: "retry", resMs: 50}, {kind: "retry", resMs: 3000}}
				case 2:
					sc.peerFirst = false
					sc.rounds = []fwRound{{kind: "retry", resMs: 50, viaPeer: true}}
				}
				fwRunCase(o, r, e, sc, s, "unk")
			}
		}
	}

	// ---- stream "age": clock-less bundles whose age crosses / does not cross the lifetime through
	//      the residence time; the outcome is decided from the residence bracket (cases inside it are
	//      skipped by the driver and counted) ----
	nage := 120
	if thorough {
		nage = 1500
	}
	for i := 0; i < nage; i++ {
		alg := fwAlgs[i%len(fwAlgs)]
		res := []uint64{3000, 3000, 3000, 50, 0}[r.Intn(5)]
		a := r.Pick([]uint64{0, 5, 1000, 86400000})
		// lifetime around age + residence: well below, just below (guard 300 ms), just above, well above;
		// with a residence of 3 s the lifetime "just below" still lies after the reception (the bundle is
		// accepted, forwarded at once if a peer is up, and refused at the retry)
		d := []int64{-100000, -2000, -300, 300, 2000, 100000}[r.Intn(6)]
		if res < 3000 && d < 0 && r.Intn(4) != 0 {
			d = -d
		}
		life := int64(a+res) + d
		if life < 1 || (life > int64(a) && life < int64(a)+200) {
			// a lifetime that ends within the first instants after the reception cannot be decided
			continue
		}
		zero := r.Intn(4) != 0
		if !zero {
			// with a creation time the age check applies all the same (processing.go:224); keep the
			// creation-time deadline a day away so that only the age decides
			a = 86400000
			life = int64(a+res) + d
		}
		s := &fwSpec{seq: next(), payload: []byte("age"), direct: fwDirectFor(r, alg), zeroTime: zero, age: &a, life: uint64(life), tsBack: 1000}
		if r.Bool() {
			s.hop = &[2]uint8{30, uint8(r.Intn(30))}
		}
		sc := fwScenario{alg: alg}
		if r.Bool() {
			sc.rounds = []fwRound{{kind: "retry", resMs: res, viaPeer: true}}
		} else {
			sc.peerFirst = true
			sc.fails = 1
			sc.rounds = []fwRound{{kind: "retry", resMs: res}, {kind: "retry", resMs: res + 5000}}
		}
		fwRunCase(o, r, e, sc, s, "age")
	}

	// ---- stream "exp": creation-time expiry: already expired at reception; expiring between the
	//      reception and the retry (short real sleep); decided from the clock bracket ----
	nexp := 24
	if thorough {
		nexp = 200
	}
	for i := 0; i < nexp; i++ {
		alg := fwAlgs[i%len(fwAlgs)]
		s := &fwSpec{seq: next(), payload: []byte("exp"), direct: fwDirectFor(r, alg)}
		sc := fwScenario{alg: alg}
		switch i % 4 {
		case 0: // expired long ago, peer up
			s.tsBack = 7200000
			s.life = 3600000
			sc.peerFirst = true
		case 1: // expired 2.5 s ago
			s.tsBack = 10000
			s.life = 7500
			sc.peerFirst = r.Bool()
			if !sc.peerFirst {
				sc.rounds = []fwRound{{kind: "retry", resMs: 0, viaPeer: true}, {kind: "clean"}}
			}
		case 2: // expires 40 ms after the reception; stored; retried after 120 ms; then cleaned
			s.tsBack = 1000
			s.life = 1040
			sc.rounds = []fwRound{{kind: "retry", resMs: 120, viaPeer: true, sleepMs: 120}, {kind: "clean"}}
		default: // expires in 2.5 s: forwarded now, and again at the retry
			s.tsBack = 1000
			s.life = 3500
			sc.peerFirst = true
			sc.fails = 1
			sc.rounds = []fwRound{{kind: "retry", resMs: 10}, {kind: "clean"}}
		}
		if r.Bool() {
			s.hop = &[2]uint8{30, uint8(r.Intn(30))}
		}
		fwRunCase(o, r, e, sc, s, "exp")
	}
	// ---- stream "adm": relayed administrative records (the administrative-record flag set, a valid
	//      status report of another node or garbage as payload) through every refusal path of forward -
	//      hop count at / over its limit, age at the lifetime on arrival, age crossing the lifetime
	//      through the residence time, creation-time expiry before the reception - and, as controls,
	//      the same records where nothing must be refused; node with inspectAllBundles on and off ----
	nadm := 8
	if thorough {
		nadm = 60
	}
	for rep := 0; rep < nadm; rep++ {
		for path := 0; path < 7; path++ {
			for kind := 1; kind <= 2; kind++ {
				alg := fwAlgs[(rep+path+kind)%len(fwAlgs)]
				s := &fwSpec{seq: next(), payload: fwPayload(r), direct: fwDirectFor(r, alg), tsBack: 1000, life: 3600000 + 1000}
				if r.Intn(3) == 0 {
					s.prev = fwPrevHop
				}
				if r.Intn(4) == 0 {
					fwRandUnknown(r, s)
				}
				sc := fwScenario{alg: alg}
				// how the refusing pass is reached: at the reception (peer up), when a peer appears, at a plain retry
				how := r.Intn(3)
				res := []uint64{0, 50, 3000}[r.Intn(3)]
				entry := func() {
					switch how {
					case 0:
						sc.peerFirst = true
					case 1:
						sc.rounds = []fwRound{{kind: "retry", resMs: res, viaPeer: true}}
					default:
						sc.rounds = []fwRound{{kind: "retry", resMs: res}, {kind: "retry", resMs: res + 40, viaPeer: true}}
					}
					// whatever happened, the following passes must find nothing left to do
					sc.rounds = append(sc.rounds, fwRound{kind: "retry", resMs: res + 100}, fwRound{kind: "clean"})
				}
				switch path {
				case 0: // hop count already at its limit
					l := uint8(r.Pick([]uint64{0, 1, 2, 23, 24, 30, 254, 255}))
					s.hop = &[2]uint8{l, l}
					entry()
				case 1: // hop count one below the limit: the last admissible hop (control)
					l := uint8(r.Pick([]uint64{1, 2, 24, 30, 255}))
					s.hop = &[2]uint8{l, l - 1}
					entry()
				case 2: // clock-less, age == lifetime on arrival (the parser accepts it, forward must refuse it)
					a := r.Pick([]uint64{1, 5, 1000, 86400000})
					s.zeroTime, s.age, s.life = true, &a, a
					entry()
				case 3: // clock-less, the age crosses the lifetime while the record waits in the store
					a := r.Pick([]uint64{0, 5, 1000, 86400000})
					s.zeroTime, s.age = true, &a
					s.life = a + 3000 - r.Pick([]uint64{300, 2000})
					if r.Bool() {
						sc.rounds = []fwRound{{kind: "retry", resMs: 3000, viaPeer: true}}
					} else {
						sc.peerFirst = true
						sc.fails = 1
						sc.rounds = []fwRound{{kind: "retry", resMs: 3000}}
					}
					sc.rounds = append(sc.rounds, fwRound{kind: "retry", resMs: 8000}, fwRound{kind: "clean"})
				case 4: // clock-less, lifetime far away (control)
					a := r.Pick([]uint64{0, 5, 1000, 86400000})
					s.zeroTime, s.age, s.life = true, &a, a+3600000
					entry()
				case 5: // creation-time lifetime over before the reception
					s.tsBack = 7200000
					s.life = 3600000 + r.Pick([]uint64{0, 3000000})
					entry()
				default: // with a creation time AND an age block: the age check applies all the same
					a := uint64(86400000)
					s.age = &a
					s.life = a + 3000 - r.Pick([]uint64{300, 2000})
					sc.peerFirst = true
					sc.fails = 1
					sc.rounds = []fwRound{{kind: "retry", resMs: 3000}, {kind: "retry", resMs: 8000}, {kind: "clean"}}
				}
				fwMakeAdmin(r, s, kind)
				n := e.node(alg)
				e.used[alg]--
				n.Core.InspectAllBundles = r.Intn(3) == 0
				fwRunCase(o, r, e, sc, s, "adm")
				n.Core.InspectAllBundles = false
			}
		}
	}
}

func init() { register("C06forward", genC06forward) }
