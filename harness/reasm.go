package main

// C10 - reassembly accepts any covering set of fragments and nothing else.
//
// Runs the real bpv7.Bundle.Fragment / IsBundleReassemblable / ReassembleFragments and
// storage.Store.Push + BundleItem.IsComplete / Load on
//   * fragments produced by Bundle.Fragment with up to three MTUs and by fragmenting those
//     fragments again (second level),
//   * synthetic fragments built directly from intervals (overlap / containment / duplicates that
//     Fragment alone never produces),
// in all / sampled sub-multisets and orders.  Every call runs under recover().

import (
	"bytes"
	"fmt"
	"io/ioutil"
	"os"
	"strings"

	"github.com/dtn7/dtn7-go/pkg/bpv7"
	"github.com/dtn7/dtn7-go/pkg/storage"
)

type c10Orig struct {
	b       bpv7.Bundle
	payload []byte
	wire    []byte
}

var c10Seq uint64

func c10Wire(b bpv7.Bundle) []byte {
	var buf bytes.Buffer
	if err := b.MarshalCbor(&buf); err != nil {
		panic(err)
	}
	return buf.Bytes()
}

// c10Bundle builds a valid bundle with a unique ID, payload of plen random bytes and one of a few
// extension block mixes (canonical numbering 2,3,.. as the Builder assigns it).
func c10Bundle(r *Rng, plen int, mix int) c10Orig {
	payload := r.Bytes(plen)
	bl := bpv7.Builder().
		Source("dtn://src/").
		Destination("dtn://dst/").
		CreationTimestampNow().
		Lifetime("24h")
	switch mix % 4 {
	case 1:
		bl = bl.Canonical(bpv7.NewHopCountBlock(32)) // not replicated
	case 2:
		bl = bl.BundleAgeBlock(0).Canonical(bpv7.NewHopCountBlock(32)) // replicated + not replicated
	case 3:
		bl = bl.Canonical(bpv7.NewHopCountBlock(7)).PreviousNodeBlock("dtn://prev/").BundleAgeBlock(5)
	}
	crc := bpv7.CRC32
	if mix%8 >= 4 {
		crc = bpv7.CRC16
	}
	b, err := bl.CRC(crc).PayloadBlock(payload).Build()
	if err != nil {
		panic(err)
	}
	c10Seq++
	b.PrimaryBlock.CreationTimestamp = bpv7.NewCreationTimestamp(b.PrimaryBlock.CreationTimestamp.DtnTime(), c10Seq)
	b.SetCRCType(crc)
	if err := b.CheckValid(); err != nil {
		panic(err)
	}
	return c10Orig{b: b, payload: payload, wire: c10Wire(b)}
}

func c10Data(f bpv7.Bundle) []byte {
	pb, err := f.PayloadBlock()
	if err != nil {
		return nil
	}
	return pb.Value.(*bpv7.PayloadBlock).Data()
}

// blocks (without the payload block) as ((typecode replicate) ...), in bundle order
func c10BlocksS(f bpv7.Bundle) S {
	var l []S
	for _, cb := range f.CanonicalBlocks {
		if cb.TypeCode() == bpv7.ExtBlockTypePayloadBlock {
			continue
		}
		l = append(l, L(U(cb.TypeCode()), B(cb.BlockControlFlags.Has(bpv7.ReplicateBlock))))
	}
	return LL(l)
}

// (off total data isfrag blocks)
func c10FragS(f bpv7.Bundle) S {
	return L(U(f.PrimaryBlock.FragmentOffset), U(f.PrimaryBlock.TotalDataLength), X(c10Data(f)),
		B(f.PrimaryBlock.BundleControlFlags.Has(bpv7.IsFragment)), c10BlocksS(f))
}

func c10FragsS(fs []bpv7.Bundle) S {
	l := make([]S, len(fs))
	for i, f := range fs {
		l[i] = c10FragS(f)
	}
	return LL(l)
}

// c10Synth builds the fragment [a,e) of o directly, the way Bundle.Fragment composes a fragment:
// all extension blocks at offset 0, only the replicated ones elsewhere.
func c10Synth(o c10Orig, a, e int) bpv7.Bundle {
	pb := o.b.PrimaryBlock
	pb.BundleControlFlags |= bpv7.IsFragment
	pb.FragmentOffset = uint64(a)
	pb.TotalDataLength = uint64(len(o.payload))
	pb.CRC = nil
	f := bpv7.MustNewBundle(pb, nil)
	var pay bpv7.CanonicalBlock
	for _, cb := range o.b.CanonicalBlocks {
		if cb.TypeCode() == bpv7.ExtBlockTypePayloadBlock {
			pay = cb
			continue
		}
		if a > 0 && !cb.BlockControlFlags.Has(bpv7.ReplicateBlock) {
			continue
		}
		f.AddExtensionBlock(cb)
	}
	f.AddExtensionBlock(bpv7.CanonicalBlock{
		BlockControlFlags: pay.BlockControlFlags,
		CRCType:           pay.CRCType,
		Value:             bpv7.NewPayloadBlock(append([]byte{}, o.payload[a:e]...)),
	})
	f.SetCRCType(o.b.PrimaryBlock.CRCType)
	if err := f.CheckValid(); err != nil {
		panic(fmt.Sprintf("synthetic fragment invalid: %v", err))
	}
	return f
}

func c10ErrClass(err error) string {
	m := err.Error()
	switch {
	case strings.Contains(m, "slice of fragments is empty"):
		return "empty"
	case strings.Contains(m, "bundle is not a fragment"):
		return "notfrag"
	case strings.Contains(m, "gap from"):
		return "gap"
	case strings.Contains(m, "does not match total length"):
		return "total"
	}
	return "other"
}

func c10IsRe(fs []bpv7.Bundle) (res S) {
	defer func() {
		if p := recover(); p != nil {
			res = L(Sym("panic"), Str(fmt.Sprint(p)))
		}
	}()
	c := append([]bpv7.Bundle{}, fs...)
	if bpv7.IsBundleReassemblable(c) {
		return L(Sym("yes"))
	}
	return L(Sym("no"))
}

// outcome S: (ok payload blocks wire_equal) | (err class) | (panic msg)
func c10Outcome(o c10Orig, run func() (bpv7.Bundle, error)) (res S) {
	defer func() {
		if p := recover(); p != nil {
			res = L(Sym("panic"), Str(fmt.Sprint(p)))
		}
	}()
	b, err := run()
	if err != nil {
		return L(Sym("err"), Sym(c10ErrClass(err)))
	}
	return L(Sym("ok"), X(c10Data(b)), c10BlocksS(b), B(bytes.Equal(c10Wire(b), o.wire)))
}

// identity of a bundle value inside a case: address of its first canonical block
func c10Key(f bpv7.Bundle) *bpv7.CanonicalBlock { return &f.CanonicalBlocks[0] }

// c10Case runs IsBundleReassemblable and ReassembleFragments on fs (in this order) and records
// the order the implementation's (unstable) sort left the slice in.
func c10Case(o *Out, tag string, org c10Orig, fs []bpv7.Bundle) {
	isre := c10IsRe(fs)
	c := append([]bpv7.Bundle{}, fs...)
	out := c10Outcome(org, func() (bpv7.Bundle, error) { return bpv7.ReassembleFragments(c) })
	used := make([]bool, len(fs))
	perm := make([]S, 0, len(fs))
	for _, s := range c {
		for i := range fs {
			if !used[i] && c10Key(fs[i]) == c10Key(s) && fs[i].PrimaryBlock.FragmentOffset == s.PrimaryBlock.FragmentOffset {
				used[i] = true
				perm = append(perm, I(i))
				break
			}
		}
	}
	o.Case("reasm", Sym(tag), X(org.payload), c10BlocksS(org.b), c10FragsS(fs), isre, LL(perm), out)
}

// ---- store -------------------------------------------------------------------------------

type c10Store struct {
	dir string
	st  *storage.Store
}

func c10NewStore() *c10Store {
	base := os.Getenv("VERIF_WORK")
	if base == "" {
		base = os.TempDir()
	}
	d, err := ioutil.TempDir(base, "c10store")
	if err != nil {
		panic(err)
	}
	st, err := storage.NewStore(d)
	if err != nil {
		panic(err)
	}
	return &c10Store{dir: d, st: st}
}

func (s *c10Store) Close() {
	_ = s.st.Close()
	_ = os.RemoveAll(s.dir)
}

// c10StoreCase pushes fs in order, then reads the item: kept parts, IsComplete, Load.
func c10StoreCase(o *Out, s *c10Store, tag string, org c10Orig, fs []bpv7.Bundle) {
	pushErrs := 0
	for _, f := range fs {
		func() {
			defer func() {
				if p := recover(); p != nil {
					pushErrs++
				}
			}()
			if err := s.st.Push(f); err != nil {
				pushErrs++
			}
		}()
	}
	bi, err := s.st.QueryId(org.b.ID())
	if err != nil {
		o.Case("store", Sym(tag), X(org.payload), c10BlocksS(org.b), c10FragsS(fs), I(pushErrs), Sym("noitem"))
		return
	}
	var parts []S
	for _, p := range bi.Parts {
		l := -1
		if pb, err := p.Load(); err == nil {
			l = len(c10Data(pb))
		}
		parts = append(parts, L(U(p.FragmentOffset), U(p.TotalDataLength), I(l)))
	}
	var complete S
	func() {
		defer func() {
			if p := recover(); p != nil {
				complete = L(Sym("panic"), Str(fmt.Sprint(p)))
			}
		}()
		if bi.IsComplete() {
			complete = L(Sym("yes"))
		} else {
			complete = L(Sym("no"))
		}
	}()
	load := c10Outcome(org, func() (bpv7.Bundle, error) { return bi.Load() })
	o.Case("store", Sym(tag), X(org.payload), c10BlocksS(org.b), c10FragsS(fs), I(pushErrs), LL(parts), complete, load)
	_ = s.st.Delete(org.b.ID())
}

// ---- fragmentation helpers ---------------------------------------------------------------

func c10Fragment(b bpv7.Bundle, mtu int) (fs []bpv7.Bundle, err error) {
	defer func() {
		if p := recover(); p != nil {
			err = fmt.Errorf("panic: %v", p)
		}
	}()
	return b.Fragment(mtu)
}

// smallest mtu for which Fragment succeeds
func c10MinMtu(b bpv7.Bundle) int {
	for m := 20; m < 400; m++ {
		if fs, err := c10Fragment(b, m); err == nil && len(fs) > 0 {
			return m
		}
	}
	return -1
}

// c10Refrag: Fragment applied to parent (a fragment or a whole bundle); writes a refrag case.
func c10Refrag(o *Out, org c10Orig, parent bpv7.Bundle, mtu int) []bpv7.Bundle {
	fs, err := c10Fragment(parent, mtu)
	if err != nil {
		cls := "err"
		if strings.HasPrefix(err.Error(), "panic") {
			cls = "panic"
		}
		o.Case("refrag", X(org.payload), c10BlocksS(org.b), c10FragS(parent), I(mtu), L(Sym(cls)))
		return nil
	}
	o.Case("refrag", X(org.payload), c10BlocksS(org.b), c10FragS(parent), I(mtu), L(Sym("ok"), c10FragsS(fs)))
	return fs
}

func c10IsFrag(f bpv7.Bundle) bool { return f.PrimaryBlock.BundleControlFlags.Has(bpv7.IsFragment) }

// pool of first- and second-level fragments of org: up to three MTUs, every fragment fragmented again
func c10Pool(o *Out, r *Rng, org c10Orig, chunks []int) (levels [][]bpv7.Bundle, pool []bpv7.Bundle) {
	min := c10MinMtu(org.b)
	if min < 0 {
		return
	}
	for _, c := range chunks {
		fs := c10Refrag(o, org, org.b, min-1+c)
		if len(fs) < 2 {
			continue
		}
		levels = append(levels, fs)
		pool = append(pool, fs...)
		for _, f := range fs {
			l := len(c10Data(f))
			if l < 2 {
				continue
			}
			m2 := c10MinMtu(f)
			if m2 < 0 {
				continue
			}
			ch := c10Refrag(o, org, f, m2-1+1+r.Intn(l-1))
			if len(ch) >= 2 {
				pool = append(pool, ch...)
				levels = append(levels, ch)
			}
		}
	}
	return
}

func c10Shuffle(r *Rng, fs []bpv7.Bundle) []bpv7.Bundle {
	p := r.Perm(len(fs))
	out := make([]bpv7.Bundle, len(fs))
	for i, j := range p {
		out[i] = fs[j]
	}
	return out
}

// all ordered selections without repetition (sub-lists in every order) of pool up to size k
func c10AllOrders(pool []bpv7.Bundle, k int, f func([]bpv7.Bundle)) {
	used := make([]bool, len(pool))
	var cur []bpv7.Bundle
	var rec func()
	rec = func() {
		if len(cur) > 0 {
			f(append([]bpv7.Bundle{}, cur...))
		}
		if len(cur) == k {
			return
		}
		for i := range pool {
			if used[i] {
				continue
			}
			used[i] = true
			cur = append(cur, pool[i])
			rec()
			cur = cur[:len(cur)-1]
			used[i] = false
		}
	}
	rec()
}

// all lists with repetition of length 1..k over pool
func c10AllLists(pool []bpv7.Bundle, k int, f func([]bpv7.Bundle)) {
	var cur []bpv7.Bundle
	var rec func()
	rec = func() {
		if len(cur) > 0 {
			f(append([]bpv7.Bundle{}, cur...))
		}
		if len(cur) == k {
			return
		}
		for i := range pool {
			cur = append(cur, pool[i])
			rec()
			cur = cur[:len(cur)-1]
		}
	}
	rec()
}

// random interval set over [0,n): a partition plus overlapping / contained / duplicate pieces,
// sometimes with one piece removed
func c10RandIntervals(r *Rng, n int) [][2]int {
	var iv [][2]int
	if r.Intn(4) > 0 { // start from a partition
		a := 0
		for a < n {
			e := a + 1 + r.Intn(1+n/2)
			if e > n {
				e = n
			}
			iv = append(iv, [2]int{a, e})
			a = e
		}
	}
	extra := r.Intn(5)
	for i := 0; i < extra || len(iv) == 0; i++ {
		switch r.Intn(4) {
		case 0: // duplicate
			if len(iv) > 0 {
				iv = append(iv, iv[r.Intn(len(iv))])
				continue
			}
			fallthrough
		case 1: // contained in an existing piece
			if len(iv) > 0 {
				p := iv[r.Intn(len(iv))]
				a := p[0] + r.Intn(p[1]-p[0])
				e := a + 1 + r.Intn(p[1]-a)
				iv = append(iv, [2]int{a, e})
				continue
			}
			fallthrough
		default:
			a := r.Intn(n)
			e := a + 1 + r.Intn(n-a)
			iv = append(iv, [2]int{a, e})
		}
	}
	if len(iv) > 1 && r.Intn(3) == 0 {
		k := r.Intn(len(iv))
		iv = append(iv[:k], iv[k+1:]...)
	}
	for len(iv) > 9 {
		k := r.Intn(len(iv))
		iv = append(iv[:k], iv[k+1:]...)
	}
	p := r.Perm(len(iv))
	out := make([][2]int, len(iv))
	for i, j := range p {
		out[i] = iv[j]
	}
	return out
}

func c10SynthSet(org c10Orig, iv [][2]int) []bpv7.Bundle {
	cache := map[[2]int]bpv7.Bundle{}
	fs := make([]bpv7.Bundle, len(iv))
	for i, v := range iv {
		f, ok := cache[v]
		if !ok {
			f = c10Synth(org, v[0], v[1])
			cache[v] = f
		}
		fs[i] = f
	}
	return fs
}

func c10AllIntervals(org c10Orig) []bpv7.Bundle {
	var pool []bpv7.Bundle
	n := len(org.payload)
	for a := 0; a < n; a++ {
		for e := a + 1; e <= n; e++ {
			pool = append(pool, c10Synth(org, a, e))
		}
	}
	return pool
}

// ---- generators --------------------------------------------------------------------------

func genC10reasm(o *Out, r *Rng, thorough bool) {
	// fixed witnesses first (DESIGN C10 F): containment lowers the running index
	{
		org := c10Bundle(r, 10, 1)
		c10Case(o, "witness", org, c10SynthSet(org, [][2]int{{0, 10}, {2, 5}, {5, 10}}))
		c10Case(o, "witness", org, c10SynthSet(org, [][2]int{{0, 8}, {2, 5}, {6, 10}}))
		c10Case(o, "witness", org, c10SynthSet(org, [][2]int{{5, 10}, {0, 5}}))
		c10Case(o, "witness", org, c10SynthSet(org, [][2]int{{0, 5}, {6, 10}}))
		c10Case(o, "witness", org, nil)
		c10Case(o, "witness", org, []bpv7.Bundle{org.b})
		c10Case(o, "witness", org, []bpv7.Bundle{c10Synth(org, 0, 10), org.b})
		c10Case(o, "witness", org, []bpv7.Bundle{c10Synth(org, 0, 4), c10Synth(org, 0, 0), c10Synth(org, 4, 4), c10Synth(org, 4, 10), c10Synth(org, 10, 10)})
	}

	// (1) synthetic, exhaustive: every list (with repetition) of up to k intervals of a small payload
	{
		n, k := 4, 3
		org := c10Bundle(r, n, 2)
		c10AllLists(c10AllIntervals(org), k, func(fs []bpv7.Bundle) { c10Case(o, "synth-all", org, fs) })
		if thorough {
			org := c10Bundle(r, 4, 3)
			c10AllLists(c10AllIntervals(org), 4, func(fs []bpv7.Bundle) { c10Case(o, "synth-all", org, fs) })
			org = c10Bundle(r, 5, 1)
			c10AllLists(c10AllIntervals(org), 3, func(fs []bpv7.Bundle) { c10Case(o, "synth-all", org, fs) })
		}
	}

	// (2) synthetic, random interval sets over payloads 1..300
	nsyn := 1500
	if thorough {
		nsyn = 40000
	}
	for i := 0; i < nsyn; i++ {
		n := 1 + r.Intn(12)
		switch r.Intn(4) {
		case 0:
			n = 1 + r.Intn(40)
		case 1:
			n = 1 + r.Intn(300)
		}
		org := c10Bundle(r, n, r.Intn(8))
		c10Case(o, "synth-rand", org, c10SynthSet(org, c10RandIntervals(r, n)))
	}

	// (3) real Fragment output: up to three MTUs + second level
	nb := 14
	if thorough {
		nb = 300
	}
	for i := 0; i < nb; i++ {
		n := 2 + r.Intn(10)
		if i%3 == 1 {
			n = 10 + r.Intn(60)
		} else if i%3 == 2 {
			n = 60 + r.Intn(240)
		}
		org := c10Bundle(r, n, r.Intn(8))
		var chunks []int
		for len(chunks) < 3 {
			c := 1 + r.Intn(n)
			if n > 12 {
				c = n/6 + r.Intn(n)
			}
			chunks = append(chunks, c)
		}
		levels, pool := c10Pool(o, r, org, chunks)
		if len(pool) == 0 {
			continue
		}
		for _, l := range levels {
			c10Case(o, "frag-level", org, c10Shuffle(r, l))
		}
		c10Case(o, "frag-pool", org, c10Shuffle(r, pool))
		if len(pool) <= 5 || (thorough && len(pool) <= 6) {
			c10AllOrders(pool, len(pool), func(fs []bpv7.Bundle) { c10Case(o, "frag-all", org, fs) })
		} else if len(pool) <= 9 {
			c10AllOrders(pool, 2, func(fs []bpv7.Bundle) { c10Case(o, "frag-all2", org, fs) })
		}
		nr := 60
		if thorough {
			nr = 300
		}
		for j := 0; j < nr; j++ {
			var fs []bpv7.Bundle
			switch r.Intn(5) {
			case 0: // random sub-multiset
				k := 1 + r.Intn(8)
				for len(fs) < k {
					fs = append(fs, pool[r.Intn(len(pool))])
				}
			case 1: // union of two levels minus possibly one
				fs = append(fs, levels[r.Intn(len(levels))]...)
				fs = append(fs, levels[r.Intn(len(levels))]...)
			case 2: // one first-level set with a piece replaced by the pieces of another set
				fs = append(fs, levels[0]...)
				k := r.Intn(len(fs))
				fs = append(fs[:k:k], fs[k+1:]...)
				fs = append(fs, levels[r.Intn(len(levels))]...)
			case 3: // everything but one
				fs = append(fs, pool...)
				k := r.Intn(len(fs))
				fs = append(fs[:k:k], fs[k+1:]...)
			default: // random subset
				for _, f := range pool {
					if r.Intn(3) > 0 {
						fs = append(fs, f)
					}
				}
				if len(fs) > 0 && r.Intn(4) == 0 {
					fs = append(fs, fs[r.Intn(len(fs))])
				}
			}
			if len(fs) > 14 {
				fs = c10Shuffle(r, fs)[:14]
			}
			c10Case(o, "frag-rand", org, c10Shuffle(r, fs))
		}
	}
}

func genC10store(o *Out, r *Rng, thorough bool) {
	s := c10NewStore()
	defer s.Close()
	{
		org := c10Bundle(r, 10, 1)
		c10StoreCase(o, s, "witness", org, c10SynthSet(org, [][2]int{{0, 5}, {0, 7}, {7, 10}}))
		c10StoreCase(o, s, "witness", org, c10SynthSet(org, [][2]int{{0, 10}, {2, 5}, {5, 10}}))
		c10StoreCase(o, s, "witness", org, c10SynthSet(org, [][2]int{{5, 10}, {0, 5}, {0, 5}}))
		c10StoreCase(o, s, "witness", org, c10SynthSet(org, [][2]int{{0, 5}, {6, 10}}))
	}
	// exhaustive small: all lists of up to 3 intervals of a 3-byte payload (4-byte in thorough)
	{
		n := 3
		if thorough {
			n = 4
		}
		org := c10Bundle(r, n, 2)
		c10AllLists(c10AllIntervals(org), 3, func(fs []bpv7.Bundle) { c10StoreCase(o, s, "synth-all", org, fs) })
	}
	nsyn := 250
	if thorough {
		nsyn = 6000
	}
	for i := 0; i < nsyn; i++ {
		n := 1 + r.Intn(12)
		if r.Intn(4) == 0 {
			n = 1 + r.Intn(300)
		}
		org := c10Bundle(r, n, r.Intn(8))
		c10StoreCase(o, s, "synth-rand", org, c10SynthSet(org, c10RandIntervals(r, n)))
	}
	nb := 8
	if thorough {
		nb = 150
	}
	sink := NewOut(ioutil.Discard)
	for i := 0; i < nb; i++ {
		n := 2 + r.Intn(40)
		if i%2 == 1 {
			n = 40 + r.Intn(260)
		}
		org := c10Bundle(r, n, r.Intn(8))
		chunks := []int{1 + r.Intn(n), 1 + r.Intn(n), n/4 + 1 + r.Intn(n)}
		levels, pool := c10Pool(sink, r, org, chunks)
		if len(pool) == 0 {
			continue
		}
		for _, l := range levels {
			c10StoreCase(o, s, "frag-level", org, c10Shuffle(r, l))
		}
		for j := 0; j < 12; j++ {
			var fs []bpv7.Bundle
			if j%2 == 0 {
				fs = append(fs, levels[r.Intn(len(levels))]...)
				fs = append(fs, levels[r.Intn(len(levels))]...)
			} else {
				for _, f := range pool {
					if r.Intn(3) > 0 {
						fs = append(fs, f)
					}
				}
			}
			if len(fs) > 12 {
				fs = c10Shuffle(r, fs)[:12]
			}
			c10StoreCase(o, s, "frag-rand", org, c10Shuffle(r, fs))
		}
	}
}

func init() {
	register("C10reasm", genC10reasm)
	register("C10store", genC10store)
}
