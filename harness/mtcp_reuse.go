package main

// C12 (MTCP part): ONE MTCPClient object used over several connections, the way cla.Manager.Restart
// uses it (PeerDisappeared -> Close() -> Start() on the same object).  A history is a list of epochs;
// every epoch is a fresh recorded connection into a fresh server loop, driven by the same operations
// as a "conn" case (Send, injected keep-alive, Send cut at write k after m bytes, transient write
// failure) plus Sends of bundles that cannot be serialised (operation 3).  Every epoch is judged like
// a "conn" case on its own: whatever an earlier epoch (or an earlier failed Send of this epoch) left
// behind in the client object must not show on the wire; every Send that returns nil delivered
// exactly its bundle.

import (
	"time"

	"github.com/dtn7/dtn7-go/pkg/bpv7"
	"github.com/dtn7/dtn7-go/pkg/cla/mtcp"
)

func mtcpReuse(o *Out, tab []mtcpBundle, epochs [][]mtcpOp) {
	client := mtcp.NewMTCPClient("verif", bpv7.MustNewEndpointID("dtn://server/"), false)
	var eps []S
	for ei, ops := range epochs {
		label := "reuse-first"
		if ei > 0 {
			label = "reuse-later"
		}
		for attempt := 0; ; attempt++ {
			var got []S
			ok := mtcpConnOnceC(client, func(kind string, fields ...S) { got = fields }, label, tab, ops, 0, false, attempt >= 3, time.Now())
			if ok {
				eps = append(eps, LL(got))
				break
			}
		}
	}
	o.Case("reuse", eps...)
}

func mtcpNChunks(b mtcpBundle) int {
	if len(b.raw) > 4096-3 {
		return 3
	}
	return 2
}

func mtcpReuseAll(o *Out, r *Rng, tab []mtcpBundle, thorough bool) {
	send := func(bi int) mtcpOp { return mtcpOp{0, bi, -1, 0, false} }
	ka := mtcpOp{1, 0, -1, 0, false}
	bad := func(bi int) mtcpOp { return mtcpOp{3, bi, -1, 0, false} }

	// a Send cut at every write / several byte offsets, restart, the same bundles again
	cutIdx := []int{0, 3, 5, 8, 10, 13, 15, 19}
	cutOff := []int{0, 1, 2, 5, 4000}
	if thorough {
		cutIdx = nil
		for i := 0; i < 21; i++ {
			cutIdx = append(cutIdx, i)
		}
		cutOff = []int{0, 1, 2, 3, 4, 5, 9, 10, 100, 4000, 4095, 4096, 70000}
	}
	cnt := 0
	for _, bi := range cutIdx {
		for k := 0; k < mtcpNChunks(tab[bi]); k++ {
			for _, m := range cutOff {
				cnt++
				first := []mtcpOp{send(1), {0, bi, k, m, false}}
				if cnt%2 == 0 {
					first = append(first, send(0)) // on the broken connection
				}
				eps := [][]mtcpOp{first, {send(2), ka, send(bi), send(0)}}
				if cnt%3 == 0 {
					// a second failure on the second connection, a third connection
					eps = [][]mtcpOp{first, {send(2), {0, bi, (k + 1) % mtcpNChunks(tab[bi]), m, false}}, {send(bi), ka, send(1)}}
				}
				mtcpReuse(o, tab, eps)
			}
		}
	}
	// a write that fails once (the connection itself stays usable), then the restart
	for _, bi := range []int{0, 5, 10, 13, 19} {
		for k := 0; k < mtcpNChunks(tab[bi]); k++ {
			mtcpReuse(o, tab, [][]mtcpOp{{send(1), ka, {0, bi, k, 0, true}}, {send(bi), send(2)}})
		}
	}
	// bundles that cannot be serialised: the next Send on the same connection, and after a restart
	for _, bi := range []int{0, 3, 5, 10, 13, 19} {
		mtcpReuse(o, tab, [][]mtcpOp{
			{send(1), bad(bi), send(2), ka, bad(bi), bad(0), send(bi)},
			{send(0), bad(bi)},
			{send(bi), send(1)}})
		mtcpReuse(o, tab, [][]mtcpOp{{bad(bi)}, {bad(bi), send(bi)}})
	}
	// random histories
	n := 40
	if thorough {
		n = 800
	}
	for c := 0; c < n; c++ {
		var eps [][]mtcpOp
		ne := 2 + r.Intn(3)
		for e := 0; e < ne; e++ {
			var ops []mtcpOp
			ln := 1 + r.Intn(5)
			cutAt := -1
			if r.Intn(3) > 0 {
				cutAt = r.Intn(ln)
			}
			for i := 0; i < ln; i++ {
				if r.Intn(4) == 0 {
					ops = append(ops, ka)
				}
				bi := r.Intn(7)
				if r.Intn(3) == 0 {
					bi = 7 + r.Intn(10)
				}
				if r.Intn(30) == 0 {
					bi = 17 + r.Intn(4)
				}
				switch {
				case i == cutAt:
					ops = append(ops, mtcpOp{0, bi, r.Intn(mtcpNChunks(tab[bi])), []int{0, 0, 1, 3, 9, 50, 4095, 4096, 5000}[r.Intn(9)], r.Intn(5) == 0})
					if r.Intn(2) == 0 {
						i = ln // the failed Send ends the epoch
					}
				case r.Intn(5) == 0:
					ops = append(ops, bad(bi))
				default:
					ops = append(ops, send(bi))
				}
			}
			eps = append(eps, ops)
		}
		// a transient failure leaves an incomplete frame on the wire: it must be the last operation
		for e := range eps {
			for i, op := range eps[e] {
				if op.kind == 0 && op.transient {
					eps[e] = eps[e][:i+1]
					break
				}
			}
		}
		mtcpReuse(o, tab, eps)
	}
}
