package main

// C20 - DTLSR: routing table = least-cost first hops of the known link-state graph, link-state
// replacement, forwarding.
//
// C20dtlsr: a real routing.DTLSR instance (real constructor, on a real Core) is fed histories of
//   link-state bundles (real bundles carrying a DTLSR block, through NotifyNewBundle; a part of
//   them serialised and parsed first), peer appearances / disappearances, purges and
//   recomputations (computeRoutingTable, recomputeCron); the state and the routing table are
//   dumped at checkpoints.  The driver replays the history through the model, compares the state
//   and validates the Go table against the proved checker (it is not predicted: the Dijkstra
//   library may break ties differently).
// C20fwd: the same through a whole Core with mock convergence senders: which sender gets which
//   bundle, and whether the bundle is released.
//
// C20conc: link-state updates of one origin with different timestamps delivered by several
//   goroutines at once (NotifyNewBundle is called from the goroutines of the receiving convergence
//   layers), next to recomputations: afterwards the stored record is the newest one delivered.
//
// Time: computeRoutingTable reads the clock itself.  A case starts at T0; loss times are T0 - a*100s
// for small integers a, so path costs differ by >= 100 s or not at all, while a case runs for
// milliseconds (cases that took longer than 10 s are dropped and counted).  In the output all
// times are shifted so that T0 becomes the constant dtBase: the output is the same in every run.

import (
	"bytes"
	"fmt"
	"sort"
	"sync"

	"github.com/dtn7/dtn7-go/pkg/bpv7"
	"github.com/dtn7/dtn7-go/pkg/cla"
	"github.com/dtn7/dtn7-go/pkg/routing"
)

const (
	dtUnit      = 100000     // ms: granularity of loss times
	dtBase      = 1000000000 // normalised "now"
	dtPurgeStr  = "3050s"    // purge time of the instances: 30.5 units
	dtPurgeMs   = 3050000
	dtBroadcast = "dtn://routing/dtlsr/broadcast/"
)

var dtConf = routing.DTLSRConfig{RecomputeTime: "1h", BroadcastTime: "1h", PurgeTime: dtPurgeStr}

func dtEidStr(i int) string { return fmt.Sprintf("dtn://n%d/", i) }

var dtEidCache = map[int]bpv7.EndpointID{}
var dtBroadcastEid = MustEID(dtBroadcast)

func dtEid(i int) bpv7.EndpointID {
	if e, ok := dtEidCache[i]; ok {
		return e
	}
	e := MustEID(dtEidStr(i))
	dtEidCache[i] = e
	return e
}
func dtNum(e bpv7.EndpointID) int {
	var i int
	s := e.String()
	if n, err := fmt.Sscanf(s, "dtn://n%d/", &i); n == 1 && err == nil && dtEidStr(i) == s {
		return i
	}
	return 9999
}

type dtOp struct {
	kind  string   // notify | appear | disappear | purge | compute | cron
	id    int      // notify: sender of the record; appear/disappear: the peer
	ts    uint64   // notify: record timestamp
	peers [][2]int // notify: (peer, a)  a = 0 live, a > 0 lost a units ago
	a     int      // disappear: lost a units ago
	wire  bool     // notify: serialise and parse the bundle first
	snap  bool     // checkpoint after this op
}

type dtRun struct {
	d      *routing.DTLSR
	t0     uint64
	flagOK bool // real-time stamps written by the code were inside their brackets
}

func (r *dtRun) real(a int) bpv7.DtnTime {
	if a == 0 {
		return 0
	}
	return bpv7.DtnTime(r.t0 - uint64(a)*dtUnit)
}
func (r *dtRun) norm(t bpv7.DtnTime) uint64 {
	if t == 0 {
		return 0
	}
	v := int64(t) - int64(r.t0) + dtBase
	if v < 1 {
		v = 1
	}
	return uint64(v)
}

func dtMock(i int) *MockCLA {
	return &MockCLA{Name: fmt.Sprintf("p%d", i), Peer: dtEid(i), ch: make(chan cla.ConvergenceStatus, 1)}
}

func dtBundle(src int, data bpv7.DTLSRPeerData, seq uint64, prev int) bpv7.Bundle {
	bl := bpv7.Builder().CRC(bpv7.CRC32).Source(dtEid(src)).Destination(dtBroadcastEid).
		CreationTimestampTime(bpv7.DtnTime(uint64(bpv7.DtnTimeNow()) + seq).Time()).Lifetime(600000).
		BundleCtrlFlags(bpv7.MustNotFragmented).PayloadBlock(byte(1)).
		Canonical(bpv7.NewDTLSRBlock(data))
	if prev >= 0 {
		bl = bl.Canonical(bpv7.NewPreviousNodeBlock(dtEid(prev)))
	}
	b, err := bl.Build()
	if err != nil {
		panic(err)
	}
	return b
}

func dtWire(b bpv7.Bundle) bpv7.Bundle {
	var buf bytes.Buffer
	if err := b.WriteBundle(&buf); err != nil {
		panic(err)
	}
	p, err := bpv7.ParseBundle(&buf)
	if err != nil {
		panic(err)
	}
	return p
}

func (r *dtRun) data(op dtOp) bpv7.DTLSRPeerData {
	d := bpv7.DTLSRPeerData{ID: dtEid(op.id), Timestamp: bpv7.DtnTime(op.ts), Peers: map[bpv7.EndpointID]bpv7.DtnTime{}}
	for _, pa := range op.peers {
		d.Peers[dtEid(pa[0])] = r.real(pa[1])
	}
	return d
}

func dtPeersS(r *dtRun, m map[bpv7.EndpointID]bpv7.DtnTime) S {
	type kv struct {
		k int
		v uint64
	}
	var l []kv
	for k, v := range m {
		l = append(l, kv{dtNum(k), r.norm(v)})
	}
	sort.Slice(l, func(i, j int) bool { return l[i].k < l[j].k })
	var out []S
	for _, e := range l {
		out = append(out, L(I(e.k), U(e.v)))
	}
	return LL(out)
}

// snapshot: (own recv index table pc rc consistent)
func dtSnap(r *dtRun, st routing.VerifDtlsrState) S {
	var recv []S
	rs := append([]bpv7.DTLSRPeerData(nil), st.Received...)
	sort.Slice(rs, func(i, j int) bool { return dtNum(rs[i].ID) < dtNum(rs[j].ID) })
	for _, d := range rs {
		recv = append(recv, L(I(dtNum(d.ID)), U(uint64(d.Timestamp)), dtPeersS(r, d.Peers)))
	}
	var idx []S
	cons := st.Length == len(st.IndexNode) && len(st.NodeIndex) == len(st.IndexNode)
	for i, e := range st.IndexNode {
		idx = append(idx, I(dtNum(e)))
		if j, ok := st.NodeIndex[e]; !ok || j != i {
			cons = false
		}
	}
	type dh struct{ d, h int }
	var tl []dh
	for k, v := range st.Table {
		tl = append(tl, dh{dtNum(k), dtNum(v)})
	}
	sort.Slice(tl, func(i, j int) bool { return tl[i].d < tl[j].d })
	var tbl []S
	for _, e := range tl {
		tbl = append(tbl, L(I(e.d), I(e.h)))
	}
	return L(dtPeersS(r, st.Own.Peers), LL(recv), LL(idx), LL(tbl), B(st.PeerChange), B(st.ReceivedChange), B(cons))
}

// runDtCase executes ops on a fresh DTLSR instance and writes one "run" case.
func runDtCase(o *Out, hn *Node, ops []dtOp, label string) {
	r := &dtRun{d: routing.VerifNewDTLSR(hn.Core, dtConf), flagOK: true}
	r.t0 = uint64(bpv7.DtnTimeNow())
	var cps []S
	for k, op := range ops {
		switch op.kind {
		case "notify":
			b := dtBundle(op.id, r.data(op), uint64(k), -1)
			if op.wire {
				b = dtWire(b)
			}
			r.d.VerifNotify(b)
		case "appear":
			tb := bpv7.DtnTimeNow()
			r.d.ReportPeerAppeared(dtMock(op.id))
			ta := bpv7.DtnTimeNow()
			if st := r.d.VerifState(); st.Own.Timestamp < tb || st.Own.Timestamp > ta {
				r.flagOK = false
			}
		case "disappear":
			tb := bpv7.DtnTimeNow()
			r.d.ReportPeerDisappeared(dtMock(op.id))
			ta := bpv7.DtnTimeNow()
			st := r.d.VerifState()
			if t := st.Own.Peers[dtEid(op.id)]; t < tb || t > ta || st.Own.Timestamp != t {
				r.flagOK = false
			}
			// the loss happened op.a units ago
			if !r.d.VerifSetPeerTime(dtEid(op.id), r.real(op.a)) {
				r.flagOK = false
			}
		case "purge":
			r.d.VerifPurge()
		case "compute":
			r.d.VerifCompute()
		case "cron":
			r.d.VerifRecomputeCron()
		}
		if op.snap || k == len(ops)-1 {
			cps = append(cps, L(I(k+1), dtSnap(r, r.d.VerifState())))
		}
	}
	fin := r.d.VerifState()
	if uint64(bpv7.DtnTimeNow())-r.t0 > 10000 {
		o.Case("skipped", Sym("slow"))
		return
	}
	// the peers of a record are a Go map: newNode sees them in map order. Write them in the order
	// of the indices they were given (the oracle the model's list order reproduces).
	rank := func(p int) int {
		if i, ok := fin.NodeIndex[dtEid(p)]; ok {
			return i
		}
		return 100000 + p
	}
	var sops []S
	for _, op := range ops {
		switch op.kind {
		case "notify":
			ps := append([][2]int(nil), op.peers...)
			sort.SliceStable(ps, func(i, j int) bool { return rank(ps[i][0]) < rank(ps[j][0]) })
			var pl []S
			for _, pa := range ps {
				pl = append(pl, L(I(pa[0]), U(r.norm(r.real(pa[1])))))
			}
			sops = append(sops, L(Sym("notify"), I(op.id), U(op.ts), LL(pl)))
		case "appear":
			sops = append(sops, L(Sym("appear"), I(op.id)))
		case "disappear":
			sops = append(sops, L(Sym("disappear"), I(op.id), U(r.norm(r.real(op.a)))))
		case "purge":
			sops = append(sops, L(Sym("purge"), U(dtPurgeMs)))
		default:
			sops = append(sops, L(Sym(op.kind)))
		}
	}
	o.Case("run", Sym(label), U(dtBase), LL(sops), LL(cps), B(r.flagOK))
}

// graph given as state per arc: 0 absent, 1 live, k>1 lost (k-1) units ago
func dtGraphOps(n int, arc func(u, v int) int, emptyRec func(u int) bool, wire bool, r *Rng) []dtOp {
	var ops []dtOp
	for v := 1; v < n; v++ {
		s := arc(0, v)
		if s == 0 {
			continue
		}
		ops = append(ops, dtOp{kind: "appear", id: v})
		if s > 1 {
			ops = append(ops, dtOp{kind: "disappear", id: v, a: s - 1})
		}
	}
	var recs []dtOp
	for u := 1; u < n; u++ {
		var ps [][2]int
		for v := 0; v < n; v++ {
			if v == u {
				continue
			}
			if s := arc(u, v); s > 0 {
				ps = append(ps, [2]int{v, s - 1})
			}
		}
		if len(ps) > 0 || emptyRec(u) {
			recs = append(recs, dtOp{kind: "notify", id: u, ts: uint64(1000 + u), peers: ps, wire: wire})
		}
	}
	if r != nil {
		for i := len(recs) - 1; i > 0; i-- {
			j := r.Intn(i + 1)
			recs[i], recs[j] = recs[j], recs[i]
		}
		// own events and records interleave
		var mix []dtOp
		i, j := 0, 0
		for i < len(ops) || j < len(recs) {
			if j >= len(recs) || (i < len(ops) && r.Bool()) {
				mix = append(mix, ops[i])
				i++
			} else {
				mix = append(mix, recs[j])
				j++
			}
		}
		ops = mix
	} else {
		ops = append(ops, recs...)
	}
	ops = append(ops, dtOp{kind: "compute"})
	return ops
}

func genC20dtlsr(o *Out, r *Rng, thorough bool) {
	hn := NewNode(dtEidStr(0), routing.RoutingConf{Algorithm: "dtlsr", DTLSRConf: dtConf})
	defer hn.Destroy()

	// ---- ShouldReplace on pairs of timestamps (boundaries) ----
	tss := []uint64{0, 1, 2, 1000, 1001, 1 << 31, 1<<32 - 1, 1 << 32, 1<<63 - 1, 1 << 63, 1<<64 - 2, 1<<64 - 1}
	for _, a := range tss {
		for _, b := range tss {
			x := bpv7.DTLSRPeerData{Timestamp: bpv7.DtnTime(a)}
			y := bpv7.DTLSRPeerData{Timestamp: bpv7.DtnTime(b)}
			o.Case("sr", U(a), U(b), B(x.ShouldReplace(y)))
		}
	}

	// ---- all arrival orders of <= 4 updates from one node, timestamps from {10,11,12} ----
	for k := 1; k <= 4; k++ {
		tot := 1
		for i := 0; i < k; i++ {
			tot *= 3
		}
		for c := 0; c < tot; c++ {
			var ops []dtOp
			x := c
			for i := 0; i < k; i++ {
				ts := uint64(10 + x%3)
				x /= 3
				// record i is recognisable by its peer list
				ops = append(ops, dtOp{kind: "notify", id: 5, ts: ts, peers: [][2]int{{10 + i, 0}}, snap: true, wire: c%2 == 0})
			}
			// another node's update in between must not disturb
			if k >= 2 && c%4 == 1 {
				ops = append(ops[:1], append([]dtOp{{kind: "notify", id: 6, ts: 99, peers: [][2]int{{5, 0}}, snap: true}}, ops[1:]...)...)
			}
			runDtCase(o, hn, ops, "replace")
		}
	}

	// ---- exhaustive small graphs ----
	// 3 nodes: all 6 arcs x {absent, live, lost 1 unit ago, lost 2 units ago}
	g3k := r.Intn(3)
	for c := 0; c < 4096; c++ {
		if !thorough && c%3 != g3k && c%7 != 0 {
			continue
		}
		arcs := [][2]int{{0, 1}, {0, 2}, {1, 2}, {2, 1}, {1, 0}, {2, 0}}
		st := map[[2]int]int{}
		x := c
		for _, a := range arcs {
			st[a] = x % 4
			x /= 4
		}
		ops := dtGraphOps(3, func(u, v int) int { return st[[2]int{u, v}] }, func(u int) bool { return c%5 == 0 }, false, nil)
		runDtCase(o, hn, ops, "g3")
	}
	// 4 nodes: all 9 arcs not entering node 0 x 4 states (arcs into 0 cannot lie on a loop-free
	// path from 0; they are set at random)
	{
		arcs := [][2]int{{0, 1}, {0, 2}, {0, 3}, {1, 2}, {1, 3}, {2, 1}, {2, 3}, {3, 1}, {3, 2}}
		total := 1 << 18
		step := 1
		if !thorough {
			step = 97
		}
		for c := int(r.U64() % uint64(step)); c < total; c += step {
			st := map[[2]int]int{}
			x := c
			for _, a := range arcs {
				st[a] = x % 4
				x /= 4
			}
			for u := 1; u < 4; u++ {
				st[[2]int{u, 0}] = r.Intn(3)
			}
			ops := dtGraphOps(4, func(u, v int) int { return st[[2]int{u, v}] }, func(u int) bool { return false }, false, nil)
			runDtCase(o, hn, ops, "g4")
		}
	}

	// ---- random graphs on up to 8 nodes, random loss times (ties likely), shuffled arrival ----
	ng := 1200
	if thorough {
		ng = 20000
	}
	for c := 0; c < ng; c++ {
		n := 2 + r.Intn(7)
		dens := 1 + r.Intn(4)
		span := 1 + r.Intn(6)
		st := map[[2]int]int{}
		for u := 0; u < n; u++ {
			for v := 0; v < n; v++ {
				if u != v && r.Intn(5) < dens {
					if r.Intn(3) == 0 {
						st[[2]int{u, v}] = 1
					} else {
						st[[2]int{u, v}] = 2 + r.Intn(span)
					}
				}
			}
		}
		ops := dtGraphOps(n, func(u, v int) int { return st[[2]int{u, v}] }, func(u int) bool { return r.Intn(3) == 0 }, c%2 == 0, r)
		runDtCase(o, hn, ops, "grand")
	}

	// ---- neighbours that come back: lost and re-appeared before / after the purge time ----
	{
		rec := func(id int, ts uint64, ps ...[2]int) dtOp {
			return dtOp{kind: "notify", id: id, ts: ts, peers: ps, snap: true}
		}
		ap := func(p int) dtOp { return dtOp{kind: "appear", id: p, snap: true} }
		dis := func(p, a int) dtOp { return dtOp{kind: "disappear", id: p, a: a, snap: true} }
		purge, compute, cron := dtOp{kind: "purge", snap: true}, dtOp{kind: "compute", snap: true}, dtOp{kind: "cron", snap: true}
		for _, a := range []int{1, 3, 29, 30, 31, 45} {
			for _, b := range []int{0, 1, 2, 40} {
				// 1 is lost a units ago and comes back; 2 is live (b = 0), lost more recently or lost long ago; both lead to 5
				ops := []dtOp{ap(1), dis(1, a), ap(1), ap(2)}
				if b > 0 {
					ops = append(ops, dis(2, b))
				}
				ops = append(ops, rec(1, 50, [2]int{5, 0}), rec(2, 50, [2]int{5, 0}, [2]int{6, 1}), compute, purge, compute, cron)
				runDtCase(o, hn, ops, "reappear")
				// the purge runs while 1 is away, then it comes back
				ops = []dtOp{ap(1), ap(2), dis(1, a), purge, compute, ap(1), rec(1, 50, [2]int{5, 0}), cron, purge, compute}
				if b > 0 {
					ops = append(ops, dis(2, b), compute, ap(2), purge, compute)
				}
				runDtCase(o, hn, ops, "reappear")
			}
		}
		nre := 150
		if thorough {
			nre = 3000
		}
		for c := 0; c < nre; c++ {
			n := 3 + r.Intn(4)
			var ops []dtOp
			for u := 1; u < n; u++ {
				var ps [][2]int
				for v := 1; v <= n; v++ {
					if v != u && r.Intn(2) == 0 {
						ps = append(ps, [2]int{v, []int{0, 0, 1, 2, 35}[r.Intn(5)]})
					}
				}
				ops = append(ops, dtOp{kind: "notify", id: u, ts: uint64(10 + u), peers: ps})
			}
			for i, k := 0, 4+r.Intn(12); i < k; i++ {
				p := 1 + r.Intn(2+r.Intn(n-2))
				switch x := r.Intn(10); {
				case x < 4:
					ops = append(ops, ap(p))
				case x < 7:
					ops = append(ops, dis(p, []int{1, 2, 3, 29, 31, 40}[r.Intn(6)]))
				case x < 8:
					ops = append(ops, purge)
				case x < 9:
					ops = append(ops, compute)
				default:
					ops = append(ops, cron)
				}
			}
			ops = append(ops, purge, compute)
			runDtCase(o, hn, ops, "reappear")
		}
	}

	// ---- random histories: everything interleaved, checkpoints after every op ----
	nh := 600
	if thorough {
		nh = 8000
	}
	for c := 0; c < nh; c++ {
		n := 3 + r.Intn(5)
		var ops []dtOp
		nops := 3 + r.Intn(14)
		tsCtr := map[int]uint64{}
		for i := 0; i < nops; i++ {
			switch x := r.Intn(20); {
			case x < 7:
				id := 1 + r.Intn(n-1)
				if r.Intn(25) == 0 {
					id = 0 // a record claiming our own ID
				}
				// timestamps: newer, equal or older than before
				ts := tsCtr[id]
				switch r.Intn(4) {
				case 0, 1:
					ts = ts + 1 + uint64(r.Intn(3))
				case 2: // equal
				default:
					if ts > 0 {
						ts--
					}
				}
				if ts > tsCtr[id] {
					tsCtr[id] = ts
				}
				var ps [][2]int
				for v := 0; v < n; v++ {
					if v != id && r.Intn(3) == 0 {
						a := 0
						if r.Intn(2) == 0 {
							a = 1 + r.Intn(5)
						}
						ps = append(ps, [2]int{v, a})
					}
				}
				ops = append(ops, dtOp{kind: "notify", id: id, ts: 100 + ts, peers: ps, wire: r.Intn(3) == 0, snap: true})
			case x < 10:
				ops = append(ops, dtOp{kind: "appear", id: 1 + r.Intn(n-1), snap: true})
			case x < 13:
				a := 1 + r.Intn(6)
				if r.Intn(4) == 0 {
					a = 31 + r.Intn(20) // old enough to be purged
				}
				// mostly peers that appeared; sometimes one that never did (no index: quirk)
				ops = append(ops, dtOp{kind: "disappear", id: 1 + r.Intn(n-1), a: a, snap: true})
			case x < 14:
				ops = append(ops, dtOp{kind: "purge", snap: true})
			case x < 17:
				ops = append(ops, dtOp{kind: "compute", snap: true})
			default:
				ops = append(ops, dtOp{kind: "cron", snap: true})
			}
		}
		ops = append(ops, dtOp{kind: "cron", snap: true}, dtOp{kind: "cron", snap: true}, dtOp{kind: "compute", snap: true})
		runDtCase(o, hn, ops, "hist")
	}
}

// ---------------------------------------------------------------------------------------------
// C20fwd: forwarding through a whole Core

// the sends of one forwarding step happen in parallel goroutines: their order means nothing
func dtSendsS(recs []SendRec) S {
	type po struct {
		p  int
		ok bool
	}
	var ps []po
	for _, s := range recs {
		var p int
		fmt.Sscanf(s.Peer, "p%d", &p)
		ps = append(ps, po{p, s.OK})
	}
	sort.SliceStable(ps, func(i, j int) bool { return ps[i].p < ps[j].p })
	var l []S
	for _, e := range ps {
		l = append(l, L(I(e.p), B(e.ok)))
	}
	return LL(l)
}

func dtTableS(st routing.VerifDtlsrState) S {
	type dh struct{ d, h int }
	var tl []dh
	for k, v := range st.Table {
		tl = append(tl, dh{dtNum(k), dtNum(v)})
	}
	sort.Slice(tl, func(i, j int) bool { return tl[i].d < tl[j].d })
	var tbl []S
	for _, e := range tl {
		tbl = append(tbl, L(I(e.d), I(e.h)))
	}
	return LL(tbl)
}

func dtPeerList(n *Node) S {
	var ps []int
	for _, m := range n.Peers {
		ps = append(ps, dtNum(m.Peer))
	}
	sort.Ints(ps)
	var l []S
	for _, p := range ps {
		l = append(l, I(p))
	}
	return LL(l)
}

func dtPendingHas(n *Node, id string) bool {
	for _, s := range n.Pending() {
		if s.ID == id {
			return true
		}
	}
	return false
}

func genC20fwd(o *Out, r *Rng, thorough bool) {
	nc := 14
	if thorough {
		nc = 150
	}
	for c := 0; c < nc; c++ {
		n := NewNode(dtEidStr(0), routing.RoutingConf{Algorithm: "dtlsr", DTLSRConf: dtConf})
		d := n.Core.VerifDTLSR()
		t0 := uint64(bpv7.DtnTimeNow())
		run := &dtRun{d: d, t0: t0, flagOK: true}
		N := 4 + r.Intn(5) // nodes 0..N-1
		np := 1 + r.Intn(3)
		if np > N-2 {
			np = N - 2
		}
		// peers 1..np connected
		for p := 1; p <= np; p++ {
			n.PeerUp(fmt.Sprintf("p%d", p), dtEidStr(p))
		}
		var events []S
		seq := uint64(0)
		// link-state bundles of the other nodes arrive from a neighbour (previous node block)
		for u := 1; u < N; u++ {
			if r.Intn(5) == 0 {
				continue
			}
			var ps [][2]int
			for v := 0; v < N; v++ {
				if v != u && r.Intn(3) == 0 {
					a := 0
					if r.Intn(3) == 0 {
						a = 1 + r.Intn(4)
					}
					ps = append(ps, [2]int{v, a})
				}
			}
			prev := 1 + r.Intn(np)
			op := dtOp{kind: "notify", id: u, ts: uint64(500 + u), peers: ps}
			seq++
			b := dtWire(dtBundle(u, run.data(op), seq, prev))
			before := n.LastSendN()
			n.Receive(b, dtEidStr(prev))
			sends := n.SendsSince(before)
			events = append(events, L(Sym("bcast"), I(u), I(prev), dtPeerList(n), dtSendsS(sends), B(dtPendingHas(n, b.ID().String()))))
			// a peer that comes up later gets the pending broadcast bundle exactly once
			if r.Intn(4) == 0 && len(n.Peers) < N-1 {
				q := len(n.Peers) + 1
				before = n.LastSendN()
				n.PeerUp(fmt.Sprintf("p%d", q), dtEidStr(q))
				n.TickPending()
				sends = n.SendsSince(before)
				var mine []SendRec
				for _, s := range sends {
					if s.ID == b.ID().String() {
						mine = append(mine, s)
					}
				}
				events = append(events, L(Sym("bcast-again"), I(u), I(prev), dtPeerList(n), dtSendsS(mine)))
			}
		}
		// a peer is lost some units ago
		if len(n.Peers) >= 2 && r.Bool() {
			q := 1 + r.Intn(len(n.Peers))
			n.PeerDown(fmt.Sprintf("p%d", q))
			d.VerifSetPeerTime(dtEid(q), run.real(1+r.Intn(3)))
			events = append(events, L(Sym("down"), I(q)))
			if r.Bool() {
				// ... and comes back before the table is computed
				n.PeerUp(fmt.Sprintf("p%d", q), dtEidStr(q))
				events = append(events, L(Sym("up-again"), I(q)))
			}
		}
		d.VerifRecomputeCron()
		st := d.VerifState()
		snap := dtSnap(run, st)
		events = append(events, L(Sym("conn"), dtPeerList(n)))
		events = append(events, L(Sym("table"), snap))
		// unicast bundles: to every node (bare node ID), to a service endpoint, to an unknown node
		for v := 1; v <= N; v++ {
			for _, svc := range []string{"", "app"} {
				if svc != "" && r.Intn(3) != 0 {
					continue
				}
				dst := dtEidStr(v) + svc
				seq++
				b := MkBundle(BOpt{Src: "dtn://n0/x", Dst: dst, TS: uint64(bpv7.DtnTimeNow()) + seq, Life: 600000, Payload: []byte("u"), CRC: bpv7.CRC32})
				before := n.LastSendN()
				if r.Bool() {
					n.Submit(b)
				} else {
					n.Receive(b, dtEidStr(1))
				}
				sends := n.SendsSince(before)
				pend := dtPendingHas(n, b.ID().String())
				events = append(events, L(Sym("uni"), I(v), B(svc == ""), dtPeerList(n), dtSendsS(sends), B(pend)))
			}
		}
		// our own broadcast: to every connected peer, block = own link state
		{
			before := n.LastSendN()
			n.PeerUp("p90", dtEidStr(90)) // makes peerChange true; checkPending may resend older broadcasts to p90
			mid := n.LastSendN()
			_ = before
			d.VerifBroadcastCron()
			sends := n.SendsSince(mid)
			var own []SendRec
			blockOK := true
			for _, s := range sends {
				if s.Bndl.PrimaryBlock.SourceNode == n.ID && s.Bndl.PrimaryBlock.Destination.String() == dtBroadcast {
					own = append(own, s)
					if cb, err := s.Bndl.ExtensionBlock(bpv7.ExtBlockTypeDTLSRBlock); err != nil {
						blockOK = false
					} else {
						pd := cb.Value.(*bpv7.DTLSRBlock).GetPeerData()
						cur := d.VerifState().Own
						if pd.ID != n.ID || len(pd.Peers) != len(cur.Peers) {
							blockOK = false
						}
						for k, v := range cur.Peers {
							if w, ok := pd.Peers[k]; !ok || w != v {
								blockOK = false
							}
						}
					}
				}
			}
			events = append(events, L(Sym("own-bcast"), dtPeerList(n), dtSendsS(own), B(blockOK)))
			// the own broadcast went through NotifyNewBundle: a record with the own ID is stored now. Its
			// peer map is the live own peer map, so a later change of the own links shows in it as well.
			n.PeerDown("p90")
			d.VerifSetPeerTime(dtEid(90), run.real(2))
			d.VerifRecomputeCron()
			events = append(events, L(Sym("conn"), dtPeerList(n)))
			events = append(events, L(Sym("table-own"), dtSnap(run, d.VerifState())))
		}
		slow := uint64(bpv7.DtnTimeNow())-t0 > 10000
		n.Destroy()
		if slow {
			o.Case("skipped", Sym("slow"))
			continue
		}
		o.Case("fwd", U(dtBase), LL(events))
	}
}

// ---------------------------------------------------------------------------------------------
// C20conc: concurrent delivery of link-state updates of one origin

// one round: `k` updates of origin `id` with the distinct timestamps base+1 .. base+k (each
// recognisable by its peer list) are handed to NotifyNewBundle by k goroutines released together;
// `known` = a record with timestamp base was stored before.
func dtConcRound(d *routing.DTLSR, run *dtRun, r *Rng, id int, base uint64, k int, known bool, wire bool) (delivered []S, stored S) {
	var bs []bpv7.Bundle
	if known {
		op := dtOp{id: id, ts: base, peers: [][2]int{{900, 0}}}
		d.VerifNotify(dtBundle(id, run.data(op), 0, -1))
	}
	perm := make([]int, k)
	for i := range perm {
		perm[i] = i
	}
	for i := k - 1; i > 0; i-- {
		j := r.Intn(i + 1)
		perm[i], perm[j] = perm[j], perm[i]
	}
	for _, i := range perm {
		op := dtOp{id: id, ts: base + 1 + uint64(i), peers: [][2]int{{901 + i, 0}, {800, 1 + i%3}}}
		b := dtBundle(id, run.data(op), uint64(1+i), -1)
		if wire {
			b = dtWire(b)
		}
		bs = append(bs, b)
		delivered = append(delivered, L(U(op.ts), I(901+i)))
	}
	var wg sync.WaitGroup
	gate := make(chan struct{})
	for i := range bs {
		wg.Add(1)
		go func(b bpv7.Bundle) { defer wg.Done(); <-gate; d.VerifNotify(b) }(bs[i])
	}
	close(gate)
	wg.Wait()
	stored = L()
	for _, rec := range d.VerifState().Received {
		if rec.ID == dtEid(id) {
			mark := 0
			for p := range rec.Peers {
				if n := dtNum(p); n >= 900 && n < 1000 {
					mark = n
				}
			}
			stored = L(U(uint64(rec.Timestamp)), I(mark), I(len(rec.Peers)))
		}
	}
	return
}

func genC20conc(o *Out, r *Rng, thorough bool) {
	hn := NewNode(dtEidStr(0), routing.RoutingConf{Algorithm: "dtlsr", DTLSRConf: dtConf})
	defer hn.Destroy()
	// (with a check-then-act split of NotifyNewBundle about half of the rounds end with an older record:
	// the goroutines are released together, so their look-ups precede the first store)
	batches, per := 12, 50
	if thorough {
		batches = 300
	}
	for bno := 0; bno < batches; bno++ {
		d := routing.VerifNewDTLSR(hn.Core, dtConf)
		run := &dtRun{d: d, t0: uint64(bpv7.DtnTimeNow()), flagOK: true}
		d.ReportPeerAppeared(dtMock(1))
		// the recompute cron job and a reader run next to the deliveries
		stop := make(chan struct{})
		var bg sync.WaitGroup
		bg.Add(1)
		go func() {
			defer bg.Done()
			for {
				select {
				case <-stop:
					return
				default:
					d.VerifRecomputeCron()
					_ = d.VerifState()
				}
			}
		}()
		var rounds []S
		for i := 0; i < per; i++ {
			id := 100 + i
			known := r.Intn(3) != 0
			k := 2 + r.Intn(7)
			if r.Intn(4) == 0 {
				id = 100 + r.Intn(i+1) // an origin of an earlier round again: newer timestamps
				known = true
			}
			base := uint64(1000 * (i + 1))
			del, st := dtConcRound(d, run, r, id, base, k, known, r.Intn(4) == 0)
			rounds = append(rounds, L(I(id), B(known), U(base), LL(del), st))
		}
		close(stop)
		bg.Wait()
		o.Case("conc", LL(rounds))
	}
}

func init() {
	register("C20dtlsr", genC20dtlsr)
	register("C20fwd", genC20fwd)
	register("C20conc", genC20conc)
}
