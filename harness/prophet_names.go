package main

// C19names - the forwarding gate of PRoPHET on a real Core (case formats "gate" and "coreseq" of
// prophet.go) with node names that nearly collide between the bundle's destination, the connected peers
// and the peers in the predictability maps: names that differ only in letter case (dtn://relay7/ vs
// dtn://Relay7/), names that are prefixes of each other (dtn://m1/ vs dtn://m10/, dtn://a/ vs dtn://a.b/),
// the same number under the other URI scheme (ipn:5.1 vs dtn://5/).  Node identity is the exact node
// endpoint ID (the index in model and checker): a peer that is not the destination node itself gets a
// data bundle only through the gate (advertised predictability strictly greater than the node's own).

import (
	"sort"

	"github.com/dtn7/dtn7-go/pkg/bpv7"
	"github.com/dtn7/dtn7-go/pkg/routing"
)

const pfNamings = 4

var pfNameTab = [pfNamings][9]string{
	{},
	{"", "dtn://relay7/", "dtn://Relay7/", "dtn://RELAY7/", "dtn://a/", "dtn://A/", "dtn://m6/", "dtn://M6/", "dtn://relaY7/"},
	{"", "dtn://5/", "ipn:5.1", "dtn://m1/", "dtn://m10/", "dtn://a/", "dtn://a.b/", "ipn:51.1", "dtn://51/"},
	{"", "dtn://Relay7/", "dtn://relay7/", "ipn:7.1", "dtn://7/", "dtn://relay/", "dtn://relay77/", "dtn://RELAY7/", "dtn://7.1/"},
}

// pfGateNames: a set of connected peers, vectors from connected and unconnected peers, own predictabilities
// from the boundary values; one data bundle per destination 1..8 (connected: direct delivery; not
// connected: only through the gate, whatever its twins are)
func pfGateNames(o *Out, r *Rng, k0 int) int {
	vals := []float64{0, 0.25, 0.5, 0.75, 1}
	conf := routing.ProphetConfig{PInit: 0.75, Beta: 0.25, Gamma: 0.98, AgeInterval: "100000h"}
	n, p := pfCoreNode(conf)
	defer n.Destroy()
	var conn []int
	isConn := map[int]bool{}
	for i := 1; i <= 8; i++ {
		if r.Intn(2) == 0 {
			conn = append(conn, i)
			isConn[i] = true
		}
	}
	// vectors (real NotifyNewBundle path)
	for i := 1; i <= 8; i++ {
		if !isConn[i] && r.Intn(3) != 0 {
			continue
		}
		if isConn[i] && r.Intn(5) == 0 {
			continue // a connected peer that advertised nothing
		}
		vec := map[bpv7.EndpointID]float64{}
		for d := 1; d <= 8; d++ {
			if d != i && r.Intn(4) != 0 {
				vec[pfEID(d)] = vals[r.Intn(len(vals))]
			}
		}
		n.Receive(pfMetaBundle(i, 0, vec), pfNode(i))
	}
	for d := 1; d <= 8; d++ {
		if r.Intn(4) != 0 {
			p.VerifSetPred(pfEID(d), vals[r.Intn(len(vals))])
		}
	}
	for _, i := range conn {
		n.PeerUp(pfPeerName(i), pfNode(i))
	}
	own := p.VerifPreds()
	peers := p.VerifPeerPreds()
	var css []S
	for _, i := range conn {
		css = append(css, I(i))
	}
	for d := 1; d <= 8; d++ {
		k := k0
		k0++
		before := n.LastSendN()
		n.Submit(pfDataBundle(d, k))
		_, data := pfSends(n, before)
		e := pfEID(d)
		var ownS []S
		if v, ok := own[e]; ok {
			ownS = append(ownS, L(I(d), fb(v)))
		}
		var peersS []S
		for i := 1; i <= 8; i++ {
			if vec, ok := peers[pfEID(i)]; ok {
				var es []S
				if v, ok2 := vec[e]; ok2 {
					es = append(es, L(I(d), fb(v)))
				}
				peersS = append(peersS, L(I(i), LL(es)))
			}
		}
		sort.Slice(data, func(i, j int) bool { return SString(data[i]) < SString(data[j]) })
		o.Case("gate", I(d), I(k), LL(ownS), LL(peersS), LL(css), LL(data))
	}
	return k0
}

func genC19names(o *Out, r *Rng, thorough bool) {
	defer func() { pfNaming = 0 }()
	rounds, nseq, steps := 6, 2, 50
	if thorough {
		rounds, nseq, steps = 60, 20, 120
	}
	k := 0
	for naming := 1; naming < pfNamings; naming++ {
		pfNaming = naming
		for i := 0; i < rounds; i++ {
			k = pfGateNames(o, r, k)
		}
		for i := 0; i < nseq; i++ {
			pfCoreSeq(o, r, steps, 4+r.Intn(3))
		}
	}
}

func init() { register("C19names", genC19names) }
