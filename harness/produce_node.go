package main

// C02node: second sentence of C02 for the running node - every bundle a running Core hands to a
// convergence layer must be accepted by the parser (and by the model decoder) AT THE TIME IT IS SENT,
//   (a) under every node configuration: each routing algorithm x signing key on/off x
//       inspectAllBundles on/off (received, forwarded, locally delivered, locally submitted and relayed
//       administrative bundles; status reports of every kind incl. those that wait for their peer;
//       pongs; routing metadata), and
//   (b) after dwell times: bundles that rest in the store (no peer / refusing peer) while their age
//       approaches, reaches or passes the lifetime (clock-less and clocked ones; residence chosen by
//       moving the stored reception timestamp back through the hook VerifSetReceptionTime, or real
//       sleeps), creation-time lifetimes that end while the bundle is stored, hop counts at / one
//       below their limit across refused attempts, bundles submitted by a local clock-less application.
// The bytes serialised inside ConvergenceSender.Send are parsed INSIDE Send (MockCLA.Block), so the
// verdict is the one a receiving node would reach at that instant.  A bundle with a creation time
// whose lifetime ends within the ten seconds after the send is not judged (clock band); the
// scenarios keep such instants away from every sending opportunity.
//
// case: (produced now bytes obs origin recipe) - judged by D_bundle.produced_case (d_prodnode.ml)

import (
	"crypto/ed25519"
	"fmt"
	"os"
	"sort"
	"strings"
	"sync"
	"time"

	"github.com/dtn7/dtn7-go/pkg/agent"
	"github.com/dtn7/dtn7-go/pkg/bpv7"
	"github.com/dtn7/dtn7-go/pkg/cla"
)

const pnNodeID = "dtn://n0/"

type pnObs struct {
	now uint64
	obs S
}

// pnNode: a Node whose mock senders parse what they are handed inside Send.
type pnNode struct {
	n    *Node
	p    *prodOut
	mu   sync.Mutex
	obs  map[int]pnObs
	seen int
	cfg  string
}

func (pn *pnNode) block(rec *SendRec) {
	if rec.Raw == nil {
		return
	}
	now := dtnNowMs()
	obs, _, _ := parseObs(rec.Raw)
	pn.mu.Lock()
	pn.obs[rec.N] = pnObs{now, obs}
	pn.mu.Unlock()
}

func (pn *pnNode) peerUp(name, peer string, fail func(rec *SendRec) bool) *MockCLA {
	n := pn.n
	m := &MockCLA{Name: name, Peer: MustEID(peer), node: n, ch: make(chan cla.ConvergenceStatus, 16), Fail: fail, Block: pn.block}
	n.Peers[name] = m
	n.Event++
	n.Core.RegisterConvergable(m)
	n.Core.VerifPeerAppeared(m)
	return m
}

// class of a transmitted bundle (part of the finding key)
func (pn *pnNode) class(b *bpv7.Bundle) string {
	own := pn.n.Core.HasEndpoint(b.PrimaryBlock.SourceNode) || b.PrimaryBlock.SourceNode == pn.n.ID
	switch {
	case b.IsAdministrativeRecord() && own:
		return "own-report"
	case b.IsAdministrativeRecord():
		return "relayed-report"
	case own:
		return "own"
	}
	return "forwarded"
}

func (pn *pnNode) flush(stream, what string) {
	for _, s := range pn.n.SendsSince(pn.seen) {
		pn.seen = s.N
		origin := stream + "." + pn.class(&s.Bndl)
		if s.Raw == nil {
			pn.p.counts[origin]++
			pn.p.o.Case("produced", U(dtnNowMs()), X(nil), L(Sym("unserialisable"), Str("WriteBundle failed inside Send")), Sym(origin), Str(pn.cfg+"; "+what))
			continue
		}
		pn.mu.Lock()
		ob, ok := pn.obs[s.N]
		delete(pn.obs, s.N)
		pn.mu.Unlock()
		if !ok {
			continue // sent through a sender without the hook (none is created here)
		}
		if ts := uint64(s.Bndl.PrimaryBlock.CreationTimestamp.DtnTime()); ts != 0 {
			exp := ts + s.Bndl.PrimaryBlock.Lifetime
			if exp >= ts && exp >= ob.now && exp-ob.now < 10000 {
				pn.p.counts["skipped.near-expiry"]++
				continue
			}
		}
		pn.p.counts[origin]++
		pn.p.o.Case("produced", U(ob.now), X(s.Raw), ob.obs, Sym(origin),
			Str(fmt.Sprintf("%s; %s; sent to %s as %s", pn.cfg, what, s.Peer, s.ID)))
	}
}

// everything pending is removed, so that the next case starts on an empty store
func (pn *pnNode) sweep() {
	st := pn.n.Core.VerifStore()
	if bis, err := st.QueryPending(); err == nil {
		for _, bi := range bis {
			_ = st.Delete(bi.BId)
		}
	}
}

// dwell: every stored bundle has been here for ms milliseconds
func (pn *pnNode) dwell(ms uint64) int {
	st := pn.n.Core.VerifStore()
	k := 0
	if bis, err := st.QueryPending(); err == nil {
		stamp := time.Now().Add(-time.Duration(ms) * time.Millisecond)
		for _, bi := range bis {
			if pn.n.Core.VerifSetReceptionTime(bi.BId, stamp) == nil {
				k++
			}
		}
	}
	return k
}

func pnNewNode(p *prodOut, r *Rng, alg string, sign, inspect bool) *pnNode {
	var n *Node
	if sign {
		n = NewNodeSigned(pnNodeID, fwConf(alg), ed25519.NewKeyFromSeed(r.Bytes(ed25519.SeedSize)))
	} else {
		n = NewNode(pnNodeID, fwConf(alg))
	}
	n.Core.InspectAllBundles = inspect
	return &pnNode{n: n, p: p, obs: map[int]pnObs{}, cfg: fmt.Sprintf("alg=%s signing-key=%v inspect-all=%v", alg, sign, inspect)}
}

// asWire: the bundle as a convergence layer delivers it (serialised and parsed)
func pnAsWire(b *bpv7.Bundle) (bpv7.Bundle, bool) {
	if b.CheckValid() != nil {
		return bpv7.Bundle{}, false
	}
	bs, err := safeEncode(b)
	if err != nil {
		return bpv7.Bundle{}, false
	}
	rb, err := bpv7.ParseBundle(strings.NewReader(string(bs)))
	if err != nil {
		return bpv7.Bundle{}, false
	}
	return rb, true
}

var pnRequests = []bpv7.BundleControlFlags{bpv7.StatusRequestReception, bpv7.StatusRequestForward, bpv7.StatusRequestDelivery, bpv7.StatusRequestDeletion}

// a status report of another node, optionally signed with that node's key
func pnForeignReport(r *Rng, dst string) (bpv7.Bundle, bool) {
	bl := bpv7.Builder().CRC(bpv7.CRCType(r.Intn(3))).Source("dtn://other/").Destination(dst).CreationTimestampNow().Lifetime("30m").
		BundleCtrlFlags(bpv7.AdministrativeRecordPayload).PayloadBlock(fwStatusReportPayload(r))
	if r.Bool() {
		bl = bl.HopCountBlock(8 + r.Intn(8))
	}
	b, err := bl.Build()
	if err != nil {
		return b, false
	}
	if r.Bool() {
		if sb, err := bpv7.NewSignatureBlock(b, ed25519.NewKeyFromSeed(r.Bytes(ed25519.SeedSize))); err == nil {
			cb := bpv7.NewCanonicalBlock(0, bpv7.ReplicateBlock|bpv7.DeleteBundle, sb)
			cb.SetCRCType(bpv7.CRC32)
			b.AddExtensionBlock(cb)
		}
	}
	return pnAsWire(&b)
}

// ---- (a) configurations ----
func pnConfig(p *prodOut, r *Rng, alg string, sign, inspect bool, rounds int) {
	pn := pnNewNode(p, r, alg, sign, inspect)
	n := pn.n
	defer n.Destroy()
	const stream = "nodecfg"
	ping := agent.NewPing(MustEID("dtn://n0/ping"))
	n.Core.RegisterApplicationAgent(ping)
	n.AddAgent("app", "dtn://n0/app")
	pn.peerUp("p1", "dtn://n1/", nil)
	pn.peerUp("p2", "dtn://n2/", nil)
	pn.peerUp("rs", "dtn://rpt/", nil)
	pn.flush(stream, "peers up")
	switch alg {
	case "dtlsr":
		n.Core.VerifDTLSR().VerifBroadcastCron()
		pn.flush(stream, "dtlsr broadcast")
	case "prophet":
		n.Core.VerifProphet().VerifSendMetadata(MustEID("dtn://n1/"))
		pn.flush(stream, "prophet metadata")
	}
	for i := 0; i < rounds; i++ {
		what := ""
		waitSend := false
		before := n.LastSendN()
		switch k := r.Intn(8); {
		case k == 0: // a bundle of a local application
			var fl bpv7.BundleControlFlags
			for _, f := range pnRequests {
				if r.Bool() {
					fl |= f
				}
			}
			b := MkBundle(BOpt{Src: "dtn://n0/app", Dst: []string{"dtn://n2/x", "dtn://far/x", "dtn://n0/app"}[r.Intn(3)],
				ReportTo: []string{"dtn://n0/app", "dtn://rpt/in", "dtn://late/in"}[r.Intn(3)], TS: NowTS, Life: 3600000, Flags: fl,
				Payload: r.Bytes(r.Intn(40)), CRC: bpv7.CRCType(r.Intn(3))})
			what = fmt.Sprintf("local application submits a bundle to %s flags %#x report-to %s", b.PrimaryBlock.Destination, uint64(fl), b.PrimaryBlock.ReportTo)
			n.Submit(b)
		case k == 1: // a status report of another node passes through / is addressed to this node
			dst := []string{"dtn://n2/x", "dtn://far/x", "dtn://n0/app", "dtn://late/in"}[r.Intn(4)]
			b, ok := pnForeignReport(r, dst)
			if !ok {
				continue
			}
			what = fmt.Sprintf("received status report %s of another node for %s blocks [%s] at the endpoint of this node", b.ID(), dst, prodOrder(&b))
			n.Receive(b, pnNodeID)
		default:
			b, ok := prodReceived(r, 0)
			if !ok {
				continue
			}
			switch r.Intn(4) {
			case 0:
				b.PrimaryBlock.Destination = MustEID("dtn://n0/ping")
				what, waitSend = "ping ", true
			case 1:
				b.PrimaryBlock.Destination = MustEID("dtn://n0/app")
				what = "local "
			case 2:
				b.PrimaryBlock.Destination = MustEID("dtn://n2/x")
				what = "direct "
			}
			// ask for reports wherever the flags allow it; they go to a peer that is up, to one that
			// appears later (the reports wait in the store), or stay as generated
			if !b.IsAdministrativeRecord() && b.PrimaryBlock.SourceNode != bpv7.DtnNone() && r.Intn(3) != 0 {
				for _, f := range pnRequests {
					if r.Bool() {
						b.PrimaryBlock.BundleControlFlags |= f
					}
				}
				b.PrimaryBlock.ReportTo = MustEID([]string{"dtn://rpt/in", "dtn://rpt/in", "dtn://late/in"}[r.Intn(3)])
			}
			rb, ok := pnAsWire(&b)
			if !ok {
				continue
			}
			what += fmt.Sprintf("received %s flags %#x report-to %s blocks [%s] at the endpoint of this node", rb.ID(), uint64(rb.PrimaryBlock.BundleControlFlags),
				rb.PrimaryBlock.ReportTo, prodOrder(&rb))
			n.Receive(rb, pnNodeID)
		}
		if waitSend {
			for k := 0; k < 40 && n.LastSendN() == before; k++ {
				time.Sleep(time.Millisecond)
			}
		}
		pn.flush(stream, what)
		if i%5 == 4 {
			n.TickPending()
			pn.flush(stream, "pending tick after "+what)
		}
	}
	// the reports (and bundles) that waited for their peer
	pn.dwell([]uint64{0, 1000, 600000}[r.Intn(3)])
	pn.peerUp("late", "dtn://late/", nil)
	pn.flush(stream, "peer dtn://late/ appears")
	n.TickPending()
	time.Sleep(3 * time.Millisecond)
	pn.flush(stream, "tail")
}

// ---- (b) dwell times ----
type pnEnv struct {
	p     *prodOut
	nodes map[string]*pnNode
	used  map[string]int
	peerN int
	seq   uint64
}

func (e *pnEnv) node(r *Rng, alg string, sign bool) *pnNode {
	key := fmt.Sprintf("%s/%v", alg, sign)
	if pn, ok := e.nodes[key]; ok {
		if e.used[key] < 400 {
			e.used[key]++
			return pn
		}
		pn.n.Destroy()
	}
	pn := pnNewNode(e.p, r, alg, sign, false)
	pn.n.AddAgent("app", "dtn://n0/app")
	e.nodes[key] = pn
	e.used[key] = 1
	return pn
}

func (e *pnEnv) close() {
	for _, pn := range e.nodes {
		pn.n.Destroy()
	}
}

func pnDwellCase(e *pnEnv, r *Rng, alg string) {
	const stream = "nodedwell"
	pn := e.node(r, alg, r.Intn(3) == 0)
	n := pn.n
	pn.n.Core.InspectAllBundles = r.Intn(4) == 0
	e.peerN++
	e.seq++
	peerName := fmt.Sprintf("d%d", e.peerN)
	peerEID := fmt.Sprintf("dtn://d%d/", e.peerN)
	s := &fwSpec{seq: e.seq, payload: fwPayload(r), direct: fwDirectFor(r, alg), tsBack: 1000, life: 3600000 + 1000}
	var res []uint64 // residence before each sending opportunity (hook), 0 = none
	sleepMs := 0     // real sleep before the first opportunity
	fails := 0       // the peer refuses that many attempts
	desc := ""
	own := false
	switch k := r.Intn(10); {
	case k < 4: // clock-less: age + residence around the lifetime
		a := r.Pick([]uint64{0, 5, 1000, 86400000})
		rs := r.Pick([]uint64{3000, 60000, 3600000})
		d := []int64{-100000, -2000, -300, -1, 0, 1, 300, 2000, 100000}[r.Intn(9)]
		life := int64(a+rs) + d
		if life < int64(a) || life < 1 {
			life = int64(a) + 1
		}
		s.zeroTime, s.age, s.life = true, &a, uint64(life)
		res = []uint64{rs}
		if r.Bool() { // a refused attempt before the lifetime is reached, the next one after it
			fails = 1
			res = []uint64{rs / 2, rs, rs + 5000}
		}
		desc = fmt.Sprintf("clock-less, age %d, lifetime %d, residence %v ms", a, life, res)
	case k == 4: // clock-less, short lifetime, real residence
		a := r.Pick([]uint64{0, 5})
		s.zeroTime, s.age, s.life = true, &a, a+r.Pick([]uint64{15, 30, 10000})
		sleepMs = 50 + r.Intn(30)
		res = []uint64{0}
		desc = fmt.Sprintf("clock-less, age %d, lifetime %d, real residence >= %d ms", a, s.life, sleepMs)
	case k == 5: // clock-less bundle of a local application (transmit path)
		own = true
		a := uint64(0)
		rs := r.Pick([]uint64{3000, 60000})
		s.zeroTime, s.age = true, &a
		s.life = uint64(int64(rs) + []int64{-2000, -300, 300, 2000, 100000}[r.Intn(5)])
		res = []uint64{rs}
		desc = fmt.Sprintf("clock-less bundle submitted by a local application, lifetime %d, residence %d ms", s.life, rs)
	case k == 6: // creation time AND age block: the age counts all the same (the creation-time deadline is a day away)
		a := uint64(86400000)
		rs := r.Pick([]uint64{3000, 60000})
		s.age = &a
		s.life = uint64(int64(a+rs) + []int64{-2000, -300, 300, 2000, 100000}[r.Intn(5)])
		res = []uint64{rs}
		desc = fmt.Sprintf("creation time + age block, age %d, lifetime %d, residence %d ms", a, s.life, rs)
	case k == 7: // creation-time lifetime ends while the bundle is stored (real time; no peer before)
		s.tsBack = 1000
		s.life = 1000 + 40
		sleepMs = 160
		res = []uint64{0, 3000}
		desc = "creation-time lifetime ends 40 ms after the reception, stored, peer appears >= 160 ms later"
	default: // hop count one below / at its limit, across refused attempts and residences
		l := uint8(r.Pick([]uint64{1, 2, 24, 30, 255}))
		c := l - 1
		if r.Intn(3) == 0 {
			c = l
		}
		s.hop = &[2]uint8{l, c}
		fails = r.Intn(3)
		res = []uint64{0, 50, 3000, 60000}[:fails+1+r.Intn(2)]
		if r.Bool() {
			a := uint64(r.Intn(1000))
			s.age = &a
		}
		desc = fmt.Sprintf("hop count %d of %d, %d refused attempt(s)", c, l, fails)
	}
	if r.Intn(3) == 0 {
		s.prev = fwPrevHop
	}
	if r.Intn(4) == 0 {
		fwRandUnknown(r, s)
	}
	if !own && r.Intn(4) == 0 {
		fwMakeAdmin(r, s, 1+r.Intn(2))
		desc += ", relayed administrative record"
	}
	b := fwBuild(r, s, dtnNowMs(), peerEID)
	if own {
		b.PrimaryBlock.SourceNode = MustEID("dtn://n0/app")
		b.PrimaryBlock.ReportTo = MustEID("dtn://n0/app")
	}
	if b.CheckValid() != nil {
		return
	}
	attempts := 0
	fail := func(rec *SendRec) bool {
		attempts++
		return attempts <= fails
	}
	peerUp := false
	if fails > 0 && r.Bool() {
		pn.peerUp(peerName, peerEID, fail)
		peerUp = true
	}
	if own {
		n.Submit(b)
	} else {
		n.Receive(b, pnNodeID)
	}
	pn.flush(stream, desc+"; reception")
	if sleepMs > 0 {
		time.Sleep(time.Duration(sleepMs) * time.Millisecond)
	}
	for i, ms := range res {
		if ms > 0 {
			pn.dwell(ms)
		}
		if !peerUp {
			pn.peerUp(peerName, peerEID, fail)
			peerUp = true
		} else {
			n.TickPending()
		}
		pn.flush(stream, fmt.Sprintf("%s; opportunity %d after %d ms", desc, i+1, ms))
	}
	n.PeerDown(peerName)
	pn.sweep()
	pn.n.Core.InspectAllBundles = false
}

func genC02node(o *Out, r *Rng, thorough bool) {
	registerAllBlocks()
	p := &prodOut{o: o, counts: map[string]int{}}
	if ReplayFile != "" {
		prodReplay(p, ReplayFile)
		return
	}
	fwFastWorkDir()
	defer func() {
		if fwWorkBase != "" {
			os.RemoveAll(fwWorkBase)
		}
	}()
	reps, rounds, ndwell := 1, 14, 260
	if thorough {
		reps, rounds, ndwell = 4, 40, 4000
	}
	for k := 0; k < reps; k++ {
		for _, alg := range fwAlgs {
			for _, sign := range []bool{false, true} {
				for _, inspect := range []bool{false, true} {
					pnConfig(p, r, alg, sign, inspect, rounds)
				}
			}
		}
	}
	e := &pnEnv{p: p, nodes: map[string]*pnNode{}, used: map[string]int{}}
	for i := 0; i < ndwell; i++ {
		pnDwellCase(e, r, fwAlgs[i%len(fwAlgs)])
	}
	e.close()
	var names []string
	for k := range p.counts {
		names = append(names, k)
	}
	sort.Strings(names)
	var keys []S
	for _, k := range names {
		keys = append(keys, L(Sym(k), I(p.counts[k])))
	}
	o.Case("produce-dist", keys...)
}

func init() { register("C02node", genC02node) }
