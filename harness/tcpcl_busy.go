package main

// C11, session level, sessions that LAST: the real Client against the scripted raw peer
//
//   cbusy - the peer announces a small keepalive interval K (1..3 s) in SESS_INIT; for at least two
//           intervals transfers run steadily in both directions (Client.Send one bundle after the other,
//           the peer sends its own transfers, both paced with gaps far below K), so that neither side
//           ever has to send a KEEPALIVE.  Rule: the session is not lost, every Send succeeds, every
//           bundle is complete at the peer, every transfer of the peer is handed up.
//           "Steady" is measured by the harness on its own clock (largest gap between two messages it
//           gave to the connection); a lost session is only judged when that gap stayed below K/3,
//           otherwise the session is run again (3 attempts, then reported as inconclusive).
//   slow ack (kind ctrace, thorough tier) - the peer acknowledges every segment, each one a fixed time
//           after the one before, so that one transfer takes longer than Send's 10 s acknowledgement
//           timeout although an acknowledgement arrives every 130 ms: Send must succeed.

import (
	"fmt"
	"sync"
	"time"

	"github.com/dtn7/dtn7-go/pkg/bpv7"
	"github.com/dtn7/dtn7-go/pkg/cla"
	tc "github.com/dtn7/dtn7-go/pkg/cla/tcpclv4"
)

type tccBusyJob struct {
	transport  string
	peerActive bool
	m          uint64
	keepalive  uint16
	gap        time.Duration
	bundles    []bpv7.Bundle
	encs       [][]byte
	xfers      [][]byte
	segSize    int
	line       []S
}

func tccSafeSend(c *tc.Client, b bpv7.Bundle) (res string) {
	defer func() {
		if e := recover(); e != nil {
			res = "panic"
		}
	}()
	return tcSendClass(c.Send(b))
}

// one attempt; steady = the harness itself kept its pace
func tccBusyOnce(j *tccBusyJob) (line []S, lost bool, steady bool) {
	cc, pc := tccConnPair(j.transport)
	client := tccNewClient(cc, "dtn://client/", !j.peerActive)
	started := tccStart(client)
	peer := newTccPeer(pc)
	peer.autoAck = true
	peer.fault = "none"
	hsErr := peer.handshake(j.peerActive, j.m, j.keepalive)
	startRes := "hang"
	select {
	case startRes = <-started:
	case <-time.After(tccReportGuard):
	}
	n := len(j.bundles)
	res := make([]string, n)
	for i := range res {
		res[i] = "nosession"
	}
	var ownMru uint64
	if peer.clientInit != nil {
		ownMru = peer.clientInit.SegmentMru
	}
	status, closed := "ok", "ok"
	ackOk := true
	var held [][]byte
	var maxGap time.Duration
	if hsErr == nil && startRes == "ok" {
		peer.run()
		var mu sync.Mutex
		goneCh := make(chan struct{})
		got := make(chan struct{}, 1<<16)
		consDone := make(chan struct{})
		go func() {
			defer close(consDone)
			for cs := range client.Channel() {
				switch cs.MessageType {
				case cla.ReceivedBundle:
					enc := tccEncodeSafe(cs.Message.(cla.ConvergenceReceivedBundle).Bundle)
					mu.Lock()
					held = append(held, enc)
					mu.Unlock()
					got <- struct{}{}
				case cla.PeerDisappeared:
					close(goneCh)
					return
				}
			}
		}()
		isGone := func() bool {
			select {
			case <-goneCh:
				return true
			case <-peer.rdone:
				return true
			default:
				return false
			}
		}
		var wg sync.WaitGroup
		wg.Add(2)
		// Client -> peer
		go func() {
			defer wg.Done()
			for i := range j.bundles {
				if isGone() {
					res[i] = "stopped"
					continue
				}
				res[i] = tccSafeSend(client, j.bundles[i])
				time.Sleep(j.gap)
			}
		}()
		// peer -> Client
		var gapMu sync.Mutex
		last := time.Now()
		go func() {
			defer wg.Done()
			sent := 0
			for i, enc := range j.xfers {
				if isGone() {
					ackOk = false
					return
				}
				var ms []tc.VerifMessage
				for off := 0; off < len(enc); off += j.segSize {
					end := off + j.segSize
					var fl uint64
					if off == 0 {
						fl |= uint64(tc.VerifSegmentStart)
					}
					if end >= len(enc) {
						end = len(enc)
						fl |= uint64(tc.VerifSegmentEnd)
					}
					ms = append(ms, tc.VerifNewXferSegment(tc.VerifSegmentFlags(fl), uint64(1000+i), enc[off:end]))
				}
				now := time.Now()
				gapMu.Lock()
				if d := now.Sub(last); d > maxGap {
					maxGap = d
				}
				last = now
				gapMu.Unlock()
				peer.send(ms...)
				sent += len(ms)
				if !peer.waitAcks(sent, tccReportGuard) {
					ackOk = false
					return
				}
				time.Sleep(j.gap)
			}
		}()
		wg.Wait()
		gapMu.Lock()
		if d := time.Since(last); d > maxGap {
			maxGap = d
		}
		gapMu.Unlock()
		// every transfer of the peer was acknowledged: the reports must follow
		deadline := time.After(tccReportGuard)
	wait:
		for ackOk {
			mu.Lock()
			k := len(held)
			mu.Unlock()
			if k >= len(j.xfers) {
				break
			}
			select {
			case <-got:
			case <-goneCh:
				break wait
			case <-deadline:
				break wait
			}
		}
		lost = isGone()
		if lost {
			status = "lost"
		}
		cl := tccClose(client)
		select {
		case <-cl:
		case <-time.After(tccCloseGuard):
			closed = "hang"
		}
		select {
		case <-peer.rdone:
		case <-time.After(tccCloseGuard):
		}
		select {
		case <-consDone:
		case <-time.After(tccCloseGuard):
		}
		if lost {
			closed = "ok" // Close on a Client whose session is gone is not judged here
		}
	} else {
		status, closed = "nosession", "nosession"
	}
	peer.shutdown()
	_ = cc.Close()
	peer.mu.Lock()
	segs := append([]tccWire(nil), peer.segs...)
	other := peer.other
	peer.mu.Unlock()
	tids, groups := tccTraceS(segs)
	role := "client-active"
	if j.peerActive {
		role = "client-passive"
	}
	var xs, hs []S
	for _, x := range j.xfers {
		xs = append(xs, X(x))
	}
	for _, h := range held {
		hs = append(hs, X(h))
	}
	steady = maxGap < time.Duration(j.keepalive)*time.Second/3
	line = []S{Sym("client-" + j.transport + "-busy"), Sym(role), U(j.m), U(ownMru), U(0), I(1), tccSentS(j.encs, res), tids, groups,
		Sym(closed), I(other), Sym("none"), I(0),
		U(uint64(j.keepalive)), Sym(status), LL(xs), LL(hs), B(ackOk)}
	return line, lost || !ackOk, steady
}

func tccBusyRun(j *tccBusyJob) {
	for attempt := 0; ; attempt++ {
		line, bad, steady := tccBusyOnce(j)
		if !bad || steady {
			j.line = line
			return
		}
		if attempt == 2 {
			// the harness itself did not keep the pace (machine overloaded): nothing can be said
			line[14] = Sym("unsteady")
			j.line = line
			return
		}
	}
}

func tccBusyAll(o *Out, r *Rng, thorough bool) {
	type cfg struct {
		k      uint16
		transp string
		pact   bool
	}
	cfgs := []cfg{{2, "pipe", false}, {2, "tcp", true}}
	if thorough {
		cfgs = append(cfgs, cfg{1, "tcp", false}, cfg{1, "pipe", true}, cfg{3, "pipe", false}, cfg{3, "tcp", true})
	}
	var jobs []*tccBusyJob
	for ci, c := range cfgs {
		j := &tccBusyJob{transport: c.transp, peerActive: c.pact, m: []uint64{40, 1000, 1 << 20}[ci%3], keepalive: c.k,
			gap: 40 * time.Millisecond, segSize: 20 + r.Intn(80)}
		// at least two intervals of traffic (each round lasts at least the pacing gap)
		n := int(time.Duration(c.k)*time.Second*2/j.gap) + 5
		for i := 0; i < n; i++ {
			bn, enc := tcBundle(fmt.Sprintf("dtn://busy%d-%d/", ci, i), r.Bytes(r.Intn(150)))
			j.bundles, j.encs = append(j.bundles, bn), append(j.encs, enc)
			_, x := tcBundle(fmt.Sprintf("dtn://ybus%d-%d/", ci, i), r.Bytes(r.Intn(150)))
			j.xfers = append(j.xfers, x)
		}
		jobs = append(jobs, j)
	}
	var fs []func()
	for _, j := range jobs {
		j := j
		fs = append(fs, func() { tccBusyRun(j) })
	}
	// thorough: one transfer that lasts longer than Send's 10 s timeout while the peer acknowledges
	// a segment every 130 ms (94+ segments of 64 bytes)
	var slow []*tccSendJob
	if thorough {
		for i, tr := range []string{"pipe", "tcp"} {
			sj := &tccSendJob{transport: tr, peerActive: i == 1, m: 64, conc: 1, fault: "none", keepalive: 0,
				ackDelay: 130 * time.Millisecond, label: "-slowack"}
			bn, enc := tcBundle(fmt.Sprintf("dtn://slow%d/", i), r.Bytes(5950+r.Intn(100)))
			sj.bundles, sj.encs = []bpv7.Bundle{bn}, [][]byte{enc}
			slow = append(slow, sj)
			fs = append(fs, func() { tccSendRun(sj) })
		}
	}
	tccParallel(8, fs)
	for _, j := range jobs {
		o.Case("cbusy", j.line...)
	}
	for _, sj := range slow {
		o.Case("ctrace", sj.line...)
	}
}
