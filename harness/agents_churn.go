package main

// C07 - local delivery while OTHER agents and clients come and go (generator C07churn).
//
// A set of stable recipients (mock agents, a REST client, WebSocket clients, the ping agent) stays
// registered; other agents register and unregister, other WebSocket clients connect and
// disconnect, other REST clients register and unregister - concurrently with a stream of bundles
// for the stable recipients and with a prober that keeps asking HasEndpoint for their endpoints.
// The agents that leave were registered BEFORE the stable recipients, so that every departure
// moves the stable ones inside the multiplexer's list of children.
//
// Three levels: the multiplexer alone (agent.MuxAgent with mock children, many cheap phases), the
// WebSocketAgent alone (its client multiplexer, real connectors over httptest) and a real
// routing.Core with all agent types (bundles arrive through Core.receive).
//
// Everything a case writes is determined by the seed on a correct implementation: the deliveries
// come from one goroutine (so every recipient sees them in order), probe counts are not written,
// only the number of wrong answers (0).  Waiting: departures are awaited through completion
// signals (the multiplexer closes the receiver channel of a child it has removed); deadlines only
// guard against a hanging implementation and are reported as harness anomalies.

import (
	"bytes"
	"encoding/hex"
	"encoding/json"
	"fmt"
	"net/http"
	"net/http/httptest"
	"reflect"
	"runtime"
	"sort"
	"strings"
	"sync"
	"sync/atomic"
	"time"

	"github.com/gorilla/mux"
	log "github.com/sirupsen/logrus"

	"github.com/dtn7/dtn7-go/pkg/agent"
	"github.com/dtn7/dtn7-go/pkg/bpv7"
)

// ---- endpoints of the churn cases: (node, demux number) with node 7 = g7 (foreign), 0 = n0 ----
func c07CEid(p [2]int) string { return fmt.Sprintf("dtn://%s/e%d", c07Node(p[0]), p[1]) }

// parsing (and validating) an endpoint ID compiles a regular expression: keep the parsed ones
var c07EidCache = struct {
	sync.Mutex
	m map[string]bpv7.EndpointID
}{m: map[string]bpv7.EndpointID{}}

func c07E(s string) bpv7.EndpointID {
	c07EidCache.Lock()
	defer c07EidCache.Unlock()
	e, ok := c07EidCache.m[s]
	if !ok {
		e = MustEID(s)
		c07EidCache.m[s] = e
	}
	return e
}

// ---- mock agent that can leave: closing the sender channel is the agent's way to go; the
// multiplexer then closes the receiver, which ends the agent's goroutine (signal: done).  The
// agent keeps reading its receiver until then, as the ApplicationAgent contract demands.
// yield > 0: Endpoints() gives up the processor that many times - an agent whose Endpoints() is
// not instantaneous (REST agent with many clients, WebSocket agent) widens every window in which
// its caller holds a snapshot of the multiplexer's state. ----
type c07CMock struct {
	eids  []bpv7.EndpointID
	yield int
	recv  chan agent.Message
	send  chan agent.Message
	mu    sync.Mutex
	got   []bpv7.Bundle
	done  chan struct{}
	left  bool
}

func newC07CMock(yield int, eids ...string) *c07CMock {
	a := &c07CMock{yield: yield, recv: make(chan agent.Message), send: make(chan agent.Message), done: make(chan struct{})}
	for _, s := range eids {
		a.eids = append(a.eids, c07E(s))
	}
	go func() {
		for msg := range a.recv {
			if m, ok := msg.(agent.BundleMessage); ok {
				a.mu.Lock()
				a.got = append(a.got, m.Bundle)
				a.mu.Unlock()
			}
		}
		close(a.done)
	}()
	return a
}
func (a *c07CMock) Endpoints() []bpv7.EndpointID {
	for i := 0; i < a.yield; i++ {
		runtime.Gosched()
	}
	return a.eids
}
func (a *c07CMock) MessageReceiver() chan agent.Message { return a.recv }
func (a *c07CMock) MessageSender() chan agent.Message   { return a.send }

// leave unregisters the agent and waits until the multiplexer has removed it.
func (a *c07CMock) leave(errs *c07Errs) {
	if a.left {
		return
	}
	a.left = true
	close(a.send)
	if !errs.isStuck() {
		errs.wait("agent-not-removed", a.done)
	}
}
func (a *c07CMock) take() []bpv7.Bundle {
	a.mu.Lock()
	defer a.mu.Unlock()
	r := a.got
	a.got = nil
	return r
}

// c07Errs collects the harness anomalies of a case.  It is also the guard around every call into
// the implementation that takes a lock or waits for a goroutine of the implementation: when such
// a call does not return within the deadline, the case is `stuck` (the implementation has
// deadlocked), nothing more is asked of that instance and the case is written with what it has.
type c07Errs struct {
	mu    sync.Mutex
	l     []string
	stuck string
}

func (e *c07Errs) isStuck() bool {
	e.mu.Lock()
	defer e.mu.Unlock()
	return e.stuck != ""
}
func (e *c07Errs) setStuck(what string) {
	e.mu.Lock()
	defer e.mu.Unlock()
	if e.stuck == "" {
		e.stuck = what
	}
}

// do runs f (a call into the implementation); false when the case is stuck or f does not return in time.
func (e *c07Errs) do(what string, f func()) bool {
	if e.isStuck() {
		return false
	}
	done := make(chan struct{})
	go func() { f(); close(done) }()
	select {
	case <-done:
		return true
	case <-time.After(c07Deadline()):
		c07Expired()
		e.setStuck(what)
		return false
	}
}

// send puts a message into a channel of the implementation.
func (e *c07Errs) send(what string, ch chan agent.Message, m agent.Message) bool {
	if e.isStuck() {
		return false
	}
	select {
	case ch <- m:
		return true
	case <-time.After(c07Deadline()):
		c07Expired()
		e.setStuck(what)
		return false
	}
}

// wait waits for a completion signal.
func (e *c07Errs) wait(what string, ch chan struct{}) bool {
	select {
	case <-ch:
		return true
	case <-time.After(c07Deadline()):
		c07Expired()
		e.setStuck(what)
		return false
	}
}
func (e *c07Errs) stuckS() S {
	e.mu.Lock()
	defer e.mu.Unlock()
	if e.stuck == "" {
		return L(Sym("stuck"))
	}
	return L(Sym("stuck"), Sym(e.stuck))
}

func (e *c07Errs) add(s string) {
	e.mu.Lock()
	defer e.mu.Unlock()
	for _, x := range e.l {
		if x == s {
			return
		}
	}
	e.l = append(e.l, s)
}
func (e *c07Errs) S() S {
	e.mu.Lock()
	defer e.mu.Unlock()
	sort.Strings(e.l)
	var r []S
	for _, x := range e.l {
		r = append(r, Sym(x))
	}
	return LL(r)
}

// ---- a pool of bundles, bundle i goes to dsts[i % len(dsts)] ----
type c07Pool struct {
	bs   []bpv7.Bundle
	dst  [][2]int
	byCb map[string]int
	byJS map[string]int
	byID map[string]int
}

func newC07Pool(n int, dsts [][2]int, salt int) *c07Pool {
	p := &c07Pool{byCb: map[string]int{}, byJS: map[string]int{}, byID: map[string]int{}}
	base := uint64(bpv7.DtnTimeNow())
	for i := 0; i < n; i++ {
		d := dsts[i%len(dsts)]
		b := MkBundle(BOpt{Src: "dtn://n3/s", Dst: c07CEid(d), ReportTo: "dtn://n1/", TS: base + uint64(salt*1000+i), Life: 3600000,
			Payload: []byte(fmt.Sprintf("churn-%d-%d", salt, i)), CRC: bpv7.CRC32})
		p.bs = append(p.bs, b)
		p.dst = append(p.dst, d)
		p.byCb[hex.EncodeToString(BundleBytes(b))] = i
		p.byID[b.ID().String()] = i
		js, _ := json.Marshal(b)
		p.byJS[string(js)] = i
	}
	return p
}
func (p *c07Pool) ids(bs []bpv7.Bundle) S {
	var r []S
	for _, b := range bs {
		// in-memory hand-overs carry the very same value; only bundles that went over a socket
		// have to be serialised for the comparison
		if i, ok := p.byID[b.ID().String()]; ok && reflect.DeepEqual(b, p.bs[i]) {
			r = append(r, I(i))
		} else if i, ok := p.byCb[hex.EncodeToString(BundleBytes(b))]; ok {
			r = append(r, I(i))
		} else {
			r = append(r, I(c07Altered))
		}
	}
	return LL(r)
}

// offending: what a recipient that leaves during the deliveries may NOT have among the bundles
// it received (how many it received depends on the moment it left, so the list itself is not
// written): bundles for other endpoints, a bundle twice, altered content.
func (p *c07Pool) offending(bs []bpv7.Bundle, nb int, eids ...[2]int) S {
	var r []S
	seen := map[int]bool{}
	for _, b := range bs {
		i, ok := p.byID[b.ID().String()]
		if ok && !reflect.DeepEqual(b, p.bs[i]) {
			i, ok = p.byCb[hex.EncodeToString(BundleBytes(b))]
		}
		if !ok || i >= nb {
			r = append(r, I(c07Altered))
			continue
		}
		mine := false
		for _, e := range eids {
			mine = mine || e == p.dst[i]
		}
		if !mine || seen[i] {
			r = append(r, I(i))
		}
		seen[i] = true
	}
	return LL(r)
}

// ---- prober: asks `has` for the endpoints round robin until stopped; counts wrong answers ----
type c07Prober struct {
	stop  int32
	wrong []int64
	done  chan struct{}
}

func startC07Prober(eids []bpv7.EndpointID, has func(bpv7.EndpointID) bool) *c07Prober {
	p := &c07Prober{wrong: make([]int64, len(eids)), done: make(chan struct{})}
	go func() {
		defer close(p.done)
		for i := 0; atomic.LoadInt32(&p.stop) == 0; i++ {
			k := i % len(eids)
			if !has(eids[k]) {
				p.wrong[k]++
			}
			runtime.Gosched() // do not starve the goroutines that need the multiplexer's mutex
		}
	}()
	return p
}
func (p *c07Prober) finish(errs *c07Errs) []int64 {
	atomic.StoreInt32(&p.stop, 1)
	if !errs.wait("hasendpoint-does-not-return", p.done) {
		return make([]int64, len(p.wrong))
	}
	return p.wrong
}

func c07Pair(p [2]int) S { return L(I(p[0]), I(p[1])) }
func c07Pairs(ps [][2]int) S {
	var r []S
	for _, p := range ps {
		r = append(r, c07Pair(p))
	}
	return LL(r)
}
func c07Wrong(eids [][2]int, w []int64) S {
	var r []S
	for i, p := range eids {
		r = append(r, L(c07Pair(p), I64(w[i])))
	}
	return LL(r)
}

// recipient kinds in the case: 0 mock, 1 ping, 2 REST client, 3 WebSocket client, 4 WebSocket
// client that is connected but has not registered (must never get anything)
func c07Rcp(id, kind int, eids [][2]int) S { return L(I(id), I(kind), c07Pairs(eids)) }

// =============================================================================================
// level 1: the multiplexer alone

type c07MuxPhase struct {
	before, mid, late int // agents that leave (registered before S1 / between S1 and S2), agents that arrive
	yield             int
	nb                int
	order             []int
	co                bool
}

func c07MuxChurn(o *Out, r *Rng, phases int, salt int) {
	e1, e2, ey := [2]int{7, 1}, [2]int{7, 2}, [2]int{7, 3}
	m := agent.NewMuxAgent()
	pool := newC07Pool(24, [][2]int{e1, e2}, salt)
	errs := &c07Errs{}
	E1, E2 := c07E(c07CEid(e1)), c07E(c07CEid(e2))
	register := func(a agent.ApplicationAgent) { errs.do("register-does-not-return", func() { m.Register(a) }) }
	var fields []S
	fields = append(fields, Sym("mux"), LL([]S{c07Rcp(0, 0, [][2]int{ey}), c07Rcp(1, 0, [][2]int{e1}), c07Rcp(2, 0, [][2]int{e1, e2}),
		c07Rcp(3, 5, [][2]int{e1})}))
	for ph := 0; ph < phases; ph++ {
		p := c07MuxPhase{before: 1 + r.Intn(4), mid: r.Intn(3), late: r.Intn(3), yield: r.Intn(3), nb: 6 + r.Intn(18), co: r.Intn(2) == 0}
		p.order = r.Perm(p.before + p.mid)
		var leavers []*c07CMock
		nx := 0
		mk := func() *c07CMock { nx++; return newC07CMock(0, c07CEid([2]int{7, 100 + nx})) }
		// now and then the first agent to come (it leaves during the deliveries) is registered for E1 as well
		var co *c07CMock
		for i := 0; i < p.before; i++ {
			a := mk()
			if i == 0 && p.co {
				a.eids = append(a.eids, E1)
				co = a
			}
			leavers = append(leavers, a)
			register(a)
		}
		y := newC07CMock(p.yield, c07CEid(ey))
		register(y)
		s1 := newC07CMock(0, c07CEid(e1))
		register(s1)
		for i := 0; i < p.mid; i++ {
			a := mk()
			leavers = append(leavers, a)
			register(a)
		}
		s2 := newC07CMock(0, c07CEid(e1), c07CEid(e2))
		register(s2)
		var arrivals []*c07CMock
		for i := 0; i < p.late; i++ {
			arrivals = append(arrivals, mk())
		}
		// --- concurrent part ---
		pr := startC07Prober([]bpv7.EndpointID{E1, E2}, func(e bpv7.EndpointID) bool { return agent.AppAgentHasEndpoint(m, e) })
		udone := make(chan struct{})
		go func() {
			defer close(udone)
			for i, k := range p.order {
				leavers[k].leave(errs)
				if i < len(arrivals) {
					register(arrivals[i])
				}
			}
			for i := len(p.order); i < len(arrivals); i++ {
				register(arrivals[i])
			}
		}()
		var noAgent []S
		for i := 0; i < p.nb; i++ {
			// what AgentManager.Deliver does
			has := false
			if !errs.do("hasendpoint-does-not-return", func() { has = agent.AppAgentHasEndpoint(m, c07E(c07CEid(pool.dst[i]))) }) {
				break
			}
			if !has {
				noAgent = append(noAgent, I(i))
				continue
			}
			errs.send("mux-does-not-receive", m.MessageReceiver(), agent.BundleMessage{Bundle: pool.bs[i]})
		}
		errs.wait("leaving-agents-not-removed", udone)
		wrong := pr.finish(errs)
		// two barriers: when the multiplexer takes the second one, every child has taken the first
		for i := 0; i < 2; i++ {
			errs.send("mux-does-not-receive", m.MessageReceiver(), c07Barrier{})
		}
		if errs.isStuck() {
			break
		}
		others := 0
		coGot := LL(nil)
		for _, a := range append(append([]*c07CMock(nil), leavers...), arrivals...) {
			if a == co {
				coGot = pool.offending(a.take(), p.nb, e1)
			} else {
				others += len(a.take())
			}
		}
		fields = append(fields, L(I(p.nb), c07Wrong([][2]int{e1, e2}, wrong), LL(noAgent),
			LL([]S{L(I(0), pool.ids(y.take())), L(I(1), pool.ids(s1.take())), L(I(2), pool.ids(s2.take())), L(I(3), coGot)}), I(others)))
		for _, a := range append(append([]*c07CMock{y, s1, s2}, leavers...), arrivals...) {
			a.leave(errs)
		}
		n := 0
		if errs.do("multiplexer-locked", func() { n = m.VerifChildren() }) && n != 0 {
			errs.add("children-left-over")
		}
		if errs.isStuck() {
			break
		}
	}
	// the multiplexer itself: a ShutdownMessage ends its handler
	errs.send("mux-does-not-receive", m.MessageReceiver(), agent.ShutdownMessage{})
	o.Case("churn", append(fields, L(Sym("dst"), c07Pairs(pool.dst)), L(Sym("err"), errs.S()), errs.stuckS())...)
}

// =============================================================================================
// level 2: the WebSocketAgent alone (client multiplexer)

type c07WsSrv struct {
	ws  *agent.WebSocketAgent
	srv *httptest.Server
	url string
}

func newC07WsSrv() *c07WsSrv {
	x := &c07WsSrv{ws: agent.NewWebSocketAgent()}
	hm := http.NewServeMux()
	hm.HandleFunc("/ws", x.ws.ServeHTTP)
	x.srv = httptest.NewServer(hm)
	x.url = "ws" + strings.TrimPrefix(x.srv.URL, "http") + "/ws"
	return x
}

// count: the number of children of the agent's client multiplexer (-1: the multiplexer is locked for good).
func (x *c07WsSrv) count(errs *c07Errs) int {
	n := -1
	errs.do("client-multiplexer-locked", func() { n = x.ws.VerifClientCount() })
	return n
}

// waitCount waits until the agent's client multiplexer has n children.
func (x *c07WsSrv) waitCount(n int, errs *c07Errs, what string) {
	deadline := time.Now().Add(c07Deadline())
	for {
		k := x.count(errs)
		if k == n || k < 0 {
			return
		}
		if time.Now().After(deadline) {
			c07Expired()
			errs.setStuck(what)
			return
		}
		time.Sleep(50 * time.Microsecond)
	}
}

// closeClient disconnects a connector and waits until the agent has removed the client.
func (x *c07WsSrv) closeClient(c *c07WsClient, errs *c07Errs) {
	before := x.count(errs)
	c.wac.Close()
	if before < 0 {
		return
	}
	deadline := time.Now().Add(c07Deadline())
	for {
		k := x.count(errs)
		if k < before {
			return
		}
		if time.Now().After(deadline) {
			c07Expired()
			errs.setStuck("disconnected-client-not-removed")
			return
		}
		time.Sleep(50 * time.Microsecond)
	}
}

// dial: a connector that registers for endpoint p (nil: failed).
func (x *c07WsSrv) dial(p [2]int, errs *c07Errs) *c07WsClient {
	var c *c07WsClient
	var err error
	if !errs.do("connecting-client-not-served", func() { c, err = newC07WsClient(x.url, c07CEid(p)) }) {
		return nil
	}
	if err != nil {
		errs.add("ws-connect-failed")
		return nil
	}
	return c
}

// markerSync: a marker for endpoint eid behind everything the agent has taken so far; waits until
// the clients have seen it.
func c07MarkerSync(recv chan agent.Message, eid string, cls []*c07WsClient, errs *c07Errs) {
	for _, c := range cls {
		c.want++
	}
	if !errs.send("agent-does-not-receive", recv, agent.SyscallResponseMessage{Request: "verif", Response: []byte{1}, Recipient: c07E(eid)}) {
		return
	}
	deadline := time.Now().Add(c07Deadline())
	for _, c := range cls {
		for {
			c.mu.Lock()
			ok := c.markers >= c.want
			c.mu.Unlock()
			if ok {
				break
			}
			if time.Now().After(deadline) {
				c07Expired()
				errs.setStuck("marker-not-delivered")
				return
			}
			time.Sleep(50 * time.Microsecond)
		}
	}
}

func c07WsChurn(o *Out, r *Rng, phases int, salt int) {
	f1, f2 := [2]int{7, 1}, [2]int{7, 2}
	x := newC07WsSrv()
	pool := newC07Pool(16, [][2]int{f1, f2}, salt)
	errs := &c07Errs{}
	F1, F2 := c07E(c07CEid(f1)), c07E(c07CEid(f2))
	var fields []S
	fields = append(fields, Sym("ws"), LL([]S{c07Rcp(0, 4, nil), c07Rcp(1, 3, [][2]int{f1}), c07Rcp(2, 3, [][2]int{f2}), c07Rcp(3, 3, [][2]int{f1}),
		c07Rcp(4, 5, [][2]int{f1})}))
	nx := 0
	for ph := 0; ph < phases && !errs.isStuck(); ph++ {
		before, mid, late, nb := 1+r.Intn(3), r.Intn(2), r.Intn(2), 4+r.Intn(12)
		withRaw := r.Intn(2) == 0
		order := r.Perm(before + mid)
		// now and then the first client to connect (it disconnects during the deliveries) is registered for F1 as well
		co := r.Intn(2) == 0
		var leavers []*c07WsClient
		for i := 0; i < before; i++ {
			nx++
			if i == 0 && co {
				leavers = append(leavers, x.dial(f1, errs))
			} else {
				leavers = append(leavers, x.dial([2]int{7, 100 + nx}, errs))
			}
		}
		var raw *c07RawWs
		if withRaw && !errs.isStuck() {
			var err error
			if raw, err = newC07RawWs(x.url); err != nil || !raw.sync() {
				errs.add("ws-raw-connect-failed")
				raw = nil
			}
		}
		s1 := x.dial(f1, errs)
		s2 := x.dial(f2, errs)
		for i := 0; i < mid; i++ {
			nx++
			leavers = append(leavers, x.dial([2]int{7, 100 + nx}, errs))
		}
		s3 := x.dial(f1, errs)
		ok := s1 != nil && s2 != nil && s3 != nil
		for _, c := range leavers {
			ok = ok && c != nil
		}
		if !ok {
			break
		}
		// --- concurrent part ---
		pr := startC07Prober([]bpv7.EndpointID{F1, F2}, func(e bpv7.EndpointID) bool { return agent.AppAgentHasEndpoint(x.ws, e) })
		udone := make(chan struct{})
		var arrivals []*c07WsClient
		go func() {
			defer close(udone)
			for i, k := range order {
				x.closeClient(leavers[k], errs)
				if i < late {
					nx++
					if c := x.dial([2]int{7, 100 + nx}, errs); c != nil {
						arrivals = append(arrivals, c)
					}
				}
			}
		}()
		var noAgent []S
		for i := 0; i < nb; i++ {
			has := false
			if !errs.do("hasendpoint-does-not-return", func() { has = agent.AppAgentHasEndpoint(x.ws, c07E(c07CEid(pool.dst[i]))) }) {
				break
			}
			if !has {
				noAgent = append(noAgent, I(i))
				continue
			}
			errs.send("agent-does-not-receive", x.ws.MessageReceiver(), agent.BundleMessage{Bundle: pool.bs[i]})
		}
		errs.wait("disconnected-client-not-removed", udone)
		wrong := pr.finish(errs)
		c07MarkerSync(x.ws.MessageReceiver(), c07CEid(f1), []*c07WsClient{s1, s3}, errs)
		c07MarkerSync(x.ws.MessageReceiver(), c07CEid(f2), []*c07WsClient{s2}, errs)
		if errs.isStuck() {
			break
		}
		var rawGot []bpv7.Bundle
		if raw != nil {
			if !raw.sync() {
				errs.add("ws-pong-timeout")
			}
			rawGot = raw.take()
		}
		others := 0
		for _, c := range arrivals {
			others += len(c.take())
		}
		coGot := LL(nil)
		for i, c := range leavers {
			if i == 0 && co {
				coGot = pool.offending(c.take(), nb, f1)
			} else {
				others += len(c.take())
			}
		}
		fields = append(fields, L(I(nb), c07Wrong([][2]int{f1, f2}, wrong), LL(noAgent),
			LL([]S{L(I(0), pool.ids(rawGot)), L(I(1), pool.ids(s1.take())), L(I(2), pool.ids(s2.take())), L(I(3), pool.ids(s3.take())),
				L(I(4), coGot)}), I(others)))
		for _, c := range append([]*c07WsClient{s1, s2, s3}, arrivals...) {
			x.closeClient(c, errs)
		}
		if raw != nil {
			_ = raw.conn.Close()
		}
		x.waitCount(0, errs, "ws-clients-left-over")
	}
	if !errs.isStuck() {
		errs.send("agent-does-not-receive", x.ws.MessageReceiver(), agent.ShutdownMessage{})
		x.srv.CloseClientConnections()
		x.srv.Close()
	} else {
		x.srv.CloseClientConnections() // the agent is deadlocked: its goroutines (and the test server) are left behind
	}
	o.Case("churn", append(fields, L(Sym("dst"), c07Pairs(pool.dst)), L(Sym("err"), errs.S()), errs.stuckS())...)
}

// =============================================================================================
// level 3: a real Core with all agent types

func c07CoreChurn(o *Out, r *Rng, salt int) {
	e := newC07Env()
	errs := &c07Errs{}
	// endpoints: E1, E2 mock agents; G REST client (an endpoint of this node); F WebSocket client; P ping
	e1, e2, g, f, pp, ey := [2]int{7, 1}, [2]int{7, 2}, [2]int{0, 3}, [2]int{7, 4}, [2]int{7, 5}, [2]int{7, 6}
	dsts := [][2]int{e1, e2, g, f, pp}
	pool := newC07Pool(10+r.Intn(6), dsts, salt)
	core := e.n.Core
	register := func(a agent.ApplicationAgent) {
		errs.do("register-does-not-return", func() { core.RegisterApplicationAgent(a) })
	}
	nx := 0
	mk := func() *c07CMock { nx++; return newC07CMock(0, c07CEid([2]int{7, 100 + nx})) }
	var leavers []*c07CMock
	reg := func(k int) {
		for i := 0; i < k; i++ {
			a := mk()
			leavers = append(leavers, a)
			register(a)
		}
	}
	// children of the AgentManager's multiplexer, in this order
	reg(1 + r.Intn(3))
	// now and then the first agent (it leaves during the deliveries) is registered for E1 as well, and
	// the first WebSocket client (it disconnects during the deliveries) for F
	coMock, coWs := r.Intn(2) == 0, r.Intn(2) == 0
	if coMock {
		leavers[0].eids = append(leavers[0].eids, c07E(c07CEid(e1)))
	}
	y := newC07CMock(r.Intn(3), c07CEid(ey))
	register(y)
	s1 := newC07CMock(0, c07CEid(e1))
	register(s1)
	reg(r.Intn(2))
	rtr := mux.NewRouter()
	rest := agent.NewRestAgent(rtr.PathPrefix("/rest").Subrouter())
	register(rest)
	restReg := func(p [2]int) string {
		var rr agent.RestRegisterResponse
		_ = json.Unmarshal(c07Post(rtr, "/rest/register", agent.RestRegisterRequest{EndpointId: c07CEid(p)}), &rr)
		if rr.Error != "" || rr.UUID == "" {
			errs.add("register-failed")
		}
		return rr.UUID
	}
	var restOthers []string
	for i := 0; i < 3+r.Intn(6); i++ {
		nx++
		restOthers = append(restOthers, restReg([2]int{7, 100 + nx}))
	}
	uuid := restReg(g)
	reg(r.Intn(2))
	x := newC07WsSrv()
	register(x.ws)
	dial := func(p [2]int) *c07WsClient { return x.dial(p, errs) }
	var wsLeavers []*c07WsClient
	for i, k := 0, 1+r.Intn(3); i < k; i++ {
		nx++
		p := [2]int{7, 100 + nx}
		if i == 0 && coWs {
			p = f
		}
		if c := dial(p); c != nil {
			wsLeavers = append(wsLeavers, c)
		}
	}
	raw, rerr := newC07RawWs(x.url)
	if rerr != nil || !raw.sync() {
		errs.add("ws-raw-connect-failed")
		raw = nil
	}
	sw := dial(f)
	reg(r.Intn(2))
	s2 := newC07CMock(0, c07CEid(e1), c07CEid(e2))
	register(s2)
	ping := newC07Ping(c07E(c07CEid(pp)))
	register(ping)
	order := r.Perm(len(leavers))
	nArr, nRestOps := r.Intn(3), 6+r.Intn(10)
	var arrivals []*c07CMock
	for i := 0; i < nArr; i++ {
		arrivals = append(arrivals, mk())
	}
	var fields []S
	fields = append(fields, Sym("core"), LL([]S{c07Rcp(0, 0, [][2]int{ey}), c07Rcp(1, 0, [][2]int{e1}), c07Rcp(2, 0, [][2]int{e1, e2}),
		c07Rcp(3, 2, [][2]int{g}), c07Rcp(4, 3, [][2]int{f}), c07Rcp(5, 1, [][2]int{pp}), c07Rcp(6, 4, nil),
		c07Rcp(7, 5, [][2]int{e1}), c07Rcp(8, 5, [][2]int{f})}))
	if sw != nil {
		// --- concurrent part ---
		var eids []bpv7.EndpointID
		for _, d := range dsts {
			eids = append(eids, c07E(c07CEid(d)))
		}
		am := core.VerifAgentMux()
		pr1 := startC07Prober(eids, func(e bpv7.EndpointID) bool { return agent.AppAgentHasEndpoint(am, e) })
		pr2 := startC07Prober(eids, core.HasEndpoint)
		var wg sync.WaitGroup
		wg.Add(3)
		go func() { // agents leave and arrive
			defer wg.Done()
			for i, k := range order {
				leavers[k].leave(errs)
				if i < len(arrivals) {
					register(arrivals[i])
				}
			}
			for i := len(order); i < len(arrivals); i++ {
				register(arrivals[i])
			}
		}()
		go func() { // WebSocket clients leave
			defer wg.Done()
			for _, c := range wsLeavers {
				x.closeClient(c, errs)
			}
		}()
		go func() { // other REST clients unregister and register
			defer wg.Done()
			for i := 0; i < nRestOps; i++ {
				if i%2 == 0 && len(restOthers) > 0 {
					c07Post(rtr, "/rest/unregister", agent.RestUnregisterRequest{UUID: restOthers[0]})
					restOthers = restOthers[1:]
				} else {
					restOthers = append(restOthers, restReg([2]int{7, 500 + i}))
				}
			}
		}()
		for i := range pool.bs {
			if !errs.do("core-does-not-return", func() { e.n.Receive(pool.bs[i], "dtn://n1/") }) {
				break
			}
		}
		wgd := make(chan struct{})
		go func() { wg.Wait(); close(wgd) }()
		errs.wait("leaving-agents-not-removed", wgd)
		w1, w2 := pr1.finish(errs), pr2.finish(errs)
		for i := range w1 {
			w1[i] += w2[i]
		}
		if !errs.isStuck() && e.barrier(4) {
			c07MarkerSync(x.ws.MessageReceiver(), c07CEid(f), []*c07WsClient{sw}, errs)
			if raw != nil && !raw.sync() {
				errs.add("ws-pong-timeout")
			}
		}
		for _, s := range e.errs {
			errs.add(s)
		}
		// REST client: what its mailbox was given = what it fetches now
		var fetched []S
		var fr struct {
			Bundles []json.RawMessage `json:"bundles"`
		}
		_ = json.Unmarshal(c07Post(rtr, "/rest/fetch", agent.RestFetchRequest{UUID: uuid}), &fr)
		for _, rawJS := range fr.Bundles {
			var cb bytes.Buffer
			_ = json.Compact(&cb, rawJS)
			if i, ok := pool.byJS[cb.String()]; ok {
				fetched = append(fetched, I(i))
			} else {
				fetched = append(fetched, I(c07Altered))
			}
		}
		pgot, stuck := ping.take()
		if stuck != "" {
			errs.add(stuck)
		}
		var rawGot []bpv7.Bundle
		if raw != nil {
			rawGot = raw.take()
		}
		others := 0
		coMockGot, coWsGot := LL(nil), LL(nil)
		for i, a := range append(append([]*c07CMock(nil), leavers...), arrivals...) {
			if i == 0 && coMock {
				coMockGot = pool.offending(a.take(), len(pool.bs), e1)
			} else {
				others += len(a.take())
			}
		}
		for i, c := range wsLeavers {
			if i == 0 && coWs {
				coWsGot = pool.offending(c.take(), len(pool.bs), f)
			} else {
				others += len(c.take())
			}
		}
		// bundles given to a peer / still in the store (retention constraint not released)
		var sent, kept []S
		seen := map[int]bool{}
		byID := map[string]int{}
		for i, b := range pool.bs {
			byID[b.ID().String()] = i
		}
		for _, s := range e.n.SendsSince(e.lastN) {
			if i, ok := byID[s.ID]; ok && !seen[i] {
				seen[i] = true
			}
		}
		for i := range pool.bs {
			if seen[i] {
				sent = append(sent, I(i))
			}
			if e.n.Knows(pool.bs[i].ID()) {
				kept = append(kept, I(i))
			}
		}
		fields = append(fields, L(I(len(pool.bs)), c07Wrong(dsts, w1), LL(kept),
			LL([]S{L(I(0), pool.ids(y.take())), L(I(1), pool.ids(s1.take())), L(I(2), pool.ids(s2.take())), L(I(3), LL(fetched)),
				L(I(4), pool.ids(sw.take())), L(I(5), pool.ids(pgot)), L(I(6), pool.ids(rawGot)), L(I(7), coMockGot), L(I(8), coWsGot)}),
			I(others), LL(sent)))
	}
	// --- shut down ---
	for _, a := range append(append([]*c07CMock{y, s1, s2}, leavers...), arrivals...) {
		a.leave(errs)
	}
	if sw != nil {
		x.closeClient(sw, errs)
	}
	if raw != nil {
		_ = raw.conn.Close()
	}
	for _, ch := range []chan agent.Message{ping.MessageReceiver(), rest.MessageReceiver(), x.ws.MessageReceiver()} {
		errs.send("agent-does-not-receive", ch, agent.ShutdownMessage{})
	}
	x.srv.CloseClientConnections()
	if !errs.isStuck() {
		x.srv.Close()
		e.n.Destroy()
	}
	o.Case("churn", append(fields, L(Sym("dst"), c07Pairs(pool.dst)), L(Sym("err"), errs.S()), errs.stuckS())...)
}

func genC07churn(o *Out, r *Rng, thorough bool) {
	log.SetLevel(log.InfoLevel)
	nm, pm, nw, pw, nc := 6, 150, 4, 25, 5
	if thorough {
		nm, pm, nw, pw, nc = 40, 400, 20, 60, 150
	}
	for i := 0; i < nm; i++ {
		c07MuxChurn(o, r, pm, i)
	}
	for i := 0; i < nw; i++ {
		c07WsChurn(o, r, pw, 100+i)
	}
	for i := 0; i < nc; i++ {
		c07CoreChurn(o, r, 200+i)
	}
}

func init() { register("C07churn", genC07churn) }
