package main

// C19 - PRoPHET: predictabilities stay probabilities and gate forwarding.
//
// Generators (all drive the real pkg/routing.Prophet, built from the repo's working tree):
//   C19arith   long event sequences {encounter, ageing tick, vector import} and exhaustive
//              value sweeps of the three update formulas on a Prophet instance, every value read
//              back as its 64 bits (math.Float64bits)
//   C19core    a real routing.Core with the prophet algorithm and mock peers: peers appear
//              (encounter + summary vector sent), vectors arrive as metadata bundles, ageing,
//              data bundles submitted; observes the vectors in the metadata bundles handed to
//              the mock CLAs and which peers get data bundles; the aliasing probe; all
//              orderings of (own, peer) predictabilities for the forwarding rule
//   C19stress  concurrent peer-appeared / metadata-received / ageing / pending-check in a CHILD
//              process (a Go map fault is a fatal error, it must not kill the check)

import (
	"bytes"
	"fmt"
	"math"
	"os"
	"os/exec"
	"runtime"
	"sort"
	"strings"
	"sync"
	"sync/atomic"
	"time"

	log "github.com/sirupsen/logrus"

	"github.com/dtn7/dtn7-go/pkg/bpv7"
	"github.com/dtn7/dtn7-go/pkg/cla"
	"github.com/dtn7/dtn7-go/pkg/routing"
)

// pfNaming > 0 (generator C19names, prophet_names.go): the nodes 1..8 carry nearly colliding node names
// (letter case, prefixes, the same number under the other URI scheme); node identity stays the index.
var pfNaming int

func pfNode(i int) string {
	if pfNaming > 0 && i >= 1 && i <= 8 {
		return pfNameTab[pfNaming][i]
	}
	return fmt.Sprintf("dtn://n%d/", i)
}
func pfEID(i int) bpv7.EndpointID { return MustEID(pfNode(i)) }
func pfIdx(e bpv7.EndpointID) int {
	var i int
	if pfNaming > 0 {
		for k := 1; k <= 8; k++ {
			if pfNameTab[pfNaming][k] == e.String() {
				return k
			}
		}
	}
	if _, err := fmt.Sscanf(e.String(), "dtn://n%d/", &i); err != nil {
		return 9999
	}
	return i
}

var pfSpecials = []uint64{
	0x0000000000000000, // 0
	0x0000000000000001, // smallest denormal
	0x000FFFFFFFFFFFFF, // largest denormal
	0x0010000000000000, // smallest normal
	0x3C90000000000000, // 2^-54
	0x3CA0000000000000, // 2^-53
	0x3FD0000000000000, // 0.25
	0x3FDFFFFFFFFFFFFF, // 0.5 - ulp
	0x3FE0000000000000, // 0.5
	0x3FE0000000000001, // 0.5 + ulp
	0x3FE8000000000000, // 0.75
	0x3FEF5C28F5C28F5C, // 0.98
	0x3FEFFFFFFFFFFFFF, // 1 - 2^-53
	0x3FF0000000000000, // 1
}

// a value of [0,1]
func pfVal(r *Rng) float64 {
	switch r.Intn(5) {
	case 0:
		return math.Float64frombits(pfSpecials[r.Intn(len(pfSpecials))])
	case 1:
		return float64(r.U64()>>11) / float64(uint64(1)<<53)
	case 2: // uniform over the bit patterns of [0,1]: log-uniform magnitudes, many denormals
		return math.Float64frombits(r.U64() % 0x3FF0000000000001)
	case 3: // just below 1
		return math.Float64frombits(0x3FF0000000000000 - uint64(r.Intn(4096)))
	default: // denormals and tiny normals
		return math.Float64frombits(r.U64() % 0x0030000000000000)
	}
}

// a finite value outside [0,1] (separate out-of-contract stream)
func pfOut(r *Rng) float64 {
	v := 1 + float64(r.U64()>>11)/float64(uint64(1)<<53)
	if r.Bool() {
		v = -v + 1
	}
	if v >= 0 && v <= 1 {
		v = 1.5
	}
	return v
}

func fb(v float64) S { return U(math.Float64bits(v)) }

func pfMapS(m map[bpv7.EndpointID]float64) S {
	type kv struct {
		k int
		v float64
	}
	var l []kv
	for k, v := range m {
		l = append(l, kv{pfIdx(k), v})
	}
	sort.Slice(l, func(i, j int) bool { return l[i].k < l[j].k })
	var es []S
	for _, e := range l {
		es = append(es, L(I(e.k), fb(e.v)))
	}
	return LL(es)
}

func pfPeersS(m map[bpv7.EndpointID]map[bpv7.EndpointID]float64) S {
	var ks []int
	for k := range m {
		ks = append(ks, pfIdx(k))
	}
	sort.Ints(ks)
	var es []S
	for _, k := range ks {
		es = append(es, L(I(k), pfMapS(m[pfEID(k)])))
	}
	return LL(es)
}

func pfFinite(m map[bpv7.EndpointID]float64) bool {
	for _, v := range m {
		if math.IsInf(v, 0) || math.IsNaN(v) {
			return false
		}
	}
	return true
}

func pfVec(r *Rng, nodes int, val func(*Rng) float64, withSelf bool, self int) map[bpv7.EndpointID]float64 {
	m := map[bpv7.EndpointID]float64{}
	for k := 0; k < nodes; k++ {
		if k == self && !withSelf {
			continue
		}
		if r.Intn(3) > 0 || (k == self && withSelf) {
			m[pfEID(k)] = val(r)
		}
	}
	return m
}

// ---------------------------------------------------------------------------------------------

func pfConf(r *Rng, val func(*Rng) float64) routing.ProphetConfig {
	c := routing.ProphetConfig{PInit: val(r), Beta: val(r), Gamma: val(r), AgeInterval: "100000h"}
	if r.Intn(3) == 0 {
		c.PInit, c.Beta, c.Gamma = 0.75, 0.25, 0.98
	}
	return c
}

func pfConfS(c routing.ProphetConfig) S { return L(fb(c.PInit), fb(c.Beta), fb(c.Gamma)) }

// one event sequence on a bare Prophet
func pfSeq(o *Out, r *Rng, steps, nodes int, inrange bool) {
	val := pfVal
	cval := pfVal
	if !inrange {
		switch r.Intn(3) {
		case 0:
			cval = pfOut
		case 1:
			val = pfOut
		default:
			val, cval = pfOut, pfOut
		}
	}
	conf := pfConf(r, cval)
	if !inrange && conf.PInit == 0.75 {
		conf.Gamma = 1.25
	}
	p := routing.VerifNewProphetBare(conf)
	var evs []S
	peersS := pfPeersS(p.VerifPeerPreds())
	truncated := false
	for i := 0; i < steps; i++ {
		var ev S
		switch k := r.Intn(10); {
		case k < 4:
			peer := 1 + r.Intn(nodes-1)
			p.VerifEncounter(pfEID(peer))
			ev = L(Sym("enc"), I(peer), pfMapS(p.VerifPreds()))
		case k < 6:
			p.VerifAgeCron()
			ev = L(Sym("age"), pfMapS(p.VerifPreds()))
		default:
			peer := 1 + r.Intn(nodes-1)
			vec := pfVec(r, nodes, val, r.Intn(4) == 0, peer)
			vs := pfMapS(vec)
			p.VerifImport(pfEID(peer), vec)
			ev = L(Sym("imp"), I(peer), vs, pfMapS(p.VerifPreds()))
		}
		if !pfFinite(p.VerifPreds()) {
			// out-of-contract stream only: stop before infinities / NaNs (payloads are not modelled);
			// the dropped step is not part of the case, so neither is the vector it stored
			truncated = true
			break
		}
		evs = append(evs, ev)
		if !inrange {
			peersS = pfPeersS(p.VerifPeerPreds())
		}
	}
	if !truncated {
		peersS = pfPeersS(p.VerifPeerPreds())
	}
	o.Case("seq", B(inrange), pfConfS(conf), LL(evs), peersS)
}

// exhaustive sweep of the three formulas over the special values, for one configuration
func pfVals(o *Out, conf routing.ProphetConfig, ps []float64) {
	var rows []S
	a, b, c := pfEID(1), pfEID(2), pfEID(3)
	for _, x := range ps {
		for _, y := range ps {
			for _, z := range ps {
				p := routing.VerifNewProphetBare(conf)
				p.VerifSetPred(a, x)
				p.VerifEncounter(a)
				enc := p.VerifPreds()[a]
				p.VerifSetPred(a, x)
				p.VerifAgePred(a)
				age := p.VerifPreds()[a]
				// transitivity: own[c] = x, own[b] = y, b's vector says c -> z
				p.VerifSetPred(a, 0)
				p.VerifSetPred(c, x)
				p.VerifSetPred(b, y)
				p.VerifImport(b, map[bpv7.EndpointID]float64{c: z})
				tr := p.VerifPreds()[c]
				rows = append(rows, L(fb(x), fb(y), fb(z), fb(enc), fb(age), fb(tr)))
			}
		}
	}
	o.Case("vals", pfConfS(conf), LL(rows))
}

func genC19arith(o *Out, r *Rng, thorough bool) {
	var sp []float64
	for _, b := range pfSpecials {
		sp = append(sp, math.Float64frombits(b))
	}
	// value sweeps
	confs := []routing.ProphetConfig{
		{PInit: 0.75, Beta: 0.25, Gamma: 0.98},
		{PInit: 1, Beta: 1, Gamma: 1},
		{PInit: 0, Beta: 0, Gamma: 0},
		{PInit: math.Float64frombits(0x3FEFFFFFFFFFFFFF), Beta: math.Float64frombits(0x3FEFFFFFFFFFFFFF), Gamma: math.Float64frombits(0x3FEFFFFFFFFFFFFF)},
		{PInit: math.Float64frombits(1), Beta: math.Float64frombits(1), Gamma: math.Float64frombits(1)},
		{PInit: 0.5, Beta: math.Float64frombits(0x3CA0000000000000), Gamma: 0.5},
	}
	nconf := 3
	if thorough {
		nconf = 60
	}
	for i := 0; i < nconf; i++ {
		confs = append(confs, routing.ProphetConfig{PInit: pfVal(r), Beta: pfVal(r), Gamma: pfVal(r)})
	}
	for _, c := range confs {
		pfVals(o, c, sp)
	}
	// a sweep with random operands
	nrand := 2
	if thorough {
		nrand = 40
	}
	for i := 0; i < nrand; i++ {
		var ps []float64
		for j := 0; j < 12; j++ {
			ps = append(ps, pfVal(r))
		}
		pfVals(o, pfConf(r, pfVal), ps)
	}
	// event sequences
	type plan struct{ n, steps int }
	plans := []plan{{12, 40}, {8, 400}, {5, 3000}}
	if thorough {
		plans = []plan{{200, 40}, {80, 400}, {40, 3000}, {4, 20000}}
	}
	for _, pl := range plans {
		for i := 0; i < pl.n; i++ {
			pfSeq(o, r, pl.steps, 2+r.Intn(6), true)
		}
	}
	// out-of-contract stream (constants or received values outside [0,1]): correspondence only
	nout := 10
	if thorough {
		nout = 200
	}
	for i := 0; i < nout; i++ {
		pfSeq(o, r, 5+r.Intn(60), 2+r.Intn(4), false)
	}
}

// ---------------------------------------------------------------------------------------------
// real Core

var pfClock int64

func pfTime() time.Time {
	pfClock++
	return time.Now().Add(-time.Hour).Add(time.Duration(pfClock) * time.Millisecond)
}

func pfMetaBundle(src, dst int, vec map[bpv7.EndpointID]float64) bpv7.Bundle {
	b, err := bpv7.Builder().
		Source(pfNode(src)).Destination(pfNode(dst)).CreationTimestampTime(pfTime()).Lifetime("24h").
		BundleCtrlFlags(bpv7.MustNotFragmented).PayloadBlock(byte(1)).
		Canonical(bpv7.NewProphetBlock(vec)).Build()
	if err != nil {
		panic(err)
	}
	return b
}

// data bundles are addressed to the node EID itself: the predictability maps are keyed by node
// EIDs and SenderForBundle looks the bundle's destination EID up verbatim
func pfDataBundle(dst int, tag int) bpv7.Bundle {
	b, err := bpv7.Builder().
		Source("dtn://n0/app").Destination(pfNode(dst)).CreationTimestampTime(pfTime()).Lifetime("24h").
		PayloadBlock([]byte(fmt.Sprintf("data-%d", tag))).Build()
	if err != nil {
		panic(err)
	}
	return b
}

func pfBlockOf(b *bpv7.Bundle) (map[bpv7.EndpointID]float64, bool) {
	cb, err := b.ExtensionBlock(bpv7.ExtBlockTypeProphetBlock)
	if err != nil {
		return nil, false
	}
	pb, ok := cb.Value.(*bpv7.ProphetBlock)
	if !ok {
		return nil, false
	}
	return pb.GetPredictabilities(), true
}

func pfDecode(raw []byte) (bpv7.Bundle, bool) {
	b, err := bpv7.ParseBundle(bytes.NewReader(raw))
	return b, err == nil
}

// sends of one event: metadata vectors handed to CLAs and data bundles offered
func pfSends(n *Node, after int) (meta []S, data []S) {
	for _, s := range n.SendsSince(after) {
		b, ok := pfDecode(s.Raw)
		if !ok {
			data = append(data, L(Sym("undecodable"), Str(s.Peer)))
			continue
		}
		to := pfIdx(n.Peers[s.Peer].Peer)
		if m, isMeta := pfBlockOf(&b); isMeta {
			meta = append(meta, L(I(to), I(pfIdx(b.PrimaryBlock.SourceNode)), I(pfIdx(b.PrimaryBlock.Destination)), pfMapS(m)))
		} else {
			var tag int
			dst := pfIdx(b.PrimaryBlock.Destination)
			if pl, err := b.PayloadBlock(); err == nil {
				fmt.Sscanf(string(pl.Value.(*bpv7.PayloadBlock).Data()), "data-%d", &tag)
			}
			data = append(data, L(I(tag), I(dst), I(to)))
		}
	}
	return
}

func pfCoreNode(conf routing.ProphetConfig) (*Node, *routing.Prophet) {
	n := NewNode(pfNode(0), routing.RoutingConf{Algorithm: "prophet", ProphetConf: conf})
	p := n.Core.VerifProphet()
	if p == nil {
		panic("prophet not active")
	}
	return n, p
}

func pfPeerName(i int) string { return fmt.Sprintf("p%d", i) }

// the aliasing probe: the vector inside a metadata bundle already handed to a CLA must not
// change when the node's predictabilities change afterwards
func pfAlias(o *Out, r *Rng) {
	conf := routing.ProphetConfig{PInit: 0.75, Beta: 0.25, Gamma: 0.98, AgeInterval: "100000h"}
	n, p := pfCoreNode(conf)
	defer n.Destroy()
	p.VerifSetPred(pfEID(3), 0.5)
	before := n.LastSendN()
	n.PeerUp(pfPeerName(1), pfNode(1))
	var snap, live map[bpv7.EndpointID]float64
	found := false
	for _, s := range n.SendsSince(before) {
		if b, ok := pfDecode(s.Raw); ok {
			if m, isMeta := pfBlockOf(&b); isMeta {
				snap = m
				bb := s.Bndl
				live, found = pfBlockOf(&bb)
			}
		}
	}
	if !found {
		o.Case("alias", Sym("nometa"), L(), L())
		return
	}
	// change the node's state after the bundle has left: a new key, an aged value
	p.VerifEncounter(pfEID(7))
	p.VerifAgeCron()
	o.Case("alias", Sym("ok"), pfMapS(snap), pfMapS(live))
}

// forwarding rule: all orderings of (own, peer) predictabilities, unknown peers, direct delivery
func pfGate(o *Out, r *Rng, thorough bool) {
	vals := []float64{0, math.Float64frombits(1), 0.25, math.Float64frombits(0x3FDFFFFFFFFFFFFF), 0.5,
		math.Float64frombits(0x3FE0000000000001), math.Float64frombits(0x3FEFFFFFFFFFFFFF), 1}
	if thorough {
		for i := 0; i < 6; i++ {
			vals = append(vals, pfVal(r))
		}
	}
	conf := routing.ProphetConfig{PInit: 0.75, Beta: 0.25, Gamma: 0.98, AgeInterval: "100000h"}
	n, p := pfCoreNode(conf)
	defer n.Destroy()
	// destinations 100.. : one per (own, peer1) pair; peer2 gets the mirrored value, peer3 a random
	// one or no entry, peer4 never sends a vector, peer5 is a destination itself (direct delivery)
	type gc struct {
		dest   int
		ownSet bool
		own    float64
	}
	var cases []gc
	v1, v2, v3 := map[bpv7.EndpointID]float64{}, map[bpv7.EndpointID]float64{}, map[bpv7.EndpointID]float64{}
	d := 100
	for i, ov := range vals {
		for j, pv := range vals {
			e := pfEID(d)
			v1[e] = pv
			v2[e] = vals[(i+j)%len(vals)]
			if r.Intn(2) == 0 {
				v3[e] = pfVal(r)
			}
			cases = append(cases, gc{d, true, ov})
			d++
		}
	}
	// own entry absent (reads as 0)
	for _, pv := range vals {
		e := pfEID(d)
		v1[e] = pv
		cases = append(cases, gc{d, false, 0})
		d++
	}
	// every peer advertised something else before: the vector in force is the LAST one advertised, also when it
	// lacks a destination the earlier one had or is empty (peer 4)
	stale := map[bpv7.EndpointID]float64{}
	for _, c := range cases {
		stale[pfEID(c.dest)] = 1
	}
	for i := 1; i <= 4; i++ {
		n.Receive(pfMetaBundle(i, 0, stale), pfNode(i))
	}
	// vectors arrive as metadata bundles addressed to this node (real NotifyNewBundle path)
	n.Receive(pfMetaBundle(1, 0, v1), pfNode(1))
	n.Receive(pfMetaBundle(2, 0, v2), pfNode(2))
	n.Receive(pfMetaBundle(3, 0, v3), pfNode(3))
	n.Receive(pfMetaBundle(4, 0, map[bpv7.EndpointID]float64{}), pfNode(4))
	// what each peer advertises now - the gate is judged against this, not against the node's own copy of it
	adv := map[bpv7.EndpointID]map[bpv7.EndpointID]float64{pfEID(1): v1, pfEID(2): v2, pfEID(3): v3, pfEID(4): {}}
	// a vector addressed to somebody else must not be imported
	n.Receive(pfMetaBundle(4, 9, map[bpv7.EndpointID]float64{pfEID(100): 1, pfEID(5): 1}), pfNode(4))
	for _, c := range cases {
		if c.ownSet {
			p.VerifSetPred(pfEID(c.dest), c.own)
		}
	}
	p.VerifSetPred(pfEID(5), 1) // own predictability for the directly connected destination: maximal
	for i := 1; i <= 5; i++ {
		n.PeerUp(pfPeerName(i), pfNode(i))
	}
	cases = append(cases, gc{5, true, 1}, gc{4, false, 0}, gc{1, false, 0})
	own := p.VerifPreds()
	peers := adv
	var css []S
	for i := 1; i <= 5; i++ {
		css = append(css, I(i))
	}
	for k, c := range cases {
		before := n.LastSendN()
		n.Submit(pfDataBundle(c.dest, k))
		_, data := pfSends(n, before)
		// projection of the observed state on this destination
		e := pfEID(c.dest)
		var ownS []S
		if v, ok := own[e]; ok {
			ownS = append(ownS, L(I(c.dest), fb(v)))
		}
		var peersS []S
		for i := 1; i <= 5; i++ {
			if vec, ok := peers[pfEID(i)]; ok {
				var es []S
				if v, ok2 := vec[e]; ok2 {
					es = append(es, L(I(c.dest), fb(v)))
				}
				peersS = append(peersS, L(I(i), LL(es)))
			}
		}
		sort.Slice(data, func(i, j int) bool { return SString(data[i]) < SString(data[j]) })
		o.Case("gate", I(c.dest), I(k), LL(ownS), LL(peersS), LL(css), LL(data))
	}
}

// event sequence through the Core
func pfCoreSeq(o *Out, r *Rng, steps, nodes int) {
	conf := pfConf(r, pfVal)
	n, p := pfCoreNode(conf)
	defer n.Destroy()
	up := map[int]bool{}
	var evs []S
	tag := 0
	for i := 0; i < steps; i++ {
		before := n.LastSendN()
		var head []S
		switch k := r.Intn(12); {
		case k < 3:
			peer := 1 + r.Intn(nodes-1)
			if up[peer] {
				n.PeerDown(pfPeerName(peer))
				up[peer] = false
				head = []S{Sym("down"), I(peer)}
			} else {
				n.PeerUp(pfPeerName(peer), pfNode(peer))
				up[peer] = true
				head = []S{Sym("up"), I(peer)}
			}
		case k < 6:
			peer := 1 + r.Intn(nodes-1)
			vec := pfVec(r, nodes+2, pfVal, r.Intn(5) == 0, peer)
			vs := pfMapS(vec)
			dst := 0
			if r.Intn(5) == 0 {
				dst = 1 + r.Intn(nodes+1)
			}
			n.Receive(pfMetaBundle(peer, dst, vec), pfNode(peer))
			head = []S{Sym("recv"), I(peer), I(dst), vs}
		case k < 8:
			p.VerifAgeCron()
			head = []S{Sym("age")}
		case k < 11:
			dst := 1 + r.Intn(nodes+1)
			tag++
			n.Submit(pfDataBundle(dst, tag))
			head = []S{Sym("data"), I(tag), I(dst)}
		default:
			n.TickPending()
			head = []S{Sym("tick")}
		}
		meta, data := pfSends(n, before)
		sort.Slice(data, func(i, j int) bool { return SString(data[i]) < SString(data[j]) })
		evs = append(evs, L(LL(head), pfMapS(p.VerifPreds()), LL(meta), LL(data)))
	}
	o.Case("coreseq", pfConfS(conf), LL(evs), pfPeersS(p.VerifPeerPreds()))
}

func genC19core(o *Out, r *Rng, thorough bool) {
	pfAlias(o, r)
	pfLocks(o)
	pfGate(o, r, thorough)
	nseq, steps := 6, 60
	if thorough {
		nseq, steps = 60, 150
	}
	for i := 0; i < nseq; i++ {
		pfCoreSeq(o, r, steps, 3+r.Intn(4))
	}
}

// ---------------------------------------------------------------------------------------------
// lock discipline probe (deterministic, no timing): at every map access of the algorithm that
// can be observed from outside - the lookups of SenderForBundle (seen from the mock sender's
// GetPeerEndpointID, which the loop calls) and the writes of encounter / agePred / transitivity
// (seen from a logrus hook on their debug messages, emitted right after the write inside the
// locked region) - ask the mutex whether it is held.  The same for the look-ups of the metadata
// path: NotifyNewBundle reports "Updating peer metadata" / "Metadata for new peer" right after it
// has looked the sender up in peerPredictabilities and right before it stores the vector,
// transitivity reports right after its look-up of the stored vector, SenderForBundle reports its
// comparison of the two predictabilities inside the loop that reads both maps.

type pfLockObs struct {
	site string
	held bool
}

var pfProbe struct {
	mu  sync.Mutex
	on  bool
	p   *routing.Prophet
	obs []pfLockObs
}

func pfProbeAdd(site string, held bool) {
	pfProbe.mu.Lock()
	pfProbe.obs = append(pfProbe.obs, pfLockObs{site, held})
	pfProbe.mu.Unlock()
}

type pfLogHook struct{}

func (pfLogHook) Levels() []log.Level { return []log.Level{log.DebugLevel} }
func (pfLogHook) Fire(e *log.Entry) error {
	if !pfProbe.on || pfProbe.p == nil {
		return nil
	}
	switch e.Message {
	case "Updated predictability via encounter":
		pfProbeAdd("encounter.write", pfProbe.p.VerifDataWriteLockHeld())
	case "Updated predictability via ageing":
		pfProbeAdd("agePred.write", pfProbe.p.VerifDataWriteLockHeld())
	case "Updated predictability via transitivity":
		pfProbeAdd("transitivity.write", pfProbe.p.VerifDataWriteLockHeld())
	case "Updating peer metadata", "Metadata for new peer":
		pfProbeAdd("NotifyNewBundle.lookup", pfProbe.p.VerifDataWriteLockHeld())
	case "Updating transitive predictabilities", "Don't know peer's predictabilities":
		pfProbeAdd("transitivity.lookup", pfProbe.p.VerifDataWriteLockHeld())
	case "Found possible forwarding candidate", "Peer is not good forwarding candidate", "Peer already has this bundle", "Will forward bundle to peer.":
		pfProbeAdd("SenderForBundle.compare", pfProbe.p.VerifDataLockHeld())
	}
	return nil
}

type pfProbeCLA struct {
	peer bpv7.EndpointID
	ch   chan cla.ConvergenceStatus
}

func (m *pfProbeCLA) Start() (error, bool)                { return nil, false }
func (m *pfProbeCLA) Close() error                        { return nil }
func (m *pfProbeCLA) Channel() chan cla.ConvergenceStatus { return m.ch }
func (m *pfProbeCLA) Address() string                     { return "probe://" + m.peer.String() }
func (m *pfProbeCLA) IsPermanent() bool                   { return false }
func (m *pfProbeCLA) Send(b bpv7.Bundle) error            { return nil }
func (m *pfProbeCLA) GetPeerEndpointID() bpv7.EndpointID {
	if pfProbe.on && pfProbe.p != nil {
		pcs := make([]uintptr, 4)
		k := runtime.Callers(2, pcs)
		fr := runtime.CallersFrames(pcs[:k])
		for {
			f, more := fr.Next()
			if strings.HasSuffix(f.Function, "(*Prophet).SenderForBundle") {
				pfProbeAdd("SenderForBundle.lookup", pfProbe.p.VerifDataLockHeld())
				break
			}
			if !more {
				break
			}
		}
	}
	return m.peer
}

var pfHookOnce sync.Once

func pfLocks(o *Out) {
	conf := routing.ProphetConfig{PInit: 0.75, Beta: 0.25, Gamma: 0.98, AgeInterval: "100000h"}
	n, p := pfCoreNode(conf)
	defer n.Destroy()
	pfHookOnce.Do(func() { log.AddHook(pfLogHook{}) })
	old := log.GetLevel()
	log.SetLevel(log.DebugLevel)
	pfProbe.p, pfProbe.obs, pfProbe.on = p, nil, true
	m := &pfProbeCLA{peer: pfEID(1), ch: make(chan cla.ConvergenceStatus, 16)}
	n.Core.RegisterConvergable(m)
	n.Core.VerifPeerAppeared(m)                                                                       // encounter + sendMetadata
	n.Receive(pfMetaBundle(1, 0, map[bpv7.EndpointID]float64{pfEID(7): 0.5, pfEID(8): 1}), pfNode(1)) // import + transitivity
	p.VerifAgeCron()                                                                                  // ageing
	n.Submit(pfDataBundle(7, 1))                                                                      // SenderForBundle
	n.TickPending()
	n.Receive(pfMetaBundle(1, 0, map[bpv7.EndpointID]float64{pfEID(7): 1, pfEID(9): 0.25}), pfNode(1)) // a newer vector of a known peer
	n.Receive(pfMetaBundle(2, 0, map[bpv7.EndpointID]float64{}), pfNode(2))                            // an empty vector of a new peer
	n.Submit(pfDataBundle(7, 2))                                                                       // offered now: peer 1 advertises 1
	n.TickPending()
	pfProbe.on = false
	log.SetLevel(old)
	var es []S
	for _, ob := range pfProbe.obs {
		es = append(es, L(Sym(ob.site), B(ob.held)))
	}
	o.Case("locks", LL(es))
}

// ---------------------------------------------------------------------------------------------
// stress in a child process

func genC19stresschild(o *Out, r *Rng, thorough bool) {
	dur := 400 * time.Millisecond
	if thorough {
		dur = 6 * time.Second
	}
	conf := routing.ProphetConfig{PInit: 0.75, Beta: 0.25, Gamma: 0.98, AgeInterval: "100000h"}
	n, p := pfCoreNode(conf)
	for i := 10; i < 40; i++ {
		p.VerifSetPred(pfEID(i), 0.5)
	}
	for i := 1; i <= 3; i++ {
		n.PeerUp(pfPeerName(i), pfNode(i))
	}
	n.Submit(pfDataBundle(50, 1))
	var stop int32
	var wg sync.WaitGroup
	wg.Add(3)
	vec := map[bpv7.EndpointID]float64{}
	for i := 10; i < 40; i++ {
		vec[pfEID(i)] = 0.5
	}
	go func() { // what the Core's handler goroutine does, serially: peers appear, vectors arrive
		defer wg.Done()
		for i := 0; atomic.LoadInt32(&stop) == 0; i++ {
			m := n.Peers[pfPeerName(1+i%3)]
			n.Core.VerifPeerAppeared(m)
			v := map[bpv7.EndpointID]float64{}
			for k, x := range vec {
				v[k] = x
			}
			n.Core.VerifReceive(pfMetaBundle(1+i%3, 0, v), pfEID(1+i%3))
		}
	}()
	go func() { // the ageing cron job's goroutine
		defer wg.Done()
		for atomic.LoadInt32(&stop) == 0 {
			p.VerifAgeCron()
		}
	}()
	go func() { // the pending_bundles cron job's goroutine (SenderForBundle reads the maps)
		defer wg.Done()
		for atomic.LoadInt32(&stop) == 0 {
			n.Core.VerifCheckPending()
		}
	}()
	time.Sleep(dur)
	atomic.StoreInt32(&stop, 1)
	wg.Wait()
	o.Case("child", Sym("done"))
	o.Flush()
	os.RemoveAll(n.Dir)
	os.Exit(0) // do not wait for an orderly shutdown
}

// ---------------------------------------------------------------------------------------------
// concurrent summary vectors in a child process: bundles received by different convergence layers
// are handled in goroutines of their own, so the metadata path (NotifyNewBundle: look-up of the
// sender in peerPredictabilities, store of its vector, transitivity) runs several times at once,
// next to peers appearing (encounter + sendMetadata), ageing, SenderForBundle and status reads.
// Many peers: peerPredictabilities keeps growing (a growing Go map spends longest inside an
// assignment).  The work is a fixed number of rounds, not a time span.  At the end every
// predictability the node holds must be a probability.

func pfMetaVec(r *Rng, dests int) map[bpv7.EndpointID]float64 {
	m := map[bpv7.EndpointID]float64{}
	for k := 0; k < 1+r.Intn(3); k++ {
		m[pfEID(5000+r.Intn(dests))] = pfVal(r)
	}
	return m
}

// pfMetaClone is the metadata bundle `tmpl` with another source node, creation time and vector
// (Build() validates and sizes every bundle: too slow for tens of thousands of them).
func pfMetaClone(tmpl *bpv7.Bundle, src int, vec map[bpv7.EndpointID]float64) bpv7.Bundle {
	b := *tmpl
	b.PrimaryBlock.SourceNode = pfEID(src)
	b.PrimaryBlock.ReportTo = b.PrimaryBlock.SourceNode
	b.PrimaryBlock.CreationTimestamp = bpv7.NewCreationTimestamp(bpv7.DtnTimeFromTime(pfTime()), 0)
	b.CanonicalBlocks = nil
	for _, cb := range tmpl.CanonicalBlocks {
		if cb.TypeCode() == bpv7.ExtBlockTypeProphetBlock {
			nb := bpv7.NewCanonicalBlock(cb.BlockNumber, cb.BlockControlFlags, bpv7.NewProphetBlock(vec))
			nb.SetCRCType(cb.GetCRCType())
			b.CanonicalBlocks = append(b.CanonicalBlocks, nb)
		} else {
			b.CanonicalBlocks = append(b.CanonicalBlocks, cb)
		}
	}
	return b
}

func genC19metachild(o *Out, r *Rng, thorough bool) {
	// (with the lock taken after the look-up, 5 rounds already end in the runtime's fatal error in 19 of
	// 20 runs on 16 cores; 40 rounds x 4 children leave a wide margin for a busy machine)
	workers, rounds, perRound := 8, 40, 24
	if thorough {
		workers, rounds, perRound = 12, 300, 24
	}
	conf := routing.ProphetConfig{PInit: 0.75, Beta: 0.25, Gamma: 0.98, AgeInterval: "100000h"}
	n, p := pfCoreNode(conf)
	for i := 1; i <= 3; i++ {
		n.PeerUp(pfPeerName(i), pfNode(i))
	}
	n.Submit(pfDataBundle(5001, 1))
	n.Submit(pfDataBundle(5002, 2))
	// the bundles are built beforehand (deterministically from the seed); worker w delivers the
	// vectors of its own peers 100000*w + ..., new ones in every round and some known ones again
	type job struct {
		b    bpv7.Bundle
		from bpv7.EndpointID
	}
	jobs := make([][]job, workers)
	tmpl := pfMetaBundle(1, 0, map[bpv7.EndpointID]float64{})
	for w := 0; w < workers; w++ {
		for k := 0; k < rounds*perRound; k++ {
			peer := 100000*(w+1) + k
			if k > 8 && r.Intn(4) == 0 {
				peer = 100000*(w+1) + r.Intn(k) // a newer vector of a known peer
			}
			if r.Intn(16) == 0 {
				peer = 1 + r.Intn(3) // a connected peer
			}
			jobs[w] = append(jobs[w], job{pfMetaClone(&tmpl, peer, pfMetaVec(r, 12)), pfEID(peer)})
		}
	}
	var done int32
	var wg, bg sync.WaitGroup
	gate := make(chan struct{})
	for w := 0; w < workers; w++ {
		wg.Add(1)
		go func(w int) {
			defer wg.Done()
			<-gate
			for k := range jobs[w] {
				j := &jobs[w][k]
				if w == 0 && k%64 == 0 {
					n.Core.VerifReceive(j.b, j.from) // the whole reception path of the Core
				} else {
					p.VerifNotify(&j.b, j.from)
				}
			}
		}(w)
	}
	background := []func(i int){
		func(i int) { n.Core.VerifPeerAppeared(n.Peers[pfPeerName(1+i%3)]) }, // encounter + sendMetadata + pending check
		func(i int) { p.VerifAgeCron() },
		func(i int) { n.Core.VerifCheckPending() }, // SenderForBundle
		func(i int) { p.VerifSendMetadata(pfEID(1 + i%3)) },
		func(i int) { _ = p.VerifPreds() },
	}
	for _, f := range background {
		bg.Add(1)
		go func(f func(int)) {
			defer bg.Done()
			<-gate
			for i := 0; atomic.LoadInt32(&done) == 0; i++ {
				f(i)
				time.Sleep(300 * time.Microsecond) // leave the lock to the deliveries most of the time
			}
		}(f)
	}
	close(gate)
	wg.Wait()
	atomic.StoreInt32(&done, 1)
	bg.Wait()
	bad := ""
	chk := func(where string, k bpv7.EndpointID, v float64) {
		if bad == "" && !(v >= 0 && v <= 1) {
			bad = fmt.Sprintf("%s[%s] = %v", where, k, v)
		}
	}
	for k, v := range p.VerifPreds() {
		chk("own", k, v)
	}
	peers := p.VerifPeerPreds()
	for q, m := range peers {
		for k, v := range m {
			chk("peer "+q.String(), k, v)
		}
	}
	os.RemoveAll(n.Dir)
	if bad != "" {
		fmt.Fprintln(os.Stderr, "VERIF-RANGE "+bad)
		os.Exit(3)
	}
	fmt.Fprintf(os.Stderr, "VERIF-DONE peers=%d\n", len(peers))
	os.Exit(0) // do not wait for an orderly shutdown
}

func pfRunChild(prop string, seed int, tier string) (int, string) {
	exe, err := os.Executable()
	if err != nil {
		return -1, "noexe"
	}
	cmd := exec.Command(exe, "-prop", prop, "-seed", fmt.Sprint(seed), "-tier", tier, "-out", os.DevNull)
	var eb bytes.Buffer
	cmd.Stderr = &eb
	cmd.Stdout = &eb
	err = cmd.Run()
	code := 0
	if err != nil {
		code = 1
		if ee, ok := err.(*exec.ExitError); ok {
			code = ee.ExitCode()
		}
	}
	what := "clean"
	es := eb.String()
	switch {
	case strings.Contains(es, "concurrent map iteration and map write"):
		what = "concurrent-map-iteration"
	case strings.Contains(es, "concurrent map read and map write"):
		what = "concurrent-map-read"
	case strings.Contains(es, "concurrent map"):
		what = "concurrent-map-writes"
	case strings.Contains(es, "VERIF-RANGE"):
		what = "range"
	case strings.Contains(es, "fatal error"):
		what = "fatal"
	case strings.Contains(es, "panic:"):
		what = "panic"
	case code != 0:
		what = "exit"
	case !strings.Contains(es, "VERIF-DONE"):
		what = "incomplete"
	}
	return code, what
}

func genC19stress(o *Out, r *Rng, thorough bool) {
	exe, err := os.Executable()
	if err != nil {
		o.Case("stress", I(-1), Sym("noexe"))
		return
	}
	tier := "quick"
	if thorough {
		tier = "thorough"
	}
	runs := 1
	if thorough {
		runs = 3
	}
	for i := 0; i < runs; i++ {
		cmd := exec.Command(exe, "-prop", "C19stresschild", "-seed", fmt.Sprint(1+i), "-tier", tier, "-out", os.DevNull)
		var eb bytes.Buffer
		cmd.Stderr = &eb
		cmd.Stdout = &eb
		err = cmd.Run()
		code := 0
		if err != nil {
			code = 1
			if ee, ok := err.(*exec.ExitError); ok {
				code = ee.ExitCode()
			}
		}
		what := "clean"
		es := eb.String()
		switch {
		case strings.Contains(es, "concurrent map iteration and map write"):
			what = "concurrent-map-iteration"
		case strings.Contains(es, "concurrent map read and map write"):
			what = "concurrent-map-read"
		case strings.Contains(es, "concurrent map"):
			what = "concurrent-map-writes"
		case strings.Contains(es, "fatal error"):
			what = "fatal"
		case strings.Contains(es, "panic:"):
			what = "panic"
		case code != 0:
			what = "exit"
		}
		o.Case("stress", I(code), Sym(what))
	}
	// concurrent summary vectors (metadata path), several children with different seeds
	metaRuns := 4
	if thorough {
		metaRuns = 8
	}
	for i := 0; i < metaRuns; i++ {
		code, what := pfRunChild("C19metachild", int(r.U64()%1000000), tier)
		o.Case("stress2", Sym("metadata"), I(code), Sym(what))
	}
}

func init() {
	register("C19arith", genC19arith)
	register("C19core", genC19core)
	register("C19stress", genC19stress)
	register("C19stresschild", genC19stresschild)
	register("C19metachild", genC19metachild)
}
