package main

// C18sprayconc - the periodic metadata garbage collection of SprayAndWait / BinarySpray running
// concurrently with submit / forward / failure reports (the property ranges over schedules).
//
// Histories in the format of C18spray ("hist" cases, same model replay and property checkers), in
// which some events are "par-gc" events: the collection - made long by several thousand metadata
// leftovers of bundles the store does not know - is in progress while the event is processed.
// Where it starts is controlled through schedule points in the mock senders (no hook inside the
// unguarded code): before the event (sprayGCFirst), from the first GetPeerEndpointID call, i.e.
// from inside SenderForBundle between reading the metadata and writing it back (sprayGCAtSelect),
// or from inside the first Send, so that the failure reports arrive while it runs (sprayGCAtSend).
// The bundles of these histories are addressed to node 7, which never is a peer: nothing is ever
// delivered or deleted, so that a correct collection cannot change what is observed.
// Judged (send log + metadata accessor, after every event): successful transmissions to relays
// <= L-1, remaining + handed over = L (a failed transmission gives the copy back, a handed-out copy
// is counted), binary: copies announced + kept = copies held before, and the leftovers - and only
// they - are gone from the metadata map.

import (
	"runtime/debug"

	"github.com/dtn7/dtn7-go/pkg/bpv7"
)

func spcUp(c, node int, fail bool, gc int) sprayEv {
	return sprayEv{kind: sePeerUp, cla: c, node: node, fail: fail, gc: gc}
}

func spcCorpus() []sprayHist {
	tick := func(gc int) sprayEv { return sprayEv{kind: seTick, gc: gc} }
	submit := func(b int, gc int) sprayEv {
		return sprayEv{kind: seCreate, b: b, origin: true, dst: 7, blk: -1, prev: -1, gc: gc}
	}
	recv := func(b, blk, prev int, gc int) sprayEv {
		return sprayEv{kind: seCreate, b: b, origin: false, dst: 7, blk: blk, prev: prev, gc: gc}
	}
	setf := func(c int, f bool) sprayEv { return sprayEv{kind: seSetFail, cla: c, fail: f} }
	down := func(c int) sprayEv { return sprayEv{kind: sePeerDown, cla: c} }
	var hs []sprayHist
	for _, bin := range []bool{false, true} {
		for _, L := range []uint64{2, 3, 5, 8} {
			// a copy handed out while the collection runs (retry after a peer appeared), then further relays
			hs = append(hs, sprayHist{bin, L, false, 1, []sprayEv{submit(0, 0), spcUp(0, 1, false, sprayGCAtSelect), tick(0),
				spcUp(1, 2, false, 0), spcUp(2, 3, false, sprayGCFirst), tick(sprayGCAtSelect), spcUp(3, 4, false, 0), tick(0)}})
			// a failure reported while the collection runs gives the copy back
			hs = append(hs, sprayHist{bin, L, false, 1, []sprayEv{spcUp(0, 1, true, 0), submit(0, 0), tick(sprayGCAtSend), tick(sprayGCAtSend),
				setf(0, false), tick(0), spcUp(1, 2, false, 0), spcUp(2, 3, false, 0), tick(0)}})
			// a bundle submitted while the collection runs, relays present
			hs = append(hs, sprayHist{bin, L, false, 2, []sprayEv{spcUp(0, 1, false, 0), spcUp(1, 2, true, 0), submit(0, sprayGCFirst), tick(0),
				submit(1, sprayGCAtSelect), setf(1, false), tick(sprayGCAtSend), spcUp(2, 3, false, 0), down(0), tick(0)}})
		}
		// several failures reported at once into a running collection
		hs = append(hs, sprayHist{bin, 8, false, 1, []sprayEv{spcUp(0, 1, true, 0), spcUp(1, 2, true, 0), spcUp(2, 3, true, 0), spcUp(3, 4, false, 0),
			submit(0, sprayGCAtSend), tick(sprayGCAtSend), setf(0, false), setf(1, false), tick(sprayGCAtSelect), tick(0)}})
		// received bundles (binary: k copies announced; vanilla: a single copy, never relayed)
		hs = append(hs, sprayHist{bin, 4, false, 2, []sprayEv{spcUp(0, 1, false, 0), recv(0, 6, 3, sprayGCFirst), spcUp(1, 2, true, sprayGCAtSend),
			recv(1, 1, 2, sprayGCAtSelect), tick(sprayGCAtSelect), setf(1, false), tick(sprayGCAtSend), spcUp(2, 4, false, sprayGCAtSelect)}})
	}
	return hs
}

func spcRandom(r *Rng, bin bool) (int, []sprayEv) {
	nb := 1 + r.Intn(2)
	length := 7 + r.Intn(8)
	ngc := 0
	up := map[int]bool{}
	created := 0
	var evs []sprayEv
	for len(evs) < length {
		gc := 0
		if ngc < 4 && r.Intn(5) < 2 {
			gc = 1 + r.Intn(3)
		}
		k := r.Intn(100)
		switch {
		case created < nb && (k < 20 || len(evs) == 1):
			e := sprayEv{kind: seCreate, b: created, origin: r.Intn(5) != 0, dst: 7, blk: -1, prev: -1, gc: gc}
			if !e.origin {
				if bin && r.Intn(4) != 0 {
					e.blk = r.Intn(9)
				}
				if r.Intn(2) == 0 {
					e.prev = 1 + r.Intn(6)
				}
			}
			created++
			evs = append(evs, e)
		case k < 55:
			var free []int
			for c := 0; c < 6; c++ {
				if !up[c] {
					free = append(free, c)
				}
			}
			if len(free) == 0 {
				continue
			}
			c := free[r.Intn(len(free))]
			up[c] = true
			node := 1 + c
			if r.Intn(8) == 0 {
				node = 1 + r.Intn(6)
			}
			evs = append(evs, spcUp(c, node, r.Intn(3) == 0, gc))
		case k < 62:
			var ups []int
			for c := 0; c < 6; c++ {
				if up[c] {
					ups = append(ups, c)
				}
			}
			if len(ups) == 0 {
				continue
			}
			c := ups[r.Intn(len(ups))]
			delete(up, c)
			evs = append(evs, sprayEv{kind: sePeerDown, cla: c})
			gc = 0
		case k < 75:
			var ups []int
			for c := 0; c < 6; c++ {
				if up[c] {
					ups = append(ups, c)
				}
			}
			if len(ups) == 0 {
				continue
			}
			evs = append(evs, sprayEv{kind: seSetFail, cla: ups[r.Intn(len(ups))], fail: r.Intn(2) == 0})
			gc = 0
		default:
			evs = append(evs, sprayEv{kind: seTick, gc: gc})
		}
		if gc > 0 {
			ngc++
		}
	}
	return nb, evs
}

func genC18sprayconc(o *Out, r *Rng, thorough bool) {
	defer sprayWork()()
	defer debug.SetGCPercent(debug.SetGCPercent(400))
	mgr := bpv7.GetExtensionBlockManager()
	if !mgr.IsKnown(bpv7.ExtBlockTypeBinarySprayBlock) {
		_ = mgr.Register(bpv7.NewBinarySprayBlock(0))
	}
	if sprayReplay(o) {
		return
	}
	for _, h := range spcCorpus() {
		o.Case("hist", sprayRun(h.binary, h.L, h.sync, h.nb, h.evs)...)
	}
	nh := 14
	if thorough {
		nh = 400
	}
	for i := 0; i < nh; i++ {
		bin := i%2 == 1
		L := uint64(2 + r.Intn(7))
		nb, evs := spcRandom(r, bin)
		o.Case("hist", sprayRun(bin, L, false, nb, evs)...)
	}
}

func init() { register("C18sprayconc", genC18sprayconc) }
