package main

// C03state: the clause "the serialiser always writes that value" and "every mismatch is rejected"
// when the serialiser / parser is NOT in its initial state and NOT alone:
//
//   ser   serialisations into writers that fail at every (quick: every 2nd..) offset, each followed
//         by a successful serialisation of another bundle; also runs of several failures in a row.
//         Every successful output is reported with the parser's verdict; the driver judges the CRC
//         of every block of the output with the model's CRC-16/X-25 / CRC-32C over the independently
//         delimited block bytes.
//   conc  G goroutines serialise their own bundle and parse intact and damaged encodings of common
//         bundles at the same time.  Reported per bundle: the reference encoding produced alone, the
//         distinct outputs that differ from it, how often the intact encoding was rejected and how
//         often each damaged encoding (rejected when tried alone) was accepted.
//
// The number of rounds is fixed (no time limits): on an unchanged tree the cases only differ by the
// clock value inside the generated bundles.

import (
	"bytes"
	"errors"
	"io"
	"sync"
	"sync/atomic"

	"github.com/dtn7/dtn7-go/pkg/bpv7"
)

var errCrcStateWriter = errors.New("scripted writer failure")

// limitWriter takes limit bytes and fails afterwards. partial: the failing Write still takes the
// bytes that fit (n < len(p), err != nil); otherwise it takes nothing of the failing Write.
type limitWriter struct {
	buf     bytes.Buffer
	limit   int
	partial bool
	failed  bool
}

func (w *limitWriter) Write(p []byte) (int, error) {
	if w.failed {
		return 0, errCrcStateWriter
	}
	room := w.limit - w.buf.Len()
	if len(p) <= room {
		return w.buf.Write(p)
	}
	w.failed = true
	if w.partial && room > 0 {
		w.buf.Write(p[:room])
		return room, errCrcStateWriter
	}
	return 0, errCrcStateWriter
}

// serialise through the three entry points the node uses: Bundle.WriteBundle, Bundle.MarshalCbor
// and (for a single canonical block) CanonicalBlock.MarshalCbor.
func crcStateWrite(b *bpv7.Bundle, via int, w io.Writer) (err error, panicked bool) {
	defer func() {
		if r := recover(); r != nil {
			err, panicked = errors.New("panic"), true
		}
	}()
	switch via {
	case 1:
		return b.MarshalCbor(w), false
	case 2:
		// the canonical blocks one by one, as a caller that frames blocks itself would do; the output is
		// still a bundle: the caller writes the array frame and the primary block
		if _, err := w.Write([]byte{0x9f}); err != nil {
			return err, false
		}
		if err := b.PrimaryBlock.MarshalCbor(w); err != nil {
			return err, false
		}
		for i := range b.CanonicalBlocks {
			if err := b.CanonicalBlocks[i].MarshalCbor(w); err != nil {
				return err, false
			}
		}
		_, err := w.Write([]byte{0xff})
		return err, false
	default:
		return b.WriteBundle(w), false
	}
}

// crcStateBundle: fully CRC-protected bundle; with big set the payload is replaced by one of several KiB
// (long CRC computations, and more than one write per block).
func crcStateBundle(r *Rng, big bool) bpv7.Bundle {
	b := protectedBundle(r, 300)
	if big {
		n := []int{200, 1000, 4096, 16384}[r.Intn(4)]
		pl, _ := b.PayloadBlock()
		*pl.Value.(*bpv7.PayloadBlock) = bpv7.PayloadBlock(r.Bytes(n))
	}
	return b
}

// crcStateMultiMap: blocks whose encoding depends on Go's map iteration order.
func crcStateMultiMap(b *bpv7.Bundle) bool {
	for i := range b.CanonicalBlocks {
		switch x := b.CanonicalBlocks[i].Value.(type) {
		case *bpv7.DTLSRBlock:
			if len(x.GetPeerData().Peers) >= 2 {
				return true
			}
		case *bpv7.ProphetBlock:
			if len(x.GetPredictabilities()) >= 2 {
				return true
			}
		}
	}
	return false
}

func genC03state(o *Out, r *Rng, thorough bool) {
	registerAllBlocks()

	// ------------------------------------------------------------------ ser
	nb, step := 8, 2
	if thorough {
		nb, step = 60, 1
	}
	var pool []bpv7.Bundle
	var refs [][]byte
	for len(pool) < nb {
		b := crcStateBundle(r, false)
		bs, err := encodeBundle(&b)
		if err != nil {
			continue
		}
		pool = append(pool, b)
		refs = append(refs, bs)
		ok0, pn0 := accepts(bs)
		o.Case("ref", U(dtnNowMs()), X(bs), B(ok0), B(pn0))
	}
	for vi := range pool {
		first := r.Intn(step)
		for limit := first; limit < len(refs[vi]); limit += step {
			// one to three failing serialisations in a row (the same or other bundles, each cut at its own offset)...
			nfail := 1
			if r.Intn(4) == 0 {
				nfail = 2 + r.Intn(2)
			}
			var fails []S
			allFailed := true
			for k := 0; k < nfail; k++ {
				v, lim := vi, limit
				if k > 0 {
					v = r.Intn(len(pool))
					lim = r.Intn(len(refs[v]))
				}
				via := r.Intn(3)
				lw := &limitWriter{limit: lim, partial: r.Bool()}
				err, pn := crcStateWrite(&pool[v], via, lw)
				if err == nil || pn {
					allFailed = false
				}
				fails = append(fails, L(I(v), I(lim), I(via), B(lw.partial), B(err != nil), B(pn), B(crcStateMultiMap(&pool[v]) || bytes.HasPrefix(refs[v], lw.buf.Bytes()))))
			}
			// ... then a serialisation into a healthy writer
			ni := r.Intn(len(pool))
			via := r.Intn(3)
			var buf bytes.Buffer
			err, pn := crcStateWrite(&pool[ni], via, &buf)
			out := append([]byte(nil), buf.Bytes()...)
			now := dtnNowMs()
			ok, ppn := accepts(out)
			o.Case("ser", U(now), LL(fails), B(allFailed), I(ni), I(via), X(refs[ni]), B(err == nil), B(pn), X(out), B(ok), B(ppn))
		}
	}

	// ------------------------------------------------------------------ conc
	G, iters, rounds, nflip := 8, 1500, 3, 6
	if thorough {
		G, iters, rounds, nflip = 12, 6000, 12, 12
	}
	for round := 0; round < rounds; round++ {
		var bs []bpv7.Bundle
		var ref [][]byte
		for len(bs) < G {
			b := crcStateBundle(r, len(bs)%2 == 1)
			e, err := encodeBundle(&b)
			if err != nil || crcStateMultiMap(&b) {
				continue // "equal to the output produced alone" needs an encoding that does not depend on map order
			}
			if ok, _ := accepts(e); !ok {
				// reported by the ref case below; cannot serve as an intact encoding
				o.Case("ref", U(dtnNowMs()), X(e), B(false), B(false))
				continue
			}
			bs = append(bs, b)
			ref = append(ref, e)
		}
		// damaged encodings: single-bit flips and short bursts, kept only if rejected when tried alone
		type flip struct {
			enc      []byte
			accepted int64
			tries    int64
		}
		flips := make([][]*flip, G)
		for g := 0; g < G; g++ {
			for len(flips[g]) < nflip {
				m := append([]byte(nil), ref[g]...)
				p := r.Intn(len(m))
				if r.Intn(3) == 0 {
					k := 1 + r.Intn(2)
					for j := 0; j < k && p+j < len(m); j++ {
						m[p+j] ^= byte(1 + r.Intn(255))
					}
				} else {
					m[p] ^= 1 << uint(r.Intn(8))
				}
				if ok, pn := accepts(m); ok || pn {
					continue // an accepted flip is C03flips' business (every position is tried there)
				}
				flips[g] = append(flips[g], &flip{enc: m})
			}
		}
		type wrong struct {
			out   []byte
			count int
		}
		wrongs := make([][]wrong, G)
		serErrs := make([]int64, G)
		panics := make([]int64, G)
		intactRej := make([]int64, G)
		intactTries := make([]int64, G)
		var wmu sync.Mutex
		var start, done sync.WaitGroup
		start.Add(1)
		// the order in which a goroutine walks the common bundles is fixed per goroutine (from r), so the
		// work is the same in every run; only the interleaving differs
		offs := make([]int, G)
		for g := range offs {
			offs[g] = r.Intn(G)
		}
		for g := 0; g < G; g++ {
			done.Add(1)
			go func(g int) {
				defer done.Done()
				mine := bs[g]
				var buf bytes.Buffer
				start.Wait()
				for it := 0; it < iters; it++ {
					// serialise the own bundle
					buf.Reset()
					err, pn := crcStateWrite(&mine, it%3, &buf)
					switch {
					case pn:
						atomic.AddInt64(&panics[g], 1)
					case err != nil:
						atomic.AddInt64(&serErrs[g], 1)
					case !bytes.Equal(buf.Bytes(), ref[g]):
						wmu.Lock()
						found := false
						for i := range wrongs[g] {
							if bytes.Equal(wrongs[g][i].out, buf.Bytes()) {
								wrongs[g][i].count++
								found = true
							}
						}
						if !found && len(wrongs[g]) < 4 {
							wrongs[g] = append(wrongs[g], wrong{append([]byte(nil), buf.Bytes()...), 1})
						} else if !found {
							wrongs[g][3].count++
						}
						wmu.Unlock()
					}
					// parse an intact and a damaged encoding of the bundle all goroutines are at
					c := (it / 4) % G
					if it%2 == 1 {
						c = (c + offs[g]) % G
					}
					atomic.AddInt64(&intactTries[c], 1)
					if ok, pn := accepts(ref[c]); !ok {
						atomic.AddInt64(&intactRej[c], 1)
						if pn {
							atomic.AddInt64(&panics[c], 1)
						}
					}
					f := flips[c][(it+g)%len(flips[c])]
					atomic.AddInt64(&f.tries, 1)
					if ok, pn := accepts(f.enc); ok || pn {
						atomic.AddInt64(&f.accepted, 1)
					}
				}
			}(g)
		}
		start.Done()
		done.Wait()
		now := dtnNowMs()
		for g := 0; g < G; g++ {
			var ws, fs []S
			for _, w := range wrongs[g] {
				ws = append(ws, L(X(w.out), I(w.count)))
			}
			for _, f := range flips[g] {
				fs = append(fs, L(X(f.enc), I64(f.accepted), I64(f.tries)))
			}
			o.Case("conc", U(now), I(G), I(iters), X(ref[g]), LL(ws), I64(serErrs[g]), I64(panics[g]), I64(intactRej[g]), I64(intactTries[g]), LL(fs))
		}
	}
}

func init() { register("C03state", genC03state) }
