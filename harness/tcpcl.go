package main

// C11 (and the TCPCLv4 sender clause of C04): the real OutgoingTransfer / IncomingTransfer /
// TransferManager of pkg/cla/tcpclv4/internal/utils, driven through the re-exports of
// pkg/cla/tcpclv4/verif_export_tcpcl.go.

import (
	"bytes"
	"fmt"
	"io"
	"os"
	"os/exec"
	"sort"
	"strconv"
	"strings"
	"sync"
	"syscall"
	"time"

	"github.com/dtn7/dtn7-go/pkg/bpv7"
	tc "github.com/dtn7/dtn7-go/pkg/cla/tcpclv4"
)

// ---------------------------------------------------------------------------------------------
// helpers

func tcBundle(src string, payload []byte) (bpv7.Bundle, []byte) {
	b, err := bpv7.Builder().CRC(bpv7.CRC32).Source(src).Destination("dtn://dst/").
		CreationTimestampTime(bpv7.DtnTime(4000000000000).Time()).Lifetime("30m").
		PayloadBlock(payload).Build()
	if err != nil {
		panic(err)
	}
	return b, tcEncode(b)
}

func tcEncode(b bpv7.Bundle) []byte {
	var buf bytes.Buffer
	if err := b.MarshalCbor(&buf); err != nil {
		panic(err)
	}
	return buf.Bytes()
}

type tcSeg struct {
	flags uint64
	tid   uint64
	data  []byte
	cap   int
}

func tcSegS(s tcSeg) S { return L(U(s.flags), U(s.tid), X(s.data), I(s.cap)) }

// tcNext calls the real NextSegment once: class seg|eof|err|panic.
func tcNext(t *tc.VerifOutgoingTransfer, m uint64) (seg tcSeg, class string) {
	defer func() {
		if e := recover(); e != nil {
			class = "panic"
		}
	}()
	dtm, err := t.NextSegment(m)
	if err == io.EOF {
		return seg, "eof"
	} else if err != nil {
		return seg, "err"
	}
	return tcSeg{uint64(dtm.Flags), dtm.TransferId, dtm.Data, cap(dtm.Data)}, "seg"
}

// tcRunOut calls NextSegment until it stops returning segments; "spin" after maxCalls segments.
func tcRunOut(t *tc.VerifOutgoingTransfer, m uint64, maxCalls int) (segs []tcSeg, end string) {
	for i := 0; i < maxCalls; i++ {
		s, class := tcNext(t, m)
		if class != "seg" {
			return segs, class
		}
		segs = append(segs, s)
	}
	return segs, "spin"
}

func tcRawOut(tid uint64, data []byte) *tc.VerifOutgoingTransfer {
	t, w := tc.VerifNewOutgoingTransfer(tid)
	go func() {
		_, _ = w.Write(data)
		_ = w.(io.Closer).Close()
	}()
	return t
}

// one direct sender -> receiver run
func tcXferCase(o *Out, tid, m uint64, data []byte, bndl *bpv7.Bundle) {
	var out *tc.VerifOutgoingTransfer
	src := "raw"
	if bndl != nil {
		out = tc.VerifNewBundleOutgoingTransfer(tid, *bndl)
		src = "bundle"
	} else {
		out = tcRawOut(tid, data)
	}
	segs, end := tcRunOut(out, m, len(data)+3)
	in := tc.VerifNewIncomingTransfer(tid)
	var segS, rxS []S
	for _, s := range segs {
		segS = append(segS, tcSegS(s))
		ack, err := in.NextSegment(tc.VerifNewXferSegment(tc.VerifSegmentFlags(s.flags), s.tid, s.data))
		if err != nil {
			rxS = append(rxS, L(Sym("err")))
		} else {
			rxS = append(rxS, L(Sym("ack"), U(uint64(ack.Flags)), U(ack.TransferId), U(ack.AckLen), B(in.IsFinished())))
		}
	}
	bres := L(Sym("none"))
	got := in.VerifBytes()
	if bndl != nil {
		if b2, err := in.ToBundle(); err != nil {
			bres = L(Sym("err"))
		} else {
			bres = L(Sym("ok"), X(tcEncode(b2)))
		}
	}
	o.Case("xfer", U(tid), U(m), X(data), Sym(src),
		LL(segS), Sym(end), LL(rxS), B(in.IsFinished()), X(got), bres)
}

// ---------------------------------------------------------------------------------------------
// unbounded FIFO between two message channels (stands for the socket between two nodes)

type tcPump struct {
	in     chan tc.VerifMessage
	out    chan tc.VerifMessage
	inject chan tc.VerifMessage
	done   chan struct{}
}

func newTcPump(in, out chan tc.VerifMessage, drop func(tc.VerifMessage) bool) *tcPump {
	p := &tcPump{in: in, out: out, inject: make(chan tc.VerifMessage), done: make(chan struct{})}
	go func() {
		var q []tc.VerifMessage
		for {
			var o chan tc.VerifMessage
			var head tc.VerifMessage
			if len(q) > 0 {
				o, head = p.out, q[0]
			}
			select {
			case <-p.done:
				return
			case m := <-p.in:
				if !drop(m) {
					q = append(q, m)
				}
			case m := <-p.inject:
				q = append(q, m)
			case o <- head:
				q = q[1:]
			}
		}
	}()
	return p
}

const tcMarkerTid = uint64(1)<<63 + 5

func tcDropMarker(m tc.VerifMessage) bool {
	switch m := m.(type) {
	case *tc.VerifXferAck:
		return m.TransferId == tcMarkerTid
	}
	return false
}

type tcSide struct {
	tm        *tc.VerifTransferManager
	in        chan tc.VerifMessage
	out       chan tc.VerifMessage
	delivered [][]byte
	errs      int
	marker    chan struct{}
}

func newTcSide(m uint64) *tcSide {
	s := &tcSide{in: make(chan tc.VerifMessage), out: make(chan tc.VerifMessage), marker: make(chan struct{})}
	s.tm = tc.VerifNewTransferManager(s.in, s.out, m)
	bs, es := s.tm.Exchange()
	go func() {
		for {
			select {
			case b := <-bs:
				if b.PrimaryBlock.SourceNode.String() == "dtn://marker/" {
					close(s.marker)
					return
				}
				s.delivered = append(s.delivered, tcEncode(b))
			case <-es:
				s.errs++
				close(s.marker)
				return
			}
		}
	}()
	return s
}

// two TransferManagers, nA bundles sent A->B and nB bundles B->A, all concurrently
func tcMgrCase(o *Out, mA, mB uint64, toB, toA [][]byte, bToB, bToA []bpv7.Bundle) {
	a, b := newTcSide(mA), newTcSide(mB)
	pAB := newTcPump(a.out, b.in, tcDropMarker)
	pBA := newTcPump(b.out, a.in, tcDropMarker)
	resB := make([]string, len(bToB))
	resA := make([]string, len(bToA))
	var wg sync.WaitGroup
	send := func(tm *tc.VerifTransferManager, bn bpv7.Bundle, res *string) {
		defer wg.Done()
		*res = tcSendClass(tm.Send(bn))
	}
	for i := range bToB {
		wg.Add(1)
		go send(a.tm, bToB[i], &resB[i])
	}
	for i := range bToA {
		wg.Add(1)
		go send(b.tm, bToA[i], &resA[i])
	}
	wg.Wait()
	// a marker transfer behind everything already forwarded: when it is handed up, every earlier
	// delivery of that side has happened (handle() is sequential)
	mb, _ := tcBundle("dtn://marker/", []byte{1})
	var mbuf bytes.Buffer
	_ = mb.MarshalCbor(&mbuf)
	mk := tc.VerifNewXferSegment(tc.VerifSegmentStart|tc.VerifSegmentEnd, tcMarkerTid, mbuf.Bytes())
	pAB.inject <- mk
	pBA.inject <- mk
	dead := 0
	for _, s := range []*tcSide{a, b} {
		select {
		case <-s.marker:
		case <-time.After(20 * time.Second):
			dead++
		}
	}
	_ = a.tm.Close()
	_ = b.tm.Close()
	close(pAB.done)
	close(pBA.done)
	enc := func(xs [][]byte, rs []string) S {
		var l []S
		for i := range xs {
			l = append(l, L(X(xs[i]), Sym(rs[i])))
		}
		return LL(l)
	}
	del := func(xs [][]byte) S {
		sort.Slice(xs, func(i, j int) bool { return bytes.Compare(xs[i], xs[j]) < 0 })
		var l []S
		for _, x := range xs {
			l = append(l, X(x))
		}
		return LL(l)
	}
	o.Case("mgr", U(mA), U(mB), enc(toB, resB), enc(toA, resA), del(b.delivered), del(a.delivered),
		I(a.errs+b.errs), I(dead))
}

func tcSendClass(err error) string {
	switch {
	case err == nil:
		return "ok"
	case strings.Contains(err.Error(), "received unexpected message"):
		return "refused"
	case strings.HasPrefix(err.Error(), "timeout"):
		return "timeout"
	case strings.Contains(err.Error(), "was stopped"):
		return "stopped"
	}
	return "readerr"
}

// ---------------------------------------------------------------------------------------------
// scripted peer: acknowledges the first k segments honestly, then misbehaves

type tcPeerRes struct {
	result   string
	read     int
	sawEnd   bool
	recvLen  uint64
	lastAck  uint64
	segFlags []uint64
	segLens  []int
}

func tcPeerRun(m uint64, bn bpv7.Bundle, fault string, k int) tcPeerRes {
	in := make(chan tc.VerifMessage)
	out := make(chan tc.VerifMessage)
	tm := tc.VerifNewTransferManager(in, out, m)
	var res tcPeerRes
	var mu sync.Mutex
	quit := make(chan struct{})
	go func() {
		faulty := false
		for {
			var msg tc.VerifMessage
			select {
			case <-quit:
				return
			case msg = <-out:
			}
			seg, ok := msg.(*tc.VerifXferSegment)
			if !ok {
				continue
			}
			mu.Lock()
			res.read++
			n := res.read
			res.recvLen += uint64(len(seg.Data))
			if seg.Flags&tc.VerifSegmentEnd != 0 {
				res.sawEnd = true
			}
			res.segFlags = append(res.segFlags, uint64(seg.Flags))
			res.segLens = append(res.segLens, len(seg.Data))
			acked := res.recvLen
			mu.Unlock()
			var reply tc.VerifMessage
			if fault == "none" || n <= k {
				reply = tc.VerifNewXferAck(seg.Flags, seg.TransferId, acked)
				mu.Lock()
				res.lastAck = acked
				mu.Unlock()
			} else if !faulty {
				faulty = true
				switch fault {
				case "refuse":
					reply = tc.VerifNewXferRefuse(tc.VerifRefusalCode(2), seg.TransferId)
				case "close":
					_ = tm.Close()
				case "stopread":
					<-quit
					return
				}
			}
			if reply != nil {
				select {
				case in <- reply:
				case <-quit:
					return
				}
			}
		}
	}()
	done := make(chan string, 1)
	go func() { done <- tcSendClass(tm.Send(bn)) }()
	result := "hang"
	select {
	case result = <-done:
	case <-time.After(60 * time.Second):
	}
	// snapshot of what the peer had obtained when Send returned
	mu.Lock()
	r := res
	r.result = result
	r.segFlags = append([]uint64(nil), res.segFlags...)
	r.segLens = append([]int(nil), res.segLens...)
	mu.Unlock()
	_ = tm.Close()
	close(quit)
	return r
}

type tcPeerJob struct {
	m     uint64
	bn    bpv7.Bundle
	enc   []byte
	fault string
	k     int
	res   tcPeerRes
}

func tcPeerCases(o *Out, jobs []*tcPeerJob) {
	var wg sync.WaitGroup
	sem := make(chan struct{}, 256)
	for _, j := range jobs {
		wg.Add(1)
		sem <- struct{}{}
		go func(j *tcPeerJob) {
			defer wg.Done()
			j.res = tcPeerRun(j.m, j.bn, j.fault, j.k)
			<-sem
		}(j)
	}
	wg.Wait()
	for _, j := range jobs {
		var fl, ln []S
		for i := range j.res.segFlags {
			fl = append(fl, U(j.res.segFlags[i]))
			ln = append(ln, I(j.res.segLens[i]))
		}
		o.Case("peer", U(j.m), X(j.enc), Sym(j.fault), I(j.k),
			Sym(j.res.result), I(j.res.read), B(j.res.sawEnd), U(j.res.recvLen), U(j.res.lastAck), LL(fl), LL(ln))
	}
}

// ---------------------------------------------------------------------------------------------

func tcDivisors(n int) []int {
	var d []int
	for i := 1; i <= n; i++ {
		if n%i == 0 {
			d = append(d, i)
		}
	}
	return d
}

func genC11tcpcl(o *Out, r *Rng, thorough bool) {
	// (1) raw byte streams: every length L, every segment size 1..L+2 (all divisor cases)
	maxL := 64
	if thorough {
		maxL = 200
	}
	for l := 1; l <= maxL; l++ {
		data := r.Bytes(l)
		for m := 1; m <= l+2; m++ {
			tcXferCase(o, r.U64()>>uint(r.Intn(64)), uint64(m), data, nil)
		}
	}
	// (2) real bundles of consecutive payload sizes, every segment size
	np := 6
	if thorough {
		np = 40
	}
	for p := 0; p < np; p++ {
		bn, enc := tcBundle("dtn://src/", r.Bytes(p))
		for m := 1; m <= len(enc)+2; m++ {
			tcXferCase(o, uint64(p), uint64(m), enc, &bn)
		}
	}
	// (3) sizes around the 1 MiB default MRU (and beyond the sender's own cap)
	const mib = 1 << 20
	big := [][2]int{{mib, mib}, {mib + 1, mib}}
	if thorough {
		big = append(big, [][2]int{{mib, mib / 4}, {mib - 1, mib}, {2 * mib, mib}, {2*mib + 1, mib}, {2 * mib, 2 * mib}, {mib, mib + 1},
			{mib, mib - 1}, {3 * mib, 4 * mib}, {mib, 65536}, {mib + 65536, 65536}}...)
	}
	for _, lm := range big {
		tcXferCase(o, 7, uint64(lm[1]), r.Bytes(lm[0]), nil)
	}
	// a bundle whose encoding is an exact multiple of 1 MiB-sized segments cannot be hit by choosing
	// the payload alone without knowing the header size: search the payload size
	if thorough {
		_, e0 := tcBundle("dtn://src/", make([]byte, mib-200))
		want := mib - 200 + (mib - len(e0))
		bn, enc := tcBundle("dtn://src/", r.Bytes(want))
		tcXferCase(o, 8, mib, enc, &bn)
		tcXferCase(o, 8, mib/2, enc, &bn)
		tcXferCase(o, 8, mib-1, enc, &bn)
	}

	// (4) two TransferManagers, concurrent senders in both directions
	rounds := 6
	if thorough {
		rounds = 60
	}
	for i := 0; i < rounds; i++ {
		nA, nB := 1+r.Intn(4), r.Intn(5)
		if i == 0 {
			nA, nB = 1, 0
		}
		var toB, toA [][]byte
		var bToB, bToA []bpv7.Bundle
		for j := 0; j < nA; j++ {
			bn, enc := tcBundle(fmt.Sprintf("dtn://a%d-%d/", i, j), r.Bytes(r.Intn(40)))
			toB, bToB = append(toB, enc), append(bToB, bn)
		}
		for j := 0; j < nB; j++ {
			bn, enc := tcBundle(fmt.Sprintf("dtn://b%d-%d/", i, j), r.Bytes(r.Intn(40)))
			toA, bToA = append(toA, enc), append(bToA, bn)
		}
		// segment sizes: a divisor of the first bundle's length on either side, or an arbitrary one
		pick := func(encs [][]byte) uint64 {
			switch r.Intn(4) {
			case 0:
				return uint64(1 + r.Intn(100))
			case 1:
				return mib
			}
			if len(encs) == 0 {
				return uint64(1 + r.Intn(100))
			}
			d := tcDivisors(len(encs[0]))
			return uint64(d[r.Intn(len(d))])
		}
		tcMgrCase(o, pick(toB), pick(toA), toB, toA, bToB, bToA)
	}

	// (5) scripted peer: stops acknowledging / refuses / closes / stops reading after the k-th segment.
	// Send's acknowledgement timeout is a real 10 s timer; all cases run concurrently.
	var jobs []*tcPeerJob
	nb := 2
	if thorough {
		nb = 8
	}
	for i := 0; i < nb; i++ {
		bn, enc := tcBundle(fmt.Sprintf("dtn://p%d/", i), r.Bytes(r.Intn(30)))
		l := len(enc)
		ds := tcDivisors(l)
		ms := []int{l, l + 1, (l + 1) / 2, (l + 2) / 3, ds[len(ds)/2]}
		if thorough {
			ms = append(ms, 1+r.Intn(l), (l+4)/5, ds[r.Intn(len(ds))])
		}
		for _, m := range ms {
			n := (l + m - 1) / m
			jobs = append(jobs, &tcPeerJob{m: uint64(m), bn: bn, enc: enc, fault: "none", k: n})
			for k := 0; k < n; k++ {
				for _, f := range []string{"refuse", "mute", "close"} {
					jobs = append(jobs, &tcPeerJob{m: uint64(m), bn: bn, enc: enc, fault: f, k: k})
				}
				if thorough || i == 0 {
					jobs = append(jobs, &tcPeerJob{m: uint64(m), bn: bn, enc: enc, fault: "stopread", k: k})
				}
			}
		}
	}
	tcPeerCases(o, jobs)
}

// ---------------------------------------------------------------------------------------------
// C04, TCPCLv4 sender clause: a peer-declared segment MRU (any uint64) must not make NextSegment
// panic, spin or balloon.  Each value runs in a child process with an address-space limit.

func genC04tcpclmruChild(o *Out, r *Rng, thorough bool) {
	m, _ := strconv.ParseUint(os.Getenv("VERIF_TCPCL_MRU"), 10, 64)
	l, _ := strconv.Atoi(os.Getenv("VERIF_TCPCL_LEN"))
	lim := syscall.Rlimit{Cur: 6 << 30, Max: 6 << 30}
	_ = syscall.Setrlimit(syscall.RLIMIT_AS, &lim)
	go func() {
		time.Sleep(20 * time.Second)
		fmt.Println("(timeout)")
		os.Exit(0)
	}()
	data := make([]byte, l)
	for i := range data {
		data[i] = byte(i*7 + 1)
	}
	segs, end := tcRunOut(tcRawOut(3, data), m, l+3)
	var ss []S
	for _, s := range segs {
		ss = append(ss, L(U(s.flags), I(len(s.data)), I(s.cap)))
	}
	fmt.Println(SString(L(Sym("res"), Sym(end), LL(ss))))
}

func genC04tcpclmru(o *Out, r *Rng, thorough bool) {
	exe, err := os.Executable()
	if err != nil {
		panic(err)
	}
	ms := []uint64{0, 1, 2, 1 << 20, 1<<20 + 1, 1 << 31, 1 << 32, 1 << 36, 1 << 40, 1 << 47, 1 << 48, 1 << 62, 1<<63 - 1, 1 << 63, 1<<63 + 1, 1<<64 - 1}
	ls := []int{1, 5}
	if thorough {
		for i := 0; i < 40; i++ {
			ms = append(ms, r.U64()>>uint(r.Intn(64)))
		}
		ls = append(ls, 0, 64, 1<<20+3)
	}
	type job struct {
		m   uint64
		l   int
		out string
	}
	var jobs []*job
	for _, l := range ls {
		for _, m := range ms {
			if l > 1000 && m < 65536 && m != 0 {
				continue
			}
			jobs = append(jobs, &job{m: m, l: l})
		}
	}
	var wg sync.WaitGroup
	sem := make(chan struct{}, 8)
	for _, j := range jobs {
		wg.Add(1)
		sem <- struct{}{}
		go func(j *job) {
			defer wg.Done()
			defer func() { <-sem }()
			cmd := exec.Command(exe, "-prop", "C04tcpclmruChild")
			cmd.Env = append(os.Environ(), "VERIF_TCPCL_MRU="+strconv.FormatUint(j.m, 10), "VERIF_TCPCL_LEN="+strconv.Itoa(j.l))
			var so, se bytes.Buffer
			cmd.Stdout, cmd.Stderr = &so, &se
			runErr := cmd.Run()
			line := strings.TrimSpace(so.String())
			switch {
			case runErr == nil && strings.HasPrefix(line, "(res "):
				j.out = line
			case runErr == nil && strings.HasPrefix(line, "(timeout"):
				j.out = "(res timeout ())"
			case strings.Contains(se.String(), "out of memory") || strings.Contains(se.String(), "cannot allocate memory"):
				j.out = "(res oom ())"
			default:
				j.out = "(res crash ())"
			}
		}(j)
	}
	wg.Wait()
	for _, j := range jobs {
		s, err := ParseS(j.out)
		if err != nil {
			panic(err)
		}
		l := s.(sList)
		o.Case("mru", U(j.m), I(j.l), l[1], l[2])
	}
}

func init() {
	register("C11tcpcl", genC11tcpcl)
	register("C04tcpclmru", genC04tcpclmru)
	register("C04tcpclmruChild", genC04tcpclmruChild)
}
