package main

// Multiplicative-overflow probes for length / count fields (C04).
//
// A decoder that guards an allocation with "count * elementSize > bytesLeft" (or computes
// count * elementSize for make / a read loop) is wrong exactly for the counts whose product wraps
// around the machine word: for an element size s the counts just above k * 2^w / s (k = 1..s-1) give a
// product of 1..s modulo 2^w, i.e. they pass every such guard.  None of the classical boundary values
// (0, 1, 23, 24, 2^16, 2^31-1, 2^31, 2^32-1, 2^62, 2^63, 2^64-1) lies in one of these windows for an
// odd s, and for signed arithmetic the windows are those of 2^(w-1).
//
// mulOverflowProbes(bits, full) returns, for a field of the given width,
//   floor(k * 2^bits / s) + 1   for s = 2..8, k = 1..s-1
//   floor(2^bits / s) + 1 and floor(2^(bits-1) / s) + 1   for the other element sizes s
// full: s = 9..64, 128, 256; otherwise (quick tier of the expensive generators) s = 10, 12, 14, 16, 24,
// 32, 40, 48, 56, 64, 128, 256 (even sizes so that the signed windows of s <= 8 are included, and the
// sizes of Go structs made of words).  Sorted, without duplicates.

import (
	"math/bits"
	"sort"
)

var mulProbeSizesQuick = []uint64{10, 12, 14, 16, 24, 32, 40, 48, 56, 64, 128, 256}

// floor(k * 2^w / s) for k < s, 1 <= w <= 64
func mulProbeQuot(k uint64, w uint, s uint64) uint64 {
	if w == 64 {
		q, _ := bits.Div64(k, 0, s)
		return q
	}
	hi, lo := bits.Mul64(k, uint64(1)<<w)
	q, _ := bits.Div64(hi, lo, s)
	return q
}

func mulOverflowProbes(w uint, full bool) []uint64 {
	seen := map[uint64]bool{}
	var out []uint64
	add := func(v uint64) {
		if w < 64 && v >= uint64(1)<<w {
			return
		}
		if !seen[v] {
			seen[v] = true
			out = append(out, v)
		}
	}
	for s := uint64(2); s <= 8; s++ {
		for k := uint64(1); k < s; k++ {
			add(mulProbeQuot(k, w, s) + 1)
		}
	}
	var sizes []uint64
	if full {
		for s := uint64(9); s <= 64; s++ {
			sizes = append(sizes, s)
		}
		sizes = append(sizes, 128, 256)
	} else {
		sizes = mulProbeSizesQuick
	}
	for _, s := range sizes {
		add(mulProbeQuot(1, w, s) + 1)
		add(mulProbeQuot(1, w-1, s) + 1)
	}
	sort.Slice(out, func(i, j int) bool { return out[i] < out[j] })
	return out
}

// cborSkip returns the offset behind the CBOR item at p (definite lengths; an indefinite array is
// followed up to its break), or -1.
func cborSkip(bs []byte, p int, depth int) int {
	if p >= len(bs) || depth > 16 {
		return -1
	}
	b := bs[p]
	if b == 0x9f {
		q := p + 1
		for q < len(bs) && bs[q] != 0xff {
			if q = cborSkip(bs, q, depth+1); q < 0 {
				return -1
			}
		}
		if q >= len(bs) {
			return -1
		}
		return q + 1
	}
	major, ai := b>>5, b&31
	q := p + 1
	var arg uint64
	switch {
	case ai < 24:
		arg = uint64(ai)
	case ai <= 27:
		l := 1 << (ai - 24)
		if q+l > len(bs) {
			return -1
		}
		for i := 0; i < l; i++ {
			arg = arg<<8 | uint64(bs[q+i])
		}
		q += l
	default:
		return -1
	}
	switch major {
	case 2, 3:
		if arg > uint64(len(bs)-q) {
			return -1
		}
		return q + int(arg)
	case 4, 5:
		n := arg
		if major == 5 {
			n = 2 * arg
		}
		if n > uint64(len(bs)) {
			return -1
		}
		for i := uint64(0); i < n; i++ {
			if q = cborSkip(bs, q, depth+1); q < 0 {
				return -1
			}
		}
		return q
	case 6:
		return cborSkip(bs, q, depth+1)
	}
	return q
}

// headRole names the place of the head at offset p of an encoded bundle: type code of the block it
// lies in (0 = primary block, -1 = outside), its ordinal among the given head offsets of that block and
// its major type.  Two bundles share a role when the same field of the same kind of block is meant
// (best effort: endpoints of different schemes shift the ordinals - then both are kept).
func headRoles(bs []byte, heads []int) []string {
	type span struct {
		s, e int
		code int64
	}
	var spans []span
	if len(bs) > 0 && bs[0] == 0x9f {
		p := 1
		for p < len(bs) && bs[p] != 0xff {
			e := cborSkip(bs, p, 0)
			if e < 0 {
				break
			}
			code := int64(0)
			if len(spans) > 0 {
				// canonical block: array head, then the block type code
				code = -2
				if bs[p]>>5 == 4 && bs[p]&31 < 24 && p+1 < len(bs) && bs[p+1]>>5 == 0 {
					c := bs[p+1] & 31
					switch {
					case c < 24:
						code = int64(c)
					case c == 24 && p+2 < len(bs):
						code = int64(bs[p+2])
					default:
						code = 1000 + int64(c)
					}
				}
			}
			spans = append(spans, span{p, e, code})
			p = e
		}
	}
	roles := make([]string, len(heads))
	ord := map[int]int{}
	for i, h := range heads {
		blk := -1
		for j, sp := range spans {
			if h >= sp.s && h < sp.e {
				blk = j
			}
		}
		code := int64(-1)
		if blk >= 0 {
			code = spans[blk].code
		}
		ord[blk]++
		major := byte(0)
		if h < len(bs) {
			major = bs[h] >> 5
		}
		roles[i] = string(rune('a'+major)) + ":" + itoa64(code) + ":" + itoa64(int64(ord[blk]))
	}
	return roles
}

func itoa64(v int64) string {
	if v < 0 {
		return "-" + itoa64(-v)
	}
	if v < 10 {
		return string(rune('0' + v))
	}
	return itoa64(v/10) + string(rune('0'+v%10))
}
