package main

// C04bundle: the bundle decoder (with all extension blocks and administrative records reached
// through it) on adversarial length / count fields, truncations and mutants, each input decoded in
// a CHILD process with an address-space limit, measuring the bytes allocated.

import (
	"bufio"
	"bytes"
	"encoding/hex"
	"fmt"
	"os"
	"os/exec"
	"runtime"
	"strings"
	"syscall"
	"time"

	"github.com/dtn7/dtn7-go/pkg/bpv7"
)

var advLens = []uint64{0, 1, 23, 24, 1 << 16, 1<<31 - 1, 1 << 31, 1<<32 - 1, 1 << 62, 1 << 63, 1<<64 - 1}

// headPositions walks a CBOR encoding structurally (best effort) and returns the offsets of all heads.
func headPositions(bs []byte) []int {
	var pos []int
	var walk func(p int, depth int) int
	walk = func(p int, depth int) int {
		if p >= len(bs) || depth > 12 {
			return len(bs)
		}
		b := bs[p]
		if b == 0x9f {
			pos = append(pos, p)
			q := p + 1
			for q < len(bs) && bs[q] != 0xff {
				q = walk(q, depth+1)
			}
			return q + 1
		}
		pos = append(pos, p)
		major, ai := b>>5, b&31
		q := p + 1
		var arg uint64
		switch {
		case ai < 24:
			arg = uint64(ai)
		case ai <= 27:
			l := 1 << (ai - 24)
			if q+l > len(bs) {
				return len(bs)
			}
			for i := 0; i < l; i++ {
				arg = arg<<8 | uint64(bs[q+i])
			}
			q += l
		default:
			return len(bs)
		}
		switch major {
		case 2, 3:
			if arg > uint64(len(bs)-q) {
				return len(bs)
			}
			// byte strings of blocks contain CBOR themselves: walk into them too (best effort)
			end := q + int(arg)
			if major == 2 && arg > 0 {
				save := len(pos)
				r := walk(q, depth+1)
				if r != end {
					pos = pos[:save]
				}
			}
			return end
		case 4:
			for i := uint64(0); i < arg && q < len(bs); i++ {
				q = walk(q, depth+1)
			}
			return q
		case 5:
			for i := uint64(0); i < 2*arg && q < len(bs); i++ {
				q = walk(q, depth+1)
			}
			return q
		}
		return q
	}
	walk(0, 0)
	return pos
}

// withHeadArg replaces the head at offset p by the same major type with argument v in 8-byte form
// (or minimal form when short is set).
func withHeadArg(bs []byte, p int, v uint64, short bool) []byte {
	b := bs[p]
	ai := b & 31
	hl := 1
	if ai >= 24 && ai <= 27 {
		hl = 1 + (1 << (ai - 24))
	}
	if p+hl > len(bs) {
		return nil
	}
	w := 8
	if short {
		w = -1
	}
	nh := rawHead(b&0xE0, v, w)
	return cat(bs[:p], nh, bs[p+hl:])
}

// ---- child protocol: one hex input per line on stdin; one result line per input on stdout ----
func c04BundleChild() {
	var lim syscall.Rlimit
	lim.Cur, lim.Max = 6<<30, 6<<30
	_ = syscall.Setrlimit(syscall.RLIMIT_AS, &lim)
	registerAllBlocks()
	sc := bufio.NewScanner(os.Stdin)
	sc.Buffer(make([]byte, 1<<22), 1<<26)
	out := bufio.NewWriter(os.Stdout)
	for sc.Scan() {
		in, err := hex.DecodeString(strings.TrimSpace(sc.Text()))
		if err != nil {
			continue
		}
		fmt.Fprintln(out, "START")
		out.Flush()
		res, alloc := decodeMeasured(in)
		fmt.Fprintf(out, "DONE %s %d\n", res, alloc)
		out.Flush()
	}
}

func decodeMeasured(in []byte) (res string, alloc uint64) {
	var m0, m1 runtime.MemStats
	runtime.GC()
	runtime.ReadMemStats(&m0)
	func() {
		defer func() {
			if r := recover(); r != nil {
				res = "panic"
			}
		}()
		b, err := bpv7.ParseBundle(bytes.NewReader(in))
		if err != nil {
			res = "err"
			return
		}
		res = "ok"
		if b.IsAdministrativeRecord() {
			// what Core.checkAdministrativeRecord does with a received administrative record
			if _, aerr := b.AdministrativeRecord(); aerr != nil {
				res = "ok-adminerr"
			}
		}
	}()
	runtime.ReadMemStats(&m1)
	return res, m1.TotalAlloc - m0.TotalAlloc
}

type childResult struct {
	res   string
	alloc uint64
}

// runChildBatch decodes all inputs in child processes (restarting after a death) with a per-input
// wall-clock limit.
func runChildBatch(childGen string, inputs [][]byte) []childResult {
	results := make([]childResult, len(inputs))
	i := 0
	for i < len(inputs) {
		cmd := exec.Command(os.Args[0], "-prop", childGen)
		stdin, _ := cmd.StdinPipe()
		stdout, _ := cmd.StdoutPipe()
		cmd.Stderr = nil
		if err := cmd.Start(); err != nil {
			panic(err)
		}
		rd := bufio.NewReader(stdout)
		lines := make(chan string, 4)
		go func() {
			for {
				l, err := rd.ReadString('\n')
				if err != nil {
					close(lines)
					return
				}
				lines <- strings.TrimSpace(l)
			}
		}()
		dead := false
		for i < len(inputs) && !dead {
			fmt.Fprintln(stdin, hex.EncodeToString(inputs[i]))
			deadline := time.After(20 * time.Second)
			started := false
		wait:
			for {
				select {
				case l, ok := <-lines:
					if !ok {
						if started {
							results[i] = childResult{"died", 0}
						} else {
							results[i] = childResult{"died-before", 0}
						}
						i++
						dead = true
						break wait
					}
					if l == "START" {
						started = true
					} else if strings.HasPrefix(l, "DONE ") {
						var r string
						var a uint64
						fmt.Sscanf(l, "DONE %s %d", &r, &a)
						results[i] = childResult{r, a}
						i++
						break wait
					}
				case <-deadline:
					results[i] = childResult{"timeout", 0}
					i++
					dead = true
					_ = cmd.Process.Kill()
					break wait
				}
			}
		}
		stdin.Close()
		_ = cmd.Process.Kill()
		_ = cmd.Wait()
	}
	return results
}

func genC04bundle(o *Out, r *Rng, thorough bool) {
	registerAllBlocks()
	nb := 12
	if thorough {
		nb = 120
	}
	var inputs [][]byte
	var kinds []string
	add := func(kind string, bs []byte) {
		if bs != nil && len(bs) <= 1<<16 {
			inputs = append(inputs, bs)
			kinds = append(kinds, kind)
		}
	}
	now := dtnNowMs()
	rolesDone := map[string]bool{}
	for i := 0; i < nb; i++ {
		var bs []byte
		if i%3 == 0 {
			// an administrative record (status report) as payload
			ar := cat(rawArr(2), rawUint(1), rawArr(4), rawArr(4), rawArr(2), []byte{0xf5}, rawUint(now), rawArr(1), []byte{0xf4}, rawArr(1), []byte{0xf4}, rawArr(1), []byte{0xf4},
				rawUint(0), rawDtn("src", "app"), rawArr(2), rawUint(now-5000), rawUint(3))
			p, _ := baseRaw(now, 2)
			p.Flags = 2
			bs = rawBundle(p, []rawCanon{{Type: 1, Num: 1, CRCType: 2, HasCRC: true, ArrW: -1, Data: ar}})
		} else {
			b := randBundle(r, false)
			if b.CheckValid() != nil {
				continue
			}
			bs, _ = encodeBundle(&b)
		}
		add("valid", bs)
		hp := headPositions(bs)
		for _, p := range hp {
			for _, v := range advLens {
				if !thorough && r.Intn(3) != 0 {
					continue
				}
				add("advlen", withHeadArg(bs, p, v, false))
			}
		}
		// multiplicative-overflow probes (c04probes.go) at every head that is a length or a count (byte /
		// text string, array, map), once per role of the head (kind of block, position in it) and group
		// of 12 bundles
		if i%12 == 0 {
			rolesDone = map[string]bool{}
		}
		roles := headRoles(bs, hp)
		for k, p := range hp {
			if major := bs[p] >> 5; major < 2 || major > 5 || bs[p] == 0x9f || rolesDone[roles[k]] {
				continue
			}
			rolesDone[roles[k]] = true
			for _, v := range mulOverflowProbes(64, thorough) {
				add("mulprobe", withHeadArg(bs, p, v, false))
			}
		}
		step := 1
		if !thorough && len(bs) > 60 {
			step = len(bs) / 60
		}
		for k := 0; k < len(bs); k += step {
			add("trunc", bs[:k])
		}
		for k := 0; k < 20; k++ {
			add("mutant", mutate(r, bs))
		}
	}
	res := runChildBatch("C04bundleChild", inputs)
	for i, in := range inputs {
		o.Case("dec", Sym(kinds[i]), U(now), X(in), Sym(res[i].res), U(res[i].alloc))
	}
}

func init() {
	register("C04bundle", genC04bundle)
	register("C04bundleChild", func(o *Out, r *Rng, thorough bool) { c04BundleChild() })
}
