package main

// One PRNG for every random choice (splitmix64), seeded from VERIF_SEED, so runs replay exactly.
type Rng struct{ s uint64 }

// NewRng mixes the seed (so that nearby seeds give unrelated streams).
func NewRng(seed uint64) *Rng {
	z := seed + 0x632BE59BD9B4E019
	z = (z ^ (z >> 30)) * 0xBF58476D1CE4E5B9
	z = (z ^ (z >> 27)) * 0x94D049BB133111EB
	z = z ^ (z >> 31)
	return &Rng{s: z*0x2545F4914F6CDD1D + 0x1234567}
}
func (r *Rng) U64() uint64 {
	r.s += 0x9E3779B97F4A7C15
	z := r.s
	z = (z ^ (z >> 30)) * 0xBF58476D1CE4E5B9
	z = (z ^ (z >> 27)) * 0x94D049BB133111EB
	return z ^ (z >> 31)
}
func (r *Rng) Intn(n int) int {
	if n <= 0 {
		return 0
	}
	return int(r.U64() % uint64(n))
}
func (r *Rng) Bool() bool { return r.U64()&1 == 1 }
func (r *Rng) Bytes(n int) []byte {
	b := make([]byte, n)
	for i := range b {
		b[i] = byte(r.U64())
	}
	return b
}
func (r *Rng) Pick(xs []uint64) uint64 { return xs[r.Intn(len(xs))] }
func (r *Rng) Perm(n int) []int {
	p := make([]int, n)
	for i := range p {
		p[i] = i
	}
	for i := n - 1; i > 0; i-- {
		j := r.Intn(i + 1)
		p[i], p[j] = p[j], p[i]
	}
	return p
}
