package main

import (
	"bufio"
	"encoding/hex"
	"fmt"
	"io"
	"strconv"
	"strings"
)

// S is a tiny S-expression value used for all harness -> driver communication.
// Atoms: decimal numbers, x<hex> byte strings, symbols.
type S interface{ write(sb *strings.Builder) }

type sAtom string
type sList []S

func (a sAtom) write(sb *strings.Builder) { sb.WriteString(string(a)) }
func (l sList) write(sb *strings.Builder) {
	sb.WriteByte('(')
	for i, e := range l {
		if i > 0 {
			sb.WriteByte(' ')
		}
		e.write(sb)
	}
	sb.WriteByte(')')
}

func Sym(s string) S      { return sAtom(s) }
func U(n uint64) S        { return sAtom(strconv.FormatUint(n, 10)) }
func I(n int) S           { return sAtom(strconv.Itoa(n)) }
func I64(n int64) S       { return sAtom(strconv.FormatInt(n, 10)) }
func X(b []byte) S        { return sAtom("x" + hex.EncodeToString(b)) }
func B(b bool) S          { if b { return sAtom("1") }; return sAtom("0") }
func L(es ...S) S         { return sList(es) }
func Str(s string) S      { return X([]byte(s)) }
func LL(es []S) S         { return sList(es) }

func SString(s S) string {
	var sb strings.Builder
	s.write(&sb)
	return sb.String()
}

// ---- reader (for replay files / corpus) ----
func parseS(r *strings.Reader) (S, error) {
	for {
		c, err := r.ReadByte()
		if err != nil {
			return nil, err
		}
		if c == ' ' || c == '\n' || c == '\t' {
			continue
		}
		if c == '(' {
			var l sList
			for {
				c2, err := r.ReadByte()
				if err != nil {
					return nil, err
				}
				if c2 == ' ' {
					continue
				}
				if c2 == ')' {
					if l == nil {
						l = sList{}
					}
					return l, nil
				}
				r.UnreadByte()
				e, err := parseS(r)
				if err != nil {
					return nil, err
				}
				l = append(l, e)
			}
		}
		var sb strings.Builder
		sb.WriteByte(c)
		for {
			c2, err := r.ReadByte()
			if err != nil {
				break
			}
			if c2 == ' ' || c2 == ')' || c2 == '(' || c2 == '\n' {
				r.UnreadByte()
				break
			}
			sb.WriteByte(c2)
		}
		return sAtom(sb.String()), nil
	}
}

func ParseS(line string) (S, error) { return parseS(strings.NewReader(line)) }

func atomU(s S) uint64 {
	a, ok := s.(sAtom)
	if !ok {
		panic("atom expected: " + SString(s))
	}
	n, err := strconv.ParseUint(string(a), 10, 64)
	if err != nil {
		panic(err)
	}
	return n
}
func atomI(s S) int { return int(atomU(s)) }
func atomX(s S) []byte {
	a, ok := s.(sAtom)
	if !ok || !strings.HasPrefix(string(a), "x") {
		panic("hex atom expected: " + SString(s))
	}
	b, err := hex.DecodeString(string(a)[1:])
	if err != nil {
		panic(err)
	}
	return b
}
func atomSym(s S) string { return string(s.(sAtom)) }

// Out collects the cases of one run.
type Out struct {
	w     *bufio.Writer
	count int
}

func NewOut(w io.Writer) *Out { return &Out{w: bufio.NewWriterSize(w, 1<<20)} }

// Case writes one case line: (case <n> <kind> fields...)
func (o *Out) Case(kind string, fields ...S) {
	o.count++
	l := sList{Sym("case"), I(o.count), Sym(kind)}
	l = append(l, fields...)
	fmt.Fprintln(o.w, SString(l))
}
func (o *Out) Flush() { o.w.Flush() }
