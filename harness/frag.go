package main

// C09 - fragmentation respects the size limit and is exactly invertible.
//
// Runs the real bpv7.Bundle.Fragment on generated bundles (every block mix of randBundle with
// single-entry maps, every CRC type and endpoint form, block numbers 2,3,.. and sparse / large
// ones, sorted and unsorted block order, payload 0..70000) for maximum sizes from 0 to above the
// bundle size, and bpv7.ReassembleFragments on the returned fragments in several orders.
//
// case: (frag tag now mtu dump(b) wire(b)|(err) result reasm)
//   result = (err) | (panic msg) | (ok ((dump wire) ...))
//   reasm  = (((i0 i1 ..) (ok wire) | (err) | (panic msg)) ...)   only for >= 2 fragments

import (
	"bufio"
	"bytes"
	"fmt"
	"os"
	"strings"

	"github.com/dtn7/dtn7-go/pkg/bpv7"
)

func c09Wire(b bpv7.Bundle) (bs []byte, ok bool) {
	defer func() {
		if p := recover(); p != nil {
			bs, ok = nil, false
		}
	}()
	var buf bytes.Buffer
	if err := b.MarshalCbor(&buf); err != nil {
		return nil, false
	}
	return buf.Bytes(), true
}

func c09WireS(b bpv7.Bundle) S {
	if w, ok := c09Wire(b); ok {
		return X(w)
	}
	return L(Sym("err"))
}

func c09Fragment(b bpv7.Bundle, mtu int) (fs []bpv7.Bundle, err error, pan string) {
	defer func() {
		if p := recover(); p != nil {
			pan = fmt.Sprint(p)
		}
	}()
	fs, err = b.Fragment(mtu)
	return
}

func c09Reassemble(fs []bpv7.Bundle) (res S) {
	defer func() {
		if p := recover(); p != nil {
			res = L(Sym("panic"), Str(fmt.Sprint(p)))
		}
	}()
	b, err := bpv7.ReassembleFragments(fs)
	if err != nil {
		return L(Sym("err"))
	}
	w, ok := c09Wire(b)
	if !ok {
		return L(Sym("err"))
	}
	return L(Sym("ok"), X(w))
}

// c09Clone: a deep enough copy (own block slice) so that one run cannot disturb the next
func c09Clone(b bpv7.Bundle) bpv7.Bundle {
	c := b
	c.CanonicalBlocks = append([]bpv7.CanonicalBlock(nil), b.CanonicalBlocks...)
	return c
}

func c09Case(o *Out, r *Rng, tag string, b bpv7.Bundle, mtu int) (nfrag int, failed bool) {
	now := dtnNowMs()
	orig := dumpBundle(&b)
	wire := c09WireS(b)
	fs, err, pan := c09Fragment(c09Clone(b), mtu)
	var res, reasm S
	reasm = L()
	switch {
	case pan != "":
		res = L(Sym("panic"), Str(pan))
		failed = true
	case err != nil:
		res = L(Sym("err"))
		failed = true
	default:
		var l []S
		for i := range fs {
			l = append(l, L(dumpBundle(&fs[i]), c09WireS(fs[i])))
		}
		res = L(Sym("ok"), LL(l))
		nfrag = len(fs)
		if len(fs) >= 2 {
			var rs []S
			n := len(fs)
			orders := [][]int{}
			rev := make([]int, n)
			for i := range rev {
				rev[i] = n - 1 - i
			}
			orders = append(orders, rev, r.Perm(n), r.Perm(n), r.Perm(n))
			for _, ord := range orders {
				in := make([]bpv7.Bundle, n)
				idx := make([]S, n)
				for i, j := range ord {
					in[i] = c09Clone(fs[j])
					idx[i] = I(j)
				}
				rs = append(rs, L(LL(idx), c09Reassemble(in)))
			}
			reasm = LL(rs)
		}
	}
	if dtnNowMs()-now > 500 {
		return // clock bracket too wide for the lifetime test; skip the case
	}
	o.Case("frag", Sym(tag), U(now), I(mtu), orig, wire, res, reasm)
	return
}

// c09Bundle: randBundle with the payload replaced by plen random bytes, map-valued blocks cut to
// at most one entry, and (variant) the extension blocks in a non-sorted order as a received
// bundle may have them.
func c09Bundle(r *Rng, plen int, allowNoFrag bool, shuffle bool) bpv7.Bundle {
	for {
		b := randBundle(r, false)
		if b.PrimaryBlock.BundleControlFlags.Has(bpv7.MustNotFragmented) && !allowNoFrag {
			continue
		}
		// an input that is itself a fragment: keep one in three of those randBundle makes
		if b.PrimaryBlock.BundleControlFlags.Has(bpv7.IsFragment) && r.Intn(3) != 0 {
			b.PrimaryBlock.BundleControlFlags &^= bpv7.IsFragment
			b.PrimaryBlock.FragmentOffset, b.PrimaryBlock.TotalDataLength = 0, 0
		}
		for i := range b.CanonicalBlocks {
			cb := &b.CanonicalBlocks[i]
			switch v := cb.Value.(type) {
			case *bpv7.PayloadBlock:
				cb.Value = bpv7.NewPayloadBlock(r.Bytes(plen))
			case *bpv7.DTLSRBlock:
				pd := v.GetPeerData()
				peers := map[bpv7.EndpointID]bpv7.DtnTime{}
				for k, t := range pd.Peers {
					peers[k] = t
					break
				}
				// keep the choice deterministic: a single entry chosen by the PRNG instead of map order
				if len(pd.Peers) > 1 {
					peers = map[bpv7.EndpointID]bpv7.DtnTime{randEID(r, false): bpv7.DtnTime(r.Pick(boundaryU))}
				}
				cb.Value = bpv7.NewDTLSRBlock(bpv7.DTLSRPeerData{ID: pd.ID, Timestamp: pd.Timestamp, Peers: peers})
			case *bpv7.ProphetBlock:
				if len(v.GetPredictabilities()) > 1 {
					cb.Value = bpv7.NewProphetBlock(map[bpv7.EndpointID]float64{randEID(r, false): 0.5})
				}
			}
		}
		if shuffle && len(b.CanonicalBlocks) > 2 {
			n := len(b.CanonicalBlocks) - 1
			p := r.Perm(n)
			cbs := make([]bpv7.CanonicalBlock, 0, n+1)
			for _, j := range p {
				cbs = append(cbs, b.CanonicalBlocks[j])
			}
			cbs = append(cbs, b.CanonicalBlocks[n])
			b.CanonicalBlocks = cbs
		}
		return b
	}
}

// c09Many: a valid bundle with n generic extension blocks (numbers 2..n+1 or sparse), some replicated
func c09Many(r *Rng, n int, plen int, sparse bool) bpv7.Bundle {
	pb := bpv7.NewPrimaryBlock(0, bpv7.MustNewEndpointID("dtn://dst/"), bpv7.MustNewEndpointID("dtn://src/"),
		bpv7.NewCreationTimestamp(bpv7.DtnTimeNow(), uint64(r.Intn(1000))), 3600000)
	pb.SetCRCType(bpv7.CRCType(1 + r.Intn(2)))
	var cbs []bpv7.CanonicalBlock
	for i := 0; i < n; i++ {
		num := uint64(i + 2)
		if sparse {
			num = uint64(2*i + 3 + 20*(i%2))
		}
		var fl bpv7.BlockControlFlags
		if r.Intn(2) == 0 {
			fl = bpv7.ReplicateBlock
		}
		cb := bpv7.NewCanonicalBlock(num, fl, bpv7.NewGenericExtensionBlock(r.Bytes(r.Intn(3)), uint64(200+i)))
		cb.SetCRCType(bpv7.CRCType(r.Intn(3)))
		cbs = append(cbs, cb)
	}
	pl := bpv7.NewCanonicalBlock(1, 0, bpv7.NewPayloadBlock(r.Bytes(plen)))
	pl.SetCRCType(bpv7.CRCType(r.Intn(3)))
	cbs = append(cbs, pl)
	return bpv7.Bundle{PrimaryBlock: pb, CanonicalBlocks: cbs}
}

// c09MinMtu: the smallest maximum size at which Fragment succeeds (linear scan, small bundles only)
func c09MinMtu(b bpv7.Bundle, limit int) int {
	for m := 1; m <= limit; m++ {
		if fs, err, pan := c09Fragment(c09Clone(b), m); err == nil && pan == "" && len(fs) > 0 {
			return m
		}
	}
	return limit
}

func c09Replay(o *Out, r *Rng) {
	f, err := os.Open(ReplayFile)
	if err != nil {
		panic(err)
	}
	defer f.Close()
	sc := bufio.NewScanner(f)
	sc.Buffer(make([]byte, 1<<20), 1<<28)
	for sc.Scan() {
		line := strings.TrimSpace(sc.Text())
		if !strings.HasPrefix(line, "(case ") {
			continue
		}
		s, err := ParseS(line)
		if err != nil {
			continue
		}
		l := s.(sList)
		// (case n frag tag now mtu dump wire ...)
		if len(l) < 8 || atomSym(l[2]) != "frag" {
			continue
		}
		if _, isAtom := l[7].(sAtom); !isAtom {
			continue
		}
		var b bpv7.Bundle
		_ = b.UnmarshalCbor(bytes.NewReader(atomX(l[7]))) // the structure is filled even when CheckValid complains
		c09Case(o, r, atomSym(l[3]), b, atomI(l[5]))
	}
}

func genC09frag(o *Out, r *Rng, thorough bool) {
	registerAllBlocks()
	if ReplayFile != "" {
		c09Replay(o, r)
		return
	}
	size := func(b bpv7.Bundle) int {
		w, _ := c09Wire(b)
		return len(w)
	}

	// 1. small payloads x all maximum sizes (exhaustive in thorough, a sample of sizes in quick)
	nSmall := 10
	if thorough {
		nSmall = 2 * 41 // every payload length 0..40, two bundles each
	}
	for k := 0; k < nSmall; k++ {
		plen := r.Intn(41)
		if thorough {
			plen = k % 41
		} else if k < 6 {
			plen = []int{0, 1, 2, 23, 24, 40}[k]
		}
		b := c09Bundle(r, plen, k%7 == 6, k%3 == 1)
		s := size(b)
		min := c09MinMtu(b, s+8)
		for m := 0; m <= s+8; m++ {
			if !thorough && !(m >= min-2 && m <= min+3) && !(m >= s-2 && m <= s+1) && r.Intn(8) != 0 {
				continue
			}
			c09Case(o, r, "small", b, m)
		}
	}

	// 2. generated bundles x maximum sizes around the interesting points
	nRand := 60
	if thorough {
		nRand = 600
	}
	plens := []int{0, 1, 22, 23, 24, 25, 100, 254, 255, 256, 257, 300, 1000, 5000}
	for k := 0; k < nRand; k++ {
		plen := plens[r.Intn(len(plens))]
		b := c09Bundle(r, plen, k%9 == 8, k%3 == 1)
		s := size(b)
		ms := []int{s - 1, s, s + 1}
		switch k % 4 {
		case 0:
			ms = append(ms, 0, 1, s+100)
		case 1:
			ms = append(ms, 23, 24, 65535)
		case 2:
			ms = append(ms, 255, 256, 65536)
		}
		min := 0
		if s < 3000 {
			min = c09MinMtu(b, s+8)
			ms = append(ms, min-1, min, min+1, min+2, min+3)
		}
		for j := 0; j < 7; j++ {
			lo := 60
			if min > 0 {
				lo = min
			}
			// keep the number of fragments moderate
			if plen/64 > 0 {
				lo += plen / 64
			}
			span := s - lo
			if span < 1 || j == 6 {
				span = s + 10
			}
			ms = append(ms, lo+r.Intn(span))
		}
		seen := map[int]bool{}
		for _, m := range ms {
			if m < 0 || seen[m] {
				continue
			}
			seen[m] = true
			if min > 0 && m >= min {
				lim := 100
				if thorough {
					lim = 200
				}
				if plen/(m-min+1) > lim {
					continue // thousands of fragments: the tiny steps are covered by the small scopes
				}
			}
			c09Case(o, r, "rand", b, m)
		}
	}

	// 3. payload lengths at which the byte-string head changes width, incl. > 64 KiB
	heads := []int{23, 24, 255, 256, 65535, 65536}
	nHead := 1
	if thorough {
		nHead = 6
	}
	for k := 0; k < nHead; k++ {
		for _, h := range heads {
			for _, d := range []int{-1, 0, 1} {
				plen := h + d
				if h >= 65535 && ((!thorough && d != 0) || k >= 2) {
					continue
				}
				b := c09Bundle(r, plen, false, k%2 == 1)
				s := size(b)
				ov := s - plen
				// maximum sizes at which a fragment's payload length sits at a head boundary
				ms := []int{s, s - 1, ov + 23, ov + 24, ov + 25, ov + 26, ov + 30}
				if plen > 300 {
					ms = append(ms, ov+255, ov+256, ov+257, ov+258, ov+262, ov+270)
				}
				if plen > 65000 {
					ms = append(ms, ov+65535, ov+65536, ov+65537, ov+65540, ov+65545, 70000, 40000)
				}
				for _, m := range ms {
					if plen/(m-ov+20) > 400 {
						continue
					}
					c09Case(o, r, "head", b, m)
				}
			}
		}
	}
	if thorough {
		b := c09Bundle(r, 70000, false, false)
		for _, m := range []int{70000, 65536 + 100, 35000, 20000, 5000, size(b), size(b) - 1} {
			c09Case(o, r, "head", b, m)
		}
	} else {
		b := c09Bundle(r, 70000, false, true)
		c09Case(o, r, "head", b, 30000+r.Intn(10000))
	}

	// 3b. tight bundles: every block with CRC32 (the estimate's worst case is then exact), payload block
	// flags of one or two bytes, so that any under-estimate of the overhead shows as an oversized fragment
	nTight := 14
	if thorough {
		nTight = 150
	}
	for k := 0; k < nTight; k++ {
		plen := []int{30, 60, 100, 300, 1000, 2000, 70}[k%7]
		b := c09Bundle(r, plen, false, k%2 == 1)
		for i := range b.CanonicalBlocks {
			b.CanonicalBlocks[i].CRCType = bpv7.CRC32
			if b.CanonicalBlocks[i].TypeCode() == bpv7.ExtBlockTypePayloadBlock && k%3 != 0 {
				b.CanonicalBlocks[i].BlockControlFlags |= bpv7.BlockControlFlags(0x20 << uint(k%3))
			}
		}
		s := size(b)
		min := c09MinMtu(b, s+8)
		ms := []int{min, min + 1, min + 6, min + 30, 255, 256, 280}
		for j := 0; j < 4; j++ {
			ms = append(ms, min+plen/40+r.Intn(s-min+1))
		}
		seen := map[int]bool{}
		for _, m := range ms {
			if seen[m] || (m >= min && plen/(m-min+1) > 100) {
				continue
			}
			seen[m] = true
			c09Case(o, r, "tight", b, m)
		}
	}

	// 4. many extension blocks (block numbers reaching two-byte width), canonical and sparse numbering
	nMany := 3
	if thorough {
		nMany = 40
	}
	for k := 0; k < nMany; k++ {
		n := []int{22, 23, 24, 30}[k%4]
		b := c09Many(r, n, 50+r.Intn(200), k%2 == 1)
		s := size(b)
		min := c09MinMtu(b, s+8)
		for _, m := range []int{min - 1, min, min + 1, min + 7, s - 1, s, (min + s) / 2} {
			c09Case(o, r, "many", b, m)
		}
	}
}

func init() { register("C09frag", genC09frag) }
