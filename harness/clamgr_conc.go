package main

// C16clamgrconc - Manager.Close() while events are still in flight in the manager's handler.
//
// The generator of clamgr.go replays histories synchronously: every event has been processed
// completely before the next one is issued.  In the daemon the events of a history reach the
// manager asynchronously - a PeerDisappeared status travels adapter -> element handler -> inChnl ->
// Manager.handler, retry passes are fired by the handler's own ticker - so "peer loss; close" is
// also the run in which Close() is entered while the peer-loss restart is queued or half done.
// Kind "conc":
//   mode msg    - retry ticker parked (1 h).  Synchronous set-up steps (compared with the model
//                 like a "seq" case), then 1..4 PeerDisappeared messages of running adapters (and
//                 some PeerAppeared ones, which the handler only forwards) are injected by one
//                 goroutine per adapter and Close() is called
//                   queued     - as soon as the first message of every adapter has been taken,
//                   racing     - immediately, while the injectors are still sending,
//                   processing - after a few scheduler yields,
//                   midrestart - from inside the handler's restart: the mock adapter's Close(),
//                                called by the Unregister half of the restart, starts
//                                Manager.Close() in another goroutine and returns a moment later
//                                (schedule point in the mock, no hook in the repository),
//                 sometimes with a bystander goroutine calling Register for a further adapter
//                 (midregister: Manager.Close() is started from inside that adapter's Start, i.e.
//                 after Register has looked at the stop flag, and has returned before Start does),
//                 sometimes with another goroutine calling Unregister for a started adapter at the
//                 moment the shutdown stops it (schedule point in the mock's Close).
//   mode ticker - the same on the REAL 1 ms retry ticker with adapters whose Start keeps failing,
//                 so that retry passes are in progress while Close() runs; additionally
//                   midtick    - Manager.Close() is started from inside a Start call of a retry pass.
// Observed: whether Close() returned (15 s guard; the property says "without deadlock"), panicked,
// every Start/Close call on the mocks in order, the calls made after Close() had returned, and
// Sender()/Receiver()/registry afterwards.  Which of the queued messages the handler still
// processes is the scheduler's choice: it is validated against the model (Model.cm_conc_close), not
// predicted; the verdict of the property checker does not depend on it.

import (
	"runtime"
	"sync"
	"time"

	"github.com/dtn7/dtn7-go/pkg/cla"
)

const cmcCloseBound = 15 * time.Second

// after this many Close() calls that did not return the generator stops (every one costs the bound)
const cmcMaxHung = 2

type cmcMsg struct {
	pg bool // PeerDisappeared (else PeerAppeared)
	id int
}

var cmcModeSym = []string{"msg", "ticker"}
var cmcVariantSym = []string{"queued", "racing", "processing", "midrestart", "midtick", "midregister"}

func cmcCallsS(calls []cmCall) S {
	var cs []S
	for _, c := range calls {
		cs = append(cs, L(I(c.id), Sym(cmKindSym[c.kind])))
	}
	return LL(cs)
}

func cmcOutcome(r *Rng, pOk, pFr int) int {
	switch x := r.Intn(100); {
	case x < pOk:
		return cmOk
	case x < pOk+pFr:
		return cmFailRetry
	default:
		return cmFailNo
	}
}

// cmcCase runs one case; returns false when Close() did not return.
func cmcCase(o *Out, r *Rng, mode int) bool {
	nad := 2 + r.Intn(3)
	qttl := r.Intn(4)
	var ads []cmAdCfg
	for j := 0; j < nad; j++ {
		addr := j
		if r.Intn(5) == 0 {
			addr = r.Intn(nad)
		}
		ads = append(ads, cmAdCfg{addr: addr, perm: r.Intn(2) == 0, role: r.Intn(3), eid: 1 + r.Intn(3), peer: 4 + r.Intn(3)})
		if r.Intn(6) == 0 {
			ads[j].peer = 1 + r.Intn(3) // a sender to a (possibly) registered receiver: registration refused
		}
	}
	if mode == 1 {
		// ticker mode: adapter 1 is permanent and keeps failing, on an address of its own
		ads[1] = cmAdCfg{addr: 11, perm: true, role: r.Intn(3), eid: 1 + r.Intn(3), peer: 4 + r.Intn(3)}
	}
	bystander := -1
	lateReg := false
	if r.Intn(3) == 0 {
		// one more adapter on an address of its own, registered by another goroutine while Close() runs
		bystander = nad
		ads = append(ads, cmAdCfg{addr: 10, perm: r.Intn(2) == 0, role: r.Intn(3), eid: 7, peer: 7})
		if r.Intn(2) == 0 {
			lateReg = true // variant midregister: its Start must be called (permanent) and succeed
			ads[nad].perm = true
		}
	}
	retry := time.Hour
	if mode == 1 {
		retry = time.Millisecond
	}
	w := cmNewWorld(qttl, ads, retry)

	// ---- set-up (synchronous) ----
	var setup []S
	alive := true
	if mode == 0 {
		var steps []cmStep
		for j := 0; j < nad; j++ {
			orc := make([]int, len(ads))
			for k := range orc {
				orc[k] = cmcOutcome(r, 75, 18)
			}
			if j == 0 {
				orc[0] = cmOk
			}
			steps = append(steps, cmStep{ev: 0, id: j, oracle: orc})
			if r.Intn(4) == 0 {
				orc2 := make([]int, len(ads))
				for k := range orc2 {
					orc2[k] = cmcOutcome(r, 50, 40)
				}
				steps = append(steps, cmStep{ev: 3, id: 0, oracle: orc2})
			}
		}
		for _, s := range steps {
			st := w.exec(s)
			obs, _ := w.observe(st)
			setup = append(setup, L(L(Sym(cmEvSym[s.ev]), I(s.id)), cmOracleS(s.oracle), obs))
			if st != "ok" {
				alive = false
				break
			}
		}
	}
	// outcome of every Start from now on (constant per adapter for the rest of the case)
	orc := make([]int, len(ads))
	for k := range orc {
		orc[k] = cmcOutcome(r, 60, 32)
	}
	if mode == 1 {
		orc[0] = cmOk
		orc[1] = cmFailRetry // keeps the retry passes busy for ever
		for k := 2; k < nad; k++ {
			if r.Intn(2) == 0 {
				orc[k] = cmFailRetry
			}
		}
		w.setOracle(orc)
		for j := 0; j < nad && alive; j++ {
			j := j
			if st := cmGuarded(func() { w.mgr.Register(w.ifaces[j]) }); st != "ok" {
				alive = false
			}
			setup = append(setup, L(Sym("reg"), I(j)))
		}
	} else {
		w.setOracle(orc)
	}
	if lateReg {
		orc[bystander] = cmOk
		w.setOracle(orc)
	}
	if !alive {
		// the set-up itself failed (panic / hang of a synchronous step): that is the "seq" generator's
		// business; record it and stop
		o.Case("conc", cmCfgS(qttl, ads), Sym(cmcModeSym[mode]), LL(setup), cmOracleS(orc), L(), Sym("none"), I(bystander), I(-1), Sym("none"),
			Sym("setup-failed"), L(), L(), L(), L(), L())
		w.cleanup()
		return true
	}

	// ---- events in flight ----
	var running []int
	for j := 0; j < nad; j++ {
		if w.convs[j].isRunning() {
			running = append(running, j)
		}
	}
	var msgs []cmcMsg
	if len(running) > 0 {
		npg := 1 + r.Intn(4)
		for k := 0; k < npg; k++ {
			msgs = append(msgs, cmcMsg{pg: true, id: running[r.Intn(len(running))]})
		}
		for k := r.Intn(3); k > 0; k-- {
			at := 1 + r.Intn(len(msgs)) // the first message stays a PeerDisappeared
			m := cmcMsg{pg: false, id: running[r.Intn(len(running))]}
			msgs = append(msgs[:at], append([]cmcMsg{m}, msgs[at:]...)...)
		}
	}
	// an adapter that another goroutine unregisters while the shutdown stops it (no message of its own in flight)
	unreg := -1
	if len(running) >= 2 && r.Intn(3) == 0 {
		unreg = running[r.Intn(len(running))]
		var keep []cmcMsg
		for _, m := range msgs {
			if m.id != unreg {
				keep = append(keep, m)
			}
		}
		for len(keep) > 0 && !keep[0].pg {
			keep = keep[1:]
		}
		msgs = keep
	}
	variant := r.Intn(4 + mode)
	yields := r.Intn(40)
	if variant == 3 && len(msgs) == 0 {
		variant = 1
	}
	if lateReg {
		variant = 5
	}
	var msgS []S
	per := map[int][]cmcMsg{}
	var order []int
	for _, m := range msgs {
		k := "pa"
		if m.pg {
			k = "pg"
		}
		msgS = append(msgS, L(Sym(k), I(m.id)))
		if per[m.id] == nil {
			order = append(order, m.id)
		}
		per[m.id] = append(per[m.id], m)
	}

	// Manager.Close(), started once: by this goroutine or from a schedule point inside a mock
	done := make(chan string, 1)
	closeReturned := make(chan struct{})
	var closeOnce sync.Once
	launchClose := func(wait bool) {
		closeOnce.Do(func() {
			entered := make(chan struct{})
			go func() {
				defer close(closeReturned)
				defer func() {
					if rec := recover(); rec != nil {
						done <- "panic"
					}
				}()
				close(entered)
				_ = w.mgr.Close()
				done <- "ok"
			}()
			if wait {
				// called from inside the handler's restart / retry pass: let Close() get going before
				// the handler continues (whatever the interleaving, the property's verdict is the same)
				<-entered
				time.Sleep(2 * time.Millisecond)
			}
		})
	}
	fired := make(chan struct{}, 1)
	switch variant {
	case 3:
		// the first message is a PeerDisappeared of msgs[0].id: its restart stops that adapter
		c := w.convs[msgs[0].id]
		c.mu.Lock()
		c.onClose = func() { launchClose(true); fired <- struct{}{} }
		c.mu.Unlock()
	case 4:
		c := w.convs[1]
		c.mu.Lock()
		c.onStart = func() { launchClose(true); fired <- struct{}{} }
		c.mu.Unlock()
	case 5:
		// inside the bystander's Register (the stop flag has been looked at): Close() runs to its end
		c := w.convs[bystander]
		c.mu.Lock()
		c.onStart = func() {
			launchClose(false)
			guard := time.NewTimer(cmcCloseBound)
			select {
			case <-closeReturned:
			case <-guard.C:
			}
			guard.Stop()
			fired <- struct{}{}
		}
		c.mu.Unlock()
	}
	unregRes := make(chan string, 1)
	if unreg >= 0 {
		// the shutdown (handler goroutine) is inside deactivate of this adapter when the mock's Close
		// runs: another goroutine calls Unregister for it now
		c := w.convs[unreg]
		c.mu.Lock()
		c.onClose = func() {
			go func() {
				defer func() {
					if rec := recover(); rec != nil {
						unregRes <- "panic"
					}
				}()
				w.mgr.Unregister(w.ifaces[unreg])
				unregRes <- "ok"
			}()
			time.Sleep(2 * time.Millisecond)
		}
		c.mu.Unlock()
	}

	abort := make(chan struct{})
	var inj sync.WaitGroup
	first := make(chan struct{}, len(per)+1)
	for _, id := range order {
		inj.Add(1)
		go func(id int, ms []cmcMsg) {
			defer inj.Done()
			c := w.convs[id]
			for k, m := range ms {
				msg := cla.ConvergenceStatus{Sender: w.ifaces[id], MessageType: cla.PeerAppeared, Message: c.peer}
				if m.pg {
					msg = cla.ConvergenceStatus{Sender: w.ifaces[id], MessageType: cla.PeerDisappeared, Message: c.eid}
				}
				select {
				case c.ch <- msg:
				case <-abort:
					if k == 0 {
						first <- struct{}{}
					}
					return
				}
				if k == 0 {
					first <- struct{}{}
				}
			}
		}(id, per[id])
	}
	injectOK := true
	if variant != 1 {
		// the first message of every adapter has been taken by its element handler (the adapter is
		// started, its handler reads the channel)
		guard := time.NewTimer(cmcCloseBound)
		for range order {
			select {
			case <-first:
			case <-guard.C:
				injectOK = false
			}
		}
		guard.Stop()
		if variant == 2 {
			for k := 0; k < yields; k++ {
				runtime.Gosched()
			}
		}
	}
	byDone := make(chan struct{})
	if bystander >= 0 {
		go func() {
			defer close(byDone)
			defer func() { _ = recover() }()
			w.mgr.Register(w.ifaces[bystander])
		}()
	} else {
		close(byDone)
	}
	if variant >= 3 {
		// the handler reaches the schedule point (restart of a started adapter / next retry pass)
		guard := time.NewTimer(cmcCloseBound)
		select {
		case <-fired:
		case <-guard.C:
			injectOK = false
		}
		guard.Stop()
	}
	launchClose(false)
	status := "timeout"
	guard := time.NewTimer(cmcCloseBound)
	select {
	case status = <-done:
	case <-guard.C:
	}
	guard.Stop()
	close(abort)
	inj.Wait()
	if status == "ok" {
		// the bystander's Register returns as well: Close() has released everything it held
		guard := time.NewTimer(cmcCloseBound)
		select {
		case <-byDone:
		case <-guard.C:
			status = "register-timeout"
		}
		guard.Stop()
	}
	ustatus := "none"
	if unreg >= 0 && status == "ok" {
		// Close() has stopped the adapter, so the Unregister call was made; it returns as well
		guard := time.NewTimer(cmcCloseBound)
		select {
		case ustatus = <-unregRes:
		case <-guard.C:
			ustatus = "timeout"
		}
		guard.Stop()
	}
	if status == "ok" && !injectOK {
		status = "inject-timeout"
	}
	calls, post, snd, rcv, dump := L(), L(), L(), L(), L()
	if status == "ok" {
		w.closed = true
		// msg mode: the calls since the last set-up step; ticker mode: every call of the case
		obs, _ := w.observe("ok")
		l := obs.(sList)
		calls, snd, rcv, dump = l[1], l[2], l[3], l[4]
		// nothing may happen on the adapters after Close() has returned
		runtime.Gosched()
		post = cmcCallsS(w.log.take())
	} else {
		// the manager is stuck (or died): do not touch it again
		calls = cmcCallsS(w.log.take())
	}
	o.Case("conc", cmCfgS(qttl, ads), Sym(cmcModeSym[mode]), LL(setup), cmOracleS(orc), LL(msgS), Sym(cmcVariantSym[variant]), I(bystander), I(unreg), Sym(ustatus),
		Sym(status), calls, post, snd, rcv, dump)
	return status == "ok"
}

func genC16clamgrconc(o *Out, r *Rng, thorough bool) {
	nmsg, ntick := 80, 30
	if thorough {
		nmsg, ntick = 1500, 500
	}
	hung := 0
	for i := 0; i < nmsg+ntick && hung < cmcMaxHung; i++ {
		mode := 0
		if i >= nmsg {
			mode = 1
		}
		if !cmcCase(o, r, mode) {
			hung++
		}
	}
}

func init() { register("C16clamgrconc", genC16clamgrconc) }
