package main

// C17chunk: every stream decoder of C17 fed through readers that deliver the bytes in pieces.
//
// The round trips of C17tcpclmsg / C17auxcbor read from a bytes.Reader (or a bufio.Reader with the
// whole input in its buffer), which satisfies every Read completely.  A connection does not: a Read
// returns what has arrived (TCP segment boundary, the 4096 byte refill boundary of the bufio.Reader
// of utils.MessageSwitchReaderWriter, a WebSocket frame).  The property (decoding consumes exactly
// the bytes the encoder produced, consecutive messages stay aligned) does not depend on how the
// bytes are delivered, so for every stream:
//
//   the messages read, the offset behind each of them and the way the stream ends must be the same
//   through every chunking reader as from a bytes.Reader - which in turn is judged against the values
//   written and the model (as in the "stream" cases of C17tcpclmsg / C17auxcbor).
//
// Readers (chunkMode): one byte per Read (iotest.OneByteReader), half of what is asked for
// (iotest.HalfReader), the last bytes together with io.EOF, chunk sizes from the Rng, a chunk boundary
// at a given offset (every offset of short streams; around every message boundary and at random
// offsets of long ones), bufio.Readers with small buffers / the default size, alone and on top of
// chunked delivery.
//
//   kinds  tstream  TCPCLv4 messages (ReadMessage loop; node ids / data of boundary lengths, extension
//                   items present, long streams whose SESS_INIT / XFER_SEGMENT lies across offset 4096)
//          astream  CBOR auxiliary formats (mixed messages read back from one reader)
//
// BBC fragments (ParseFragment) and announcement lists (UnmarshalAnnouncements) are decoded from a
// complete datagram ([]byte): there is no reader to chunk.

import (
	"bufio"
	"bytes"
	"io"
	"testing/iotest"

	tc "github.com/dtn7/dtn7-go/pkg/cla/tcpclv4"
)

// ---------------------------------------------------------------------------------------------
// chunking readers

// cutReader never delivers bytes from both sides of a cut in one Read.
type cutReader struct {
	under *bytes.Reader
	total int
	cuts  []int
}

func (c *cutReader) Read(p []byte) (int, error) {
	off := c.total - c.under.Len()
	max := len(p)
	for _, cut := range c.cuts {
		if cut > off && cut-off < max {
			max = cut - off
		}
	}
	return c.under.Read(p[:max])
}

// sizesReader delivers at most sizes[i] bytes by its i-th Read (cyclic).
type sizesReader struct {
	under *bytes.Reader
	sizes []int
	i     int
}

func (s *sizesReader) Read(p []byte) (int, error) {
	max := s.sizes[s.i%len(s.sizes)]
	s.i++
	if max < len(p) {
		p = p[:max]
	}
	return s.under.Read(p)
}

// dataEOFReader returns io.EOF together with the last bytes (as io.Reader allows).
type dataEOFReader struct{ under *bytes.Reader }

func (d *dataEOFReader) Read(p []byte) (int, error) {
	n, err := d.under.Read(p)
	if err == nil && d.under.Len() == 0 && len(p) > 0 {
		err = io.EOF
	}
	return n, err
}

type chunkMode struct {
	name string // plain onebyte half dataeof sizes cut bufio bufio-sizes bufio-onebyte
	args []int  // sizes: the sizes; cut: the offsets; bufio*: buffer size, then the sizes
}

func (m chunkMode) S() S {
	l := []S{Sym(m.name)}
	for _, a := range m.args {
		l = append(l, I(a))
	}
	return LL(l)
}

// open returns the reader over all and a function telling how many bytes the decoder has not taken yet.
func (m chunkMode) open(all []byte) (io.Reader, func() int) {
	under := bytes.NewReader(all)
	plainRem := func() int { return under.Len() }
	buffered := func(r io.Reader, size int) (io.Reader, func() int) {
		br := bufio.NewReaderSize(r, size)
		return br, func() int { return br.Buffered() + under.Len() }
	}
	switch m.name {
	case "onebyte":
		return iotest.OneByteReader(under), plainRem
	case "half":
		return iotest.HalfReader(under), plainRem
	case "dataeof":
		return &dataEOFReader{under}, plainRem
	case "sizes":
		return &sizesReader{under: under, sizes: m.args}, plainRem
	case "cut":
		return &cutReader{under: under, total: len(all), cuts: m.args}, plainRem
	case "bufio":
		return buffered(under, m.args[0])
	case "bufio-onebyte":
		return buffered(iotest.OneByteReader(under), m.args[0])
	case "bufio-sizes":
		return buffered(&sizesReader{under: under, sizes: m.args[1:]}, m.args[0])
	}
	return under, plainRem
}

// chunkDevs collects the readers through which something else was read: at most two per kind of reader.
type chunkDevs struct {
	seen map[string]int
	devs []S
}

func (d *chunkDevs) add(m chunkMode, got S) {
	if d.seen == nil {
		d.seen = map[string]int{}
	}
	if d.seen[m.name] >= 2 {
		return
	}
	d.seen[m.name]++
	d.devs = append(d.devs, L(m.S(), got))
}

func chunkSizes(r *Rng) []int {
	n := 1 + r.Intn(6)
	s := make([]int, n)
	for i := range s {
		switch r.Intn(5) {
		case 0:
			s[i] = 1
		case 1:
			s[i] = 1 + r.Intn(3)
		case 2:
			s[i] = 1 + r.Intn(9)
		case 3:
			s[i] = 1 + r.Intn(40)
		default:
			s[i] = 1 + r.Intn(5000)
		}
	}
	return s
}

// chunkModes: the readers a stream of n bytes with messages ending at the offsets ends is read through.
func chunkModes(r *Rng, n int, ends []int, withDataEOF bool) []chunkMode {
	ms := []chunkMode{{name: "onebyte"}, {name: "half"}}
	if withDataEOF {
		ms = append(ms, chunkMode{name: "dataeof"})
	}
	for i := 0; i < 3; i++ {
		ms = append(ms, chunkMode{name: "sizes", args: chunkSizes(r)})
	}
	// one boundary: at every offset of a short stream, around the message boundaries and at random offsets of a long one
	if n <= 300 {
		for p := 1; p < n; p++ {
			ms = append(ms, chunkMode{name: "cut", args: []int{p}})
		}
	} else {
		seen := map[int]bool{}
		add := func(p int) {
			if p > 0 && p < n && !seen[p] {
				seen[p] = true
				ms = append(ms, chunkMode{name: "cut", args: []int{p}})
			}
		}
		for _, e := range ends {
			for d := -3; d <= 24; d++ {
				add(e + d)
			}
		}
		for i := 0; i < 40; i++ {
			add(1 + r.Intn(n-1))
		}
		for _, p := range []int{4095, 4096, 4097, 8192} {
			add(p)
		}
	}
	// several boundaries
	for i := 0; i < 3 && n > 2; i++ {
		k := 2 + r.Intn(4)
		cuts := make([]int, k)
		for j := range cuts {
			cuts[j] = 1 + r.Intn(n-1)
		}
		ms = append(ms, chunkMode{name: "cut", args: cuts})
	}
	ms = append(ms, chunkMode{name: "bufio", args: []int{16}}, chunkMode{name: "bufio", args: []int{17 + r.Intn(48)}},
		chunkMode{name: "bufio", args: []int{4096}}, chunkMode{name: "bufio-onebyte", args: []int{16}},
		chunkMode{name: "bufio-sizes", args: append([]int{16 + r.Intn(100)}, chunkSizes(r)...)},
		chunkMode{name: "bufio-sizes", args: append([]int{4096}, chunkSizes(r)...)})
	return ms
}

// ---------------------------------------------------------------------------------------------
// TCPCLv4

// tmsgStreamOn is tmsgStream on any reader, recording the offset behind each message:
// ((msg offset)...) end
func tmsgStreamOn(rd io.Reader, total int, remaining func() int) (msgs []S, end string) {
	defer func() {
		if e := recover(); e != nil {
			end = "panic"
		}
	}()
	for remaining() > 0 {
		m, err := tc.VerifReadMessage(rd)
		if err != nil {
			return msgs, "err"
		}
		msgs = append(msgs, L(tmsgObs(m), I(total-remaining())))
	}
	if _, err := tc.VerifReadMessage(rd); err != io.EOF {
		return msgs, "err"
	}
	return msgs, "eof"
}

// tmsgWithExt inserts n bytes of extension items into the encoding of a SESS_INIT / XFER_SEGMENT (the
// encoder never writes any, a peer may; the decoder skips them).
func tmsgWithExt(v tmsgV, enc []byte, items []byte) []byte {
	n := len(items)
	l4 := []byte{byte(n >> 24), byte(n >> 16), byte(n >> 8), byte(n)}
	switch v.kind {
	case "sess_init":
		out := append([]byte{}, enc[:len(enc)-4]...)
		out = append(out, l4...)
		return append(out, items...)
	case "xfer_segment":
		out := append([]byte{}, enc[:10]...)
		out = append(out, l4...)
		out = append(out, items...)
		return append(out, enc[14:]...)
	}
	return enc
}

func tmsgChunkCase(o *Out, r *Rng, smode string, vals []tmsgV, encs [][]byte, tail []byte, cut int) {
	var all []byte
	var vs []S
	var ends []int
	for i, v := range vals {
		all = append(all, encs[i]...)
		ends = append(ends, len(all))
		vs = append(vs, L(v.S(), I(len(encs[i]))))
	}
	all = append(all, tail...)
	if cut >= 0 && cut < len(all) {
		all = all[:cut]
	}
	res := func(m chunkMode) S {
		rd, rem := m.open(all)
		msgs, end := tmsgStreamOn(rd, len(all), rem)
		return L(LL(msgs), Sym(end))
	}
	plain := res(chunkMode{name: "plain"})
	ps := SString(plain)
	modes := chunkModes(r, len(all), ends, true)
	var devs chunkDevs
	for _, m := range modes {
		if got := res(m); SString(got) != ps {
			devs.add(m, got)
		}
	}
	o.Case("tstream", Sym(smode), LL(vs), X(all), plain, I(len(modes)), LL(devs.devs))
}

func tmsgChunkValue(r *Rng, kind string, n int) tmsgV {
	switch kind {
	case "sess_init":
		return tmsgV{kind: kind, a: uint64(r.Intn(65536)), b: tmsgPickU64(r), c: tmsgPickU64(r), data: r.Bytes(n)}
	default:
		return tmsgV{kind: "xfer_segment", a: uint64(r.Intn(4)), b: tmsgPickU64(r), data: r.Bytes(n)}
	}
}

func genTstream(o *Out, r *Rng, thorough bool) {
	enc := func(v tmsgV) []byte {
		bs, _ := tmsgMarshal(v.build())
		return bs
	}
	some := func(n int) (vs []tmsgV, es [][]byte) {
		for i := 0; i < n; i++ {
			v := tmsgRandomValid(r)
			vs = append(vs, v)
			es = append(es, enc(v))
		}
		return
	}
	// random short streams: clean, cut, with garbage behind
	ns := 60
	if thorough {
		ns = 1500
	}
	for i := 0; i < ns; i++ {
		vs, es := some(1 + r.Intn(5))
		total := 0
		for _, e := range es {
			total += len(e)
		}
		switch r.Intn(6) {
		case 0:
			tmsgChunkCase(o, r, "cut", vs, es, nil, r.Intn(total))
		case 1:
			tmsgChunkCase(o, r, "tail", vs, es, r.Bytes(1+r.Intn(6)), -1)
		default:
			tmsgChunkCase(o, r, "clean", vs, es, nil, -1)
		}
	}
	// every message type between two others, fields of boundary lengths
	lens := []int{0, 1, 2, 255, 256, 257, 1000}
	if thorough {
		lens = append(lens, 4095, 4096, 4097, 65535)
	}
	for _, kind := range []string{"sess_init", "xfer_segment"} {
		for _, l := range lens {
			pre, pe := some(1 + r.Intn(2))
			post, pse := some(1 + r.Intn(2))
			v := tmsgChunkValue(r, kind, l)
			vs := append(append(pre, v), post...)
			es := append(append(pe, enc(v)), pse...)
			tmsgChunkCase(o, r, "clean", vs, es, nil, -1)
		}
		// extension items present
		for _, n := range []int{1, 5, 300} {
			pre, pe := some(1)
			post, pse := some(2)
			v := tmsgChunkValue(r, kind, 1+r.Intn(40))
			vs := append(append(pre, v), post...)
			es := append(append(pe, tmsgWithExt(v, enc(v), r.Bytes(n))), pse...)
			tmsgChunkCase(o, r, "clean", vs, es, nil, -1)
		}
	}
	// long streams: a message with a byte field placed so that the field lies across offset 4096 (the refill
	// boundary of a default bufio.Reader, as used by the TCP message switch)
	nl := 6
	if thorough {
		nl = 60
	}
	for i := 0; i < nl; i++ {
		kind := []string{"sess_init", "xfer_segment"}[i%2]
		var vs []tmsgV
		var es [][]byte
		total := 0
		l := 20 + r.Intn(200)
		// the field starts between 4096-l+1 and 4095: fill up with other messages
		headLen := map[string]int{"sess_init": 21, "xfer_segment": 22}[kind]
		want := 4096 - headLen - 1 - r.Intn(l-1)
		for total < want {
			v := tmsgRandomValid(r)
			if left := want - total; left < 300 {
				// a segment of exactly the missing length (22 bytes of head), else small messages
				if left >= 22 {
					v = tmsgV{kind: "xfer_segment", a: 1, b: uint64(i), data: r.Bytes(left - 22)}
				} else {
					v = tmsgV{kind: "keepalive"}
				}
			}
			e := enc(v)
			vs, es, total = append(vs, v), append(es, e), total+len(e)
		}
		v := tmsgChunkValue(r, kind, l)
		vs, es = append(vs, v), append(es, enc(v))
		post, pse := some(3)
		vs, es = append(vs, post...), append(es, pse...)
		tmsgChunkCase(o, r, "clean", vs, es, nil, -1)
	}
}

// ---------------------------------------------------------------------------------------------
// CBOR auxiliary formats

func axStreamOn(kinds []string, rd io.Reader, remaining func() int) (back []S, rem int) {
	for _, k := range kinds {
		before := remaining()
		obs := axStreamRead(k, rd)
		back = append(back, L(obs, I(before-remaining())))
	}
	return back, remaining()
}

func axChunkCase(o *Out, r *Rng, cand []interface{}) {
	var kinds []string
	var ds []S
	var stream []byte
	var ends []int
	for _, v := range cand {
		enc, err := axEnc(v)
		if err != nil || axKind(v) == "anns" {
			continue
		}
		kinds = append(kinds, axKind(v))
		ds = append(ds, L(Sym(axKind(v)), axDump(v), I(len(enc))))
		stream = append(stream, enc...)
		ends = append(ends, len(stream))
	}
	if len(kinds) == 0 {
		return
	}
	stream = append(stream, r.Bytes(r.Intn(3))...)
	res := func(m chunkMode) S {
		rd, rem := m.open(stream)
		back, left := axStreamOn(kinds, rd, rem)
		return L(LL(back), I(left))
	}
	plain := res(chunkMode{name: "plain"})
	ps := SString(plain)
	// cboring reads single bytes with r.Read and takes (1, io.EOF) for a failure: library code, not claimed
	modes := chunkModes(r, len(stream), ends, false)
	var devs chunkDevs
	for _, m := range modes {
		if got := res(m); SString(got) != ps {
			devs.add(m, got)
		}
	}
	axCase(o, "astream", LL(ds), X(stream), plain, I(len(modes)), LL(devs.devs))
}

func genAstream(o *Out, r *Rng, thorough bool) {
	n := 60
	if thorough {
		n = 1500
	}
	for i := 0; i < n; i++ {
		var vals []interface{}
		for j, k := 0, 1+r.Intn(6); j < k; j++ {
			vals = append(vals, axRandVal(r))
		}
		axChunkCase(o, r, vals)
	}
	// strings / byte strings of boundary lengths between other messages
	for _, l := range []int{0, 1, 23, 24, 255, 256, 1000, 4090, 5000} {
		for code := uint64(0); code < 5; code++ {
			if code == 2 && l > 256 {
				continue
			}
			axChunkCase(o, r, []interface{}{axRandVal(r), axWam(r, code, l), axRandVal(r)})
		}
		axChunkCase(o, r, []interface{}{axRandVal(r), axDtn(axStr(r, 1+l%256, axNodeChars), axStr(r, l, "ab/~ .")), axRandVal(r)})
	}
	for _, ni := range []int{0, 1, 23, 24, 255, 256} {
		axChunkCase(o, r, []interface{}{axRandVal(r), axAdm{axSr(r, ni, uint64(r.Intn(12)), r.Bool())}, axSr(r, ni, uint64(r.Intn(12)), r.Bool()), axRandVal(r)})
	}
}

func genC17chunk(o *Out, r *Rng, thorough bool) {
	registerAllBlocks()
	genTstream(o, r, thorough)
	genAstream(o, r, thorough)
}

func init() { register("C17chunk", genC17chunk) }
