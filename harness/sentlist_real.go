package main

// C13 (area SentList), events on the REAL path: a convergence layer's status channel ->
// cla.Manager -> Core.handler.  The other C13 scenarios drive Core.receive / checkPendingBundles
// through synchronous hooks; here the receptions and the peer appearances / disappearances are
// cla.ConvergenceStatus messages written to the channel of a registered convergence layer, as the
// TCPCL / MTCP layers of the daemon do, and the Core's own event loop processes them.
//
// One feeder layer carries all events of a scenario (FIFO: its channel, the manager's queue, the
// handler), the peers are mock convergence senders registered at the Core.  A round is a reception
// (previous node = a connected peer / another node / none) IMMEDIATELY followed by 1..3 peer
// events (a known peer announced again - a restarted link -, a new peer, a peer that disappears: the
// manager restarts its layer); some bundles request a reception status report for a report-to node
// that is no neighbour, and the links are slow for administrative records (Send takes 25 ms), so the
// processing of the reception takes a while.  A round is closed by a sentinel bundle for a local
// agent sent over the same channel: when the agent has it, the handler has processed everything
// before it (the time limit of 60 s is no verdict of the property: a round that does not finish is
// reported as a harness anomaly).
//
// Observable: per bundle and peer the outcomes of ConvergenceSender.Send in their order.  All
// transmissions succeed here, so the rule on the log is: never to the previous node, at most once to
// a peer.

import (
	"fmt"
	"strconv"
	"time"

	"github.com/dtn7/dtn7-go/pkg/bpv7"
	"github.com/dtn7/dtn7-go/pkg/cla"
)

type rpFeeder struct {
	ch chan cla.ConvergenceStatus
}

func (f *rpFeeder) Start() (error, bool)                { return nil, false }
func (f *rpFeeder) Close() error                        { return nil }
func (f *rpFeeder) Channel() chan cla.ConvergenceStatus { return f.ch }
func (f *rpFeeder) Address() string                     { return "mock://feeder" }
func (f *rpFeeder) IsPermanent() bool                   { return true }
func (f *rpFeeder) String() string                      { return "mock://feeder" }

var rpStalls int // rounds that did not finish in time (never on working code)

type rpEv struct {
	kind string // recv appear vanish
	b    int
	prev int // 0 none, 1..5 peer, 9 another node
	slow bool
	p    int
}

type rpScen struct {
	n      *Node
	algo   string
	feed   *rpFeeder
	agent  *MockAgent
	nsent  int // sentinels sent
	ids    map[string]int
	prevs  map[int]int
	reg    map[int]*MockCLA
	stall  bool
	rounds []S
}

func rpEid(i int) string { return "dtn://p" + strconv.Itoa(i) + "/" }

func (x *rpScen) peer(i int) *MockCLA {
	if m, ok := x.reg[i]; ok {
		return m
	}
	// registered at the manager, not yet announced: the announcement travels the real path
	m := &MockCLA{Name: "p" + strconv.Itoa(i), Peer: MustEID(rpEid(i)), node: x.n, ch: make(chan cla.ConvergenceStatus, 4)}
	m.Block = func(rec *SendRec) {
		if rec.Bndl.IsAdministrativeRecord() {
			time.Sleep(25 * time.Millisecond) // a slow link
		}
	}
	x.n.Peers[m.Name] = m
	x.n.Core.RegisterConvergable(m)
	x.reg[i] = m
	if x.algo == "prophet" {
		x.n.Core.VerifProphetSetPeerPred(m.Peer, MustEID("dtn://dest/x"), 0.9)
	}
	return m
}

func (x *rpScen) bundle(ev rpEv) bpv7.Bundle {
	dst := "dtn://dest/x"
	if x.algo == "dtlsr" {
		dst = slBroadcast
	}
	bl := bpv7.Builder().CRC(bpv7.CRC32).Source("dtn://src" + strconv.Itoa(ev.b) + "/app").Destination(dst).Lifetime(time.Hour).
		CreationTimestampNow().PayloadBlock([]byte("R" + strconv.Itoa(ev.b)))
	if ev.slow {
		bl = bl.ReportTo("dtn://far/rep").BundleCtrlFlags(bpv7.StatusRequestReception)
	}
	switch {
	case ev.prev >= 1 && ev.prev <= 5:
		bl = bl.PreviousNodeBlock(rpEid(ev.prev))
	case ev.prev == 9:
		bl = bl.PreviousNodeBlock("dtn://other/")
	}
	b, err := bl.Build()
	if err != nil {
		panic(err)
	}
	return b
}

// round writes the events to the feeder's channel back to back, then the sentinel, and waits for it.
func (x *rpScen) round(evs []rpEv) {
	var es []S
	var msgs []cla.ConvergenceStatus
	for _, ev := range evs {
		switch ev.kind {
		case "recv":
			b := x.bundle(ev)
			x.ids[b.ID().String()] = ev.b
			x.prevs[ev.b] = ev.prev
			msgs = append(msgs, cla.NewConvergenceReceivedBundle(x.feed, x.n.ID, &b))
			es = append(es, L(Sym("recv"), I(ev.b), I(ev.prev), B(ev.slow)))
		case "appear":
			m := x.peer(ev.p)
			msgs = append(msgs, cla.NewConvergencePeerAppeared(m, m.Peer))
			es = append(es, L(Sym("appear"), I(ev.p)))
		case "vanish":
			m := x.peer(ev.p)
			msgs = append(msgs, cla.NewConvergencePeerDisappeared(m, m.Peer))
			es = append(es, L(Sym("vanish"), I(ev.p)))
		}
	}
	x.nsent++
	sb, err := bpv7.Builder().CRC(bpv7.CRC32).Source("dtn://sentinel/s" + strconv.Itoa(x.nsent)).Destination("dtn://n0/sentinel").
		Lifetime(time.Hour).CreationTimestampNow().PayloadBlock([]byte("sentinel")).Build()
	if err != nil {
		panic(err)
	}
	msgs = append(msgs, cla.NewConvergenceReceivedBundle(x.feed, x.n.ID, &sb))
	x.n.Event++
	for _, m := range msgs {
		x.feed.ch <- m
	}
	limit := 60 * time.Second
	if rpStalls > 0 {
		limit = 5 * time.Second // broken code that stalls every round: the run still ends and reports what it saw
	}
	deadline := time.Now().Add(limit)
	for {
		x.agent.mu.Lock()
		got := len(x.agent.Got)
		x.agent.mu.Unlock()
		if got >= x.nsent {
			break
		}
		if time.Now().After(deadline) {
			x.stall = true
			rpStalls++
			break
		}
		time.Sleep(time.Millisecond)
	}
	// On working code the handler is done with everything now.  Should processing go on in the background
	// (which is what this scenario class is after), let it show in the log: wait until the log has been
	// quiet for 40 ms (3 s at most).  This only adds observations.
	x.settle(8)
	x.rounds = append(x.rounds, LL(es))
}

// settle waits until the send log has been quiet for k*5 ms (3 s at most).
func (x *rpScen) settle(k int) {
	last, quiet := x.n.LastSendN(), 0
	for i := 0; i < 600 && quiet < k; i++ {
		time.Sleep(5 * time.Millisecond)
		if n := x.n.LastSendN(); n != last {
			last, quiet = n, 0
		} else {
			quiet++
		}
	}
}

func rpRun(o *Out, name, algo string, rounds [][]rpEv) {
	x := &rpScen{algo: algo, ids: map[string]int{}, prevs: map[int]int{}, reg: map[int]*MockCLA{}}
	x.n = NewNode("dtn://n0/", slConf(algo))
	defer func() { x.n.Core.VerifCloseAgents(); x.n.Destroy() }()
	x.feed = &rpFeeder{ch: make(chan cla.ConvergenceStatus, 64)}
	x.n.Core.RegisterConvergable(x.feed)
	x.agent = x.n.AddAgent("sentinel", "dtn://n0/sentinel")
	for _, r := range rounds {
		x.round(r)
		if x.stall {
			break
		}
	}
	// nothing may be left running in the background when the node is closed (a reception still being processed
	// would meet a closed store)
	x.settle(50)
	// per bundle: previous node, per peer the outcomes in order
	nb := 0
	for _, b := range x.ids {
		if b > nb {
			nb = b
		}
	}
	var bs []S
	for b := 1; b <= nb; b++ {
		per := map[int][]S{}
		for _, r := range x.n.SendsSince(0) {
			if i, ok := x.ids[r.ID]; ok && i == b {
				p := ikPeerIdx(r.Peer)
				per[p] = append(per[p], B(r.OK))
			}
		}
		var ps []S
		for p := 1; p <= 5; p++ {
			if len(per[p]) > 0 {
				ps = append(ps, L(I(p), LL(per[p])))
			}
		}
		bs = append(bs, L(I(b), I(x.prevs[b]), LL(ps)))
	}
	o.Case("real", Sym(name), Sym(algo), B(x.stall), LL(x.rounds), LL(bs))
}

var rpAlgos = []string{"epidemic", "prophet", "dtlsr", "mule"}

func genC13realpath(o *Out, r *Rng, thorough bool) {
	defer fastWorkDir("verif-c13r-")()
	ap := func(p int) rpEv { return rpEv{kind: "appear", p: p} }
	for _, algo := range rpAlgos {
		// the peers appear; a reception from peer 1 with a report request, the known peers are announced again
		// right behind it; a plain reception from peer 2 followed by a new peer
		rpRun(o, "reception-then-appearances", algo, [][]rpEv{
			{ap(1), ap(2), ap(3)},
			{{kind: "recv", b: 1, prev: 1, slow: true}, ap(2), ap(1)},
			{{kind: "recv", b: 2, prev: 2}, ap(4)},
			{{kind: "recv", b: 3, prev: 3, slow: true}, ap(5), ap(3), ap(4)},
			{ap(1), ap(2)},
		})
	}
	nrand := 2
	if thorough {
		nrand = 40
	}
	for _, algo := range rpAlgos {
		for c := 0; c < nrand; c++ {
			np := 2 + r.Intn(4)
			var rounds [][]rpEv
			var first []rpEv
			up := map[int]bool{}
			for p := 1; p <= np; p++ {
				if p <= 2 || r.Intn(3) != 0 {
					first = append(first, ap(p))
					up[p] = true
				}
			}
			rounds = append(rounds, first)
			nr := 3 + r.Intn(3)
			for b := 1; b <= nr; b++ {
				var ups []int
				for p := 1; p <= np; p++ {
					if up[p] {
						ups = append(ups, p)
					}
				}
				prev := []int{0, 9, ups[r.Intn(len(ups))], ups[r.Intn(len(ups))], ups[r.Intn(len(ups))]}[r.Intn(5)]
				rd := []rpEv{{kind: "recv", b: b, prev: prev, slow: r.Intn(3) != 0}}
				for k := 1 + r.Intn(3); k > 0; k-- {
					p := 1 + r.Intn(np)
					if up[p] && r.Intn(6) == 0 {
						rd = append(rd, rpEv{kind: "vanish", p: p}) // the manager restarts the layer, the peer stays registered
					} else {
						rd = append(rd, ap(p))
						up[p] = true
					}
				}
				rounds = append(rounds, rd)
			}
			rounds = append(rounds, []rpEv{ap(1 + r.Intn(np)), ap(1 + r.Intn(np))})
			rpRun(o, fmt.Sprintf("rand-%s", algo), algo, rounds)
		}
	}
}

func init() { register("C13realpath", genC13realpath) }
