package main

// C15 - status reports: a real routing.Core (epidemic) with scripted mock convergence senders and
// mock agents processes one bundle per case; observed are the status-report bundles the node sends
// out (decoded from the wire form handed to the mock CLAs), the sends of the bundle itself with
// their outcomes, agent hand-overs and whether the bundle is still in the store.

import (
	"bytes"
	"io/ioutil"
	"os"
	"path/filepath"
	"sort"
	"strings"
	"time"

	log "github.com/sirupsen/logrus"

	"github.com/dtn7/dtn7-go/pkg/bpv7"
	"github.com/dtn7/dtn7-go/pkg/cla"
	"github.com/dtn7/dtn7-go/pkg/routing"
)

const (
	rpNode     = "dtn://n0/"
	rpAgentEp1 = "dtn://n0/app"
	rpAgentEp2 = "dtn://svc/in"
	rpClaEp    = "dtn://n0cla/"
)

var rpReportTos = []string{"dtn://rpt/in", "dtn://other/x", "dtn://n1/rep", rpNode, "dtn://n0/other", rpAgentEp1, rpAgentEp2, "dtn://n0cla/z", "dtn:none", "ipn:7.1",
	// endpoints under the further listener IDs of the node (rpClaPool)
	"dtn://n0wan/mon", "dtn://n0tcp/", "ipn:9.5", "dtn://n0ws/a", "ipn:8.1"}
var rpReceivers = []string{rpNode, "dtn:none", rpAgentEp2, rpClaEp, "dtn://stranger/"}

// rpCla is one listening CLA of the node's configuration: dtnd registers the endpoint ID of every
// [[listen]] entry under its CLA type (Core.RegisterCLA -> cla.Manager.RegisterEndpointID).  A
// multi-homed node has several of them, also several of one type, with dtn and ipn names.
type rpCla struct {
	typ cla.CLAType
	eid string
}

// the listener IDs of the standing world (registered in an order drawn per world)
var rpClaPool = []rpCla{{cla.MTCP, rpClaEp}, {cla.MTCP, "dtn://n0wan/"}, {cla.TCPCLv4, "dtn://n0tcp/"}, {cla.TCPCLv4, "ipn:9.1"},
	{cla.TCPCLv4WebSocket, "dtn://n0ws/"}, {cla.MTCP, "ipn:8.1"}}

func rpShuffledClas(r *Rng) []rpCla {
	cs := append([]rpCla{}, rpClaPool...)
	for i := len(cs) - 1; i > 0; i-- {
		j := r.Intn(i + 1)
		cs[i], cs[j] = cs[j], cs[i]
	}
	return cs
}

type rpWorld struct {
	n      *Node
	agent  *MockAgent
	failOn map[string]map[string]bool // peer name -> main bundle ID -> fail
	cases  int
	mains  map[string]bool // IDs of the generated bundles
	clas   []rpCla         // listener IDs in the order of registration
	extra  []string        // endpoints of a second agent
}

func rpNewWorld(peers bool) *rpWorld { return rpNewWorldWith(peers, rpClaPool, nil) }

func rpNewWorldWith(peers bool, clas []rpCla, extraAgent []string) *rpWorld {
	w := &rpWorld{failOn: map[string]map[string]bool{}, mains: map[string]bool{}, clas: clas, extra: extraAgent}
	w.n = NewNode(rpNode, routing.RoutingConf{Algorithm: "epidemic"})
	w.agent = w.n.AddAgent("a", rpAgentEp1, rpAgentEp2)
	if len(extraAgent) > 0 {
		w.n.AddAgent("b", extraAgent...)
	}
	for _, c := range clas {
		w.n.Core.VerifClaManager().RegisterEndpointID(c.typ, MustEID(c.eid))
	}
	if peers {
		w.peerUp("rs", "dtn://rpt/")
		w.peerUp("p1", "dtn://n1/")
		w.peerUp("p2", "dtn://n2/")
	}
	return w
}

func (w *rpWorld) peerUp(name, eid string) {
	w.failOn[name] = map[string]bool{}
	tbl := w.failOn[name]
	w.n.PeerUpWith(name, eid, func(rec *SendRec) bool { return tbl[rec.ID] })
}

func (w *rpWorld) destroy() { w.n.Destroy() }

// rpSpec is one generated main bundle plus how it enters the node.
type rpSpec struct {
	kind     int // 0 receive, 1 submit
	receiver string
	b        bpv7.Bundle
	fails    map[string]bool // peers that fail the main bundle
	tag      string
}

func rpBundle(flags bpv7.BundleControlFlags, src, dst, rpt string, t bpv7.DtnTime, seq, life uint64, frag bool, blocks []bpv7.CanonicalBlock) bpv7.Bundle {
	pb := bpv7.PrimaryBlock{Version: 7, BundleControlFlags: flags, CRCType: bpv7.CRCNo, Destination: MustEID(dst),
		SourceNode: MustEID(src), ReportTo: MustEID(rpt), CreationTimestamp: bpv7.NewCreationTimestamp(t, seq), Lifetime: life}
	if frag {
		pb.BundleControlFlags |= bpv7.IsFragment
		pb.FragmentOffset = 3 + seq%5
		pb.TotalDataLength = 40 + uint64(t)%7
	}
	return bpv7.Bundle{PrimaryBlock: pb, CanonicalBlocks: blocks}
}

// a syntactically valid status report (about a bundle nobody knows) as payload of an administrative main bundle
func rpAdminPayload() []byte {
	ref := rpBundle(0, "dtn://ghost/a", "dtn://ghost/b", "dtn://ghost/a", 12345, 0, 1000, false, nil)
	sr := bpv7.NewStatusReport(ref, bpv7.ReceivedBundle, bpv7.NoInformation, bpv7.DtnTimeNow())
	var buf bytes.Buffer
	if err := bpv7.GetAdministrativeRecordManager().WriteAdministrativeRecord(sr, &buf); err != nil {
		panic(err)
	}
	return buf.Bytes()
}

type rpRep struct {
	id string
	s  S
}

// rpDecodeReport: the report as a receiver sees it (parsed from the wire bytes).  The administrative
// record itself - the payload of the report bundle - goes into the case as bytes and is decoded by
// the MODEL's status-report decoder in the driver (the fields decoded here with the implementation's
// own decoder are kept for a cross-check only: an encoder and a decoder that agree with each other
// but not with the format would otherwise pass).
func rpDecodeReport(raw []byte, t0, t1 bpv7.DtnTime) S {
	b, err := bpv7.ParseBundle(bytes.NewReader(raw))
	if err != nil {
		return L(Sym("badrep"), Str("parse: "+err.Error()))
	}
	ar, err := b.AdministrativeRecord()
	if err != nil {
		return L(Sym("badrep"), Str("record: "+err.Error()))
	}
	sr, ok := ar.(*bpv7.StatusReport)
	if !ok {
		return L(Sym("badrep"), Str("not a status report"))
	}
	var items []S
	for _, it := range sr.StatusInformation {
		inb := it.Time >= t0 && it.Time <= t1
		items = append(items, L(B(it.Asserted), B(it.StatusRequested), B(inb)))
	}
	p := b.PrimaryBlock
	rb := sr.RefBundle
	var payload []byte
	if pl, perr := b.PayloadBlock(); perr == nil {
		payload = pl.Value.(*bpv7.PayloadBlock).Data()
	}
	return L(Sym("rep"), LL(items), U(uint64(sr.ReportReason)), U(uint64(p.BundleControlFlags)), eidS(p.SourceNode), eidS(p.Destination),
		eidS(p.ReportTo), U(p.Lifetime),
		L(eidS(rb.SourceNode), U(rb.Timestamp[0]), U(rb.Timestamp[1]), B(rb.IsFragment), U(rb.FragmentOffset), U(rb.TotalDataLength)),
		I(len(b.CanonicalBlocks)), X(payload), U(uint64(t0)), U(uint64(t1)))
}

// envS: the node's configuration as the model needs it: node ID, agent endpoints, listener IDs (with
// their CLA type, in the order of registration)
func (w *rpWorld) envS() S {
	ags := []S{Str(rpAgentEp1), Str(rpAgentEp2)}
	for _, e := range w.extra {
		ags = append(ags, Str(e))
	}
	var cs []S
	for _, c := range w.clas {
		cs = append(cs, L(U(uint64(c.typ)), Str(c.eid)))
	}
	return L(Str(rpNode), LL(ags), LL(cs))
}

// rpWorldOfEnv rebuilds the world of a recorded case (replay)
func rpWorldOfEnv(env S) *rpWorld {
	l := env.(sList)
	var clas []rpCla
	for _, c := range l[2].(sList) {
		if cl, ok := c.(sList); ok {
			clas = append(clas, rpCla{cla.CLAType(atomU(cl[0])), string(atomX(cl[1]))})
		} else {
			clas = append(clas, rpCla{cla.MTCP, string(atomX(c))})
		}
	}
	var extra []string
	for i, a := range l[1].(sList) {
		if i >= 2 {
			extra = append(extra, string(atomX(a)))
		}
	}
	return rpNewWorldWith(true, clas, extra)
}

// rpCollect splits the sends since `after` into sends of the main bundle and decoded reports (first
// occurrence of each report bundle ID, in order of emission); anything else is a stray bundle.
func (w *rpWorld) rpCollect(after int, mainID string, t0, t1 bpv7.DtnTime) (mainSends []S, anyOK bool, reps []S, stray int) {
	seen := map[string]bool{}
	for _, s := range w.n.SendsSince(after) {
		if s.ID == mainID {
			mainSends = append(mainSends, B(s.OK))
			anyOK = anyOK || s.OK
			continue
		}
		if !s.Bndl.IsAdministrativeRecord() {
			stray++
			continue
		}
		if seen[s.ID] {
			continue
		}
		seen[s.ID] = true
		reps = append(reps, rpDecodeReport(s.Raw, t0, t1))
	}
	// sends to different peers run concurrently: canonical order
	var oks, fls []S
	for _, m := range mainSends {
		if SString(m) == "1" {
			oks = append(oks, m)
		} else {
			fls = append(fls, m)
		}
	}
	return append(oks, fls...), anyOK, reps, stray
}

// strayReports: status reports of this node that stayed on the node - handed to the local agent or
// kept in the store for a local endpoint - instead of leaving through a convergence layer.  Every
// report this node creates about one of the generated bundles is found either at a mock CLA (run)
// or here.
func (w *rpWorld) strayReports(o *Out) {
	n := 0
	emit := func(where string, b *bpv7.Bundle) {
		if !b.IsAdministrativeRecord() || w.mains[b.ID().String()] {
			return
		}
		ref := "?"
		if ar, err := b.AdministrativeRecord(); err == nil {
			if sr, ok := ar.(*bpv7.StatusReport); ok {
				ref = sr.RefBundle.String()
			}
		}
		n++
		o.Case("stray-report", Sym(where), eidS(b.PrimaryBlock.Destination), Str(ref))
	}
	for _, gb := range w.agent.Received() {
		g := gb
		emit("agent", &g)
	}
	if bis, err := w.n.Core.VerifStore().VerifAllItems(); err == nil {
		for _, bi := range bis {
			if len(bi.Parts) == 0 || !w.n.Core.HasEndpoint(bi.BId.SourceNode) {
				continue
			}
			if b, lerr := bi.Parts[0].Load(); lerr == nil && w.n.Core.HasEndpoint(b.PrimaryBlock.Destination) {
				emit("store", &b)
			}
		}
	}
	o.Case("stray-count", I(n))
}

// rpHanded: did the agent get bundle `id` (looking at what arrived since index `from`)?  The mux
// hands bundles over asynchronously; when the agent listens on the destination the arrival is
// awaited (up to 3 s) so that a slow scheduler cannot turn a hand-over into "not delivered".
var rpWaitMisses int // expected hand-overs that never came; after a few the waiting is given up

func rpHanded(a *MockAgent, id string, from int, expect bool) (bool, int) {
	deadline := time.Now().Add(3 * time.Second)
	if rpWaitMisses > 5 {
		expect = false
	}
	for {
		got := a.Received()
		for _, g := range got[from:] {
			if g.ID().String() == id {
				return true, len(got)
			}
		}
		if !expect {
			return false, len(got)
		}
		if time.Now().After(deadline) {
			rpWaitMisses++
			return false, len(got)
		}
		time.Sleep(time.Millisecond)
	}
}

// run one case in the standing world (peers rs, p1, p2 up; epidemic)
func (w *rpWorld) run(o *Out, sp rpSpec, agentSeen *int) {
	w.cases++
	id := sp.b.ID().String()
	w.mains[id] = true
	if sp.kind == 1 {
		sp.receiver = "dtn:none" // SendBundle: the descriptor has no receiver
	}
	for p, tbl := range w.failOn {
		if sp.fails[p] {
			tbl[id] = true
		}
	}
	adminOK := false
	if sp.b.IsAdministrativeRecord() {
		_, err := sp.b.AdministrativeRecord()
		adminOK = err == nil
	}
	dst := sp.b.PrimaryBlock.Destination
	direct := false
	for _, p := range w.n.Peers {
		if p.Peer.SameNode(dst) {
			direct = true
		}
	}
	known := w.n.Knows(sp.b.ID())
	dump := dumpBundle(&sp.b)
	after := w.n.LastSendN()
	t0 := bpv7.DtnTimeNow()
	if sp.kind == 0 {
		w.n.Receive(sp.b, sp.receiver)
	} else {
		w.n.Submit(sp.b)
	}
	t1 := bpv7.DtnTimeNow()
	mainSends, anyOK, reps, stray := w.rpCollect(after, id, t0, t1)
	handed := false
	if w.n.Core.HasEndpoint(dst) {
		listens := false
		for _, e := range w.agent.Endpoints() {
			listens = listens || e == dst
		}
		// configurations in which the Core does not even try the hand-over
		if known && sp.kind == 0 || sp.b.IsAdministrativeRecord() && !adminOK {
			listens = false
		}
		for _, cb := range sp.b.CanonicalBlocks {
			if sp.kind == 0 && cb.TypeCode() >= 77 && cb.TypeCode() <= 78 && cb.BlockControlFlags.Has(bpv7.DeleteBundle) {
				listens = false
			}
		}
		handed, *agentSeen = rpHanded(w.agent, id, *agentSeen, listens)
	}
	inStore := w.n.Knows(sp.b.ID())
	received := sp.kind == 0 && !known
	deleted := !inStore && !anyOK && !handed
	o.Case("step", w.envS(), I(sp.kind), Str(sp.receiver), B(known), dump, U(uint64(t0)), U(0), B(true), B(true), B(adminOK),
		LL(mainSends), B(direct),
		// observed
		L(B(received), B(anyOK), B(handed), B(deleted)), B(inStore), LL(reps), I(stray), Str(sp.tag))
	for _, tbl := range w.failOn {
		delete(tbl, id)
	}
}

var rpBlockFlagSets = []bpv7.BlockControlFlags{0, 1, 2, 3, 4, 5, 6, 7, 16, 17, 18, 19, 20, 21, 22, 23}

// the outcome classes; each returns destination, extra blocks, creation time / lifetime, failing peers
type rpOutcome struct {
	name  string
	kind  int
	src   string
	dst   string
	fails map[string]bool
	old   bool // creation time two hours ago
	zero  bool // zero creation time + bundle age block
	age   uint64
	life  uint64
	hop   [2]uint8 // limit, count; limit 0 = no block
	unk   []bpv7.BlockControlFlags
}

func rpOutcomes() []rpOutcome {
	all := map[string]bool{"rs": true, "p1": true, "p2": true}
	hour := uint64(3600000)
	os := []rpOutcome{
		{name: "delivered", dst: rpAgentEp1, life: hour},
		{name: "delivered-svc", dst: rpAgentEp2, life: hour},
		{name: "local-no-agent", dst: "dtn://n0/nobody", life: hour},
		{name: "local-cla-no-agent", dst: "dtn://n0cla/q", life: hour},
		{name: "forwarded", dst: "dtn://far/x", life: hour},
		{name: "forwarded-partial", dst: "dtn://far/x", life: hour, fails: map[string]bool{"rs": true, "p2": true}},
		{name: "all-sends-failed", dst: "dtn://far/x", life: hour, fails: all},
		{name: "direct", dst: "dtn://n1/x", life: hour},
		{name: "direct-failed", dst: "dtn://n1/x", life: hour, fails: map[string]bool{"p1": true}},
		{name: "hop-exceeded", dst: "dtn://far/x", life: hour, hop: [2]uint8{3, 3}},
		{name: "hop-ok", dst: "dtn://far/x", life: hour, hop: [2]uint8{3, 2}},
		{name: "hop-exceeded-local", dst: rpAgentEp1, life: hour, hop: [2]uint8{3, 3}},
		{name: "expired", dst: "dtn://far/x", life: hour, old: true},
		{name: "expired-local", dst: rpAgentEp1, life: hour, old: true},
		{name: "age-expired", dst: "dtn://far/x", life: 5000, zero: true, age: 5001},
		{name: "age-expired-at-update", dst: "dtn://far/x", life: 5000, zero: true, age: 5000},
		{name: "age-ok", dst: "dtn://far/x", life: 24 * hour, zero: true, age: 0},
		{name: "submit-local-src", kind: 1, src: rpAgentEp1, dst: "dtn://far/x", life: hour},
		{name: "submit-local-src-fail", kind: 1, src: rpNode, dst: "dtn://far/x", life: hour, fails: all},
		{name: "submit-to-self", kind: 1, src: rpAgentEp1, dst: rpAgentEp2, life: hour},
		{name: "submit-foreign-src", kind: 1, src: "dtn://elsewhere/app", dst: "dtn://far/x", life: hour},
		{name: "submit-none-src", kind: 1, src: "dtn:none", dst: "dtn://far/x", life: hour},
	}
	for _, bf := range rpBlockFlagSets {
		os = append(os, rpOutcome{name: "unknown-block", dst: "dtn://far/x", life: hour, unk: []bpv7.BlockControlFlags{bf}})
	}
	// two unknown blocks: processed from the last to the first
	pairs := [][2]bpv7.BlockControlFlags{{2, 2}, {2, 4}, {4, 2}, {6, 2}, {2, 6}, {18, 4}, {16, 16}, {4, 4}, {6, 6}}
	for _, pr := range pairs {
		os = append(os, rpOutcome{name: "unknown-blocks-2", dst: "dtn://far/x", life: hour, unk: []bpv7.BlockControlFlags{pr[0], pr[1]}})
		os = append(os, rpOutcome{name: "unknown-blocks-2-local", dst: rpAgentEp1, life: hour, unk: []bpv7.BlockControlFlags{pr[0], pr[1]}})
	}
	return os
}

var rpFlagBits = []bpv7.BundleControlFlags{bpv7.StatusRequestReception, bpv7.StatusRequestForward, bpv7.StatusRequestDelivery,
	bpv7.StatusRequestDeletion, bpv7.RequestStatusTime, bpv7.AdministrativeRecordPayload}

type rpGen struct {
	base bpv7.DtnTime
	ctr  uint64
}

func (g *rpGen) spec(oc rpOutcome, fl int, frag bool, rpt, receiver string, r *Rng) rpSpec {
	g.ctr++
	var flags bpv7.BundleControlFlags
	for i, bit := range rpFlagBits {
		if fl&(1<<uint(i)) != 0 {
			flags |= bit
		}
	}
	src := oc.src
	if src == "" {
		src = "dtn://src/app"
	}
	t := g.base + bpv7.DtnTime(g.ctr)
	if oc.old {
		t = g.base - 2*3600*1000 - bpv7.DtnTime(g.ctr)
	}
	if oc.zero {
		t = 0
	}
	seq := uint64(0)
	if oc.zero {
		seq = g.ctr
	}
	var blocks []bpv7.CanonicalBlock
	num := uint64(2)
	if oc.hop[0] != 0 {
		hc := bpv7.NewHopCountBlock(oc.hop[0])
		for i := uint8(0); i < oc.hop[1]; i++ {
			hc.Increment()
		}
		blocks = append(blocks, bpv7.NewCanonicalBlock(num, 0, hc))
		num++
	}
	if oc.zero {
		blocks = append(blocks, bpv7.NewCanonicalBlock(num, 0, bpv7.NewBundleAgeBlock(oc.age)))
		num++
	}
	for i, bf := range oc.unk {
		blocks = append(blocks, bpv7.NewCanonicalBlock(num, bf, bpv7.NewGenericExtensionBlock(r.Bytes(1+r.Intn(4)), uint64(77+i))))
		num++
	}
	payload := []byte("payload")
	if flags.Has(bpv7.AdministrativeRecordPayload) && r.Bool() {
		payload = rpAdminPayload()
	}
	blocks = append(blocks, bpv7.NewCanonicalBlock(1, 0, bpv7.NewPayloadBlock(payload)))
	b := rpBundle(flags, src, oc.dst, rpt, t, seq, oc.life, frag, blocks)
	return rpSpec{kind: oc.kind, receiver: receiver, b: b, fails: oc.fails, tag: oc.name}
}

// retry scenario on a fresh node: the bundle is received while nobody can take it, later a peer
// appears and the pending bundles are dispatched again (possibly after the lifetime has passed).
func rpRetryCase(o *Out, r *Rng, fl int, frag bool, expire bool, ctr uint64) {
	w := rpNewWorld(false)
	defer w.destroy()
	var flags bpv7.BundleControlFlags
	for i, bit := range rpFlagBits[:5] {
		if fl&(1<<uint(i)) != 0 {
			flags |= bit
		}
	}
	life := uint64(3600000)
	if expire {
		life = 250
	}
	blocks := []bpv7.CanonicalBlock{bpv7.NewCanonicalBlock(1, 0, bpv7.NewPayloadBlock([]byte("retry")))}
	b := rpBundle(flags, "dtn://src/app", "dtn://far/x", "dtn://rpt/in", bpv7.DtnTimeNow(), ctr, life, frag, blocks)
	id := b.ID().String()
	dump := dumpBundle(&b)
	t0 := bpv7.DtnTimeNow()
	w.n.Receive(b, rpNode)
	if expire {
		time.Sleep(600 * time.Millisecond)
	}
	loadOK := false
	if bi, err := w.n.Core.VerifStore().QueryId(b.ID()); err == nil && len(bi.Parts) > 0 {
		_, lerr := bi.Parts[0].Load()
		loadOK = lerr == nil
	}
	t1 := bpv7.DtnTimeNow()
	w.peerUp("p1", "dtn://n1/") // dispatches everything pending: the bundle and the reports waiting in the store
	t2 := bpv7.DtnTimeNow()
	mainSends, anyOK, reps, stray := w.rpCollect(0, id, t0, t2)
	inStore := w.n.Knows(b.ID())
	o.Case("retry", w.envS(), dump, U(uint64(t0)), U(uint64(t1)), B(loadOK), LL(mainSends),
		L(B(true), B(anyOK), B(false), B(!inStore && !anyOK)), B(inStore), LL(reps), I(stray), B(expire))
}

// rpUndump rebuilds a bundle from its dump (the block kinds this generator produces).
func rpUndump(d S) (b bpv7.Bundle, ok bool) {
	defer func() {
		if recover() != nil {
			ok = false
		}
	}()
	l := d.(sList)
	p := l[1].(sList)
	eid := func(s S) bpv7.EndpointID { return MustEID(string(atomX(s))) }
	pb := bpv7.PrimaryBlock{Version: 7, BundleControlFlags: bpv7.BundleControlFlags(atomU(p[1])), CRCType: bpv7.CRCType(atomU(p[2])),
		Destination: eid(p[3]), SourceNode: eid(p[4]), ReportTo: eid(p[5]),
		CreationTimestamp: bpv7.NewCreationTimestamp(bpv7.DtnTime(atomU(p[6])), atomU(p[7])), Lifetime: atomU(p[8]),
		FragmentOffset: atomU(p[9]), TotalDataLength: atomU(p[10])}
	var blocks []bpv7.CanonicalBlock
	for _, c := range l[2].(sList) {
		cl := c.(sList)
		num, tc, fl := atomU(cl[0]), atomU(cl[1]), bpv7.BlockControlFlags(atomU(cl[2]))
		v := cl[4].(sList)
		var ext bpv7.ExtensionBlock
		switch atomSym(v[0]) {
		case "raw":
			if tc == bpv7.ExtBlockTypePayloadBlock {
				ext = bpv7.NewPayloadBlock(atomX(v[1]))
			} else {
				ext = bpv7.NewGenericExtensionBlock(atomX(v[1]), tc)
			}
		case "u":
			ext = bpv7.NewBundleAgeBlock(atomU(v[1]))
		case "hop":
			hc := bpv7.NewHopCountBlock(uint8(atomU(v[1])))
			for i := uint64(0); i < atomU(v[2]); i++ {
				hc.Increment()
			}
			ext = hc
		default:
			return b, false
		}
		blocks = append(blocks, bpv7.NewCanonicalBlock(num, fl, ext))
	}
	return bpv7.Bundle{PrimaryBlock: pb, CanonicalBlocks: blocks}, true
}

// rpReplay re-runs the "step" cases of a file of case lines, each in a fresh world.
func rpReplay(o *Out, path string) {
	data, err := ioutil.ReadFile(path)
	if err != nil {
		panic(err)
	}
	for _, line := range strings.Split(string(data), "\n") {
		line = strings.TrimSpace(line)
		if !strings.HasPrefix(line, "(case") {
			continue
		}
		s, perr := ParseS(line)
		if perr != nil {
			continue
		}
		l := s.(sList)
		if len(l) < 20 || atomSym(l[2]) != "step" {
			continue
		}
		f := l[3:]
		b, ok := rpUndump(f[4])
		if !ok {
			continue
		}
		nfail := 0
		for _, x := range f[10].(sList) {
			if atomU(x) == 0 {
				nfail++
			}
		}
		fails := map[string]bool{}
		if b.PrimaryBlock.Destination.SameNode(MustEID("dtn://n1/")) {
			fails["p1"] = nfail > 0
		} else {
			for i, pn := range []string{"rs", "p2", "p1"} {
				fails[pn] = i < nfail
			}
		}
		w := rpWorldOfEnv(f[0])
		seen := 0
		w.run(o, rpSpec{kind: atomI(f[1]), receiver: string(atomX(f[2])), b: b, fails: fails, tag: string(atomX(f[16]))}, &seen)
		w.strayReports(o)
		w.destroy()
	}
}

func genC15report(o *Out, r *Rng, thorough bool) {
	registerAllBlocks()
	log.SetLevel(log.PanicLevel) // the Core logs several lines per bundle
	// the store syncs to disk on every update; a memory file system (when there is one) keeps the
	// run time independent of the disk's load.  VERIF_C15_DISK=1 keeps the stores under VERIF_WORK.
	if st, err := os.Stat("/dev/shm"); err == nil && st.IsDir() && os.Getenv("VERIF_C15_DISK") == "" {
		if d, derr := ioutil.TempDir("/dev/shm", "verif-c15-"); derr == nil {
			old, had := os.LookupEnv("VERIF_WORK")
			os.Setenv("VERIF_WORK", d)
			defer func() {
				os.RemoveAll(d)
				if had {
					os.Setenv("VERIF_WORK", old)
				} else {
					os.Unsetenv("VERIF_WORK")
				}
			}()
		}
	}
	if ReplayFile != "" {
		rpReplay(o, ReplayFile)
		return
	}
	// corpus first: past failures, kept as case lines in corpus/C15/*.sexp next to bin/
	if exe, err := os.Executable(); err == nil {
		if files, gerr := filepath.Glob(filepath.Join(filepath.Dir(filepath.Dir(exe)), "corpus", "C15", "*.sexp")); gerr == nil {
			sort.Strings(files)
			for _, f := range files {
				rpReplay(o, f)
			}
		}
	}
	g := &rpGen{base: bpv7.DtnTimeNow() - 60000}
	ocs := rpOutcomes()
	w := rpNewWorldWith(true, rpShuffledClas(r), nil)
	agentSeen := 0
	renew := func() {
		if w.cases >= 4000 {
			w.strayReports(o)
			w.destroy()
			w = rpNewWorldWith(true, rpShuffledClas(r), nil)
			agentSeen = 0
		}
	}
	pickRpt := func() string {
		switch k := r.Intn(10); {
		case k < 4:
			return rpReportTos[0]
		case k < 6:
			return rpReportTos[1]
		default:
			return rpReportTos[r.Intn(len(rpReportTos))]
		}
	}
	pickRcv := func() string {
		if r.Intn(10) < 6 {
			return rpReceivers[0]
		}
		return rpReceivers[r.Intn(len(rpReceivers))]
	}
	// (a) all 2^6 flag combinations x whole/fragment x every outcome class
	for _, oc := range ocs {
		for fl := 0; fl < 64; fl++ {
			for _, frag := range []bool{false, true} {
				if !thorough {
					// quick: every flag combination for the basic outcome classes (fragment or whole at
					// random), a sample of them for the unknown-block grids
					if frag != (r.Intn(2) == 0) {
						continue
					}
					if len(oc.unk) == 1 && fl != 63 && r.Intn(5) != 0 {
						continue
					}
					if len(oc.unk) == 2 && fl != 31 && r.Intn(10) != 0 {
						continue
					}
				}
				renew()
				sp := g.spec(oc, fl, frag, pickRpt(), pickRcv(), r)
				w.run(o, sp, &agentSeen)
				// a second copy of the same bundle: dropped as known when the first is still retained
				if r.Intn(16) == 0 && sp.kind == 0 {
					sp.tag = "dup-" + sp.tag
					w.run(o, sp, &agentSeen)
				}
			}
		}
	}
	// (b) every report-to x every receiver, for the request-everything flag sets, over all outcome classes
	flsets := []int{15, 31}
	if thorough {
		flsets = []int{1, 2, 4, 8, 15, 31, 47}
	}
	for _, oc := range ocs {
		if !thorough && oc.name == "unknown-blocks-2-local" {
			continue
		}
		for _, rpt := range rpReportTos {
			for _, rcv := range rpReceivers {
				if !thorough && r.Intn(8) != 0 {
					continue
				}
				renew()
				fl := flsets[r.Intn(len(flsets))]
				w.run(o, g.spec(oc, fl, r.Bool(), rpt, rcv, r), &agentSeen)
			}
		}
	}
	w.strayReports(o)
	w.destroy()
	// (d) node configurations: which endpoints are "this node" depends on the listener IDs registered
	rpConfigWorlds(o, r, g, thorough)
	// (c) retries from the store
	nRetry := 6
	if thorough {
		nRetry = 16
	}
	for i := 0; i < nRetry; i++ {
		rpRetryCase(o, r, []int{31, 15, 8, 2, 10, 27}[i%6], i%2 == 1, i%3 != 1, uint64(i))
	}
}

// rpConfigWorlds: small worlds with a drawn configuration of listening CLAs - none, one, several of one
// CLA type, several types, dtn and ipn names, the same name under two types - and a second agent with
// endpoints outside the node's name.  Per world: a bundle requesting every report with report-to =
// each endpoint of the node (an endpoint under each listener ID, each agent endpoint, the node ID)
// and two foreign ones, crossed with outcome classes; and a bundle destined to each listener ID.
func rpConfigWorlds(o *Out, r *Rng, g *rpGen, thorough bool) {
	nWorlds := 6
	if thorough {
		nWorlds = 60
	}
	types := []cla.CLAType{cla.TCPCLv4, cla.TCPCLv4WebSocket, cla.MTCP, cla.BBC}
	names := []string{"dtn://n0lan/", "dtn://n0wan/", "dtn://gw-7/", "ipn:9.1", "ipn:8.1", "dtn://n0sat/", "ipn:4711.1", rpClaEp}
	hour := uint64(3600000)
	all := map[string]bool{"rs": true, "p1": true, "p2": true}
	ocs := []rpOutcome{
		{name: "cfg-forwarded", dst: "dtn://far/x", life: hour},
		{name: "cfg-delivered", dst: rpAgentEp1, life: hour},
		{name: "cfg-all-sends-failed", dst: "dtn://far/x", life: hour, fails: all},
		{name: "cfg-local-no-agent", dst: "dtn://n0/nobody", life: hour},
		{name: "cfg-submit", kind: 1, src: rpAgentEp1, dst: "dtn://far/x", life: hour},
	}
	under := func(e string) string { // an endpoint of the node named e
		if strings.HasPrefix(e, "ipn:") {
			return strings.TrimSuffix(e, ".1") + "." + []string{"1", "2", "77"}[r.Intn(3)]
		}
		return e + []string{"", "mon", "a/b"}[r.Intn(3)]
	}
	for wi := 0; wi < nWorlds; wi++ {
		var clas []rpCla
		switch k := wi % 6; k {
		case 0: // two listeners of ONE type
			t := types[r.Intn(3)]
			clas = []rpCla{{t, names[r.Intn(3)]}, {t, names[3+r.Intn(5)]}}
		case 1: // three of one type and one of another
			t := types[r.Intn(3)]
			clas = []rpCla{{t, names[0]}, {t, names[3]}, {types[r.Intn(4)], names[5]}, {t, names[1]}}
		default:
			n := r.Intn(7)
			if k == 2 {
				n = 2 + r.Intn(5)
			}
			for i := 0; i < n; i++ {
				clas = append(clas, rpCla{types[r.Intn(len(types))], names[r.Intn(len(names))]})
			}
		}
		var extra []string
		if r.Intn(3) > 0 {
			extra = []string{[]string{"ipn:6.3", "dtn://lab/sensor", "dtn://n0wan/agent"}[r.Intn(3)]}
			if r.Bool() {
				extra = append(extra, "dtn://elsewhere2/svc")
			}
		}
		w := rpNewWorldWith(true, clas, extra)
		seen := 0
		rpts := []string{rpNode, "dtn://n0/other", rpAgentEp1, rpAgentEp2, "dtn://rpt/in", "dtn://n0other/x", "ipn:9000.1"}
		rpts = append(rpts, extra...)
		for _, c := range clas {
			rpts = append(rpts, under(c.eid))
		}
		for _, rpt := range rpts {
			for k := 0; k < 2; k++ {
				oc := ocs[r.Intn(len(ocs))]
				w.run(o, g.spec(oc, []int{15, 31, 1, 2, 8}[r.Intn(5)], r.Intn(3) == 0, rpt, rpReceivers[r.Intn(len(rpReceivers))], r), &seen)
			}
		}
		// destined to an endpoint under a listener ID: local, nobody listens
		for _, c := range clas {
			oc := rpOutcome{name: "cfg-local-listener-id", dst: under(c.eid), life: hour}
			w.run(o, g.spec(oc, 15+16*r.Intn(2), r.Intn(3) == 0, []string{"dtn://rpt/in", under(clas[r.Intn(len(clas))].eid)}[r.Intn(2)], rpNode, r), &seen)
		}
		w.strayReports(o)
		w.destroy()
	}
}

func init() { register("C15report", genC15report) }
