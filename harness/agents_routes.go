package main

// C07 (area Agents), generator C07routes: the way of a bundle to its registered recipients through
// the WHOLE delivery decision of the Core - the routing algorithm's DispatchingAllowed,
// Core.HasEndpoint, localDelivery with its administrative-record check - for
//   * endpoints OUTSIDE the node's own name: group endpoints (dtn://news/~all), other dtn
//     authorities, ipn endpoints on a dtn node, dtn endpoints / other node numbers on an ipn node
//     (next to an endpoint below the node's name), registered by mock agents, REST clients and
//     WebSocket clients;
//   * every routing algorithm (epidemic, spray, binary_spray, prophet, dtlsr, sensor-mule);
//   * no connected peer / the only peer is the bundle's previous node / a fresh peer / both;
//   * bundles received from a convergence layer and bundles submitted by a local client;
//   * payloads: ordinary; administrative records: status reports with every subset of asserted items
//     (incl. none), an unknown record type, garbage.
// Rule (property text): a bundle whose destination is registered is handed to exactly the
// recipients registered for that endpoint, once, unchanged, whatever its payload, and is not
// transmitted.  Legitimate exception as the code stands: an administrative record the node cannot
// read (unknown type, garbage) is deleted - nobody gets it.

import (
	"bytes"
	"encoding/hex"
	"encoding/json"
	"sort"
	"strings"

	"github.com/dtn7/dtn7-go/pkg/agent"
	"github.com/dtn7/dtn7-go/pkg/bpv7"
)

var rtAlgos = []string{"epidemic", "spray", "binary_spray", "prophet", "dtlsr", "mule"}

// destination classes: 0 below the node's name, 1 group endpoint, 2 other dtn authority, 3 ipn (other node number)
func rtDest(ipnNode bool, c int) string {
	if ipnNode {
		return []string{"ipn:1.5", "dtn://news/~all", "dtn://other/app", "ipn:9.1"}[c]
	}
	return []string{"dtn://n0/a", "dtn://news/~all", "dtn://other/app", "ipn:7.3"}[c]
}
func rtBystander(ipnNode bool, c int) string {
	if ipnNode {
		return []string{"ipn:1.6", "dtn://news/~other", "dtn://other/app2", "ipn:9.2"}[c]
	}
	return []string{"dtn://n0/zz", "dtn://news/~other", "dtn://other/app2", "ipn:7.4"}[c]
}

type rtDv struct {
	class  int // destination class
	pay    int // 0 ordinary, 1 status report (mask), 2 unknown record type, 3 garbage with the administrative-record flag
	mask   int
	submit bool
}

func rtPayload(d rtDv, i int) ([]byte, bpv7.BundleControlFlags) {
	switch d.pay {
	case 1:
		ref := MkBundle(BOpt{Src: "dtn://ref/x", Dst: "dtn://ref/y", TS: NowTS, Life: 3600000, Payload: []byte("ref"), CRC: bpv7.CRC32})
		sr := bpv7.NewStatusReport(ref, bpv7.ReceivedBundle, bpv7.NoInformation, bpv7.DtnTimeNow())
		for k := 0; k < 4; k++ {
			sr.StatusInformation[k] = bpv7.NewBundleStatusItem(d.mask&(1<<uint(k)) != 0)
		}
		blk, err := bpv7.AdministrativeRecordToCbor(sr)
		if err != nil {
			panic(err)
		}
		return blk.Value.(*bpv7.PayloadBlock).Data(), bpv7.AdministrativeRecordPayload
	case 2:
		return []byte{0x82, 0x09, 0x00}, bpv7.AdministrativeRecordPayload
	case 3:
		return []byte("no administrative record at all"), bpv7.AdministrativeRecordPayload
	}
	return []byte("payload-" + string(rune('a'+i%26))), 0
}

// rtRun: one node; peers: 0 none, 1 the previous node only, 2 a fresh peer only, 3 both
func rtRun(o *Out, r *Rng, algo string, ipnNode bool, peers int, dvs []rtDv) {
	id := "dtn://n0/"
	if ipnNode {
		id = "ipn:1.1"
	}
	e := &c07Env{bundles: map[int]bpv7.Bundle{}, byID: map[string]int{}, byCbor: map[string]int{}, byJSON: map[string]int{},
		agents: map[int]*c07Agent{}}
	e.n = NewNode(id, slConf(algo))
	defer e.close()
	if peers == 1 || peers == 3 {
		e.n.PeerUp("p1", "dtn://p1/")
	}
	if peers == 2 || peers == 3 {
		e.n.PeerUp("p2", "dtn://p2/")
	}
	e.base = uint64(bpv7.DtnTimeNow())

	// registrations: label 1 = REST agent, 2 = WebSocket agent, 10+c / 20+c = mock agents of class c (20+c also
	// holds the next class's endpoint), 30+c REST client, 40+c WebSocket client, 90 = bystander (other endpoints)
	e.do(c07Ev{Kind: "reg", A: 1, AKind: 2})
	e.do(c07Ev{Kind: "reg", A: 2, AKind: 3})
	rest, ws := e.agents[1], e.agents[2]
	wsURL := "ws" + strings.TrimPrefix(ws.wsSrv.URL, "http") + "/ws"
	var regs []S
	mocks := map[int]*c07Mock{}
	restU := map[int]string{}
	addMock := func(label int, classes ...int) {
		var es []bpv7.EndpointID
		var cs []S
		for _, c := range classes {
			es = append(es, MustEID(rtDest(ipnNode, c)))
			cs = append(cs, I(c))
		}
		m := newC07Mock(es)
		mocks[label] = m
		e.agents[label] = &c07Agent{label: label, kind: 0, mock: m}
		e.labels = append(e.labels, label)
		e.n.Core.RegisterApplicationAgent(m)
		regs = append(regs, L(I(label), I(0), LL(cs)))
	}
	for c := 0; c < 4; c++ {
		k := r.Intn(16)
		if k == 0 {
			k = 1 + r.Intn(15) // at least one recipient: the destination is a registered endpoint
		}
		if k&1 != 0 {
			addMock(10+c, c)
		}
		if k&2 != 0 {
			addMock(20+c, c, (c+1)%4)
		}
		if k&4 != 0 {
			var rr agent.RestRegisterResponse
			_ = json.Unmarshal(c07Post(rest.rtr, "/rest/register", agent.RestRegisterRequest{EndpointId: rtDest(ipnNode, c)}), &rr)
			if rr.Error != "" || rr.UUID == "" {
				e.err("register-failed")
			} else {
				restU[30+c] = rr.UUID
				regs = append(regs, L(I(30+c), I(2), L(I(c))))
			}
		}
		if k&8 != 0 {
			cl, err := newC07WsClient(wsURL, rtDest(ipnNode, c))
			if err != nil {
				e.err("ws-connect-failed")
			} else {
				ws.wsCl[40+c] = cl
				regs = append(regs, L(I(40+c), I(3), L(I(c))))
			}
		}
	}
	var bes []bpv7.EndpointID
	for c := 0; c < 4; c++ {
		bes = append(bes, MustEID(rtBystander(ipnNode, c)))
	}
	by := newC07Mock(bes)
	mocks[90] = by
	e.agents[90] = &c07Agent{label: 90, kind: 0, mock: by}
	e.labels = append(e.labels, 90)
	e.n.Core.RegisterApplicationAgent(by)
	e.barrier(4)
	e.wsSync()

	var out []S
	for i, d := range dvs {
		pl, fl := rtPayload(d, i)
		src := "dtn://n3/s"
		if d.submit {
			src = id // a bundle sent by a client of this node
			if !ipnNode {
				src = "dtn://n0/client"
			}
		}
		bo := BOpt{Src: src, Dst: rtDest(ipnNode, d.class), TS: e.base + uint64(i), Life: 3600000, Flags: fl, Payload: pl, CRC: bpv7.CRC32}
		if !d.submit && (peers == 1 || peers == 3) {
			bo.Blocks = []bpv7.CanonicalBlock{bpv7.NewCanonicalBlock(0, 0, bpv7.NewPreviousNodeBlock(MustEID("dtn://p1/")))}
		}
		b := MkBundle(bo)
		mark := e.n.LastSendN()
		if d.submit {
			e.n.Event++
			e.n.Core.SendBundle(&b) // the node numbers a submitted bundle in place
		} else {
			e.n.Receive(b, id)
		}
		if e.barrier(4) {
			e.wsSync()
		}
		bid := b.ID().String()
		cb := hex.EncodeToString(BundleBytes(b))
		js, _ := json.Marshal(b)
		code := func(g bpv7.Bundle) int {
			if hex.EncodeToString(BundleBytes(g)) == cb {
				return 1 // this bundle, unchanged
			}
			if g.ID().String() == bid {
				return 2 // this bundle, altered
			}
			return 3 // something else
		}
		var hs []S
		var labels []int
		for l := range mocks {
			labels = append(labels, l)
		}
		sort.Ints(labels)
		for _, l := range labels {
			for _, g := range mocks[l].take() {
				hs = append(hs, L(I(l), I(code(g))))
			}
		}
		for c := 0; c < 4; c++ {
			if u, ok := restU[30+c]; ok {
				var fr struct {
					Error   string            `json:"error"`
					Bundles []json.RawMessage `json:"bundles"`
				}
				if err := json.Unmarshal(c07Post(rest.rtr, "/rest/fetch", agent.RestFetchRequest{UUID: u}), &fr); err != nil || fr.Error != "" {
					e.err("fetch-error")
				}
				for _, raw := range fr.Bundles {
					var g bpv7.Bundle
					k := 3
					var cj bytes.Buffer
					_ = json.Compact(&cj, raw)
					if cj.String() == string(js) {
						k = 1
					} else if json.Unmarshal(raw, &g) == nil && g.ID().String() == bid {
						k = 2
					}
					hs = append(hs, L(I(30+c), I(k)))
				}
			}
			if cl, ok := ws.wsCl[40+c]; ok {
				for _, g := range cl.take() {
					hs = append(hs, L(I(40+c), I(code(g))))
				}
			}
		}
		nsend := 0
		for _, s := range e.n.SendsSince(mark) {
			if s.ID == bid {
				nsend++
			}
		}
		known, pending := e.n.Knows(b.ID()), false
		if bi, err := e.n.Core.VerifStore().QueryId(b.ID()); err == nil {
			pending = bi.Pending
		}
		out = append(out, L(I(d.class), I(d.pay), I(d.mask), B(d.submit), LL(hs), I(nsend), B(known), B(pending)))
	}
	var es []S
	for _, s := range e.errs {
		es = append(es, Sym(s))
	}
	o.Case("route", Sym(algo), B(ipnNode), I(peers), LL(regs), LL(out), LL(es))
}

func genC07routes(o *Out, r *Rng, thorough bool) {
	defer fastWorkDir("verif-c07r-")()
	mk := func(all int) []rtDv {
		var dvs []rtDv
		for c := 0; c < 4; c++ {
			dvs = append(dvs, rtDv{class: c}, rtDv{class: c, submit: true}, rtDv{class: c, pay: 2}, rtDv{class: c, pay: 3},
				rtDv{class: c, pay: 1, mask: 0}, rtDv{class: c, pay: 1, mask: 1 + r.Intn(15), submit: r.Intn(4) == 0})
			if c == all || thorough {
				for m := 1; m < 16; m++ {
					dvs = append(dvs, rtDv{class: c, pay: 1, mask: m})
				}
			}
		}
		return dvs
	}
	k := 0
	for _, algo := range rtAlgos {
		for peers := 0; peers < 4; peers++ {
			if !thorough && algo != "epidemic" && peers != k%4 && peers != (k+2)%4 {
				continue // quick: epidemic with every peer configuration, the other algorithms with two of them
			}
			rtRun(o, r, algo, false, peers, mk(k%4))
		}
		k++
	}
	rtRun(o, r, "epidemic", true, 0, mk(3))
	rtRun(o, r, "epidemic", true, 1, mk(1))
	if thorough {
		for _, algo := range rtAlgos {
			for peers := 0; peers < 4; peers++ {
				rtRun(o, r, algo, true, peers, mk(peers))
				for i := 0; i < 3; i++ {
					rtRun(o, r, algo, false, peers, mk(i))
				}
			}
		}
	}
}

func init() { register("C07routes", genC07routes) }
