package main

// C01state: the round trip "parse (serialise b) = b, and serialise is deterministic" when the codec
// is NOT in its initial state and NOT alone (C01parse runs every bundle once, alone, on a codec that
// never saw a failure):
//
//   ref   a bundle serialised and parsed back while nothing else runs: the reference encoding of the
//         scenarios below, judged like a C01parse "valid" case (model encoder / decoder, round trip).
//   ser   serialisations that fail - into writers failing at every (quick: every 3rd) offset, taking
//         or not taking the part of the failing Write that fits, or because a block value cannot be
//         encoded - and parses that fail (encoding cut at an offset), one to three in a row, each run followed by a serialisation of some bundle of the
//         pool into a healthy writer.  That output must be the reference encoding (same bundle when
//         parsed for blocks with several map entries), and is parsed back and judged like a "valid" case.
//   reent a bundle serialised into a writer that serialises another bundle before / after it takes the
//         bytes of each Write (two overlapping serialisations, deterministic): both outputs must be the
//         reference encodings.
//   conc  G goroutines, each serialising and parsing ITS OWN bundles at the same time.  The bundles
//         carry every registered extension block type with values that differ per goroutine (hop
//         limit / count, previous node, age, spray copies, DTLSR and PRoPHET maps, signature, an
//         unknown block).  Writers: a plain buffer and one that yields the processor on every Write
//         (as a socket or pipe does).  Every output must equal the encoding produced alone (for blocks
//         with several map entries: parse back to the bundle); every output that does not is reported
//         with the parser's view of it.  Every parse of the own reference encoding must give the own
//         bundle.
//
// The number of rounds is fixed (no time limits): on an unchanged tree the cases only differ by the
// clock value inside the generated bundles.

import (
	"bytes"
	"io"
	"math"
	"runtime"
	"sync"
	"sync/atomic"

	"github.com/dtn7/dtn7-go/pkg/bpv7"
)

// yieldWriter hands the processor to another goroutine before it takes the bytes, as a writer that
// blocks (socket, pipe) does.
type yieldWriter struct{ buf bytes.Buffer }

func (w *yieldWriter) Write(p []byte) (int, error) {
	runtime.Gosched()
	return w.buf.Write(p)
}

// c01Crc: CRC type of a block, per block from r.
func c01Crc(r *Rng) bpv7.CRCType { return bpv7.CRCType(r.Intn(3)) }

// c01FullBundle builds a valid bundle that carries every registered extension block type plus an
// unknown one.  k makes the values of all blocks differ between the bundles of one scenario; with
// multi the two map-valued blocks get several entries (their byte order is then unspecified).
func c01FullBundle(r *Rng, k int, multi bool) bpv7.Bundle {
	for {
		now := dtnNowMs()
		uk := uint64(k)
		eid := func(tag string) bpv7.EndpointID {
			if r.Intn(3) == 0 {
				return bpv7.EndpointID{EndpointType: bpv7.IpnEndpoint{Node: 1000*uk + 1 + uint64(r.Intn(900)), Service: 1 + uint64(r.Intn(70000))}}
			}
			return bpv7.EndpointID{EndpointType: bpv7.DtnEndpoint{NodeName: tag + "-" + string(rune('a'+k%26)) + string(rune('a'+(k/26)%26)), Demux: []string{"", "app", "a/b"}[r.Intn(3)]}}
		}
		var flags bpv7.BundleControlFlags
		for _, f := range []bpv7.BundleControlFlags{bpv7.StatusRequestReception, bpv7.StatusRequestForward, bpv7.StatusRequestDelivery, bpv7.StatusRequestDeletion, bpv7.MustNotFragmented, bpv7.RequestStatusTime} {
			if r.Intn(3) == 0 {
				flags |= f
			}
		}
		ts := now - r.Pick([]uint64{0, 1000, 3600000})
		pb := bpv7.PrimaryBlock{
			Version: 7, BundleControlFlags: flags, CRCType: c01Crc(r),
			Destination: eid("dst"), SourceNode: eid("src"), ReportTo: eid("rpt"),
			CreationTimestamp: bpv7.NewCreationTimestamp(bpv7.DtnTime(ts), uk*7+uint64(r.Intn(7))),
			Lifetime:          (now - ts) + 86400000 + uk,
		}
		var cbs []bpv7.CanonicalBlock
		nums := r.Perm(12)
		add := func(v bpv7.ExtensionBlock) {
			var f bpv7.BlockControlFlags
			if r.Intn(3) == 0 {
				f |= bpv7.ReplicateBlock
			}
			if r.Intn(4) == 0 {
				f |= bpv7.RemoveBlock
			}
			cb := bpv7.NewCanonicalBlock(uint64(nums[len(cbs)])+2, f, v)
			cb.SetCRCType(c01Crc(r))
			cbs = append(cbs, cb)
		}
		h := bpv7.NewHopCountBlock(uint8(40 + 5*(k%40) + r.Intn(5)))
		h.Count = uint8(1 + k%32)
		add(h)
		add(bpv7.NewPreviousNodeBlock(eid("prev")))
		add(bpv7.NewBundleAgeBlock(1000*uk + uint64(r.Intn(1000))))
		add(bpv7.NewBinarySprayBlock(r.Pick([]uint64{1, 23, 24, 255, 256, 65536, 1 << 32}) + uk))
		np := 1
		if multi {
			np = 2 + r.Intn(3)
		} else if r.Intn(4) == 0 {
			np = 0
		}
		peers := map[bpv7.EndpointID]bpv7.DtnTime{}
		for len(peers) < np {
			peers[eid("peer")] = bpv7.DtnTime(now - uint64(r.Intn(100000)))
		}
		add(bpv7.NewDTLSRBlock(bpv7.DTLSRPeerData{ID: eid("ls"), Timestamp: bpv7.DtnTime(now - uk), Peers: peers}))
		preds := map[bpv7.EndpointID]float64{}
		for len(preds) < np {
			preds[eid("pred")] = []float64{0.5, 0.75, 0.125, math.Float64frombits(0x3FEFFFFFFFFFFFFF), 1}[r.Intn(5)] / float64(1+k%7)
		}
		add(bpv7.NewProphetBlock(preds))
		add(&bpv7.SignatureBlock{PublicKey: r.Bytes(32), Signature: r.Bytes(64)})
		add(bpv7.NewGenericExtensionBlock(r.Bytes([]int{0, 1, 23, 24, 60}[r.Intn(5)]), []uint64{191, 196, 255, 256, 65536}[r.Intn(5)]))
		pl := bpv7.NewCanonicalBlock(1, 0, bpv7.NewPayloadBlock(r.Bytes([]int{0, 1, 23, 24, 100, 255, 256, 300}[r.Intn(8)])))
		pl.SetCRCType(c01Crc(r))
		cbs = append(cbs, pl)
		b, err := bpv7.NewBundle(pb, cbs)
		if err != nil || b.CheckValid() != nil {
			continue
		}
		return b
	}
}

// c01PoolBundle: half of the pool are full bundles, half come from the generator of C01parse (every
// flag / endpoint / block combination), kept when valid.
func c01PoolBundle(r *Rng, k int) bpv7.Bundle {
	if k%2 == 0 {
		return c01FullBundle(r, k, k%4 == 2)
	}
	for {
		b := randBundle(r, false)
		if b.CheckValid() != nil {
			continue
		}
		return b
	}
}

// c01Poison: a copy of b whose previous node block (added when there is none) names an endpoint that
// cannot be encoded: serialising it fails after part of the bundle was written.
func c01Poison(b *bpv7.Bundle) bpv7.Bundle {
	p := bpv7.Bundle{PrimaryBlock: b.PrimaryBlock}
	bad := bpv7.NewPreviousNodeBlock(bpv7.EndpointID{EndpointType: bpv7.IpnEndpoint{Node: 0, Service: 0}})
	done := false
	for i := range b.CanonicalBlocks {
		c := b.CanonicalBlocks[i]
		if _, ok := c.Value.(*bpv7.PreviousNodeBlock); ok {
			c.Value = bad
			done = true
		}
		p.CanonicalBlocks = append(p.CanonicalBlocks, c)
	}
	if !done {
		cb := bpv7.NewCanonicalBlock(77, 0, bad)
		cb.SetCRCType(bpv7.CRC32)
		p.CanonicalBlocks = append([]bpv7.CanonicalBlock{cb}, p.CanonicalBlocks...)
	}
	return p
}

func c01MultiMap(b *bpv7.Bundle) bool { return crcStateMultiMap(b) }

// c01Same: out is an acceptable serialisation of the bundle whose reference encoding is ref and
// whose structure dump is dump.
func c01Same(out, ref []byte, multi bool, dump string) bool {
	if bytes.Equal(out, ref) {
		return true
	}
	if !multi {
		return false
	}
	defer func() { _ = recover() }()
	b, err := bpv7.ParseBundle(bytes.NewReader(out))
	return err == nil && SString(dumpBundle(&b)) == dump
}

func genC01state(o *Out, r *Rng, thorough bool) {
	registerAllBlocks()

	// ------------------------------------------------------------------ pool, ref
	nb, step := 10, 3
	if thorough {
		nb, step = 30, 1
	}
	type entry struct {
		b     bpv7.Bundle
		ref   []byte
		dump  S
		dumps string
		multi bool
	}
	mk := func(b bpv7.Bundle) (e entry, ok bool) {
		now := dtnNowMs()
		dump := dumpBundle(&b)
		valid := b.CheckValid() == nil
		bs, err := encodeBundle(&b)
		if err != nil {
			o.Case("encfail", dump)
			return e, false
		}
		bs = append([]byte(nil), bs...)
		obs, _, acc := parseObs(bs)
		if dtnNowMs()-now > 500 {
			return e, false // clock bracket too wide (as in C01parse)
		}
		o.Case("ref", U(now), X(bs), obs, dump, B(valid))
		if !acc {
			return e, false // reported by the ref case; cannot serve as a reference
		}
		return entry{b: b, ref: bs, dump: dump, dumps: SString(dump), multi: c01MultiMap(&b)}, true
	}
	var pool []entry
	for k := 0; len(pool) < nb && k < 20*nb; k++ {
		if e, ok := mk(c01PoolBundle(r, k)); ok {
			pool = append(pool, e)
		}
	}

	// ------------------------------------------------------------------ rd
	// two bundles behind each other, parsed from one reader that delivers the bytes in pieces (see
	// wirechunk.go): same bundles, same offsets behind them as from a bytes.Reader
	for vi := range pool {
		a, b := &pool[vi], &pool[r.Intn(len(pool))]
		stream := append(append([]byte{}, a.ref...), b.ref...)
		res := func(m chunkMode) S {
			rd, rem := m.open(stream)
			var l []S
			for i := 0; i < 2; i++ {
				obs := func() (obs S) {
					defer func() {
						if rec := recover(); rec != nil {
							obs = L(Sym("panic"))
						}
					}()
					bn, err := bpv7.ParseBundle(rd)
					if err != nil {
						return L(Sym("err"))
					}
					return L(Sym("ok"), dumpBundle(&bn), I(len(stream)-rem()))
				}()
				l = append(l, obs)
			}
			return LL(l)
		}
		now := dtnNowMs()
		plain := res(chunkMode{name: "plain"})
		ps := SString(plain)
		modes := chunkModes(r, len(stream), []int{len(a.ref)}, false)
		var devs chunkDevs
		for _, m := range modes {
			if got := res(m); SString(got) != ps {
				devs.add(m, got)
			}
		}
		if dtnNowMs()-now > 500 {
			continue
		}
		o.Case("rd", U(now), X(stream), L(a.dump, I(len(a.ref))), L(b.dump, I(len(stream))), plain, I(len(modes)), LL(devs.devs))
	}

	// ------------------------------------------------------------------ ser
	for vi := range pool {
		first := r.Intn(step)
		for limit := first; limit <= len(pool[vi].ref); limit += step {
			nfail := 1
			if r.Intn(4) == 0 {
				nfail = 2 + r.Intn(2)
			}
			var fails []S
			for k := 0; k < nfail; k++ {
				v, lim := vi, limit
				if k > 0 {
					v = r.Intn(len(pool))
					lim = r.Intn(len(pool[v].ref))
				}
				via := r.Intn(3)
				if k > 0 && r.Intn(5) == 0 {
					// a parse that fails: the encoding cut at lim
					ok, pn := accepts(pool[v].ref[:lim])
					fails = append(fails, L(Sym("parse"), I(v), I(lim), I(0), B(false), B(!ok), B(pn), B(true)))
					continue
				}
				if lim >= len(pool[v].ref) || (k > 0 && r.Intn(6) == 0) {
					// the failure is in the bundle, not in the writer
					pz := c01Poison(&pool[v].b)
					var sink bytes.Buffer
					err, pn := crcStateWrite(&pz, via, &sink)
					fails = append(fails, L(Sym("value"), I(v), I(sink.Len()), I(via), B(false), B(err != nil), B(pn), B(true)))
					continue
				}
				lw := &limitWriter{limit: lim, partial: r.Bool()}
				err, pn := crcStateWrite(&pool[v].b, via, lw)
				fails = append(fails, L(Sym("writer"), I(v), I(lim), I(via), B(lw.partial), B(err != nil), B(pn),
					B(pool[v].multi || bytes.HasPrefix(pool[v].ref, lw.buf.Bytes()))))
			}
			ni := r.Intn(len(pool))
			via := r.Intn(3)
			var buf bytes.Buffer
			now := dtnNowMs()
			err, pn := crcStateWrite(&pool[ni].b, via, &buf)
			out := append([]byte(nil), buf.Bytes()...)
			obs, _, _ := parseObs(out)
			if dtnNowMs()-now > 500 {
				continue
			}
			e := &pool[ni]
			o.Case("ser", U(now), LL(fails), I(ni), I(via), e.dump, B(true), X(e.ref), B(err == nil), B(pn), X(out), obs)
		}
	}

	// ------------------------------------------------------------------ reent
	// a bundle serialised into a writer that serialises ANOTHER bundle (into a buffer of its own) before
	// or after it takes the bytes of each Write: two serialisations overlapping in a fixed way
	for vi := range pool {
		for _, before := range []bool{true, false} {
			a := &pool[vi]
			b := &pool[(vi+1+r.Intn(len(pool)-1))%len(pool)]
			var inners wrongOuts
			ninner := 0
			w := &reentWriter{before: before}
			w.inner = func() {
				ninner++
				var buf bytes.Buffer
				if err, pn := crcStateWrite(&b.b, 0, &buf); err != nil || pn {
					inners.add([]byte("error"))
				} else if !c01Same(buf.Bytes(), b.ref, b.multi, b.dumps) {
					inners.add(buf.Bytes())
				}
			}
			via := r.Intn(3)
			now := dtnNowMs()
			err, pn := crcStateWrite(&a.b, via, w)
			out := append([]byte(nil), w.buf.Bytes()...)
			obs, _, _ := parseObs(out)
			var is []S
			for _, io := range inners.outs {
				iobs, _, _ := parseObs(io)
				is = append(is, L(X(io), iobs))
			}
			if dtnNowMs()-now > 500 {
				continue
			}
			o.Case("reent", U(now), B(before), I(via), I(ninner), a.dump, X(a.ref), B(err == nil), B(pn), X(out), obs, b.dump, X(b.ref), LL(is))
		}
	}

	// ------------------------------------------------------------------ conc
	G, per, iters, rounds := 8, 2, 1200, 3
	if thorough {
		G, per, iters, rounds = 12, 3, 5000, 12
	}
	for round := 0; round < rounds; round++ {
		// own[g]: the bundles of goroutine g, all made and serialised before anything runs concurrently
		own := make([][]entry, G)
		for g := 0; g < G; g++ {
			for len(own[g]) < per {
				k := round*G*per + g*per + len(own[g])
				if e, ok := mk(c01FullBundle(r, k, len(own[g])%2 == 1)); ok {
					own[g] = append(own[g], e)
				}
			}
		}
		type wrong struct {
			out   []byte
			count int
		}
		type stat struct {
			wrongs                                    []wrong
			serErrs, panics, parseRej, parseDiff, sers int64
			diffDump                                  string
		}
		stats := make([][]stat, G)
		for g := range stats {
			stats[g] = make([]stat, per)
		}
		var wmu sync.Mutex
		var start, done sync.WaitGroup
		start.Add(1)
		for g := 0; g < G; g++ {
			done.Add(1)
			go func(g int) {
				defer done.Done()
				var plain bytes.Buffer
				var yw yieldWriter
				start.Wait()
				for it := 0; it < iters; it++ {
					j := it % per
					e := &own[g][j]
					st := &stats[g][j]
					// serialise the own bundle
					var w io.Writer
					var got *bytes.Buffer
					if (it/per)%2 == 0 {
						plain.Reset()
						w, got = &plain, &plain
					} else {
						yw.buf.Reset()
						w, got = &yw, &yw.buf
					}
					err, pn := crcStateWrite(&e.b, (it/(2*per))%3, w)
					atomic.AddInt64(&st.sers, 1)
					switch {
					case pn:
						atomic.AddInt64(&st.panics, 1)
					case err != nil:
						atomic.AddInt64(&st.serErrs, 1)
					case !c01Same(got.Bytes(), e.ref, e.multi, e.dumps):
						wmu.Lock()
						found := false
						for i := range st.wrongs {
							if bytes.Equal(st.wrongs[i].out, got.Bytes()) {
								st.wrongs[i].count++
								found = true
							}
						}
						if !found && len(st.wrongs) < 4 {
							st.wrongs = append(st.wrongs, wrong{append([]byte(nil), got.Bytes()...), 1})
						} else if !found {
							st.wrongs[3].count++
						}
						wmu.Unlock()
					}
					// parse the own reference encoding
					func() {
						defer func() {
							if rec := recover(); rec != nil {
								atomic.AddInt64(&st.panics, 1)
							}
						}()
						b, err := bpv7.ParseBundle(bytes.NewReader(e.ref))
						if err != nil {
							atomic.AddInt64(&st.parseRej, 1)
						} else if d := SString(dumpBundle(&b)); d != e.dumps {
							if atomic.AddInt64(&st.parseDiff, 1) == 1 {
								wmu.Lock()
								st.diffDump = d
								wmu.Unlock()
							}
						}
					}()
				}
			}(g)
		}
		start.Done()
		done.Wait()
		// everything is quiet again: look at the outputs that were wrong
		for g := 0; g < G; g++ {
			for j := 0; j < per; j++ {
				e, st := &own[g][j], &stats[g][j]
				now := dtnNowMs()
				var ws []S
				for _, w := range st.wrongs {
					obs, _, _ := parseObs(w.out)
					ws = append(ws, L(X(w.out), I(w.count), obs))
				}
				var dd S = L()
				if st.diffDump != "" {
					if d, err := ParseS(st.diffDump); err == nil {
						dd = L(d)
					}
				}
				o.Case("conc", U(now), I(G), I64(st.sers), e.dump, X(e.ref), LL(ws), I64(st.serErrs), I64(st.panics), I64(st.parseRej), I64(st.parseDiff), dd)
			}
		}
	}
}

func init() { register("C01state", genC01state) }
