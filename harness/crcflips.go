package main

import (
	"bytes"

	"github.com/dtn7/dtn7-go/pkg/bpv7"
)

func accepts(bs []byte) (ok bool, panicked bool) {
	defer func() {
		if r := recover(); r != nil {
			ok, panicked = false, true
		}
	}()
	_, err := bpv7.ParseBundle(bytes.NewReader(bs))
	return err == nil, false
}

// protectedBundle: a bundle with a CRC on every block (16 or 32 per block).
func protectedBundle(r *Rng, maxPayload int) bpv7.Bundle {
	for {
		b := randBundle(r, false)
		if b.CheckValid() != nil {
			continue
		}
		pl, _ := b.PayloadBlock()
		d := pl.Value.(*bpv7.PayloadBlock).Data()
		if len(d) > maxPayload {
			*pl.Value.(*bpv7.PayloadBlock) = bpv7.PayloadBlock(d[:maxPayload])
		}
		if b.PrimaryBlock.CRCType == bpv7.CRCNo {
			b.PrimaryBlock.CRCType = bpv7.CRCType(1 + r.Intn(2))
		}
		for i := range b.CanonicalBlocks {
			if b.CanonicalBlocks[i].CRCType == bpv7.CRCNo {
				b.CanonicalBlocks[i].CRCType = bpv7.CRCType(1 + r.Intn(2))
			}
		}
		return b
	}
}

// C03flips: every single-bit flip of fully CRC-protected bundles (exhaustive per bundle) and burst
// mutations. One case per bundle for the flips: the list of bit positions whose flip was ACCEPTED.
func genC03flips(o *Out, r *Rng, thorough bool) {
	registerAllBlocks()
	nb, nburst := 8, 1500
	if thorough {
		nb, nburst = 150, 60000
	}
	var pool [][]byte
	for i := 0; i < nb; i++ {
		b := protectedBundle(r, 40)
		bs, err := encodeBundle(&b)
		if err != nil {
			continue
		}
		pool = append(pool, bs)
		now := dtnNowMs()
		ok0, _ := accepts(bs)
		var acc []S
		for bit := 0; bit < len(bs)*8; bit++ {
			m := append([]byte(nil), bs...)
			m[bit/8] ^= 1 << uint(bit%8)
			if ok, pn := accepts(m); ok || pn {
				acc = append(acc, I(bit))
			}
		}
		o.Case("flips", U(now), X(bs), B(ok0), LL(acc))
	}
	// CRC primitives on random buffers through the real parser: a one-block check is implied by
	// the flips; bursts:
	for i := 0; i < nburst; i++ {
		bs := pool[r.Intn(len(pool))]
		m := append([]byte(nil), bs...)
		total := len(bs) * 8
		var start, length int
		if r.Intn(2) == 0 {
			// byte-aligned: 1..4 consecutive bytes xored with random values
			k := 1 + r.Intn(4)
			p := r.Intn(len(bs))
			start, length = p*8, 0
			for j := 0; j < k && p+j < len(bs); j++ {
				m[p+j] ^= byte(1 + r.Intn(255))
				length += 8
			}
		} else {
			// bit window in LSB-first order with both ends flipped
			length = 2 + r.Intn(31)
			start = r.Intn(total - length)
			for j := 0; j < length; j++ {
				if j == 0 || j == length-1 || r.Bool() {
					bit := start + j
					m[bit/8] ^= 1 << uint(bit%8)
				}
			}
		}
		now := dtnNowMs()
		ok, pn := accepts(m)
		o.Case("burst", U(now), X(bs), X(m), I(start), I(length), B(ok), B(pn))
	}
}

func init() { register("C03flips", genC03flips) }
