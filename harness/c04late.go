package main

// C04late: decoders of the node that are fed in a state other than "freshly started, alone":
//
//   mtcp      a real MTCPServer on loopback TCP; peers hold established connections and send frames
//             (valid bundles, keep-alives, frames with adversarial length heads, garbage, truncated
//             frames) AFTER MTCPServer.Close() returned, WHILE Close() runs, or while the handler is
//             blocked handing up a bundle nobody takes and the server is closed under it; mode "open"
//             feeds the same frames to the running server (length heads over the boundary values and
//             the multiplicative-overflow probes).
//   firstuse  the very first decoding in a fresh process is done by N goroutines at once (first
//             bundles arriving on several links at the same time), each followed by what the node
//             does with every received bundle (lifetime check, administrative record extraction).
//
// Every scenario runs in a CHILD process: the observable is whether the process survives (exit
// status, "panic:" / "fatal error:" on stderr), the classes of the decoders' results and the bytes
// allocated.  Waits are on completion signals (bundle handed up, connection closed by the server)
// with generous limits; a limit that passes makes the scenario inconclusive, never a failure.

import (
	"bufio"
	"bytes"
	"fmt"
	"net"
	"os"
	"os/exec"
	"runtime"
	"strings"
	"sync"
	"sync/atomic"
	"syscall"
	"time"

	"github.com/dtn7/dtn7-go/pkg/bpv7"
	"github.com/dtn7/dtn7-go/pkg/cla"
	"github.com/dtn7/dtn7-go/pkg/cla/mtcp"
)

const lateWait = 30 * time.Second

// ---------------------------------------------------------------------------------------- child

func genC04lateChild(o *Out, r *Rng, thorough bool) {
	lim := syscall.Rlimit{Cur: 6 << 30, Max: 6 << 30}
	_ = syscall.Setrlimit(syscall.RLIMIT_AS, &lim)
	go func() {
		time.Sleep(100 * time.Second)
		fmt.Println("(res timeout)")
		os.Exit(0)
	}()
	sc := bufio.NewScanner(os.Stdin)
	sc.Buffer(make([]byte, 1<<20), 64<<20)
	if !sc.Scan() {
		fmt.Println("(res badinput)")
		return
	}
	s, err := ParseS(sc.Text())
	if err != nil {
		fmt.Println("(res badinput)")
		return
	}
	l := s.(sList)
	switch atomSym(l[0]) {
	case "mtcp":
		lateChildMtcp(l)
	case "firstuse":
		lateChildFirstUse(l)
	default:
		fmt.Println("(res badinput)")
	}
}

// (mtcp <mode> <nconn> <pre> <valid-frame> (<late frames of connection 0>) (<... of connection 1>) ...)
func lateChildMtcp(l sList) {
	mode := atomSym(l[1])
	nconn, pre := atomI(l[2]), atomI(l[3])
	valid := atomX(l[4])
	var late [][][]byte
	for _, c := range l[5:] {
		var fs [][]byte
		for _, f := range c.(sList) {
			fs = append(fs, atomX(f))
		}
		late = append(late, fs)
	}
	ln, err := net.Listen("tcp", "127.0.0.1:0")
	if err != nil {
		fmt.Println("(res unavailable)")
		return
	}
	addr := ln.Addr().String()
	_ = ln.Close()
	serv := mtcp.NewMTCPServer(addr, bpv7.MustNewEndpointID("dtn://server/"), false)
	if err, _ := serv.Start(); err != nil {
		fmt.Println("(res unavailable)")
		return
	}
	var received int64
	got := make(chan struct{}, 1<<16)
	drained := make(chan struct{})
	if mode != "blocked" {
		go func() {
			defer close(drained)
			for st := range serv.Channel() {
				if st.MessageType == cla.ReceivedBundle {
					atomic.AddInt64(&received, 1)
					select {
					case got <- struct{}{}:
					default:
					}
				}
			}
		}()
	}
	var conns []*net.TCPConn
	for i := 0; i < nconn; i++ {
		c, err := net.DialTimeout("tcp", addr, lateWait)
		if err != nil {
			fmt.Println("(res unavailable)")
			return
		}
		conns = append(conns, c.(*net.TCPConn))
	}
	// warm up and measure from here: what follows is caused by the frames
	var m0, m1 runtime.MemStats
	sent := 0
	if mode != "blocked" {
		for _, c := range conns {
			for k := 0; k < pre; k++ {
				if _, err := c.Write(valid); err != nil {
					fmt.Println("(res unavailable)")
					return
				}
				sent += len(valid)
			}
		}
		for k := 0; k < nconn*pre; k++ {
			select {
			case <-got:
			case <-time.After(lateWait):
				fmt.Println("(res inconclusive setup)")
				return
			}
		}
	}
	runtime.GC()
	runtime.ReadMemStats(&m0)
	writeLate := func(i int) {
		c := conns[i]
		for _, f := range late[i%len(late)] {
			if _, err := c.Write(f); err != nil {
				break // the server has closed the connection already: allowed
			}
		}
		_ = c.CloseWrite()
	}
	for _, fs := range late {
		for _, f := range fs {
			sent += len(f)
		}
	}
	switch mode {
	case "after":
		_ = serv.Close()
		for i := range conns {
			writeLate(i)
		}
	case "blocked":
		// nobody takes the bundles: each handler blocks handing up its first bundle; then the server is closed
		for _, c := range conns {
			_, _ = c.Write(valid)
			sent += len(valid)
		}
		time.Sleep(150 * time.Millisecond) // either order of arrival and Close is a legal schedule
		_ = serv.Close()
		for i := range conns {
			writeLate(i)
		}
	case "during":
		var wg sync.WaitGroup
		start := make(chan struct{})
		for i := range conns {
			wg.Add(1)
			go func(i int) {
				defer wg.Done()
				<-start
				writeLate(i)
			}(i)
		}
		close(start)
		_ = serv.Close()
		wg.Wait()
	default: // open
		for i := range conns {
			writeLate(i)
		}
	}
	// completion: the server's handler ends (end of input, undecodable frame or recovered panic) and closes the connection
	eofs, limits := 0, 0
	buf := make([]byte, 256)
	for _, c := range conns {
		_ = c.SetReadDeadline(time.Now().Add(lateWait))
		for {
			_, err := c.Read(buf)
			if err == nil {
				continue
			}
			if ne, ok := err.(net.Error); ok && ne.Timeout() {
				limits++
			} else {
				eofs++
			}
			break
		}
		_ = c.Close()
	}
	if mode == "open" {
		_ = serv.Close()
	}
	if mode != "blocked" {
		select {
		case <-drained:
		case <-time.After(lateWait):
			limits++
		}
	}
	runtime.ReadMemStats(&m1)
	if limits > 0 {
		fmt.Println("(res inconclusive wait)")
		return
	}
	fmt.Printf("(res survived %d %d %d %d)\n", atomic.LoadInt64(&received), eofs, sent, m1.TotalAlloc-m0.TotalAlloc)
}

// (firstuse <n> <warm-up input or x> <bundle> <bundle> ...): n goroutines, goroutine i decodes bundle i mod len.
func lateChildFirstUse(l sList) {
	n := atomI(l[1])
	warm := atomX(l[2])
	var ins [][]byte
	for _, b := range l[3:] {
		ins = append(ins, atomX(b))
	}
	type result struct {
		class string // err | ok | panic-decode | panic-consumer
		dump  string
	}
	res := make([]result, n)
	var ready int32
	var wg sync.WaitGroup
	for i := 0; i < n; i++ {
		wg.Add(1)
		go func(i int) {
			defer wg.Done()
			in := ins[i%len(ins)]
			rd := bytes.NewReader(in)
			stage := "decode"
			defer func() {
				if r := recover(); r != nil {
					res[i].class = "panic-" + stage
				}
			}()
			// everything but the block manager has been used before in this process: an input that is rejected
			// in front of its first block-specific value (no two goroutines share a reader)
			if len(warm) > 0 {
				_, _ = bpv7.ParseBundle(bytes.NewReader(warm))
			}
			atomic.AddInt32(&ready, 1)
			for spins := 0; atomic.LoadInt32(&ready) < int32(n); spins++ {
				if spins > 100000 {
					runtime.Gosched()
				}
			}
			b, err := bpv7.ParseBundle(rd)
			if err != nil {
				res[i].class = "err"
				return
			}
			res[i].dump = SString(dumpBundle(&b))
			// what the node does with every received bundle
			stage = "consumer"
			_ = b.IsLifetimeExceeded()
			if b.IsAdministrativeRecord() {
				_, _ = b.AdministrativeRecord()
			}
			res[i].class = "ok"
		}(i)
	}
	wg.Wait()
	var rs []S
	for _, x := range res {
		d := S(L())
		if x.dump != "" {
			if s, err := ParseS(x.dump); err == nil {
				d = s
			}
		}
		rs = append(rs, L(Sym(x.class), d))
	}
	fmt.Println(SString(L(Sym("res"), Sym("survived"), LL(rs))))
}

// ---------------------------------------------------------------------------------------- parent

type lateJob struct {
	kind  string // mtcp | firstuse
	input string // the scenario line
	meta  []S    // what the driver needs to know about it
	// result
	res    S
	detail string
}

func lateRun(jobs []*lateJob, workers int) {
	exe, err := os.Executable()
	if err != nil {
		panic(err)
	}
	var wg sync.WaitGroup
	sem := make(chan struct{}, workers)
	for _, j := range jobs {
		wg.Add(1)
		sem <- struct{}{}
		go func(j *lateJob) {
			defer wg.Done()
			defer func() { <-sem }()
			cmd := exec.Command(exe, "-prop", "C04lateChild")
			cmd.Stdin = strings.NewReader(j.input + "\n")
			var so, se bytes.Buffer
			cmd.Stdout, cmd.Stderr = &so, &se
			if err := cmd.Start(); err != nil {
				j.res = L(Sym("unavailable"))
				return
			}
			done := make(chan error, 1)
			go func() { done <- cmd.Wait() }()
			var runErr error
			select {
			case runErr = <-done:
			case <-time.After(150 * time.Second):
				_ = cmd.Process.Kill()
				<-done
				j.res = L(Sym("timeout"))
				return
			}
			line := ""
			for _, ln := range strings.Split(so.String(), "\n") {
				if strings.HasPrefix(strings.TrimSpace(ln), "(res ") {
					line = strings.TrimSpace(ln)
				}
			}
			if runErr == nil && line != "" {
				if s, err := ParseS(line); err == nil {
					j.res = LL(s.(sList)[1:])
					return
				}
			}
			// the process died: keep the runtime's first line
			j.res = L(Sym("died"))
			for _, ln := range strings.Split(se.String(), "\n") {
				if strings.HasPrefix(ln, "panic:") || strings.HasPrefix(ln, "fatal error:") {
					j.detail = ln
					break
				}
			}
			if j.detail == "" {
				j.detail = fmt.Sprint(runErr)
			}
		}(j)
	}
	wg.Wait()
}

func lateFrame(length uint64, body []byte) []byte {
	return cat(rawHead(0x40, length, -1), body)
}

func genC04late(o *Out, r *Rng, thorough bool) {
	// The children are fresh processes: what this process has used does not matter to them.
	now := dtnNowMs()
	// bundles are written with the raw encoder (rawcbor.go): independent of the real serialiser
	mk := func(ts uint64, flags uint64, payload []byte, blocks ...rawCanon) []byte {
		p := rawPrimary{Version: 7, Flags: flags, CRCType: 2, Dst: rawDtn("dst", "app"), Src: rawDtn("src", "app"), Rpt: rawDtn("src", "app"),
			TS: ts, Seq: uint64(r.Intn(1000)), Life: 86400000, HasCRC: true, ArrW: -1, UintW: -1}
		cs := append(append([]rawCanon{}, blocks...), rawCanon{Type: 1, Num: 1, CRCType: 2, Data: payload, HasCRC: true, ArrW: -1})
		return rawBundle(p, cs)
	}
	age := func(v uint64) rawCanon {
		return rawCanon{Type: 7, Num: 2, CRCType: 2, Data: rawUint(v), HasCRC: true, ArrW: -1}
	}
	hop := func() rawCanon {
		return rawCanon{Type: 10, Num: 3, CRCType: 1, Data: cat(rawArr(2), rawUint(32), rawUint(1)), HasCRC: true, ArrW: -1}
	}
	prev := func() rawCanon { return rawCanon{Type: 6, Num: 4, CRCType: 0, Data: rawDtn("prev", ""), ArrW: -1} }
	admin := cat(rawArr(2), rawUint(1), rawArr(4), rawArr(4), rawArr(2), []byte{0xf5}, rawUint(now), rawArr(1), []byte{0xf4}, rawArr(1), []byte{0xf4}, rawArr(1), []byte{0xf4},
		rawUint(0), rawDtn("src", "app"), rawArr(2), rawUint(now-5000), rawUint(3))

	var jobs []*lateJob

	// ---------------- mtcp ----------------
	valid := mk(now, 0, r.Bytes(50), hop())
	validFrame := lateFrame(uint64(len(valid)), valid)
	lens := append([]uint64{}, advLens...)
	lens = append(lens, mulOverflowProbes(64, thorough)...)
	frameOf := func(kind string) []byte {
		switch kind {
		case "valid":
			b := mk(now, 0, r.Bytes(r.Intn(300)), hop(), prev())
			return lateFrame(uint64(len(b)), b)
		case "keepalive":
			return []byte{0x40}
		case "len":
			return lateFrame(lens[r.Intn(len(lens))], valid)
		case "garbage":
			return lateFrame(uint64(10+r.Intn(50)), r.Bytes(10+r.Intn(50)))
		case "trunc":
			return validFrame[:1+r.Intn(len(validFrame)-1)]
		case "nonbstr":
			return []byte{byte(r.Pick([]uint64{0x00, 0x18, 0x83, 0x9f, 0xa1, 0xf6, 0xff, 0x5f, 0x7b}))}
		}
		return nil
	}
	kinds := []string{"valid", "valid", "keepalive", "len", "len", "garbage", "trunc", "nonbstr"}
	addMtcp := func(mode string, nconn, pre int, script [][]string) {
		var connS, frameS []S
		for _, ks := range script {
			var fs, kss []S
			for _, k := range ks {
				fs = append(fs, X(frameOf(k)))
				kss = append(kss, Sym(k))
			}
			frameS = append(frameS, LL(fs))
			connS = append(connS, LL(kss))
		}
		in := append([]S{Sym("mtcp"), Sym(mode), I(nconn), I(pre), X(validFrame)}, frameS...)
		jobs = append(jobs, &lateJob{kind: "mtcp", input: SString(LL(in)), meta: []S{Sym(mode), I(nconn), I(pre), LL(connS)}})
	}
	// the plain sequences first: connect, close, one valid frame (each mode), then generated ones
	for _, mode := range []string{"after", "during", "blocked"} {
		addMtcp(mode, 1, 1, [][]string{{"valid"}})
		addMtcp(mode, 2, 0, [][]string{{"keepalive", "valid"}, {"valid", "valid"}})
	}
	nm := 10
	if thorough {
		nm = 150
	}
	for i := 0; i < nm; i++ {
		mode := []string{"after", "during", "blocked", "open"}[r.Intn(4)]
		nconn := 1 + r.Intn(3)
		var script [][]string
		for c := 0; c < nconn; c++ {
			var ks []string
			for k, n := 0, 1+r.Intn(4); k < n; k++ {
				ks = append(ks, kinds[r.Intn(len(kinds))])
			}
			if r.Intn(3) != 0 {
				ks = append(ks, "valid")
			}
			script = append(script, ks)
		}
		addMtcp(mode, nconn, r.Intn(3), script)
	}
	// every length head value in front of a valid bundle, fed to the running server (one connection each batch)
	var nz []uint64 // a length of 0 is a keep-alive: the bytes behind it are the next frame
	for _, v := range lens {
		if v != 0 {
			nz = append(nz, v)
		}
	}
	for at := 0; at < len(nz); at += 40 {
		var fs []S
		end := at + 40
		if end > len(nz) {
			end = len(nz)
		}
		for _, v := range nz[at:end] {
			fs = append(fs, X(lateFrame(v, valid)))
		}
		in := []S{Sym("mtcp"), Sym("open"), I(1), I(1), X(validFrame), LL(fs)}
		jobs = append(jobs, &lateJob{kind: "mtcp", input: SString(LL(in)), meta: []S{Sym("open"), I(1), I(1), L(L(Sym("lens"), I(end-at)))}})
	}

	// ---------------- firstuse ----------------
	fu := [][]byte{
		mk(0, 0, r.Bytes(20), age(1000)),
		mk(0, 2, admin, age(5)),
		mk(0, 0, r.Bytes(5), age(0), hop()),
		mk(now, 0, r.Bytes(20), hop(), prev()),
		mk(now, 2, admin),
		mk(0, 0, r.Bytes(64), prev(), age(77), hop()),
	}
	// measured with a seeded race in the manager's creation: about 1.5 % of the processes hit it, whatever the
	// number of goroutines or their stagger; the quick tier only keeps the scenario alive (the property
	// quantifies over inputs, not schedules), the thorough tier reaches ~99 %
	nf := 12
	if thorough {
		nf = 400
	}
	for i := 0; i < nf; i++ {
		n := []int{2, 4, 8, 8, 16}[r.Intn(5)]
		// mostly the bundles whose first canonical block the node asserts on
		var ins [][]byte
		for k, m := 0, 1+r.Intn(3); k < m; k++ {
			ins = append(ins, fu[r.Intn(len(fu))])
		}
		// two of three processes have seen an undecodable bundle before (primary block, then a block cut in
		// front of its data): all code but the block manager is warm
		var warm []byte
		if i%3 != 0 {
			w := mk(now, 0, nil, hop())
			warm = w[:len(w)-21] // ... 86 0a 03 00: cut in front of the CRC type, the block manager is asked after it
		}
		in := []S{Sym("firstuse"), I(n), X(warm)}
		var meta []S
		for _, b := range ins {
			in = append(in, X(b))
			meta = append(meta, X(b))
		}
		jobs = append(jobs, &lateJob{kind: "firstuse", input: SString(LL(in)), meta: []S{I(n), X(warm), LL(meta)}})
	}

	lateRun(jobs, 6)
	for _, j := range jobs {
		o.Case(j.kind, append(append([]S{U(now)}, j.meta...), j.res, Str(j.detail))...)
	}
}

func init() {
	register("C04late", genC04late)
	register("C04lateChild", genC04lateChild)
}
