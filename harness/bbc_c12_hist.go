package main

// C12 (BBC part), two further scenario classes on ONE Connector.
//
// C12bbchist - histories in which transmission ids are used again.  The id is one byte: a sender's
// counter wraps after 256 bundles and other senders draw their ids at random, so a receiver sees the
// same id for many trains.  Every earlier train under an id ends in one of all possible ways
// (delivered; sequence failure by a drop / duplication / swap / several faults; reached its end mark
// with a payload the decoder rejects: random bytes, a cut xz stream, a truncated bundle, sixteen
// fragments lost in a row, two senders' trains spliced; a peer's failure fragment in between; left
// open) and is followed - other transmissions interleaved - by further trains under the same id.  An
// intact train must always be delivered as the identical bundle.
//
// C12bbcbusy - faulty and intact incoming trains while the Connector's own outgoing queue is full:
// a started Connector on a modem whose transmitter blocks until released sends a bundle of more
// fragments than the queue holds; while the queue is full trains arrive through Modem.Receive; then
// the modem is released.  Once everything has drained the modem must have transmitted the own train
// intact and a failure fragment for every faulty train; intact trains must have been delivered.

import (
	"bytes"
	"fmt"
	"io"
	"sync"
	"time"

	"github.com/ulikunitz/xz"

	"github.com/dtn7/dtn7-go/pkg/bpv7"
	"github.com/dtn7/dtn7-go/pkg/cla"
	"github.com/dtn7/dtn7-go/pkg/cla/bbc"
)

// c12Decode: what a blob decodes to (xz + bundle CBOR), computed outside the Connector; nil when it
// does not decode.  This is the oracle `decodes` of the model.
var c12DecodeCache = map[string][]byte{}

func c12Decode(blob []byte) []byte {
	if d, ok := c12DecodeCache[string(blob)]; ok {
		return d
	}
	d := c12DecodeRaw(blob)
	c12DecodeCache[string(blob)] = d
	return d
}

func c12DecodeRaw(blob []byte) []byte {
	xr, err := xz.NewReader(bytes.NewBuffer(append([]byte(nil), blob...)))
	if err != nil {
		return nil
	}
	var b bpv7.Bundle
	if err := b.UnmarshalCbor(xr); err != nil {
		return nil
	}
	return BundleBytes(b)
}

var c12XzCache = map[string][]byte{}

func c12Xz(data []byte) []byte {
	if d, ok := c12XzCache[string(data)]; ok {
		return d
	}
	d := c12XzRaw(data)
	c12XzCache[string(data)] = d
	return d
}

func c12XzRaw(data []byte) []byte {
	var buf bytes.Buffer
	w, err := xz.NewWriter(&buf)
	if err != nil {
		panic(err)
	}
	if _, err = w.Write(data); err != nil {
		panic(err)
	}
	if err = w.Close(); err != nil {
		panic(err)
	}
	return buf.Bytes()
}

// a train with correct sequence numbers, start and end marks around an arbitrary blob
func c12PlainTrain(tid byte, blob []byte, mtu int) []bbc.Fragment {
	t, err := bbc.VerifNewPlainOutgoingTransmission(tid, append([]byte(nil), blob...), mtu)
	if err != nil {
		panic(err)
	}
	var frags []bbc.Fragment
	for i := 0; i < 1<<20; i++ {
		f, fin, werr := t.WriteFragment()
		if werr != nil {
			panic(werr)
		}
		frags = append(frags, f)
		if fin {
			return frags
		}
	}
	panic("train does not end")
}

func c12Concat(frags []bbc.Fragment) []byte {
	var b []byte
	for _, f := range frags {
		b = append(b, f.Payload...)
	}
	return b
}

// the ways a train can be made / can end
const (
	hOk         = iota // intact
	hDrop              // one fragment (not the last) lost
	hDropLast2         // the last but one lost: exactly one fragment of the train is refused
	hDup               // one fragment twice
	hSwap              // two neighbours exchanged
	hMulti             // several faults within the locality bound
	hGarbage           // random bytes, sequence numbers and marks correct
	hCutXz             // the sender's xz stream cut short, marks correct
	hCutBundle         // a truncated bundle, compressed, marks correct
	hBurst16           // sixteen fragments lost in a row (invisible to the 4-bit counter)
	hSplice            // head of one sender's train, tail of another's under the same id
	hPeerFail          // intact, a peer's failure fragment for the id in between
	hOpen              // the final fragment(s) lost: left open (known finding)
	hNClasses
)

var hNames = []string{"ok", "drop", "droplast2", "dup", "swap", "multi", "garbage", "cutxz", "cutbundle", "burst16", "splice", "peerfail", "open"}

type c12Hist struct {
	r       *Rng
	mtu     int
	bundles []bpv7.Bundle
	ts      []c12T
}

// episode: makes one train of the class under the id, returns the references received for it
func (h *c12Hist) episode(tid byte, cls int) []c12Ref {
	r := h.r
	b := h.bundles[r.Intn(len(h.bundles))]
	bb := BundleBytes(b)
	blob, frags, err := c12Train(tid, b, h.mtu)
	if err != nil {
		panic(err)
	}
	n := len(frags)
	// classes that need a minimal length fall back to a neighbouring class
	switch {
	case cls == hBurst16 && n < 18:
		cls = hGarbage
	case (cls == hDrop || cls == hDropLast2 || cls == hDup || cls == hSwap || cls == hOpen || cls == hSplice) && n < 2:
		cls = hCutXz
	}
	k := len(h.ts)
	add := func(t c12T) {
		t.cls = hNames[cls]
		h.ts = append(h.ts, t)
	}
	synth := func(blob []byte) []c12Ref {
		fr := c12PlainTrain(tid, blob, h.mtu)
		add(c12T{tid: tid, blob: blob, bndl: c12Decode(blob), frags: fr})
		return refsOf(k, len(fr))
	}
	switch cls {
	case hGarbage:
		g := r.Bytes(1 + r.Intn(6*(h.mtu-2)+1))
		if r.Intn(4) == 0 { // looks like xz at first
			g = append([]byte{0xFD, '7', 'z', 'X', 'Z', 0x00}, g...)
		}
		return synth(g)
	case hCutXz:
		cut := 1 + r.Intn(len(blob)-1)
		if r.Intn(3) == 0 && len(blob) > 12 {
			cut = len(blob) - 1 - r.Intn(12)
		}
		return synth(append([]byte(nil), blob[:cut]...))
	case hCutBundle:
		// a few cut points per bundle (every compression costs tens of milliseconds)
		cut := 1 + (len(bb)-2)*r.Intn(4)/3
		if r.Intn(3) == 0 {
			cut = len(bb) - 1 // only the closing break is missing
		}
		return synth(c12Xz(bb[:cut]))
	case hSplice:
		// another sender's train under the same id: same length or longer needed for the tail
		b2 := h.bundles[r.Intn(len(h.bundles))]
		_, frags2, err2 := c12Train(tid, b2, h.mtu)
		if err2 != nil {
			panic(err2)
		}
		a := r.Intn(n - 1) // head 0..a of this train
		if len(frags2) < a+2 || bytes.Equal(BundleBytes(b2), bb) {
			return synth(append([]byte(nil), blob[:len(blob)-1]...))
		}
		fr := append(append([]bbc.Fragment(nil), frags[:a+1]...), frags2[a+1:]...)
		sb := c12Concat(fr)
		add(c12T{tid: tid, blob: sb, bndl: c12Decode(sb), frags: fr})
		return refsOf(k, len(fr))
	}
	add(c12T{tid: tid, blob: blob, bndl: bb, frags: frags})
	base := refsOf(k, n)
	switch cls {
	case hOk:
		return base
	case hDrop:
		return c12Drop(base, r.Intn(n-1))
	case hDropLast2:
		return c12Drop(base, n-2)
	case hDup:
		return c12Dup(base, r.Intn(n))
	case hSwap:
		return c12Swap(base, r.Intn(n-1))
	case hMulti:
		l := c12RandomFaults(r, base, 1+r.Intn(3))
		return l
	case hBurst16:
		at := 1 + r.Intn(n-17)
		// sixteen fragments lost inside the xz trailer are not even noticed by the decoder (it stops
		// reading after the bundle): the train would count as undamaged.  Move the burst.
		for at > 1 && c12Decode(c12Concat(append(append([]bbc.Fragment(nil), frags[:at]...), frags[at+16:]...))) != nil {
			at--
		}
		return append(append([]c12Ref(nil), base[:at]...), base[at+16:]...)
	case hPeerFail:
		at := r.Intn(n + 1)
		return append(append(append([]c12Ref(nil), base[:at]...), c12Ref{k, -1}), base[at:]...)
	case hOpen:
		return append([]c12Ref(nil), base[:1+r.Intn(n-1)]...)
	}
	panic("class")
}

func c12HistBundles(r *Rng) []bpv7.Bundle {
	var bs []bpv7.Bundle
	for v, plen := range []int{0, 9, 30, 90} {
		bs = append(bs, c12Bundle(r, plen, v))
	}
	return bs
}

func genC12bbchist(o *Out, r *Rng, thorough bool) {
	bundles := c12HistBundles(r)
	mk := func(mtu int) *c12Hist { return &c12Hist{r: r, mtu: mtu, bundles: bundles} }

	// ---- directed: every class, then an intact train under the same id (and once more) ----
	dmtus := []int{3, 19}
	if thorough {
		dmtus = []int{3, 4, 5, 6, 9, 12, 19, 40, 64}
	}
	for _, mtu := range dmtus {
		for cls := 0; cls < hNClasses; cls++ {
			h := mk(mtu)
			tid := byte(r.Intn(256))
			refs := h.episode(tid, cls)
			refs = append(refs, h.episode(tid, hOk)...)
			refs = append(refs, h.episode(tid, hOk)...)
			c12RxK(o, "hist", "after-"+hNames[cls], mtu, h.ts, refs)
		}
	}
	// ---- two endings in a row, then intact ----
	npairs := 16
	if thorough {
		npairs = 600
	}
	for c := 0; c < npairs; c++ {
		mtu := 3 + r.Intn(10)
		if r.Intn(4) == 0 {
			mtu = 13 + r.Intn(52)
		}
		h := mk(mtu)
		tid := byte(r.Intn(256))
		refs := h.episode(tid, r.Intn(hNClasses-1)) // not left open
		refs = append(refs, h.episode(tid, r.Intn(hNClasses-1))...)
		refs = append(refs, h.episode(tid, hOk)...)
		c12RxK(o, "hist", "two-endings", mtu, h.ts, refs)
	}
	// ---- several ids, several trains per id, transmissions of different ids interleaved ----
	nhist := 20
	if thorough {
		nhist = 1500
	}
	for c := 0; c < nhist; c++ {
		mtu := 3 + r.Intn(10)
		if r.Intn(5) == 0 {
			mtu = 13 + r.Intn(52)
		}
		h := mk(mtu)
		nid := 1 + r.Intn(3)
		used := map[byte]bool{}
		var ls [][]c12Ref
		for i := 0; i < nid; i++ {
			tid := byte(r.Intn(256))
			if r.Intn(8) == 0 {
				tid = []byte{0, 255}[r.Intn(2)]
			}
			for used[tid] {
				tid++
			}
			used[tid] = true
			var l []c12Ref
			for e, ne := 0, 2+r.Intn(2); e < ne; e++ {
				cls := hOk
				if r.Intn(5) >= 2 {
					cls = 1 + r.Intn(hNClasses-1)
					if cls == hOpen && r.Intn(3) != 0 { // leaving a transmission open is the known finding: rare
						cls = hGarbage
					}
				}
				l = append(l, h.episode(tid, cls)...)
			}
			ls = append(ls, l)
		}
		c12RxK(o, "hist", "ids-reused", mtu, h.ts, c12Interleave(r, ls))
	}
}

// ------------------------------------------------------------------------------------------------
// busy outgoing queue

// gateModem: Send blocks until the gate is opened; Receive hands out injected fragments.
type gateModem struct {
	mtu     int
	gate    chan struct{}
	closed  chan struct{}
	once    sync.Once
	rx      chan bbc.Fragment
	mu      sync.Mutex
	inSend  []bbc.Fragment // fragments Send was entered with (the last one may still wait at the gate)
	sent    []bbc.Fragment
	rxCalls int
	notify  chan struct{}
}

func newGateModem(mtu int) *gateModem {
	return &gateModem{mtu: mtu, gate: make(chan struct{}), closed: make(chan struct{}),
		rx: make(chan bbc.Fragment, 1<<12), notify: make(chan struct{}, 1<<16)}
}
func (m *gateModem) Mtu() int { return m.mtu }
func (m *gateModem) wake() {
	select {
	case m.notify <- struct{}{}:
	default:
	}
}
func (m *gateModem) Send(f bbc.Fragment) error {
	m.mu.Lock()
	m.inSend = append(m.inSend, f)
	m.mu.Unlock()
	m.wake()
	select {
	case <-m.gate:
	case <-m.closed:
		return io.ErrClosedPipe
	}
	m.mu.Lock()
	m.sent = append(m.sent, f)
	m.mu.Unlock()
	m.wake()
	return nil
}
func (m *gateModem) Receive() (bbc.Fragment, error) {
	// being asked again means: the fragment handed out before has been handled completely
	m.mu.Lock()
	m.rxCalls++
	m.mu.Unlock()
	m.wake()
	select {
	case f := <-m.rx:
		return f, nil
	case <-m.closed:
		return bbc.Fragment{}, io.EOF
	}
}
func (m *gateModem) Close() error   { m.once.Do(func() { close(m.closed) }); return nil }
func (m *gateModem) String() string { return fmt.Sprintf("gate-modem-%d", m.mtu) }

// waitFor polls cond (under the modem's lock) until it holds or d has passed; woken by modem events.
func (m *gateModem) waitFor(d time.Duration, cond func() bool) bool {
	deadline := time.Now().Add(d)
	for {
		m.mu.Lock()
		ok := cond()
		m.mu.Unlock()
		if ok {
			return true
		}
		left := time.Until(deadline)
		if left <= 0 {
			return false
		}
		if left > 2*time.Millisecond {
			left = 2 * time.Millisecond
		}
		select {
		case <-m.notify:
		case <-time.After(left):
		}
	}
}

const c12BusyLong = 90 * time.Second // "does not happen at all"; never reached on a correct tree

// one scenario; when = 0: trains arrive while the queue is full, 1: before the own Send starts,
// 2: after the modem was released (while the queue drains)
func c12Busy(o *Out, r *Rng, bundles, bigs []bpv7.Bundle, when int, hold time.Duration) {
	big := bigs[r.Intn(len(bigs))]
	small := bundles[1]
	bigBlob, _, err := c12Train(0, big, 100)
	if err != nil {
		panic(err)
	}
	smallBlob, _, _ := c12Train(0, small, 100)

	probe := bbc.NewConnector(newScriptModem(10), false)
	_, qcap := probe.VerifFragmentOutLen()
	// more own fragments than the queue and the modem hold together
	maxRoom := len(bigBlob) / (qcap + 8)
	if maxRoom < 1 {
		o.Case("busy", Sym("setup-failed"), Sym("bundle-too-small"))
		return
	}
	if maxRoom > 20 {
		maxRoom = 20
	}
	mtu := 3 + r.Intn(maxRoom)
	m := newGateModem(mtu)
	c := bbc.NewConnector(m, false)
	c.Start()

	// the injected trains: pairwise distinct ids, different from the own ids (learnt below)
	type plan struct {
		off, cls int
	}
	nt := 1 + r.Intn(4)
	var plans []plan
	offs := r.Perm(200)
	for i := 0; i < nt; i++ {
		cls := []int{hDrop, hDropLast2, hDup, hSwap, hOk, hDropLast2, hMulti, hDrop}[r.Intn(8)]
		if i == 0 { // at least one train with a fault that must be signalled
			cls = []int{hDrop, hDropLast2, hDup, hSwap}[r.Intn(4)]
		}
		plans = append(plans, plan{10 + offs[i], cls})
	}
	seedTrains := r.U64()

	var ownTid byte
	build := func() (*c12Hist, []c12Ref) {
		h := &c12Hist{r: NewRng(seedTrains), mtu: mtu, bundles: bundles}
		var ls [][]c12Ref
		for _, p := range plans {
			ls = append(ls, h.episode(ownTid+byte(p.off), p.cls))
		}
		return h, c12Interleave(h.r, ls)
	}
	inject := func(h *c12Hist, refs []c12Ref) {
		for _, ref := range refs {
			g, perr := bbc.ParseFragment(append([]byte(nil), h.ts[ref.k].frags[ref.i].Bytes()...))
			if perr != nil {
				panic(perr)
			}
			m.rx <- g
		}
	}
	rxIdle := func(n int) func() bool { return func() bool { return m.rxCalls >= n+1 } }

	var h *c12Hist
	var refs []c12Ref
	status := "ok"
	endSeen := func(tid byte) func() bool {
		return func() bool {
			for i := len(m.sent) - 1; i >= 0; i-- {
				f := m.sent[i]
				if f.TransmissionID() == tid && !f.FailBit() && f.EndBit() {
					return true
				}
			}
			return false
		}
	}
	sendDone := make(chan error, 1)
	startOwn := func() { go func() { sendDone <- c.Send(big) }() }
	full := true
	switch when {
	case 0, 2:
		startOwn()
		ok := m.waitFor(c12BusyLong, func() bool {
			n, _ := c.VerifFragmentOutLen()
			return len(m.inSend) > 0 && n == qcap
		})
		if !ok {
			o.Case("busy", Sym("setup-failed"), Sym("queue-not-full"))
			_ = m.Close()
			return
		}
		m.mu.Lock()
		ownTid = m.inSend[0].TransmissionID()
		m.mu.Unlock()
		h, refs = build()
		if when == 0 {
			inject(h, refs)
			// a handler that does not wait for room in the queue has handled everything by now;
			// one that waits is still waiting when the time is over
			m.waitFor(hold, rxIdle(len(refs)))
			n, _ := c.VerifFragmentOutLen()
			full = n == qcap
			close(m.gate)
		} else {
			close(m.gate)
			inject(h, refs)
		}
	case 1:
		// idle transmitter: a small bundle goes out first (a connector's first id is random: learn it),
		// then the trains arrive, then the big bundle is sent
		close(m.gate)
		preErr := c.Send(small)
		var first byte
		if preErr != nil || !m.waitFor(c12BusyLong, func() bool {
			if len(m.inSend) == 0 {
				return false
			}
			first = m.inSend[0].TransmissionID()
			return endSeen(first)()
		}) {
			o.Case("busy", Sym("setup-failed"), Sym("no-send"))
			_ = m.Close()
			return
		}
		ownTid = first + 1 // the big bundle gets the next id
		h, refs = build()
		inject(h, refs)
		if !m.waitFor(c12BusyLong, rxIdle(len(refs))) {
			status = "stuck-read"
		}
		startOwn()
	}
	if status == "ok" && !m.waitFor(c12BusyLong, rxIdle(len(refs))) {
		status = "stuck-read"
	}
	var ownErr error
	if status == "ok" {
		select {
		case ownErr = <-sendDone:
		case <-time.After(c12BusyLong):
			status = "stuck-send"
		}
	}
	// sentinel: whatever was queued before it has left the modem when its end mark has
	var sentinelErr error
	if status == "ok" {
		sentinelErr = c.Send(small)
		if !m.waitFor(c12BusyLong, endSeen(ownTid+1)) {
			status = "stuck-write"
		}
	}
	var dl []S
drain:
	for {
		select {
		case st := <-c.Channel():
			if st.MessageType == cla.ReceivedBundle {
				dl = append(dl, X(BundleBytes(*st.Message.(cla.ConvergenceReceivedBundle).Bundle)))
			} else {
				dl = append(dl, Sym("other-status"))
			}
		default:
			break drain
		}
	}
	if status == "ok" {
		_ = c.Close()
	} else {
		_ = m.Close() // a stuck handler would make Connector.Close wait for ever
	}
	m.mu.Lock()
	sent := append([]bbc.Fragment(nil), m.sent...)
	m.mu.Unlock()
	// projection: the order between own fragments and failure fragments is the scheduler's choice
	var ownSent, failSent []bbc.Fragment
	for _, f := range sent {
		if f.FailBit() {
			failSent = append(failSent, f)
		} else {
			ownSent = append(ownSent, f)
		}
	}
	var tl, rl []S
	for _, t := range h.ts {
		tl = append(tl, L(U(uint64(t.tid)), X(t.blob), X(t.bndl), fragsS(t.frags), Sym(t.cls)))
	}
	for _, ref := range refs {
		rl = append(rl, L(I(ref.k), I(ref.i+1)))
	}
	var pre []S // what the own connector sent before the big bundle (when = 1)
	if when == 1 {
		pre = append(pre, X(smallBlob))
	}
	o.Case("busy", Sym(status), Sym([]string{"while-full", "before-send", "while-draining"}[when]), I(mtu), I(qcap), B(full),
		U(uint64(ownTid)), LL(pre), X(bigBlob), B(ownErr != nil), X(smallBlob), B(sentinelErr != nil),
		LL(tl), LL(rl), fragsS(ownSent), fragsS(failSent), LL(dl))
}

func genC12bbcbusy(o *Out, r *Rng, thorough bool) {
	bundles := c12HistBundles(r)
	var bigs []bpv7.Bundle
	for i := 0; i < 2; i++ {
		bigs = append(bigs, c12Bundle(r, 500+r.Intn(600), 2)) // random payload: does not shrink under xz
	}
	rounds := 4
	if thorough {
		rounds = 60
	}
	for i := 0; i < rounds; i++ {
		c12Busy(o, r, bundles, bigs, 0, 400*time.Millisecond)
	}
	c12Busy(o, r, bundles, bigs, 1, 0)
	c12Busy(o, r, bundles, bigs, 2, 0)
	if thorough {
		for i := 0; i < 10; i++ {
			c12Busy(o, r, bundles, bigs, 1+i%2, 0)
		}
	}
}

func init() {
	register("C12bbchist", genC12bbchist)
	register("C12bbcbusy", genC12bbcbusy)
}
