package main

// corelib: shared infrastructure to drive a real routing.Core with scripted mock convergence
// layers and mock application agents, synchronously, through the verif hooks of pkg/routing.

import (
	"bytes"
	"fmt"
	"io/ioutil"
	"os"
	"sort"
	"sync"
	"time"

	"github.com/dtn7/dtn7-go/pkg/agent"
	"github.com/dtn7/dtn7-go/pkg/bpv7"
	"github.com/dtn7/dtn7-go/pkg/cla"
	"github.com/dtn7/dtn7-go/pkg/routing"
)

// SendRec is one call of ConvergenceSender.Send on a mock, in global order.
type SendRec struct {
	N     int    // global sequence number of the call
	Peer  string // mock name
	Raw   []byte // the bundle serialised inside Send (as real CLAs do)
	ID    string // bundle ID string
	OK    bool   // outcome reported to the Core
	Bndl  bpv7.Bundle
	Event int // harness event counter at the time of the call
}

// MockCLA is a ConvergenceSender (only) whose outcomes are scripted.
type MockCLA struct {
	Name   string
	Peer   bpv7.EndpointID
	node   *Node
	ch     chan cla.ConvergenceStatus
	Fail   func(rec *SendRec) bool // nil = always succeed
	Block  func(rec *SendRec)      // optional: called inside Send before returning (schedule control)
	Starts int
	Closes int
	Perm   bool
}

func (m *MockCLA) Start() (error, bool)                { m.Starts++; return nil, false }
func (m *MockCLA) Close() error                        { m.Closes++; return nil }
func (m *MockCLA) Channel() chan cla.ConvergenceStatus { return m.ch }
func (m *MockCLA) Address() string                     { return "mock://" + m.Name }
func (m *MockCLA) IsPermanent() bool                   { return m.Perm }
func (m *MockCLA) GetPeerEndpointID() bpv7.EndpointID  { return m.Peer }
func (m *MockCLA) String() string                      { return m.Address() }
func (m *MockCLA) Send(b bpv7.Bundle) error {
	var buf bytes.Buffer
	err := b.WriteBundle(&buf)
	n := m.node
	n.mu.Lock()
	n.sendN++
	rec := &SendRec{N: n.sendN, Peer: m.Name, Raw: append([]byte(nil), buf.Bytes()...), ID: b.ID().String(), Bndl: b, Event: n.Event}
	n.mu.Unlock()
	if err != nil {
		rec.OK = false
		n.mu.Lock()
		n.Log = append(n.Log, *rec)
		n.mu.Unlock()
		return fmt.Errorf("mock: serialise: %v", err)
	}
	fail := m.Fail != nil && m.Fail(rec)
	rec.OK = !fail
	if m.Block != nil {
		m.Block(rec)
	}
	n.mu.Lock()
	n.Log = append(n.Log, *rec)
	n.mu.Unlock()
	if fail {
		return fmt.Errorf("mock: scripted failure")
	}
	return nil
}

// MockAgent is an ApplicationAgent recording what it is handed.
type MockAgent struct {
	Name string
	eids []bpv7.EndpointID
	recv chan agent.Message
	send chan agent.Message
	mu   sync.Mutex
	Got  []bpv7.Bundle
	done chan struct{}
}

func NewMockAgent(name string, eids ...bpv7.EndpointID) *MockAgent {
	a := &MockAgent{Name: name, eids: eids, recv: make(chan agent.Message, 64), send: make(chan agent.Message, 64), done: make(chan struct{})}
	go func() {
		for msg := range a.recv {
			switch m := msg.(type) {
			case agent.BundleMessage:
				a.mu.Lock()
				a.Got = append(a.Got, m.Bundle)
				a.mu.Unlock()
			case agent.ShutdownMessage:
				close(a.done)
				return
			}
		}
	}()
	return a
}
func (a *MockAgent) Endpoints() []bpv7.EndpointID        { return a.eids }
func (a *MockAgent) MessageReceiver() chan agent.Message { return a.recv }
func (a *MockAgent) MessageSender() chan agent.Message   { return a.send }
func (a *MockAgent) Received() []bpv7.Bundle {
	// the mux hands messages over asynchronously: give it a moment to drain
	for i := 0; i < 50; i++ {
		if len(a.recv) == 0 {
			break
		}
		time.Sleep(time.Millisecond)
	}
	time.Sleep(2 * time.Millisecond)
	a.mu.Lock()
	defer a.mu.Unlock()
	return append([]bpv7.Bundle(nil), a.Got...)
}

// Node wraps one Core on a directory.
type Node struct {
	Core     *routing.Core
	Dir      string
	ID       bpv7.EndpointID
	Conf     routing.RoutingConf
	Peers    map[string]*MockCLA
	Agents   []*MockAgent
	mu       sync.Mutex
	Log      []SendRec
	sendN    int
	Event    int
	ownDir   bool
	SignPriv []byte // ed25519 private key: administrative records get a signature block (nil = none)
}

func MustEID(s string) bpv7.EndpointID {
	e, err := bpv7.NewEndpointID(s)
	if err != nil {
		panic(err)
	}
	return e
}

func workDir() string {
	base := os.Getenv("VERIF_WORK")
	if base == "" {
		base = os.TempDir()
	}
	d, err := ioutil.TempDir(base, "node")
	if err != nil {
		panic(err)
	}
	return d
}

// NewNode creates a Core on a fresh directory (removed by Destroy) with the cron jobs stopped.
func NewNode(id string, conf routing.RoutingConf) *Node {
	n := &Node{Dir: workDir(), ID: MustEID(id), Conf: conf, Peers: map[string]*MockCLA{}, ownDir: true}
	n.open()
	return n
}

// NewNodeSigned is NewNode with a signing key configured.
func NewNodeSigned(id string, conf routing.RoutingConf, priv []byte) *Node {
	n := &Node{Dir: workDir(), ID: MustEID(id), Conf: conf, Peers: map[string]*MockCLA{}, ownDir: true, SignPriv: priv}
	n.open()
	return n
}

func (n *Node) open() {
	if n.SignPriv != nil {
		// NewCore registers the signature block type itself and refuses a second registration
		bpv7.GetExtensionBlockManager().Unregister(&bpv7.SignatureBlock{})
	}
	c, err := routing.NewCore(n.Dir, n.ID, false, n.Conf, n.SignPriv)
	if err != nil {
		panic(err)
	}
	c.VerifStopCron()
	n.Core = c
}

// Restart closes the Core orderly and opens a new one on the same directory. Peers are gone
// (connections do not survive a restart); agents have to be registered again by the caller.
func (n *Node) Restart() {
	n.closeAgents()
	n.Core.Close()
	n.Peers = map[string]*MockCLA{}
	n.Agents = nil
	n.open()
}

// closeAgents closes the Core's AgentManager (Core.Close leaves it running); it must not block the
// harness when the mux no longer reads (agents already shut down by the caller).
func (n *Node) closeAgents() {
	done := make(chan struct{})
	go func() { n.Core.VerifCloseAgents(); close(done) }()
	select {
	case <-done:
	case <-time.After(300 * time.Millisecond):
	}
}

func (n *Node) Destroy() {
	n.closeAgents()
	n.Core.Close()
	if n.ownDir {
		os.RemoveAll(n.Dir)
	}
}

// PeerUp registers a new mock sender for peer EID `peer` and reports its appearance.
func (n *Node) PeerUp(name, peer string) *MockCLA {
	m := &MockCLA{Name: name, Peer: MustEID(peer), node: n, ch: make(chan cla.ConvergenceStatus, 16)}
	n.Peers[name] = m
	n.Event++
	n.Core.RegisterConvergable(m)
	n.Core.VerifPeerAppeared(m)
	return m
}

// PeerUpWith is PeerUp with the failure script installed before the appearance is reported.
func (n *Node) PeerUpWith(name, peer string, fail func(rec *SendRec) bool) *MockCLA {
	m := &MockCLA{Name: name, Peer: MustEID(peer), node: n, ch: make(chan cla.ConvergenceStatus, 16), Fail: fail}
	n.Peers[name] = m
	n.Event++
	n.Core.RegisterConvergable(m)
	n.Core.VerifPeerAppeared(m)
	return m
}

func (n *Node) PeerDown(name string) {
	m := n.Peers[name]
	if m == nil {
		return
	}
	n.Event++
	n.Core.VerifPeerDisappeared(m)
	n.Core.VerifClaManager().Unregister(m)
	delete(n.Peers, name)
}

func (n *Node) Submit(b bpv7.Bundle) { n.Event++; n.Core.SendBundle(&b) }
func (n *Node) Receive(b bpv7.Bundle, from string) {
	n.Event++
	n.Core.VerifReceive(b, MustEID(from))
}
func (n *Node) TickPending() { n.Event++; n.Core.VerifCheckPending() }
func (n *Node) TickClean()   { n.Event++; n.Core.VerifCleanStore() }

func (n *Node) AddAgent(name string, eids ...string) *MockAgent {
	var es []bpv7.EndpointID
	for _, e := range eids {
		es = append(es, MustEID(e))
	}
	a := NewMockAgent(name, es...)
	n.Agents = append(n.Agents, a)
	n.Core.RegisterApplicationAgent(a)
	return a
}

// SendsSince returns the send records with N > after.
func (n *Node) SendsSince(after int) []SendRec {
	n.mu.Lock()
	defer n.mu.Unlock()
	var r []SendRec
	for _, s := range n.Log {
		if s.N > after {
			r = append(r, s)
		}
	}
	sort.Slice(r, func(i, j int) bool { return r[i].N < r[j].N })
	return r
}
func (n *Node) LastSendN() int { n.mu.Lock(); defer n.mu.Unlock(); return n.sendN }

// StoreDump lists the store's pending items as (id, pending) sorted by id, plus all known of `ids`.
type StoreRec struct {
	ID      string
	Pending bool
	Parts   int
}

func (n *Node) Pending() []StoreRec {
	bis, err := n.Core.VerifStore().QueryPending()
	if err != nil {
		return nil
	}
	var r []StoreRec
	for _, bi := range bis {
		r = append(r, StoreRec{ID: bi.Id, Pending: bi.Pending, Parts: len(bi.Parts)})
	}
	sort.Slice(r, func(i, j int) bool { return r[i].ID < r[j].ID })
	return r
}

func (n *Node) Knows(id bpv7.BundleID) bool { return n.Core.VerifStore().KnowsBundle(id) }

// BundleBytes serialises a bundle.
func BundleBytes(b bpv7.Bundle) []byte {
	var buf bytes.Buffer
	if err := b.WriteBundle(&buf); err != nil {
		return nil
	}
	return buf.Bytes()
}

// BOpt describes a bundle to build through the public Builder.
type BOpt struct {
	Src, Dst, ReportTo string
	TS                 uint64 // DTN time in ms; NowTS = now
	Life               uint64 // ms
	Flags              bpv7.BundleControlFlags
	Payload            []byte
	Blocks             []bpv7.CanonicalBlock
	CRC                bpv7.CRCType
}

const NowTS = ^uint64(0)

func MkBundle(o BOpt) bpv7.Bundle {
	bl := bpv7.Builder().CRC(o.CRC).Source(o.Src).Destination(o.Dst).Lifetime(time.Duration(o.Life) * time.Millisecond).
		BundleCtrlFlags(o.Flags).PayloadBlock(o.Payload)
	if o.ReportTo != "" {
		bl = bl.ReportTo(o.ReportTo)
	}
	if o.TS == NowTS {
		bl = bl.CreationTimestampNow()
	} else {
		bl = bl.CreationTimestampTime(bpv7.DtnTime(o.TS).Time())
	}
	for _, cb := range o.Blocks {
		bl = bl.Canonical(cb)
	}
	b, err := bl.Build()
	if err != nil {
		panic(err)
	}
	return b
}
