package main

// C12 (BBC part): real bundles -> bbc.NewOutgoingTransmission + WriteFragment / Connector.Send through a
// scripted Modem give the fragment trains; fault patterns (every single drop / duplication /
// adjacent swap, random multi-fault, several concurrent transmissions) are fed to a real Connector
// through its fragment handler; after every fragment the outgoing fragment queue, the queue of
// failed transmission ids, the Connector's status channel and the transmission table are observed.

import (
	"bytes"
	"fmt"
	"io"
	"sort"
	"sync"
	"time"

	"github.com/dtn7/dtn7-go/pkg/bpv7"
	"github.com/dtn7/dtn7-go/pkg/cla"
	"github.com/dtn7/dtn7-go/pkg/cla/bbc"
)

// scriptModem is a Modem whose Send records and whose Receive blocks until Close.
type scriptModem struct {
	mtu    int
	mu     sync.Mutex
	sent   []bbc.Fragment
	notify chan struct{}
	closed chan struct{}
	once   sync.Once
}

func newScriptModem(mtu int) *scriptModem {
	return &scriptModem{mtu: mtu, notify: make(chan struct{}, 1<<16), closed: make(chan struct{})}
}
func (m *scriptModem) Mtu() int { return m.mtu }
func (m *scriptModem) Send(f bbc.Fragment) error {
	m.mu.Lock()
	m.sent = append(m.sent, f)
	m.mu.Unlock()
	m.notify <- struct{}{}
	return nil
}
func (m *scriptModem) Receive() (bbc.Fragment, error) {
	<-m.closed
	return bbc.Fragment{}, io.EOF
}
func (m *scriptModem) Close() error   { m.once.Do(func() { close(m.closed) }); return nil }
func (m *scriptModem) String() string { return fmt.Sprintf("script-modem-%d", m.mtu) }
func (m *scriptModem) take() []bbc.Fragment {
	m.mu.Lock()
	defer m.mu.Unlock()
	r := m.sent
	m.sent = nil
	return r
}

// waitEnd waits until a fragment with the end bit was handed to the modem (the last of a Send).
func (m *scriptModem) waitEnd() bool {
	deadline := time.After(60 * time.Second)
	for {
		m.mu.Lock()
		n := len(m.sent)
		done := n > 0 && m.sent[n-1].EndBit()
		m.mu.Unlock()
		if done {
			return true
		}
		select {
		case <-m.notify:
		case <-deadline:
			return false
		}
	}
}

func c12Bundle(r *Rng, plen int, variant int) bpv7.Bundle {
	crcs := []bpv7.CRCType{bpv7.CRCNo, bpv7.CRC16, bpv7.CRC32}
	pl := r.Bytes(plen)
	if variant%2 == 1 { // compressible payload
		for i := range pl {
			pl[i] = byte('a' + i%3)
		}
	}
	return MkBundle(BOpt{Src: "dtn://src/", Dst: fmt.Sprintf("dtn://dst%d/", variant), TS: 2000000000000 + uint64(r.Intn(1000000)),
		Life: 3600000, Payload: pl, CRC: crcs[variant%3]})
}

// xz compression dominates the run time; NewOutgoingTransmission = xz + newPlainOutgoingTransmission, so
// after the first real call per bundle (whose blob is remembered and checked to be reproducible)
// most trains are made from the remembered blob through the plain constructor.
var c12BlobCache = map[string][]byte{}

// train through the public API: NewOutgoingTransmission + WriteFragment until finished
func c12Train(tid byte, b bpv7.Bundle, mtu int) (blob []byte, frags []bbc.Fragment, err error) {
	return c12TrainX(tid, b, mtu, false)
}

func c12TrainX(tid byte, b bpv7.Bundle, mtu int, real bool) (blob []byte, frags []bbc.Fragment, err error) {
	key := string(BundleBytes(b))
	var t *bbc.OutgoingTransmission
	if cached, ok := c12BlobCache[key]; ok && !real {
		t, err = bbc.VerifNewPlainOutgoingTransmission(tid, append([]byte(nil), cached...), mtu)
	} else {
		t, err = bbc.NewOutgoingTransmission(tid, b, mtu)
		if err == nil {
			if ok && !bytes.Equal(cached, t.Payload) {
				panic("xz output not reproducible")
			}
			c12BlobCache[key] = append([]byte(nil), t.Payload...)
		}
	}
	if err != nil {
		return nil, nil, err
	}
	blob = append([]byte(nil), t.Payload...)
	for i := 0; i < 1<<20; i++ {
		f, fin, werr := t.WriteFragment()
		if werr != nil {
			return blob, frags, werr
		}
		frags = append(frags, f)
		if fin {
			return blob, frags, nil
		}
	}
	return blob, frags, fmt.Errorf("train does not end")
}

func fragsS(fs []bbc.Fragment) S {
	var l []S
	for _, f := range fs {
		l = append(l, fragS(f))
	}
	return LL(l)
}

type c12T struct {
	tid   byte
	blob  []byte
	bndl  []byte // the bundle the blob decodes to; empty: the blob does not decode
	frags []bbc.Fragment
	cls   string // how the train was made (histories only, see bbc_c12_hist.go)
}

type c12Ref struct{ k, i int } // i == -1: a peer's failure fragment for train k's id

// rxCase feeds the referenced fragments to a fresh Connector and writes the case.
func c12Rx(o *Out, label string, mtu int, ts []c12T, refs []c12Ref) {
	c12RxK(o, "rx", label, mtu, ts, refs)
}

// c12RxK: kind "rx" = trains with pairwise distinct ids; kind "hist" = histories in which ids are
// used again (each train entry carries its class).
func c12RxK(o *Out, kind, label string, mtu int, ts []c12T, refs []c12Ref) {
	conn := bbc.NewConnector(newScriptModem(mtu), false)
	var tl, rl, steps []S
	for _, t := range ts {
		if kind == "rx" {
			tl = append(tl, L(U(uint64(t.tid)), X(t.blob), X(t.bndl), fragsS(t.frags)))
		} else {
			tl = append(tl, L(U(uint64(t.tid)), X(t.blob), X(t.bndl), fragsS(t.frags), Sym(t.cls)))
		}
	}
	for _, ref := range refs {
		var f bbc.Fragment
		if ref.i < 0 {
			f = bbc.NewFragment(ts[ref.k].tid, 0, false, false, true, nil)
		} else {
			f = ts[ref.k].frags[ref.i]
		}
		// as over the air: a fresh datagram, parsed by the receiver
		g, err := bbc.ParseFragment(append([]byte(nil), f.Bytes()...))
		if err != nil {
			panic(err)
		}
		herr := conn.VerifHandleIncomingFragment(g)
		var ff, ft, dl, op []S
		for _, x := range conn.VerifDrainFragmentOut() {
			ff = append(ff, fragS(x))
		}
		for _, x := range conn.VerifDrainFailTransmission() {
			ft = append(ft, U(uint64(x)))
		}
	drain:
		for {
			select {
			case st := <-conn.Channel():
				if st.MessageType == cla.ReceivedBundle {
					dl = append(dl, X(BundleBytes(*st.Message.(cla.ConvergenceReceivedBundle).Bundle)))
				} else {
					dl = append(dl, Sym("other-status"))
				}
			default:
				break drain
			}
		}
		open := conn.VerifOpenTransmissions()
		sort.Slice(open, func(a, b int) bool { return open[a] < open[b] })
		for _, x := range open {
			op = append(op, U(uint64(x)))
		}
		rl = append(rl, L(I(ref.k), I(ref.i+1))) // index+1 so that 0 = peer failure fragment
		steps = append(steps, L(B(herr != nil), LL(ff), LL(ft), LL(dl), LL(op)))
	}
	o.Case(kind, Sym(label), I(mtu), LL(tl), LL(rl), LL(steps))
}

func refsOf(k, n int) []c12Ref {
	r := make([]c12Ref, n)
	for i := range r {
		r[i] = c12Ref{k, i}
	}
	return r
}

// single faults on one index list
func c12Drop(l []c12Ref, i int) []c12Ref {
	r := append([]c12Ref(nil), l[:i]...)
	return append(r, l[i+1:]...)
}
func c12Dup(l []c12Ref, i int) []c12Ref {
	r := append([]c12Ref(nil), l[:i+1]...)
	r = append(r, l[i])
	return append(r, l[i+1:]...)
}
func c12Swap(l []c12Ref, i int) []c12Ref {
	r := append([]c12Ref(nil), l...)
	r[i], r[i+1] = r[i+1], r[i]
	return r
}

// random faults that respect the locality bound (displacements well below 16)
func c12RandomFaults(r *Rng, l []c12Ref, nf int) []c12Ref {
	for j := 0; j < nf && len(l) > 0; j++ {
		i := r.Intn(len(l))
		switch r.Intn(4) {
		case 0:
			n := 1 + r.Intn(5)
			if i+n > len(l) {
				n = len(l) - i
			}
			out := append([]c12Ref(nil), l[:i]...)
			l = append(out, l[i+n:]...)
		case 1:
			l = c12Dup(l, i)
		case 2:
			if i+1 < len(l) {
				l = c12Swap(l, i)
			}
		case 3: // move one fragment a few places later
			d := 1 + r.Intn(4)
			if i+d < len(l) {
				x := l[i]
				out := append([]c12Ref(nil), l[:i]...)
				out = append(out, l[i+1:i+d+1]...)
				out = append(out, x)
				l = append(out, l[i+d+1:]...)
			}
		}
	}
	return l
}

func c12Interleave(r *Rng, ls [][]c12Ref) []c12Ref {
	var out []c12Ref
	pos := make([]int, len(ls))
	for {
		var live []int
		for k := range ls {
			if pos[k] < len(ls[k]) {
				live = append(live, k)
			}
		}
		if len(live) == 0 {
			return out
		}
		k := live[r.Intn(len(live))]
		burst := 1 + r.Intn(3)
		for b := 0; b < burst && pos[k] < len(ls[k]); b++ {
			out = append(out, ls[k][pos[k]])
			pos[k]++
		}
	}
}

func genC12bbc(o *Out, r *Rng, thorough bool) {
	// ---------- outgoing trains: all MTUs 3..64 (+ a few larger), several bundles ----------
	nb := 3
	if thorough {
		nb = 12
	}
	var bundles []bpv7.Bundle
	for v := 0; v < nb; v++ {
		plen := []int{0, 1, 12, 40, 200, 700}[v%6]
		if v >= 6 {
			plen = r.Intn(300)
		}
		bundles = append(bundles, c12Bundle(r, plen, v))
	}
	mtus := []int{}
	for m := 3; m <= 64; m++ {
		mtus = append(mtus, m)
	}
	mtus = append(mtus, 65, 100, 251, 255, 256, 1000)
	for bi, b := range bundles {
		for _, mtu := range mtus {
			if !thorough && bi > 0 && mtu > 8 && mtu%7 != bi {
				continue
			}
			tid := byte(r.Intn(256))
			blob, frags, err := c12TrainX(tid, b, mtu, (bi == 0 && (mtu == 3 || mtu == 64)) || (thorough && mtu%5 == 3))
			o.Case("train", U(uint64(tid)), I(mtu), X(blob), B(err != nil), fragsS(frags))
		}
	}

	// ---------- Connector.Send through a started Connector and the scripted modem ----------
	sendMtus := []int{3, 17, 64}
	if thorough {
		sendMtus = []int{3, 4, 5, 16, 17, 18, 33, 64, 250}
	}
	for _, mtu := range sendMtus {
		m := newScriptModem(mtu)
		c := bbc.NewConnector(m, false)
		c.Start()
		var sends []S
		nsend := 2
		if thorough {
			nsend = 4
		}
		for i := 0; i < nsend; i++ {
			b := bundles[(i+mtu)%len(bundles)]
			blob0, _, err0 := c12Train(0, b, mtu) // the blob does not depend on id or MTU
			if err0 != nil {
				panic(err0)
			}
			err := c.Send(b)
			ok := err == nil && m.waitEnd()
			sends = append(sends, L(X(blob0), B(err != nil), B(ok), fragsS(m.take())))
		}
		// sender-side failure report: a peer's failure fragment for the next transmission id makes
		// the next Send return an error; one for another id is ignored
		var sf []S
		if mtu == 17 || thorough {
			// learn the current id from a probe Send
			b := bundles[0]
			_ = c.Send(b)
			m.waitEnd()
			fs := m.take()
			if len(fs) > 0 {
				cur := fs[0].TransmissionID()
				next := cur + 1
				_ = c.VerifHandleIncomingFragment(bbc.NewFragment(next+5, 3, false, false, true, nil))
				errOther := c.Send(b) // uses id next; the failure for next+5 is consumed and ignored
				okOther := errOther == nil && m.waitEnd()
				fo := m.take()
				_ = c.VerifHandleIncomingFragment(bbc.NewFragment(next+1, 3, false, false, true, nil))
				errOwn := c.Send(b) // uses id next+1: must fail
				fw := m.take()
				sf = append(sf, U(uint64(cur)), B(errOther != nil), B(okOther), fragsS(fo), B(errOwn != nil), I(len(fw)))
			}
		}
		_ = c.Close()
		o.Case("send", I(mtu), LL(sends), LL(sf))
	}

	// ---------- reception under faults ----------
	exMtus := []int{3, 4, 7, 18, 64}
	if thorough {
		exMtus = mtus[:62]
	}
	nex := 2
	if thorough {
		nex = 4
	}
	for bi := 0; bi < nex && bi < len(bundles); bi++ {
		b := bundles[bi]
		bb := BundleBytes(b)
		for _, mtu := range exMtus {
			if thorough && bi > 1 && mtu > 10 && mtu%4 != bi {
				continue
			}
			tid := byte(r.Intn(256))
			blob, frags, err := c12Train(tid, b, mtu)
			if err != nil {
				panic(err)
			}
			ts := []c12T{{tid, blob, bb, frags, ""}}
			base := refsOf(0, len(frags))
			c12Rx(o, "nofault", mtu, ts, base)
			for i := range base {
				c12Rx(o, "drop", mtu, ts, c12Drop(base, i))
				c12Rx(o, "dup", mtu, ts, c12Dup(base, i))
				if i+1 < len(base) {
					c12Rx(o, "swap", mtu, ts, c12Swap(base, i))
				}
			}
			// whole train replayed
			c12Rx(o, "replay", mtu, ts, append(append([]c12Ref(nil), base...), base...))
			// bursts of 15, 16 and 17 lost fragments (16 = one full turn of the sequence counter:
			// outside the property's range, only "never a different bundle" is judged)
			for _, n := range []int{15, 16, 17, 32} {
				if len(base) > n+2 {
					at := 1 + r.Intn(len(base)-n-1)
					// a whole turn of the counter lost inside the xz trailer (index, footer) is not even
					// noticed by the decoder, which stops reading after the bundle: the identical bundle
					// is delivered.  The model's decoder oracle knows whole blobs only: move the burst.
					for n%16 == 0 && at > 1 && c12Decode(c12Concat(append(append([]bbc.Fragment(nil), frags[:at]...), frags[at+n:]...))) != nil {
						at--
					}
					out := append([]c12Ref(nil), base[:at]...)
					c12Rx(o, fmt.Sprintf("burst%d", n), mtu, ts, append(out, base[at+n:]...))
				}
			}
		}
	}
	// single-fragment trains (MTU larger than the blob)
	for bi := 0; bi < 2; bi++ {
		b := bundles[bi]
		tid := byte(r.Intn(256))
		blob, frags, err := c12Train(tid, b, 2000)
		if err != nil || len(frags) != 1 {
			panic("single-fragment train expected")
		}
		ts := []c12T{{tid, blob, BundleBytes(b), frags, ""}}
		base := refsOf(0, 1)
		c12Rx(o, "nofault", 2000, ts, base)
		c12Rx(o, "drop", 2000, ts, nil)
		c12Rx(o, "dup", 2000, ts, c12Dup(base, 0))
	}

	// several concurrent transmissions, random multi-fault patterns within the locality bound
	nmulti := 100
	if thorough {
		nmulti = 10000
	}
	for c := 0; c < nmulti; c++ {
		nt := 1 + r.Intn(3)
		mtu := 3 + r.Intn(62)
		if r.Intn(4) == 0 {
			mtu = 3 + r.Intn(6)
		}
		var ts []c12T
		var ls [][]c12Ref
		used := map[byte]bool{}
		perm := r.Perm(len(bundles))
		for k := 0; k < nt; k++ {
			tid := byte(r.Intn(256))
			for used[tid] {
				tid++
			}
			used[tid] = true
			if k >= len(perm) {
				break
			}
			b := bundles[perm[k]]
			blob, frags, err := c12Train(tid, b, mtu)
			if err != nil {
				panic(err)
			}
			ts = append(ts, c12T{tid, blob, BundleBytes(b), frags, ""})
			l := refsOf(k, len(frags))
			nf := r.Intn(4)
			if r.Intn(3) == 0 {
				nf = 0
			}
			l = c12RandomFaults(r, l, nf)
			if r.Intn(12) == 0 && len(l) > 0 { // a peer's failure fragment somewhere
				at := r.Intn(len(l) + 1)
				l = append(append(append([]c12Ref(nil), l[:at]...), c12Ref{k, -1}), l[at:]...)
			}
			ls = append(ls, l)
		}
		c12Rx(o, "multi", mtu, ts, c12Interleave(r, ls))
	}

	c12Pend(o, r, thorough)
}

func init() { register("C12bbc", genC12bbc) }
