package main

// C02rules: encodings in which exactly one structural rule is violated (all CRCs correct), plus
// the boundary layouts the parser tolerates.  Each case is tagged with the rule name.

import (
	"github.com/dtn7/dtn7-go/pkg/bpv7"
)

type ruleCase struct {
	name string
	bs   []byte
}

func baseRaw(now uint64, crc uint64) (rawPrimary, []rawCanon) {
	p := rawPrimary{Version: 7, Flags: 0, CRCType: crc, Dst: rawDtn("dst", "app"), Src: rawDtn("src", "app"), Rpt: rawDtn("src", "rpt"),
		TS: now - 1000, Seq: 5, Life: 3600000, HasCRC: crc != 0, ArrW: -1, UintW: -1}
	cs := []rawCanon{
		{Type: 10, Num: 2, Flags: 0, CRCType: crc, Data: cat(rawArr(2), rawUint(20), rawUint(3)), HasCRC: crc != 0, ArrW: -1},
		{Type: 7, Num: 3, Flags: 0, CRCType: crc, Data: rawUint(100), HasCRC: crc != 0, ArrW: -1},
		{Type: 6, Num: 4, Flags: 0, CRCType: crc, Data: rawDtn("prev", ""), HasCRC: crc != 0, ArrW: -1},
		{Type: 1, Num: 1, Flags: 0, CRCType: crc, Data: []byte("payload"), HasCRC: crc != 0, ArrW: -1},
	}
	return p, cs
}

func ruleCases(now uint64) []ruleCase {
	var out []ruleCase
	add := func(name string, p rawPrimary, cs []rawCanon) { out = append(out, ruleCase{name, rawBundle(p, cs)}) }
	for _, crc := range []uint64{0, 1, 2} {
		p, cs := baseRaw(now, crc)
		add("ok.base", p, cs)

		q := p
		q.Version = 6
		add("version.6", q, cs)
		q = p
		q.Version = 8
		add("version.8", q, cs)
		q = p
		q.UintW = 1
		add("ok.nonminimal-version-head", q, cs)
		q = p
		q.ArrW = 1
		add("ok.nonminimal-primary-array-head", q, cs)

		// payload rules
		add("payload.missing", p, cs[:3])
		add("payload.not-last", p, []rawCanon{cs[0], cs[3], cs[1]})
		c2 := append([]rawCanon(nil), cs...)
		c2[3].Num = 9
		add("payload.number-not-1", p, c2)
		add("blocks.none", p, nil)
		c2 = append([]rawCanon(nil), cs...)
		c2 = append(c2[:3], rawCanon{Type: 1, Num: 8, CRCType: crc, Data: []byte("x"), HasCRC: crc != 0, ArrW: -1}, cs[3])
		add("payload.twice", p, c2)
		// duplicate numbers / types
		c2 = append([]rawCanon(nil), cs...)
		c2[1].Num = 2
		add("blocks.duplicate-number", p, c2)
		c2 = append([]rawCanon(nil), cs...)
		c2[1].Type = 10
		c2[1].Data = cs[0].Data
		add("blocks.duplicate-type", p, c2)
		c2 = append([]rawCanon(nil), cs...)
		c2[1].Type = 200
		c2[2].Type = 200
		add("blocks.duplicate-unknown-type", p, c2)
		c2 = append([]rawCanon(nil), cs...)
		c2[1].Num = 1
		add("blocks.number-1-on-non-payload", p, c2)

		// endpoint IDs
		for _, e := range []struct {
			n string
			b []byte
		}{
			{"eid.ipn-node-0", rawIpn(0, 1)}, {"eid.ipn-service-0", rawIpn(1, 0)},
			{"eid.dtn-empty-node", cat(rawArr(2), rawUint(1), rawTstr("///x"))},
			{"eid.dtn-text-none", cat(rawArr(2), rawUint(1), rawTstr("none"))},
			{"eid.dtn-no-slash", cat(rawArr(2), rawUint(1), rawTstr("//node"))},
			{"eid.dtn-bad-node-char", cat(rawArr(2), rawUint(1), rawTstr("//no de/x"))},
			{"eid.dtn-newline-demux", cat(rawArr(2), rawUint(1), rawTstr("//node/a\nb"))},
			{"eid.scheme-3", cat(rawArr(2), rawUint(3), rawUint(0))},
			{"eid.array-3", cat(rawArr(3), rawUint(1), rawUint(0), rawUint(0))},
			{"eid.dtn-bytes-ssp", cat(rawArr(2), rawUint(1), rawBstr([]byte("//n/")))},
			{"eid.ipn-array-3", cat(rawArr(2), rawUint(2), rawArr(3), rawUint(1), rawUint(1), rawUint(1))},
		} {
			q = p
			q.Dst = e.b
			add(e.n+".dst", q, cs)
			q = p
			q.Src = e.b
			add(e.n+".src", q, cs)
			q = p
			q.Rpt = e.b
			add(e.n+".rpt", q, cs)
			c2 = append([]rawCanon(nil), cs...)
			c2[2].Data = e.b
			add(e.n+".prevnode", p, c2)
		}
		q = p
		q.Dst = cat(rawArr(2), rawUint(1), rawUint(7))
		add("ok.eid.dtn-none-any-uint", q, cs)

		// flags
		q = p
		q.Flags = 1 | 4
		q.HasFrag = true
		add("flags.fragment+must-not-fragment", q, cs)
		for _, f := range []uint64{0x4000, 0x10000, 0x20000, 0x40000} {
			q = p
			q.Flags = 2 | f
			add("flags.admin+status-request", q, cs)
			q = p
			q.Src = rawDtnNone()
			q.Flags = 4 | f
			add("flags.anonymous+status-request", q, cs)
		}
		q = p
		q.Src = rawDtnNone()
		q.Flags = 0
		add("flags.anonymous-without-must-not-fragment", q, cs)
		q = p
		q.Src = rawDtnNone()
		q.Flags = 4
		add("ok.anonymous", q, cs)
		q = p
		q.Flags = 2
		add("ok.admin", q, cs)
		c2 = append([]rawCanon(nil), cs...)
		c2[1].Flags = 2
		q = p
		q.Flags = 2
		add("flags.admin+report-block", q, c2)
		q = p
		q.Src = rawDtnNone()
		q.Flags = 4
		add("flags.anonymous+report-block", q, c2)
		add("ok.report-block", p, c2)

		// time / age / lifetime / hop count
		q = p
		q.TS = 0
		add("ok.zero-time-with-age", q, cs)
		add("time.zero-without-age", q, []rawCanon{cs[0], cs[2], cs[3]})
		q = p
		q.TS = 0
		q.Life = 99
		add("lifetime.age-above-lifetime", q, cs)
		q = p
		q.TS = 0
		q.Life = 100
		add("ok.age-equals-lifetime", q, cs)
		q = p
		q.TS = now - 7200000
		add("lifetime.expired", q, cs)
		q = p
		q.TS = now + 3600000
		add("ok.creation-in-future", q, cs)
		c2 = append([]rawCanon(nil), cs...)
		c2[0].Data = cat(rawArr(2), rawUint(3), rawUint(4))
		add("hop.count-above-limit", p, c2)
		c2 = append([]rawCanon(nil), cs...)
		c2[0].Data = cat(rawArr(2), rawUint(3), rawUint(3))
		add("ok.hop.count-equals-limit", p, c2)
		c2 = append([]rawCanon(nil), cs...)
		c2[0].Data = cat(rawArr(2), rawUint(256), rawUint(3))
		add("hop.limit-256", p, c2)

		// layouts
		q = p
		q.HasFrag = true
		q.Off, q.Total = 3, 9
		add("ok.fragment-fields-without-flag", q, cs)
		q = p
		q.Flags = 1
		add("ok.fragment-flag-without-fields", q, cs)
		q = p
		q.Flags = 1
		q.HasFrag = true
		q.Off, q.Total = 3, 9
		add("ok.fragment", q, cs)
		q = p
		q.N = 7
		add("layout.primary-7", q, cs)
		q = p
		q.N = 12
		add("layout.primary-12", q, cs)
		c2 = append([]rawCanon(nil), cs...)
		c2[1].N = 4
		add("layout.canonical-4", p, c2)
		c2 = append([]rawCanon(nil), cs...)
		c2[1].N = 7
		add("layout.canonical-7", p, c2)
		c2 = append([]rawCanon(nil), cs...)
		c2[1].Data = cat(rawUint(100), []byte{1, 2, 3})
		add("ok.trailing-bytes-in-block", p, c2)

		// CRC types
		for _, t := range []uint64{3, 4, 255} {
			q = p
			q.CRCType = t
			q.HasCRC = false
			add("crc.unknown-type-primary-no-field", q, cs)
			q = p
			q.CRCType = t
			q.HasCRC = true
			q.CRCOverride = []byte{}
			add("crc.unknown-type-primary-with-field", q, cs)
			c2 = append([]rawCanon(nil), cs...)
			c2[1].CRCType = t
			c2[1].HasCRC = false
			add("crc.unknown-type-block-no-field", p, c2)
			c2 = append([]rawCanon(nil), cs...)
			c2[1].CRCType = t
			c2[1].HasCRC = true
			c2[1].CRCOverride = []byte{}
			add("crc.unknown-type-block-with-field", p, c2)
		}
		if crc != 0 {
			q = p
			q.HasCRC = false
			add("crc.type-without-field-primary", q, cs)
			c2 = append([]rawCanon(nil), cs...)
			c2[1].HasCRC = false
			add("crc.type-without-field-block", p, c2)
			q = p
			q.CRCOverride = make([]byte, int(crc)*2)
			add("crc.wrong-value-primary", q, cs)
			c2 = append([]rawCanon(nil), cs...)
			c2[3].CRCOverride = make([]byte, int(crc)*2)
			add("crc.wrong-value-block", p, c2)
			c2 = append([]rawCanon(nil), cs...)
			c2[1].ArrW = 1
			add("ok.crc.nonminimal-block-array-head.crc-over-received-bytes", p, c2)
			c2 = append([]rawCanon(nil), cs...)
			c2[1].ArrW = 1
			c2[1].CRCOverMinimalHead = true
			add("crc.nonminimal-block-array-head.crc-over-minimal-head", p, c2)
			c2 = append([]rawCanon(nil), cs...)
			c2[1].CRCFieldW = 1
			add("ok.crc.nonminimal-crc-field-head.crc-over-received-bytes", p, c2)
			c2 = append([]rawCanon(nil), cs...)
			c2[1].CRCFieldW = 2
			c2[1].CRCOverMinimalField = true
			add("crc.nonminimal-crc-field-head.crc-over-minimal-form", p, c2)
			q = p
			q.CRCFieldW = 1
			add("ok.crc.nonminimal-crc-field-head.primary", q, cs)
			q = p
			q.CRCFieldW = 1
			q.CRCOverMinimalField = true
			add("crc.nonminimal-crc-field-head.primary.crc-over-minimal-form", q, cs)
			c2 = append([]rawCanon(nil), cs...)
			c2[3].CRCOverride = make([]byte, int(crc)*2+1)
			add("crc.value-too-long", p, c2)
			c2 = append([]rawCanon(nil), cs...)
			c2[3].CRCOverride = make([]byte, int(crc)*2-1)
			add("crc.value-too-short", p, c2)
		} else {
			q = p
			q.HasCRC = true
			q.CRCOverride = []byte{}
			add("crc.type-0-with-empty-field-primary", q, cs)
			c2 = append([]rawCanon(nil), cs...)
			c2[1].HasCRC = true
			c2[1].CRCOverride = []byte{}
			add("crc.type-0-with-empty-field-block", p, c2)
		}

		// registered routing blocks with nested invalid endpoint IDs
		bad := rawIpn(0, 1)
		c2 = append([]rawCanon(nil), cs...)
		c2 = append([]rawCanon{{Type: 193, Num: 7, CRCType: crc, HasCRC: crc != 0, ArrW: -1,
			Data: cat(rawArr(3), bad, rawUint(5), rawHead(0xA0, 0, -1))}}, c2...)
		add("nested.dtlsr-id-invalid", p, c2)
		c2 = append([]rawCanon(nil), cs...)
		c2 = append([]rawCanon{{Type: 193, Num: 7, CRCType: crc, HasCRC: crc != 0, ArrW: -1,
			Data: cat(rawArr(3), rawDtn("n", ""), rawUint(5), rawHead(0xA0, 1, -1), bad, rawUint(9))}}, c2...)
		add("nested.dtlsr-peer-invalid", p, c2)
		c2 = append([]rawCanon(nil), cs...)
		c2 = append([]rawCanon{{Type: 194, Num: 7, CRCType: crc, HasCRC: crc != 0, ArrW: -1,
			Data: cat(rawHead(0xA0, 1, -1), bad, rawHead(0xE0, 0x3FE8000000000000, -1))}}, c2...)
		add("nested.prophet-key-invalid", p, c2)
		c2 = append([]rawCanon(nil), cs...)
		c2 = append([]rawCanon{{Type: 194, Num: 7, CRCType: crc, HasCRC: crc != 0, ArrW: -1,
			Data: cat(rawHead(0xA0, 2, -1), rawDtn("a", ""), rawHead(0xE0, 1, -1), rawDtn("a", ""), rawHead(0xE0, 2, -1))}}, c2...)
		add("ok.prophet-duplicate-key", p, c2)
		c2 = append([]rawCanon(nil), cs...)
		c2 = append([]rawCanon{{Type: 195, Num: 7, CRCType: crc, HasCRC: crc != 0, ArrW: -1,
			Data: cat(rawArr(2), rawBstr(make([]byte, 31)), rawBstr(make([]byte, 64)))}}, c2...)
		add("signature.key-length", p, c2)
		c2 = append([]rawCanon(nil), cs...)
		c2 = append([]rawCanon{{Type: 195, Num: 7, CRCType: crc, HasCRC: crc != 0, ArrW: -1,
			Data: cat(rawArr(2), rawBstr(make([]byte, 32)), rawBstr(make([]byte, 64)))}}, c2...)
		add("ok.signature", p, c2)
	}
	return out
}

func genC02rules(o *Out, r *Rng, thorough bool) {
	registerAllBlocks()
	now := dtnNowMs()
	for _, rc := range ruleCases(now) {
		n0 := dtnNowMs()
		obs, _, _ := parseObs(rc.bs)
		o.Case("rule", U(n0), X(rc.bs), obs, Sym(rc.name))
	}
	// pairs of violations: apply byte-level splice of two single-rule encodings is not meaningful;
	// instead combine at the struct level for a sample of rule pairs (thorough)
	_ = bpv7.CRCNo
}

func init() { register("C02rules", genC02rules) }
