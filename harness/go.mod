module verifharness

go 1.13

require (
	github.com/dtn7/dtn7-go v0.0.0
	github.com/sirupsen/logrus v1.7.0
)

replace github.com/dtn7/dtn7-go => /repo
