package main

// C16clamgrext - two scenario classes the generators of clamgr.go do not have.
//
// kind "seqc"    - the histories of kind "seq" with a SECOND per-step oracle: the outcome of the
//                  adapter's Close() (nil / an error), exactly like the Start outcome oracle.  An
//                  adapter whose Close() reports an error has been stopped all the same (the
//                  property speaks of "stopped"; convergenceElem.handler acknowledges the stop
//                  whatever Close() returned), so the reference state machine ignores the outcome:
//                  the step returns (10 s guard), the adapter is not listed afterwards, a later
//                  Close() of the manager returns and does not stop it a second time.
//                  (a) bounded-exhaustive for one adapter: every sequence of clamgr.go's alphabet,
//                      the Start outcome branched where Start was called and the Close outcome
//                      branched where Close was called,
//                  (b) random with 2..4 adapters sharing addresses / endpoint ids.
// kind "tickerc" - kind "ticker" (REAL 1 ms retry ticker) with adapters whose Close() always fails.
// kind "traffic" - the REAL retry timer (20..50 ms) under status traffic: adapter 0 is started and
//                  emits status messages which the manager only forwards (PeerAppeared /
//                  ReceivedBundle) steadily at 8..20 messages per retry interval; adapter 1 is
//                  registered while its Start fails (scripted outcome list: F x fail-retry, then
//                  ok / fail-no-retry).  The property says "retried at the retry interval":
//                  the F+1 Start attempts the script asks for (or the end of the budget of a
//                  non-permanent adapter) must have happened within N = 2(F+1)+10 retry intervals
//                  (and not less than 3 s: a loaded machine must not alarm), i.e. at least about
//                  every second interval brings an attempt.  Observed in the tick-stable state
//                  (adapter 1 active or forgotten) like kind "ticker"; then Close().
//
// A step / case that hangs costs its full guard time; after cmxMaxHung of them the generator stops
// (the cases written so far carry the verdict).

import (
	"time"

	"github.com/dtn7/dtn7-go/pkg/cla"
)

const cmxMaxHung = 3
const cmxMaxLate = 3

var cmxHung, cmxLate int

func cmxStop() bool { return cmxHung >= cmxMaxHung }

func cmxCOracleS(co []bool) S {
	var l []S
	for _, x := range co {
		if x {
			l = append(l, Sym("err"))
		} else {
			l = append(l, Sym("nil"))
		}
	}
	return LL(l)
}

// cmxRunSeq is cmRunSeq with the Close oracle in the step records; also tells whether the last
// step called Start / Close at all (then the respective oracle mattered).
func cmxRunSeq(qttl int, ads []cmAdCfg, steps []cmStep) (out []S, started, closedAny bool, last string) {
	w := cmNewWorld(qttl, ads, time.Hour)
	defer w.cleanup()
	for _, s := range steps {
		st := w.exec(s)
		w.log.mu.Lock()
		closedAny = false
		for _, c := range w.log.calls {
			if c.kind == cmClose {
				closedAny = true
			}
		}
		w.log.mu.Unlock()
		obs, starts := w.observe(st)
		started = starts > 0
		out = append(out, L(L(Sym(cmEvSym[s.ev]), I(s.id)), cmOracleS(s.oracle), cmxCOracleS(s.coracle), obs))
		if st != "ok" {
			if st == "timeout" {
				cmxHung++
			}
			return out, started, closedAny, st
		}
	}
	return out, started, closedAny, "ok"
}

func cmxExhaustive(o *Out, qttl int, ad cmAdCfg, maxLen int) {
	ads := []cmAdCfg{ad}
	var dfs func(prefix []cmStep, anyErr bool)
	dfs = func(prefix []cmStep, anyErr bool) {
		for ev := 0; ev < 6; ev++ {
			for oc := 0; oc < 3; oc++ {
				started := false
				for cc := 0; cc < 2; cc++ {
					if cmxStop() {
						return
					}
					steps := append(append([]cmStep{}, prefix...), cmStep{ev: ev, id: 0, oracle: []int{oc}, coracle: []bool{cc == 1}})
					obs, st, cl, last := cmxRunSeq(qttl, ads, steps)
					started = st
					errHere := anyErr || (cc == 1 && cl)
					if last != "ok" || len(steps) >= maxLen {
						// histories in which no Close() failed are those of kind "seq"
						if errHere || last == "timeout" {
							o.Case("seqc", cmCfgS(qttl, ads), LL(obs))
						}
					} else {
						dfs(steps, errHere)
					}
					if !cl {
						break // Close was not called: the other outcome gives the same run
					}
				}
				if !started {
					break
				}
			}
		}
	}
	dfs(nil, false)
}

func cmxRandom(o *Out, r *Rng, n int) {
	for i := 0; i < n && !cmxStop(); i++ {
		nad := 2 + r.Intn(3)
		qttl := r.Intn(4)
		var ads []cmAdCfg
		for j := 0; j < nad; j++ {
			ads = append(ads, cmAdCfg{addr: r.Intn(3), perm: r.Intn(2) == 0, role: r.Intn(3), eid: 1 + r.Intn(3), peer: 1 + r.Intn(3)})
		}
		ln := 4 + r.Intn(12)
		pErr := []int{25, 50, 100}[r.Intn(3)]
		var steps []cmStep
		for k := 0; k < ln; k++ {
			var ev int
			switch x := r.Intn(100); {
			case x < 30:
				ev = 0
			case x < 45:
				ev = 1
			case x < 57:
				ev = 2
			case x < 75:
				ev = 3
			case x < 94:
				ev = 4
			default:
				ev = 5
			}
			orc := make([]int, nad)
			corc := make([]bool, nad)
			for j := range orc {
				switch x := r.Intn(100); {
				case x < 50:
					orc[j] = cmOk
				case x < 88:
					orc[j] = cmFailRetry
				default:
					orc[j] = cmFailNo
				}
				corc[j] = r.Intn(100) < pErr
			}
			id := r.Intn(nad)
			if ev == 3 || ev == 5 {
				id = 0
			}
			steps = append(steps, cmStep{ev: ev, id: id, oracle: orc, coracle: corc})
		}
		obs, _, _, _ := cmxRunSeq(qttl, ads, steps)
		o.Case("seqc", cmCfgS(qttl, ads), LL(obs))
	}
}

// ---- real ticker, Close() of the adapter always fails ----

func cmxTickerCase(o *Out, qttl int, ad cmAdCfg, script []int, withPg bool) {
	ads := []cmAdCfg{ad}
	w := cmNewWorld(qttl, ads, time.Millisecond)
	defer w.cleanup()
	w.convs[0].useScript = true
	w.convs[0].script = append([]int{}, script...)
	w.setCloseOracle([]bool{true})
	var out []S
	phase := func(name string, st string) bool {
		if st == "timeout" {
			cmxHung++
		}
		obs, _ := w.observe(st)
		out = append(out, L(Sym(name), obs))
		return st == "ok"
	}
	both := func(st string) string {
		if st != "ok" {
			return st
		}
		return w.settle()
	}
	ok := phase("reg", both(cmGuarded(func() { w.mgr.Register(w.ifaces[0]) })))
	if ok && withPg {
		ok = phase("pg", both(w.peerGone(0)))
	}
	if ok {
		phase("close", w.closeMgr())
	}
	o.Case("tickerc", cmCfgS(qttl, ads), cmOracleS(script), LL(out))
}

func cmxTicker(o *Out, r *Rng, n int) {
	for i := 0; i < n && !cmxStop(); i++ {
		ad := cmAdCfg{addr: 0, perm: r.Intn(2) == 0, role: r.Intn(3), eid: 1, peer: 2}
		ln := r.Intn(6)
		var script []int
		for k := 0; k < ln; k++ {
			switch x := r.Intn(100); {
			case x < 35:
				script = append(script, cmOk)
			case x < 90:
				script = append(script, cmFailRetry)
			default:
				script = append(script, cmFailNo)
			}
		}
		cmxTickerCase(o, r.Intn(4), ad, script, r.Intn(4) > 0)
	}
}

// ---- real retry timer under status traffic ----

const cmxMinWait = 3 * time.Second

// cmxSettle waits until adapter 1 is active or forgotten (registry stable under further retry
// passes), for at most n retry intervals as counted by a ticker of the harness's own (which loses
// ticks just as the manager's does when the process is not scheduled) and at least cmxMinWait.
func (w *cmWorld) cmxSettle(retry time.Duration, n int) string {
	ref := time.NewTicker(retry)
	defer ref.Stop()
	poll := time.NewTicker(retry / 4)
	defer poll.Stop()
	t0 := time.Now()
	seen := 0
	for {
		select {
		case <-ref.C:
			seen++
		case <-poll.C:
		}
		stable := true
		for _, e := range w.mgr.VerifDump() {
			if e.Ttl >= 0 {
				stable = false
			}
		}
		if stable {
			return "ok"
		}
		if seen >= n && time.Since(t0) >= cmxMinWait {
			return "late" // nothing hangs: the registry can still be read and the manager closed
		}
	}
}

func cmxTrafficCase(o *Out, r *Rng) {
	retryMs := []int{20, 30, 50}[r.Intn(3)]
	retry := time.Duration(retryMs) * time.Millisecond
	perInterval := 8 + r.Intn(13)
	gap := retry / time.Duration(perInterval)
	qttl := 1 + r.Intn(5)
	f := 1 + r.Intn(5)
	script := make([]int, 0, f+1)
	for k := 0; k < f; k++ {
		script = append(script, cmFailRetry)
	}
	if r.Intn(5) == 0 {
		script = append(script, cmFailNo)
	} else {
		script = append(script, cmOk)
	}
	ads := []cmAdCfg{
		{addr: 0, perm: r.Intn(2) == 0, role: r.Intn(3), eid: 1, peer: 2},
		{addr: 1, perm: r.Intn(3) > 0, role: r.Intn(3), eid: 3, peer: 4},
	}
	bundleMsgs := r.Intn(2) == 0
	n := 2*(f+1) + 10

	w := cmNewWorld(qttl, ads, retry)
	defer w.cleanup()
	w.convs[1].useScript = true
	w.convs[1].script = append([]int{}, script...)
	var out []S
	phase := func(name string, st string) bool {
		if st == "timeout" {
			cmxHung++
		}
		obs, _ := w.observe(st)
		out = append(out, L(Sym(name), obs))
		return st == "ok"
	}
	emit := func() {
		o.Case("traffic", cmCfgS(qttl, ads), cmOracleS(script), I(retryMs), I(perInterval), I(n), LL(out))
	}
	w.setOracle([]int{cmOk, cmOk})
	if !phase("setup", cmGuarded(func() { w.mgr.Register(w.ifaces[0]) })) {
		emit()
		return
	}
	// status traffic of adapter 0: one goroutine, a message every retry/perInterval, until told to stop
	stop := make(chan struct{})
	done := make(chan struct{})
	go func() {
		defer close(done)
		c := w.convs[0]
		for i := 0; ; i++ {
			var msg cla.ConvergenceStatus
			if bundleMsgs && i%2 == 0 {
				msg = cla.ConvergenceStatus{Sender: w.ifaces[0], MessageType: cla.ReceivedBundle,
					Message: cla.ConvergenceReceivedBundle{Endpoint: c.eid}}
			} else {
				msg = cla.ConvergenceStatus{Sender: w.ifaces[0], MessageType: cla.PeerAppeared, Message: c.peer}
			}
			select {
			case c.ch <- msg:
			case <-stop:
				return
			}
			select {
			case <-time.After(gap):
			case <-stop:
				return
			}
		}
	}()
	// a few messages first, so that the traffic is under way when adapter 1 arrives
	time.Sleep(retry / 2)
	st := cmGuarded(func() { w.mgr.Register(w.ifaces[1]) })
	if st == "ok" {
		st = w.cmxSettle(retry, n)
	}
	if st == "late" {
		cmxLate++
	}
	ok := phase("run", st)
	close(stop)
	<-done
	if ok {
		phase("close", w.closeMgr())
	}
	emit()
}

func genC16clamgrext(o *Out, r *Rng, thorough bool) {
	maxLen, nrand, ntick, ntraffic := 4, 1500, 30, 14
	if thorough {
		maxLen, nrand, ntick, ntraffic = 5, 40000, 600, 120
	}
	cmxHung, cmxLate = 0, 0
	for i := 0; i < ntraffic && cmxLate < cmxMaxLate && !cmxStop(); i++ {
		cmxTrafficCase(o, r)
	}
	for qttl := 0; qttl < 4; qttl++ {
		if !thorough && qttl%2 == 1 {
			continue // quick: budgets 0 and 2 (the random histories have all of 0..3)
		}
		for perm := 0; perm < 2; perm++ {
			cmxExhaustive(o, qttl, cmAdCfg{addr: 0, perm: perm == 1, role: (qttl + 2*perm) % 3, eid: 1, peer: 2}, maxLen)
		}
	}
	cmxRandom(o, r, nrand)
	cmxTicker(o, r, ntick)
}

func init() { register("C16clamgrext", genC16clamgrext) }
