// verifharness: runs the real dtn7-go implementation (built from /repo's working tree with
// -tags verif) on generated inputs / operation sequences and writes the inputs together with the
// projected observables as S-expressions, one case per line, for the model driver.
package main

import (
	"flag"
	"fmt"
	"io/ioutil"
	"os"
	"sort"

	log "github.com/sirupsen/logrus"
)

type genFunc func(o *Out, r *Rng, thorough bool)

var generators = map[string]genFunc{}

// ReplayFile: when set, generators that support it re-run the cases of this file.
var ReplayFile string

func register(name string, f genFunc) { generators[name] = f }

func main() {
	prop := flag.String("prop", "", "generator name (e.g. C17bbc)")
	seed := flag.Uint64("seed", 1, "PRNG seed")
	tier := flag.String("tier", "quick", "quick|thorough")
	out := flag.String("out", "", "output file (default stdout)")
	list := flag.Bool("list", false, "list generators")
	flag.StringVar(&ReplayFile, "replay", "", "file with case lines to re-run instead of generating (generators that support it)")
	flag.Parse()
	log.SetOutput(ioutil.Discard)
	if *list {
		var ns []string
		for n := range generators {
			ns = append(ns, n)
		}
		sort.Strings(ns)
		for _, n := range ns {
			fmt.Println(n)
		}
		return
	}
	g, ok := generators[*prop]
	if !ok {
		fmt.Fprintln(os.Stderr, "unknown generator", *prop)
		os.Exit(2)
	}
	w := os.Stdout
	if *out != "" {
		f, err := os.Create(*out)
		if err != nil {
			fmt.Fprintln(os.Stderr, err)
			os.Exit(2)
		}
		defer f.Close()
		w = f
	}
	o := NewOut(w)
	g(o, NewRng(*seed), *tier == "thorough")
	o.Flush()
}
