package main

// C17conc: every encoder of C17 called while another call of the same encoder is in progress.
//
// The round trips of C17tcpclmsg / C17auxcbor / C17bbc encode one value at a time.  A node encodes
// from many goroutines (one per session / peer / client), and a Write may hand the processor to one of
// them.  "Every value decodes from its own encoding to an equal value" does not depend on who else is
// encoding, so:
//
//   reent  the writer an encoder writes to encodes ANOTHER value of the same type (into a buffer of
//          its own) before or after it takes the bytes of each Write - deterministic overlap of two
//          calls.  Both outputs must be the encodings of their values.
//   conc   G goroutines, each encoding ITS OWN value (all values of a type differ) into a plain
//          buffer or a writer that yields the processor on every Write, and decoding its own encoding.
//          Every output must equal the encoding produced alone (which must be the model's), every
//          decoding the value.
//
//   dreent the same for the decoders: the reader a value is decoded from decodes ANOTHER value of the type
//          inside each Read.  Both must decode to their values.
//   state  the encoder after an encoding that failed (writer failing at every offset of the encoding),
//          the decoder after a decoding that failed (input cut at every offset): the next encoding /
//          decoding of the value must be the same as before.
//
//   kinds  treent tdreent tstate tconc  TCPCLv4 contact header and the seven message types
//          areent adreent astate aconc  CBOR auxiliary formats (announcement lists are encoded to and
//                                       decoded from a []byte: state and conc only)
//          bstate bconc                 BBC fragments (Bytes() / ParseFragment: no writer, no reader)
//
// The number of rounds is fixed; on an unchanged tree the cases are the same in every run.

import (
	"bytes"
	"io"
	"sync"
	"sync/atomic"

	"github.com/dtn7/dtn7-go/pkg/bpv7"
	"github.com/dtn7/dtn7-go/pkg/cla"
	"github.com/dtn7/dtn7-go/pkg/cla/bbc"
	tc "github.com/dtn7/dtn7-go/pkg/cla/tcpclv4"
	"github.com/dtn7/dtn7-go/pkg/discovery"
)

// reentWriter runs inner before or after it takes the bytes of a Write.
type reentWriter struct {
	buf    bytes.Buffer
	before bool
	inner  func()
}

func (w *reentWriter) Write(p []byte) (int, error) {
	if w.before {
		w.inner()
	}
	n, err := w.buf.Write(p)
	if !w.before {
		w.inner()
	}
	return n, err
}

// wrongOuts collects the distinct outputs that differ from the expected one (at most 4) with counts.
type wrongOuts struct {
	mu   sync.Mutex
	outs [][]byte
	cnt  []int
}

func (w *wrongOuts) add(out []byte) {
	w.mu.Lock()
	defer w.mu.Unlock()
	for i := range w.outs {
		if bytes.Equal(w.outs[i], out) {
			w.cnt[i]++
			return
		}
	}
	if len(w.outs) < 4 {
		w.outs = append(w.outs, append([]byte(nil), out...))
		w.cnt = append(w.cnt, 1)
	} else {
		w.cnt[3]++
	}
}

func (w *wrongOuts) S() S {
	var l []S
	for i := range w.outs {
		l = append(l, L(X(w.outs[i]), I(w.cnt[i])))
	}
	return LL(l)
}

// concItem: one value with its encoder / decoder, as the scenarios need it.
type concItem struct {
	ref    []byte
	encTo  func(w io.Writer) error // the real encoder on a writer (nil: encoder returns bytes, see enc)
	enc    func() ([]byte, error)
	dec    func(bs []byte) string // observation of decoding bs, as text
	decRef string                 // the observation made alone
	// decFrom decodes one value from a reader (nil: the decoder takes a complete datagram)
	decFrom func(rd io.Reader) S
}

func (it *concItem) encode(w io.Writer) (err error) {
	defer func() {
		if r := recover(); r != nil {
			err = io.ErrClosedPipe
		}
	}()
	if it.encTo != nil {
		return it.encTo(w)
	}
	bs, err := it.enc()
	if err == nil {
		_, err = w.Write(bs)
	}
	return err
}

type concStat struct {
	wrongs                     wrongOuts
	errs, panics, decDiff, run int64
}

// concRun: the goroutines of one type.
func concRun(items []*concItem, iters int) []*concStat {
	stats := make([]*concStat, len(items))
	var start, done sync.WaitGroup
	start.Add(1)
	for g := range items {
		stats[g] = &concStat{}
		done.Add(1)
		go func(it *concItem, st *concStat) {
			defer done.Done()
			var plain bytes.Buffer
			var yw yieldWriter
			start.Wait()
			for i := 0; i < iters; i++ {
				var w io.Writer
				var got *bytes.Buffer
				if i%2 == 0 {
					plain.Reset()
					w, got = &plain, &plain
				} else {
					yw.buf.Reset()
					w, got = &yw, &yw.buf
				}
				st.run++
				if err := it.encode(w); err == io.ErrClosedPipe {
					atomic.AddInt64(&st.panics, 1)
				} else if err != nil {
					atomic.AddInt64(&st.errs, 1)
				} else if !bytes.Equal(got.Bytes(), it.ref) {
					st.wrongs.add(got.Bytes())
				}
				if i%4 == 0 && it.dec(it.ref) != it.decRef {
					atomic.AddInt64(&st.decDiff, 1)
				}
			}
		}(items[g], stats[g])
	}
	start.Done()
	done.Wait()
	return stats
}

func (st *concStat) fields() []S {
	return []S{I64(st.run), st.wrongs.S(), I64(st.errs), I64(st.panics), I64(st.decDiff)}
}

// reentRun encodes item v into a writer that encodes item u inside each Write.
// result: (ok xout) | (err), the distinct outputs of the inner encoder
func reentRun(v, u *concItem, before bool) (outer S, inner S) {
	var inners wrongOuts
	w := &reentWriter{before: before}
	w.inner = func() {
		var b bytes.Buffer
		if err := u.encode(&b); err != nil {
			inners.add([]byte("error"))
			return
		}
		inners.add(b.Bytes())
	}
	if err := v.encode(w); err != nil {
		outer = L(Sym("err"))
	} else {
		outer = L(Sym("ok"), X(w.buf.Bytes()))
	}
	var l []S
	for _, o := range inners.outs {
		l = append(l, X(o))
	}
	return outer, LL(l)
}

// reentReader runs inner before or after it delivers the bytes of a Read.
type reentReader struct {
	under  io.Reader
	before bool
	inner  func()
}

func (r *reentReader) Read(p []byte) (int, error) {
	if r.before {
		r.inner()
	}
	n, err := r.under.Read(p)
	if !r.before {
		r.inner()
	}
	return n, err
}

// reentDecRun decodes v's encoding from a reader that decodes u's encoding inside each Read.
func reentDecRun(v, u *concItem, before bool) (outer S, inner S) {
	var seen []string
	var l []S
	rd := &reentReader{under: bytes.NewReader(v.ref), before: before}
	rd.inner = func() {
		o := u.decFrom(bytes.NewReader(u.ref))
		t := SString(o)
		for _, x := range seen {
			if x == t {
				return
			}
		}
		if len(seen) < 4 {
			seen = append(seen, t)
			l = append(l, o)
		}
	}
	return v.decFrom(rd), LL(l)
}

// stateRun: the encoder after an encoding that failed (writer failing at offset lim, every offset up to
// 400 per value), the decoder after a decoding that failed (input cut at lim).
// fields: failures tried, ((lim xout)...) encodings that differ afterwards, decodings that differ afterwards
func stateRun(it *concItem, r *Rng) []S {
	step := 1 + len(it.ref)/400
	var wrongs []S
	n, decWrong := 0, 0
	for lim := 0; lim < len(it.ref); lim += step {
		n++
		lw := &limitWriter{limit: lim, partial: r.Bool()}
		_ = it.encode(lw)
		var b bytes.Buffer
		if err := it.encode(&b); err != nil {
			if len(wrongs) < 4 {
				wrongs = append(wrongs, L(I(lim), L(Sym("err"))))
			}
		} else if !bytes.Equal(b.Bytes(), it.ref) && len(wrongs) < 4 {
			wrongs = append(wrongs, L(I(lim), L(Sym("ok"), X(b.Bytes()))))
		}
		_ = it.dec(it.ref[:lim])
		if it.dec(it.ref) != it.decRef {
			decWrong++
		}
	}
	return []S{I(n), LL(wrongs), I(decWrong)}
}

// ---------------------------------------------------------------------------------------------
// TCPCLv4

func tmsgConcValue(r *Rng, kind string, g int) tmsgV {
	ug := uint64(g)
	switch kind {
	case "contact":
		return tmsgV{kind: kind, a: ug + 1}
	case "sess_init":
		return tmsgV{kind: kind, a: 10 + ug, b: 1<<20 + ug, c: 1<<30 + ug, data: []byte("dtn://node-" + string(rune('a'+g)) + "/" + string(r.Bytes(r.Intn(20))))}
	case "sess_term":
		return tmsgV{kind: kind, a: ug, b: ug % 6}
	case "xfer_segment":
		return tmsgV{kind: kind, a: ug % 4, b: 100 + ug, data: append([]byte{byte(g)}, r.Bytes(r.Intn(300))...)}
	case "xfer_ack":
		return tmsgV{kind: kind, a: ug % 4, b: 100 + ug, c: 1000 * (ug + 1)}
	case "xfer_refuse":
		return tmsgV{kind: kind, a: ug % 7, b: 100 + ug}
	case "msg_reject":
		return tmsgV{kind: kind, a: 1 + ug%3, b: ug + 1}
	}
	return tmsgV{kind: "keepalive"}
}

func tmsgConcItem(v tmsgV) *concItem {
	m := v.build()
	it := &concItem{
		encTo: func(w io.Writer) error { return m.Marshal(w) },
		dec:   func(bs []byte) string { return SString(tmsgRead(bs)) },
	}
	it.decFrom = func(rd io.Reader) (res S) {
		defer func() {
			if e := recover(); e != nil {
				res = L(Sym("panic"))
			}
		}()
		m, err := tc.VerifReadMessage(rd)
		if err != nil {
			return L(Sym("err"))
		}
		return L(Sym("ok"), tmsgObs(m))
	}
	it.ref, _ = tmsgMarshal(v.build())
	it.decRef = it.dec(it.ref)
	return it
}

func genTconc(o *Out, r *Rng, thorough bool) {
	G, iters := 8, 3000
	if thorough {
		G, iters = 12, 60000
	}
	for _, kind := range []string{"contact", "sess_init", "sess_term", "xfer_segment", "xfer_ack", "xfer_refuse", "keepalive", "msg_reject"} {
		vals := make([]tmsgV, G)
		items := make([]*concItem, G)
		for g := range vals {
			vals[g] = tmsgConcValue(r, kind, g)
			items[g] = tmsgConcItem(vals[g])
		}
		for g := range vals {
			h := (g + 1 + r.Intn(G-1)) % G
			for _, before := range []bool{true, false} {
				outer, inner := reentRun(items[g], items[h], before)
				o.Case("treent", vals[g].S(), vals[h].S(), B(before), X(items[g].ref), outer, inner)
				outer, inner = reentDecRun(items[g], items[h], before)
				o.Case("tdreent", vals[g].S(), vals[h].S(), B(before), outer, inner)
			}
			o.Case("tstate", append([]S{vals[g].S(), X(items[g].ref)}, stateRun(items[g], r)...)...)
		}
		stats := concRun(items, iters)
		for g := range vals {
			o.Case("tconc", append([]S{vals[g].S(), X(items[g].ref), I(G)}, stats[g].fields()...)...)
		}
	}
}

// ---------------------------------------------------------------------------------------------
// CBOR auxiliary formats

// axConcValue: a well-formed value of the kind; g makes the values of one scenario differ.
func axConcValue(r *Rng, kind string, g int) interface{} {
	ug := uint64(g)
	eid := func() bpv7.EndpointID {
		if r.Bool() {
			return axIpn(100+ug, 1+uint64(r.Intn(1000)))
		}
		return axDtn("node"+string(rune('a'+g)), axStr(r, r.Intn(12), "abc/~."))
	}
	bid := func(frag bool) bpv7.BundleID {
		b := bpv7.BundleID{SourceNode: eid(), Timestamp: bpv7.NewCreationTimestamp(bpv7.DtnTime(r.Pick(axB)), 10*ug+uint64(r.Intn(10))), IsFragment: frag}
		if frag {
			b.FragmentOffset, b.TotalDataLength = r.Pick(axB), r.Pick(axB)
		}
		return b
	}
	sr := func(frag bool) *bpv7.StatusReport {
		s := &bpv7.StatusReport{ReportReason: bpv7.StatusReportReason(ug % 12), RefBundle: bid(frag), StatusInformation: []bpv7.BundleStatusItem{}}
		for i := 0; i < 4; i++ {
			if (g>>uint(i))&1 == 1 {
				s.StatusInformation = append(s.StatusInformation, bpv7.NewTimeReportingBundleStatusItem(bpv7.DtnTime(1000*ug+uint64(i)+1)))
			} else {
				s.StatusInformation = append(s.StatusInformation, bpv7.NewBundleStatusItem(r.Bool()))
			}
		}
		return s
	}
	ann := func() discovery.Announcement {
		return discovery.Announcement{Type: cla.CLAType(axClaTypes[r.Intn(4)]), Endpoint: eid(), Port: uint(4000 + g)}
	}
	switch kind {
	case "cts":
		return bpv7.NewCreationTimestamp(bpv7.DtnTime(r.Pick(axB)), 10*ug+uint64(r.Intn(10)))
	case "eid":
		return eid()
	case "bid0":
		return bid(false)
	case "bid1":
		return bid(true)
	case "sitem":
		return bpv7.NewTimeReportingBundleStatusItem(bpv7.DtnTime(1000*ug + 1 + uint64(r.Intn(900))))
	case "sreport":
		return sr(g%2 == 0)
	case "admrec":
		return axAdm{sr(g%2 == 1)}
	case "ann":
		return ann()
	case "anns":
		l := axAnns{}
		for i, n := 0, 1+r.Intn(3); i < n; i++ {
			l = append(l, ann())
		}
		return l
	}
	// wam0..wam4
	code := uint64(kind[3] - '0')
	w := axWam(r, code, 1+r.Intn(30))
	if code != 2 {
		w.Text = string(rune('a'+g)) + w.Text
	}
	return w
}

func axConcItem(v interface{}) *concItem {
	kind := axKind(v)
	it := &concItem{dec: func(bs []byte) string { return SString(axDecObs(kind, bs)) }}
	if kind == "anns" {
		it.enc = func() ([]byte, error) { return discovery.MarshalAnnouncements([]discovery.Announcement(v.(axAnns))) }
	} else {
		it.encTo = func(w io.Writer) error { return axEncTo(v, w) }
		it.decFrom = func(rd io.Reader) S { return axStreamRead(kind, rd) }
	}
	ref, err := axEnc(v)
	if err != nil {
		return nil
	}
	it.ref = append([]byte(nil), ref...)
	it.decRef = it.dec(it.ref)
	return it
}

func genAconc(o *Out, r *Rng, thorough bool) {
	G, iters := 8, 1000
	if thorough {
		G, iters = 12, 20000
	}
	for _, kind := range []string{"cts", "eid", "bid0", "bid1", "sitem", "sreport", "admrec", "ann", "anns", "wam0", "wam1", "wam2", "wam3", "wam4"} {
		vals := make([]interface{}, G)
		items := make([]*concItem, G)
		for g := 0; g < G; {
			v := axConcValue(r, kind, g)
			if it := axConcItem(v); it != nil {
				vals[g], items[g] = v, it
				g++
			}
		}
		k := axKind(vals[0])
		if k != "anns" {
			for g := range vals {
				h := (g + 1 + r.Intn(G-1)) % G
				for _, before := range []bool{true, false} {
					outer, inner := reentRun(items[g], items[h], before)
					axCase(o, "areent", Sym(axKind(vals[g])), axDump(vals[g]), axDump(vals[h]), B(before), X(items[g].ref), outer, inner)
					outer, inner = reentDecRun(items[g], items[h], before)
					axCase(o, "adreent", Sym(axKind(vals[g])), axDump(vals[g]), axDump(vals[h]), B(before), outer, inner)
				}
			}
		}
		for g := range vals {
			axCase(o, "astate", append([]S{Sym(axKind(vals[g])), axDump(vals[g]), X(items[g].ref)}, stateRun(items[g], r)...)...)
		}
		stats := concRun(items, iters)
		for g := range vals {
			axCase(o, "aconc", append([]S{Sym(axKind(vals[g])), axDump(vals[g]), X(items[g].ref), I(G)}, stats[g].fields()...)...)
		}
	}
}

// ---------------------------------------------------------------------------------------------
// BBC fragments

func genBconc(o *Out, r *Rng, thorough bool) {
	G, iters := 8, 3000
	if thorough {
		G, iters = 12, 60000
	}
	type fv struct {
		tid, seq   byte
		st, en, fa bool
		pl         []byte
	}
	vals := make([]fv, G)
	items := make([]*concItem, G)
	for g := range vals {
		v := fv{byte(16*g + r.Intn(16)), byte(r.Intn(32)), r.Bool(), r.Bool(), r.Bool(), append([]byte{byte(g)}, r.Bytes(r.Intn(40))...)}
		vals[g] = v
		f := bbc.NewFragment(v.tid, v.seq, v.st, v.en, v.fa, v.pl)
		it := &concItem{
			enc: func() ([]byte, error) { return f.Bytes(), nil },
			dec: func(bs []byte) string {
				g, err := bbc.ParseFragment(bs)
				if err != nil {
					return "(err)"
				}
				return SString(L(Sym("ok"), fragS(g)))
			},
		}
		it.ref = append([]byte(nil), f.Bytes()...)
		it.decRef = it.dec(it.ref)
		items[g] = it
	}
	for g, v := range vals {
		o.Case("bstate", append([]S{U(uint64(v.tid)), I(int(v.seq)), B(v.st), B(v.en), B(v.fa), X(v.pl), X(items[g].ref)}, stateRun(items[g], r)...)...)
	}
	stats := concRun(items, iters)
	for g, v := range vals {
		o.Case("bconc", append([]S{U(uint64(v.tid)), I(int(v.seq)), B(v.st), B(v.en), B(v.fa), X(v.pl), X(items[g].ref), I(G)}, stats[g].fields()...)...)
	}
}

func genC17conc(o *Out, r *Rng, thorough bool) {
	registerAllBlocks()
	genTconc(o, r, thorough)
	genAconc(o, r, thorough)
	genBconc(o, r, thorough)
}

func init() { register("C17conc", genC17conc) }
