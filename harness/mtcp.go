package main

// C12 (MTCP part): a real MTCPClient writes on a connection handed in by the harness (every
// conn.Write is recorded and can be scripted to fail); the bytes go through an in-memory pipe to the
// real MTCPServer's per-connection loop.  Observables: return value of Send, PeerDisappeared
// statuses on the client's channel, the writes on the connection, the ReceivedBundle statuses of the
// server in order.  No sleeps: every wait is on a channel (with a generous timeout).

import (
	"bytes"
	"errors"
	"fmt"
	"net"
	"sync"
	"time"

	"github.com/dtn7/dtn7-go/pkg/bpv7"
	"github.com/dtn7/dtn7-go/pkg/cla"
	"github.com/dtn7/dtn7-go/pkg/cla/mtcp"
)

const mtcpWait = 60 * time.Second

var errScripted = errors.New("scripted write failure")

type recWrite struct {
	op   int // index of the harness operation during which the write happened, -1 = outside
	data []byte
	fail int // 0 = written, 1 = failure scripted by the harness, 2 = the transport itself failed
}

// recConn records every Write and forwards it to the underlying connection; the k-th write of the
// current operation can be scripted to fail after m bytes; afterwards every write fails.
type recConn struct {
	net.Conn
	mu        sync.Mutex
	log       []recWrite
	curOp     int
	opWrites  int
	failAt    int
	failM     int
	transient bool // the scripted failure hits one write only, the connection stays usable
	broken    bool
	outside   chan struct{} // signalled on a write outside any operation (the client's own ticker)
	stall     time.Duration // the link blocks this long before the second write of the current operation (once)
	stalled1  bool
}

func (c *recConn) Write(p []byte) (int, error) {
	c.mu.Lock()
	if c.curOp >= 0 && c.stall > 0 && c.opWrites == 1 && !c.stalled1 {
		// a congested link: the frame is held between its first and second write, the lock is not
		// held meanwhile, so whatever else writes on the connection now lands inside the frame
		c.stalled1 = true
		d := c.stall
		c.mu.Unlock()
		time.Sleep(d)
		c.mu.Lock()
	}
	defer c.mu.Unlock()
	if c.curOp < 0 {
		select {
		case c.outside <- struct{}{}:
		default:
		}
	}
	if c.broken {
		c.log = append(c.log, recWrite{c.curOp, nil, 1})
		return 0, errScripted
	}
	if c.curOp >= 0 && c.opWrites == c.failAt {
		m := c.failM
		if m > len(p) {
			m = len(p)
		}
		if m > 0 {
			if _, err := c.Conn.Write(p[:m]); err != nil {
				m = 0
			}
		}
		if c.transient {
			c.failAt = -1
		} else {
			c.broken = true
		}
		c.log = append(c.log, recWrite{c.curOp, append([]byte(nil), p[:m]...), 1})
		return m, errScripted
	}
	c.opWrites++
	n, err := c.Conn.Write(p)
	fl := 0
	if err != nil {
		fl = 2
	}
	c.log = append(c.log, recWrite{c.curOp, append([]byte(nil), p[:n]...), fl})
	return n, err
}

func (c *recConn) begin(op, failAt, failM int, transient bool) {
	c.mu.Lock()
	c.curOp, c.opWrites, c.failAt, c.failM, c.transient = op, 0, failAt, failM, transient
	c.mu.Unlock()
}
func (c *recConn) end() {
	c.mu.Lock()
	c.curOp, c.failAt = -1, -1
	c.mu.Unlock()
}

const sentinelType = cla.ConvergenceMessageType(250)

// statusReader consumes a status channel; a sentinel status is acknowledged on ack, so that the
// harness knows that everything sent before it has been taken into account.
type statusReader struct {
	mu          sync.Mutex
	bundles     [][]byte
	disappeared int
	appeared    int
	other       int
	ack         chan struct{}
	done        chan struct{}
	notifyGone  chan struct{}
}

func newStatusReader(ch chan cla.ConvergenceStatus) *statusReader {
	s := &statusReader{ack: make(chan struct{}, 16), done: make(chan struct{}), notifyGone: make(chan struct{}, 1024)}
	go func() {
		defer close(s.done)
		for st := range ch {
			s.mu.Lock()
			switch st.MessageType {
			case sentinelType:
				s.mu.Unlock()
				s.ack <- struct{}{}
				continue
			case cla.ReceivedBundle:
				s.bundles = append(s.bundles, BundleBytes(*st.Message.(cla.ConvergenceReceivedBundle).Bundle))
			case cla.PeerDisappeared:
				s.disappeared++
				select {
				case s.notifyGone <- struct{}{}:
				default:
				}
			case cla.PeerAppeared:
				s.appeared++
			default:
				s.other++
			}
			s.mu.Unlock()
		}
	}()
	return s
}

func (s *statusReader) sync(ch chan cla.ConvergenceStatus) bool {
	select {
	case ch <- cla.ConvergenceStatus{MessageType: sentinelType}:
	case <-time.After(mtcpWait):
		return false
	}
	select {
	case <-s.ack:
		return true
	case <-time.After(mtcpWait):
		return false
	}
}
func (s *statusReader) counts() (int, int) {
	s.mu.Lock()
	defer s.mu.Unlock()
	return s.disappeared, len(s.bundles)
}

type mtcpOp struct {
	kind      int // 4 = Send held by the link for 5.3 s between its first and second write (spans a tick of the client's own ticker), 0 = Send, 1 = keep-alive byte injected by the harness at this frame boundary, 2 = wait for the client's own tick, 3 = Send of an unserialisable variant of the bundle
	bndl      int // index into the bundle table
	failAt    int // -1 = no scripted failure
	failM     int
	transient bool
}

type mtcpBundle struct {
	b   bpv7.Bundle
	raw []byte
}

// bundle whose CBOR form has exactly (or as near as possible) the wanted length
func mtcpBundleOfSize(r *Rng, want int, variant int) mtcpBundle {
	mk := func(plen int) mtcpBundle {
		if plen < 0 {
			plen = 0
		}
		pl := make([]byte, plen)
		for i := range pl {
			pl[i] = byte(i*7 + variant)
		}
		b := MkBundle(BOpt{Src: "dtn://a/", Dst: fmt.Sprintf("dtn://b%d/", variant%10), TS: 2000000000000 + uint64(variant),
			Life: 60000, Payload: pl, CRC: []bpv7.CRCType{bpv7.CRCNo, bpv7.CRC16, bpv7.CRC32}[variant%3]})
		return mtcpBundle{b, BundleBytes(b)}
	}
	plen := want - 60
	best := mk(plen)
	for it := 0; it < 8 && len(best.raw) != want; it++ {
		plen += want - len(best.raw)
		if plen < 0 {
			break
		}
		c := mk(plen)
		if absInt(len(c.raw)-want) <= absInt(len(best.raw)-want) {
			best = c
		} else {
			break
		}
	}
	return best
}
func absInt(x int) int {
	if x < 0 {
		return -x
	}
	return x
}

// one connection: client ops, optional wait for real keep-alive ticks
type emitFn func(kind string, fields ...S)

func mtcpConn(o *Out, label string, bundles []mtcpBundle, ops []mtcpOp) {
	for attempt := 0; ; attempt++ {
		t0 := time.Now()
		if mtcpConnOnce(o.Case, label, bundles, ops, 0, false, attempt >= 3, t0) {
			return
		}
	}
}

func mtcpConnOnce(emit emitFn, label string, bundles []mtcpBundle, ops []mtcpOp, ticks int, tickAfterBreak bool, final bool, t0 time.Time) bool {
	return mtcpConnOnceC(nil, emit, label, bundles, ops, ticks, tickAfterBreak, final, t0)
}

// client == nil: a new client object; otherwise the given object is started again on a fresh
// connection (what cla.Manager.Restart does after PeerDisappeared: Close, then Start)
func mtcpConnOnceC(client *mtcp.MTCPClient, emit emitFn, label string, bundles []mtcpBundle, ops []mtcpOp, ticks int, tickAfterBreak bool, final bool, t0 time.Time) bool {
	cEnd, sEnd := net.Pipe()
	rc := &recConn{Conn: cEnd, curOp: -1, failAt: -1, outside: make(chan struct{}, 64)}
	serv := mtcp.NewMTCPServer("verif", bpv7.MustNewEndpointID("dtn://server/"), false)
	sr := newStatusReader(serv.Channel())
	servDone := make(chan struct{})
	go func() { serv.VerifHandleSender(sEnd); close(servDone) }()

	if client == nil {
		client = mtcp.NewMTCPClient("verif", bpv7.MustNewEndpointID("dtn://server/"), false)
	}
	client.VerifStartWithConn(rc)
	cr := newStatusReader(client.Channel())

	var obs []S
	timeouts := 0
	tickSeen := 0
	// a Send must not overlap a tick of the client's own 5 s ticker (its write would be attributed to
	// the Send): every Send has to end within 2 s after the last anchor (start / observed tick)
	anchor := t0
	stalled := false
	for i, op := range ops {
		switch op.kind {
		case 0, 4:
			d0, _ := cr.counts()
			rc.begin(i, op.failAt, op.failM, op.transient)
			if op.kind == 4 {
				rc.mu.Lock()
				rc.stall, rc.stalled1 = 5300*time.Millisecond, false
				rc.mu.Unlock()
			}
			err := client.Send(bundles[op.bndl].b)
			rc.end()
			if op.kind == 4 {
				rc.mu.Lock()
				rc.stall = 0
				rc.mu.Unlock()
				// the tick that fell into the held Send is written right behind it
				select {
				case <-rc.outside:
				case <-time.After(2 * time.Second):
				}
				anchor = time.Now()
			}
			if time.Since(anchor) > 2*time.Second {
				stalled = true
			}
			if !cr.sync(client.Channel()) {
				timeouts++
			}
			d1, _ := cr.counts()
			obs = append(obs, L(Sym("send"), I(op.bndl), I(op.failAt+1), I(op.failM), B(err != nil), I(d1-d0), B(op.transient)))
		case 3:
			// a bundle that cannot be serialised (unknown CRC type in its last block)
			bad := bundles[op.bndl].b
			bad.CanonicalBlocks = append([]bpv7.CanonicalBlock(nil), bad.CanonicalBlocks...)
			bad.CanonicalBlocks[len(bad.CanonicalBlocks)-1].CRCType = bpv7.CRCType(7)
			d0, _ := cr.counts()
			rc.begin(i, -1, 0, false)
			err := client.Send(bad)
			rc.end()
			if time.Since(anchor) > 2*time.Second {
				stalled = true
			}
			if !cr.sync(client.Channel()) {
				timeouts++
			}
			d1, _ := cr.counts()
			obs = append(obs, L(Sym("sendbad"), B(err != nil), I(d1-d0)))
		case 1:
			rc.begin(i, -1, 0, false)
			_, err := rc.Write([]byte{0x40})
			rc.end()
			obs = append(obs, L(Sym("ka"), B(err != nil)))
		case 2:
			// a real keep-alive tick of the client's own handler (5 s period)
			ticks++
			seen := false
			select {
			case <-rc.outside:
				tickSeen++
				seen = true
				anchor = time.Now()
			case <-time.After(mtcpWait):
			}
			obs = append(obs, L(Sym("tick"), B(seen)))
		}
	}
	gone := 0
	if tickAfterBreak {
		// break the connection, then the next keep-alive must report the peer as gone
	drainGone:
		for {
			select {
			case <-cr.notifyGone:
			default:
				break drainGone
			}
		}
		rc.mu.Lock()
		rc.broken = true
		rc.mu.Unlock()
		// the status is put on the channel right after the failed write
		select {
		case <-cr.notifyGone:
			gone = 1
		case <-time.After(mtcpWait):
		}
	}
	elapsed := time.Since(t0)
	_ = client.Close() // closes the connection: the server's loop ends with EOF
	_ = cEnd.Close()
	select {
	case <-servDone:
	case <-time.After(mtcpWait):
		timeouts++
	}
	if !sr.sync(serv.Channel()) {
		timeouts++
	} else {
		close(serv.Channel())
	}
	select {
	case <-cr.done:
	case <-time.After(mtcpWait):
		timeouts++
	}
	if !final && ticks > 0 && stalled {
		return false
	}
	if !final && ticks == 0 && elapsed > 4*time.Second {
		// the client's own 5 s ticker may have fired inside the scripted part: run it again
		return false
	}
	var bl, wl, rl []S
	// only the bundles this connection used, renumbered
	local := map[int]int{}
	for _, op := range ops {
		if op.kind == 0 || op.kind == 4 {
			if _, ok := local[op.bndl]; !ok {
				local[op.bndl] = len(bl)
				bl = append(bl, X(bundles[op.bndl].raw))
			}
		}
	}
	for i, op := range ops {
		if op.kind == 0 || op.kind == 4 {
			l := obs[i].(sList)
			l[1] = I(local[op.bndl])
		}
	}
	rc.mu.Lock()
	for _, w := range rc.log {
		wl = append(wl, L(I(w.op+1), X(w.data), I(w.fail)))
	}
	rc.mu.Unlock()
	sr.mu.Lock()
	for _, b := range sr.bundles {
		// a received bundle identical to one of the table is written as its index
		ref := S(X(b))
		for gi, li := range local {
			if bytes.Equal(bundles[gi].raw, b) {
				ref = I(li)
			}
		}
		rl = append(rl, ref)
	}
	srvOther := sr.other + sr.disappeared + sr.appeared
	sr.mu.Unlock()
	cr.mu.Lock()
	totalGone, appeared, cliOther := cr.disappeared, cr.appeared, cr.other+len(cr.bundles)
	cr.mu.Unlock()
	emit("conn", Sym(label), LL(bl), LL(obs), LL(wl), LL(rl),
		L(I(totalGone), I(appeared), I(cliOther), I(srvOther), I(timeouts), I(ticks), I(tickSeen), B(tickAfterBreak), I(gone)))
	return true
}

// real sockets: MTCPServer.Start / MTCPClient.Start (dial) over loopback TCP
func mtcpTCP(o *Out, bundles []mtcpBundle, seq []int) {
	l, err := net.Listen("tcp", "127.0.0.1:0")
	if err != nil {
		o.Case("tcp", Sym("unavailable"))
		return
	}
	addr := l.Addr().String()
	_ = l.Close()
	serv := mtcp.NewMTCPServer(addr, bpv7.MustNewEndpointID("dtn://server/"), false)
	if err, _ := serv.Start(); err != nil {
		o.Case("tcp", Sym("unavailable"))
		return
	}
	got := make(chan []byte, 1024)
	go func() {
		for st := range serv.Channel() {
			if st.MessageType == cla.ReceivedBundle {
				got <- BundleBytes(*st.Message.(cla.ConvergenceReceivedBundle).Bundle)
			}
		}
	}()
	client := mtcp.NewMTCPClient(addr, bpv7.MustNewEndpointID("dtn://server/"), false)
	if err, _ := client.Start(); err != nil {
		_ = serv.Close()
		o.Case("tcp", Sym("unavailable"))
		return
	}
	cr := newStatusReader(client.Channel())
	var sl, rl []S
	nerr := 0
	for _, bi := range seq {
		if err := client.Send(bundles[bi].b); err != nil {
			nerr++
		}
		sl = append(sl, X(bundles[bi].raw))
	}
	deadline := time.After(20 * time.Second)
recv:
	for range seq {
		select {
		case b := <-got:
			rl = append(rl, X(b))
		case <-deadline:
			break recv
		}
	}
	_ = client.Close()
	<-cr.done
	_ = serv.Close()
	o.Case("tcp", Sym("ok"), LL(sl), LL(rl), I(nerr), I(cr.disappeared))
}

func genC12mtcp(o *Out, r *Rng, thorough bool) {
	// the slow scenario with the client's real 5 s keep-alive ticker runs beside the scripted ones
	type heldCase struct {
		kind   string
		fields []S
	}
	var held []heldCase
	var heldMu sync.Mutex
	emitHeld := func(kind string, fields ...S) {
		heldMu.Lock()
		held = append(held, heldCase{kind, fields})
		heldMu.Unlock()
	}
	var wg sync.WaitGroup
	kaB := []mtcpBundle{mtcpBundleOfSize(r, 100, 1), mtcpBundleOfSize(r, 300, 2)}
	wg.Add(1)
	go func() {
		defer wg.Done()
		for attempt := 0; attempt < 3; attempt++ {
			if mtcpConnOnce(emitHeld,
				"real-keepalive", kaB, []mtcpOp{{0, 0, -1, 0, false}, {2, 0, -1, 0, false}, {0, 1, -1, 0, false}}, 0, true, attempt == 2, time.Now()) {
				break
			}
		}
	}()

	// a Send above the bufio buffer held by the link between two of its writes for longer than the keep-alive
	// period: the client's ticker fires meanwhile; nothing may land inside the frame, the stream stays aligned
	stB := []mtcpBundle{mtcpBundleOfSize(r, 100, 3), mtcpBundleOfSize(r, 9000, 4), mtcpBundleOfSize(r, 4200, 5)}
	wg.Add(1)
	go func() {
		defer wg.Done()
		mtcpConnOnce(emitHeld,
			"stalled-send", stB, []mtcpOp{{0, 0, -1, 0, false}, {4, 1, -1, 0, false}, {0, 2, -1, 0, false}, {0, 0, -1, 0, false}}, 0, false, true, time.Now())
	}()

	// bundle table: sizes around the CBOR head widths and the bufio buffer
	sizes := []int{70, 100, 254, 255, 256, 257, 1000, 4092, 4093, 4094, 4095, 4096, 4097, 8188, 8189, 8190, 8191, 65534, 65535, 65536, 65537}
	if thorough {
		sizes = append(sizes, 120000, 1<<20+5)
	}
	var tab []mtcpBundle
	for i, s := range sizes {
		tab = append(tab, mtcpBundleOfSize(r, s, i))
	}
	small := 7 // indices 0..6 are cheap to send often

	// every bundle once, alone and in one long sequence with keep-alives everywhere
	var all []mtcpOp
	for i := range tab {
		mtcpConn(o, "single", tab, []mtcpOp{{1, 0, -1, 0, false}, {0, i, -1, 0, false}, {1, 0, -1, 0, false}})
		all = append(all, mtcpOp{0, i, -1, 0, false})
		if i%2 == 0 {
			all = append(all, mtcpOp{1, 0, -1, 0, false})
		}
	}
	mtcpConn(o, "all", tab, all)

	// cuts: every write of a Send, at several byte offsets, for bundles below and above the buffer
	cutIdx := []int{0, 3, 5, 8, 10, 13, 15, 19}
	cutOff := []int{0, 1, 2, 5, 4000}
	if thorough {
		cutIdx = nil
		for i := 0; i < 21; i++ {
			cutIdx = append(cutIdx, i)
		}
		cutOff = []int{0, 1, 2, 3, 4, 5, 9, 10, 100, 4000, 4095, 4096, 70000}
	}
	for _, bi := range cutIdx {
		nchunks := 2
		if len(tab[bi].raw) > 4096-3 {
			nchunks = 3
		}
		for k := 0; k < nchunks+1; k++ { // k == nchunks: a cut that never happens
			for _, m := range cutOff {
				if k == nchunks && m > 0 {
					continue
				}
				ops := []mtcpOp{{0, 1, -1, 0, false}, {1, 0, -1, 0, false}, {0, bi, k, m, false}, {0, 2, -1, 0, false}, {1, 0, -1, 0, false}, {0, 0, -1, 0, false}}
				mtcpConn(o, "cut", tab, ops)
			}
		}
	}

	// one write fails, the connection stays usable (e.g. a write deadline): the Send must still report it;
	// the failing Send is the last operation (the frame is left incomplete on the wire)
	for _, bi := range []int{0, 5, 10, 19} {
		nchunks := 2
		if len(tab[bi].raw) > 4096-3 {
			nchunks = 3
		}
		for k := 0; k < nchunks; k++ {
			ops := []mtcpOp{{0, 1, -1, 0, false}, {1, 0, -1, 0, false}, {0, bi, k, 0, true}}
			mtcpConn(o, "transient", tab, ops)
		}
	}

	// random sequences with keep-alive placements, some with a cut somewhere
	n := 150
	if thorough {
		n = 3000
	}
	for c := 0; c < n; c++ {
		var ops []mtcpOp
		ln := 1 + r.Intn(8)
		cutAt := -1
		if r.Intn(3) == 0 {
			cutAt = r.Intn(ln)
		}
		for i := 0; i < ln; i++ {
			for r.Intn(3) == 0 {
				ops = append(ops, mtcpOp{1, 0, -1, 0, false})
			}
			bi := r.Intn(small)
			if r.Intn(6) == 0 {
				bi = r.Intn(21)
				if bi >= 17 && r.Intn(3) > 0 {
					bi = r.Intn(17)
				}
			}
			op := mtcpOp{0, bi, -1, 0, false}
			if i == cutAt {
				op.failAt = r.Intn(4)
				op.failM = []int{0, 0, 1, 3, 9, 50, 5000}[r.Intn(7)]
			}
			ops = append(ops, op)
		}
		for r.Intn(3) == 0 {
			ops = append(ops, mtcpOp{1, 0, -1, 0, false})
		}
		mtcpConn(o, "random", tab, ops)
	}

	mtcpReuseAll(o, r, tab, thorough)

	mtcpTCP(o, tab, []int{0, 4, 1, 9, 0, 18, 2})

	wg.Wait()
	for _, h := range held {
		o.Case(h.kind, h.fields...)
	}
}

func init() { register("C12mtcp", genC12mtcp) }
