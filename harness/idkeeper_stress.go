package main

// C14stress: the IdKeeper's update called directly and concurrently (the window between counting
// and reading the number is tiny compared with a whole SendBundle, so the submission scenarios of
// C14idkeeper rarely overlap there): G goroutines x N bundles of one source and creation time,
// released together. Observed: the multiset of sequence numbers written into the bundles.
//
// case: (stress tk G N (seq ...sorted)) tk: 0 epoch time, 1 a current time

import (
	"fmt"
	"sort"
	"sync"
	"time"

	"github.com/dtn7/dtn7-go/pkg/bpv7"
	"github.com/dtn7/dtn7-go/pkg/routing"
)

func genC14stress(o *Out, r *Rng, thorough bool) {
	rounds, g, per := 6, 8, 2000
	if thorough {
		rounds, per = 40, 5000
	}
	for round := 0; round < rounds; round++ {
		n := NewNode("dtn://n0/", routing.RoutingConf{Algorithm: "epidemic"})
		tk := round % 2
		ts := bpv7.DtnTimeEpoch
		if tk == 1 {
			ts = bpv7.DtnTimeFromTime(time.Now())
		}
		gg := 2 + r.Intn(g-1)
		mk := func() *bpv7.Bundle {
			bl := bpv7.Builder().Source("dtn://n0/app").Destination("dtn://dst/x").Lifetime("1h").PayloadBlock([]byte("s"))
			if tk == 0 {
				bl = bl.CreationTimestampEpoch().BundleAgeBlock(uint64(1))
			} else {
				bl = bl.CreationTimestampTime(ts.Time())
			}
			b, err := bl.Build()
			if err != nil {
				panic(err)
			}
			return &b
		}
		seqs := make([][]uint64, gg)
		var wg sync.WaitGroup
		gate := make(chan struct{})
		for i := 0; i < gg; i++ {
			bs := make([]*bpv7.Bundle, per)
			for j := range bs {
				bs[j] = mk()
			}
			wg.Add(1)
			go func(i int, bs []*bpv7.Bundle) {
				defer wg.Done()
				<-gate
				out := make([]uint64, 0, len(bs))
				for _, b := range bs {
					out = append(out, n.Core.VerifIdKeeperUpdate(b))
				}
				seqs[i] = out
			}(i, bs)
		}
		close(gate)
		wg.Wait()
		var all []uint64
		for _, s := range seqs {
			all = append(all, s...)
		}
		sort.Slice(all, func(a, b int) bool { return all[a] < all[b] })
		var ss []S
		for _, v := range all {
			ss = append(ss, U(v))
		}
		o.Case("stress", I(tk), I(gg), I(per), LL(ss))
		n.Destroy()
	}
}

// many distinct (source, creation time) states between two bundles of one zero-time source: the
// counter of that source must survive (case: (burst k s0 s1): sequence numbers of the two)
func genC14burst(o *Out, r *Rng, thorough bool) {
	sizes := []int{100, 1000, 1023, 1024, 1025, 1100, 5000}
	if thorough {
		sizes = append(sizes, 20000)
	}
	for _, k := range sizes {
		n := NewNode("dtn://n0/", routing.RoutingConf{Algorithm: "epidemic"})
		zero := func() uint64 {
			b, err := bpv7.Builder().Source("dtn://n0/app").Destination("dtn://dst/x").Lifetime("1h").PayloadBlock([]byte("z")).
				CreationTimestampEpoch().BundleAgeBlock(uint64(1)).Build()
			if err != nil {
				panic(err)
			}
			return n.Core.VerifIdKeeperUpdate(&b)
		}
		s0 := zero()
		base := bpv7.DtnTimeFromTime(time.Now())
		for i := 0; i < k; i++ {
			// distinct sources and milliseconds, none older than the cleaning window
			b, err := bpv7.Builder().Source(fmt.Sprintf("dtn://n0/s%d", i%7)).Destination("dtn://dst/x").Lifetime("1h").PayloadBlock([]byte("f")).
				CreationTimestampTime((base - bpv7.DtnTime(i/7)).Time()).Build()
			if err != nil {
				panic(err)
			}
			n.Core.VerifIdKeeperUpdate(&b)
		}
		s1 := zero()
		o.Case("burst", I(k), U(s0), U(s1))
		n.Destroy()
	}
}

func init() {
	register("C14stress", func(o *Out, r *Rng, thorough bool) { genC14stress(o, r, thorough); genC14burst(o, r, thorough) })
}
