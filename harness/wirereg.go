package main

// C17reg: the codecs' REGISTRIES as state, and the first use of the codecs' singletons.
//
//   reg       sequences of registry operations on the AdministrativeRecordManager (the singleton behind
//             Bundle.AdministrativeRecord / NewAdministrativeRecordFromCbor and a fresh one) and on the
//             ExtensionBlockManager (the singleton behind every canonical block and a fresh one): registrations
//             that are refused (another type for a taken code, the same type again, a GenericExtensionBlock),
//             registration of a fresh code and its removal, removal and re-registration of a built-in type.
//             After every operation: the registry is probed (IsKnown and the Go type the manager creates for
//             each code of a small universe) and an ordinary stream of messages (administrative records between
//             other CBOR messages; WebSocket-agent messages carrying bundles with extension blocks) is written
//             and read back from one reader through the manager.
//             Rule: a refused registration changes nothing (probe as before); results and probes follow the
//             reference registry (code taken => refused and unchanged, else stored; removal deletes the code);
//             whenever the reference registry holds the built-in types the stream is judged as every other
//             C17auxcbor stream (same values, same lengths, reader at the end).
//             The generator runs in its own harness process and restores the singletons after every sequence.
//   firstuse  fresh CHILD processes whose very first operations are endpoint-ID parsing from URI / CBOR (and
//             decoding of other formats that carry endpoints), done by n goroutines released at a barrier.
//             Rule: every operation gives the same result as sequentially (computed by the parent).
//             A child that cannot be started / does not answer in time is inconclusive, never a failure.

import (
	"bufio"
	"bytes"
	"fmt"
	"io"
	"os"
	"os/exec"
	"runtime"
	"strings"
	"sync"
	"sync/atomic"
	"time"

	"github.com/dtn7/cboring"
	"github.com/dtn7/dtn7-go/pkg/bpv7"
)

// ---------------------------------------------------------------------------------------- test types

// two further administrative record types with incompatible bodies (unsigned / text; a status report is an array)
type regRecA struct {
	code uint64
	Val  uint64
}

func (x *regRecA) RecordTypeCode() uint64        { return x.code }
func (x *regRecA) MarshalCbor(w io.Writer) error { return cboring.WriteUInt(x.Val, w) }
func (x *regRecA) UnmarshalCbor(r io.Reader) (err error) {
	x.Val, err = cboring.ReadUInt(r)
	return
}

type regRecB struct {
	code uint64
	Txt  string
}

func (x *regRecB) RecordTypeCode() uint64        { return x.code }
func (x *regRecB) MarshalCbor(w io.Writer) error { return cboring.WriteTextString(x.Txt, w) }
func (x *regRecB) UnmarshalCbor(r io.Reader) (err error) {
	x.Txt, err = cboring.ReadTextString(r)
	return
}

// two further extension block types
type regBlkA struct {
	code uint64
	Val  uint64
}

func (x *regBlkA) BlockTypeCode() uint64         { return x.code }
func (x *regBlkA) BlockTypeName() string         { return "regBlkA" }
func (x *regBlkA) CheckValid() error             { return nil }
func (x *regBlkA) MarshalCbor(w io.Writer) error { return cboring.WriteUInt(x.Val, w) }
func (x *regBlkA) UnmarshalCbor(r io.Reader) (err error) {
	x.Val, err = cboring.ReadUInt(r)
	return
}

type regBlkB struct {
	code uint64
	Txt  string
}

func (x *regBlkB) BlockTypeCode() uint64         { return x.code }
func (x *regBlkB) BlockTypeName() string         { return "regBlkB" }
func (x *regBlkB) CheckValid() error             { return nil }
func (x *regBlkB) MarshalCbor(w io.Writer) error { return cboring.WriteTextString(x.Txt, w) }
func (x *regBlkB) UnmarshalCbor(r io.Reader) (err error) {
	x.Txt, err = cboring.ReadTextString(r)
	return
}

func regTypeName(v interface{}) string {
	if v == nil {
		return "none"
	}
	n := fmt.Sprintf("%T", v)
	if i := strings.LastIndex(n, "."); i >= 0 {
		n = n[i+1:]
	}
	return n
}

// ---------------------------------------------------------------------------------------- registries

var (
	regVals     = []uint64{0, 1, 23, 24, 255, 256, 65535, 65536, 1<<32 - 1, 1 << 32, 1<<64 - 1}
	regArmCodes = []uint64{1, 2, 65000}
	regEbmCodes = []uint64{1, 6, 7, 10, 200, 201}
)

type regOp struct {
	reg  bool   // Register / Unregister
	typ  string // Go type name
	code uint64
}

func regArmInst(typ string, code uint64) bpv7.AdministrativeRecord {
	switch typ {
	case "StatusReport":
		return &bpv7.StatusReport{}
	case "regRecA":
		return &regRecA{code: code}
	case "regRecB":
		return &regRecB{code: code}
	}
	panic("regArmInst " + typ)
}

func regEbmInst(typ string, code uint64) bpv7.ExtensionBlock {
	switch typ {
	case "PayloadBlock":
		return bpv7.NewPayloadBlock(nil)
	case "PreviousNodeBlock":
		return bpv7.NewPreviousNodeBlock(bpv7.DtnNone())
	case "BundleAgeBlock":
		return bpv7.NewBundleAgeBlock(0)
	case "HopCountBlock":
		return bpv7.NewHopCountBlock(0)
	case "GenericExtensionBlock":
		return bpv7.NewGenericExtensionBlock([]byte{1}, code)
	case "regBlkA":
		return &regBlkA{code: code}
	case "regBlkB":
		return &regBlkB{code: code}
	}
	panic("regEbmInst " + typ)
}

// probe of an administrative record manager: ((code known type) ...); type = Go type of what the manager reads from a
// record of that code whose body is a status report / an unsigned / a text (none: all three are rejected)
func regArmProbe(arm *bpv7.AdministrativeRecordManager, srEnc []byte) S {
	var ps []S
	for _, c := range regArmCodes {
		var head bytes.Buffer
		_ = cboring.WriteArrayLength(2, &head)
		_ = cboring.WriteUInt(c, &head)
		typ := "none"
		for _, body := range [][]byte{srEnc, {0x07}, {0x61, 0x74}} {
			func() {
				defer func() { _ = recover() }()
				ar, err := arm.ReadAdministrativeRecord(bytes.NewReader(cat(head.Bytes(), body)))
				if err == nil && ar != nil && typ == "none" {
					typ = regTypeName(ar)
				}
			}()
		}
		ps = append(ps, L(U(c), B(arm.IsKnown(c)), Sym(typ)))
	}
	return LL(ps)
}

// probe of an extension block manager: ((code known type) ...); type = Go type of the block ReadBlock creates
func regEbmProbe(ebm *bpv7.ExtensionBlockManager) S {
	var ps []S
	for _, c := range regEbmCodes {
		typ := "none"
		func() {
			defer func() { _ = recover() }()
			b, _ := ebm.ReadBlock(c, bytes.NewReader([]byte{0x41, 0x07}))
			typ = regTypeName(b)
		}()
		ps = append(ps, L(U(c), B(ebm.IsKnown(c)), Sym(typ)))
	}
	return LL(ps)
}

// regStream writes the values into one buffer and reads them back from one reader; administrative records go
// through the given manager.  Fields as in the "stream" cases of C17auxcbor: vals bytes back remaining.
func regStream(r *Rng, arm *bpv7.AdministrativeRecordManager, cand []interface{}) S {
	var vals []interface{}
	var stream []byte
	var ds []S
	for _, v := range cand {
		var enc []byte
		var err error
		if a, ok := v.(axAdm); ok {
			var buf bytes.Buffer
			func() {
				defer func() {
					if rc := recover(); rc != nil {
						err = fmt.Errorf("panic: %v", rc)
					}
				}()
				err = arm.WriteAdministrativeRecord(a.sr, &buf)
			}()
			enc = buf.Bytes()
		} else {
			enc, err = axEnc(v)
		}
		if err != nil {
			continue
		}
		vals = append(vals, v)
		ds = append(ds, L(Sym(axKind(v)), axDump(v), I(len(enc))))
		stream = append(stream, enc...)
	}
	stream = append(stream, r.Bytes(r.Intn(3))...)
	rd := bytes.NewReader(stream)
	var back []S
	for _, v := range vals {
		kind := axKind(v)
		before := rd.Len()
		var obs S
		if kind == "admrec" {
			obs = func() (obs S) {
				defer func() {
					if rc := recover(); rc != nil {
						obs = L(Sym("panic"), Str(fmt.Sprint(rc)))
					}
				}()
				ar, err := arm.ReadAdministrativeRecord(rd)
				if err != nil {
					return L(Sym("err"))
				}
				return L(Sym("ok"), axDump(axAdm{ar.(*bpv7.StatusReport)}))
			}()
		} else {
			obs = axStreamRead(kind, rd)
		}
		back = append(back, L(obs, I(before-rd.Len())))
	}
	return L(LL(ds), X(stream), LL(back), I(rd.Len()))
}

func regArmCand(r *Rng) []interface{} {
	var cand []interface{}
	for i, n := 0, 2+r.Intn(4); i < n; i++ {
		switch r.Intn(5) {
		case 0:
			cand = append(cand, bpv7.CreationTimestamp{r.Pick(regVals), r.Pick(regVals)})
		case 1:
			cand = append(cand, axValidEID(r))
		default:
			cand = append(cand, axAdm{axSr(r, []int{0, 1, 4, 4, 4, 5}[r.Intn(6)], uint64(r.Intn(12)), r.Bool())})
		}
	}
	// always two records behind each other
	cand = append(cand, axAdm{axSr(r, 4, uint64(r.Intn(12)), false)}, axAdm{axSr(r, 4, uint64(r.Intn(12)), true)})
	return cand
}

func regEbmCand(r *Rng) []interface{} {
	var cand []interface{}
	for i, n := 0, 2+r.Intn(3); i < n; i++ {
		switch r.Intn(4) {
		case 0:
			cand = append(cand, axValidEID(r))
		case 1:
			cand = append(cand, axAdm{axSr(r, 4, uint64(r.Intn(12)), r.Bool())})
		default:
			cand = append(cand, axWam(r, 2, 0))
		}
	}
	cand = append(cand, axWam(r, 2, 0), axWam(r, 2, 0))
	return cand
}

func regOpS(op regOp, res string, probe S, stream S) S {
	k := "unreg"
	if op.reg {
		k = "reg"
	}
	return L(Sym(k), Sym(op.typ), U(op.code), Sym(res), probe, stream)
}

// one sequence on an administrative record manager
func regArmSeq(o *Out, r *Rng, single bool) {
	var arm *bpv7.AdministrativeRecordManager
	target := "arm-fresh"
	if single {
		arm = bpv7.GetAdministrativeRecordManager()
		target = "arm-single"
	} else {
		arm = bpv7.NewAdministrativeRecordManager()
		_ = arm.Register(&bpv7.StatusReport{})
	}
	var srBuf bytes.Buffer
	_ = cboring.Marshal(&bpv7.StatusReport{RefBundle: bpv7.BundleID{SourceNode: axIpn(1, 1), Timestamp: bpv7.NewCreationTimestamp(1, 2)},
		StatusInformation: []bpv7.BundleStatusItem{bpv7.NewBundleStatusItem(true), bpv7.NewBundleStatusItem(false),
			bpv7.NewBundleStatusItem(false), bpv7.NewBundleStatusItem(false)}}, &srBuf)
	srEnc := srBuf.Bytes()
	init := regArmProbe(arm, srEnc)
	var steps []S
	var pending *regOp
	for i, n := 0, 2+r.Intn(7); i < n || pending != nil; i++ {
		var op regOp
		switch x := r.Intn(20); {
		case pending != nil: // a removed built-in type comes back with the next operation
			op, pending = *pending, nil
		case x < 8: // another type for a code (mostly the status report's: refused)
			op = regOp{true, []string{"regRecA", "regRecB"}[r.Intn(2)], []uint64{1, 1, 1, 2, 65000}[r.Intn(5)]}
		case x < 11: // the status report again
			op = regOp{true, "StatusReport", 1}
		case x < 16: // removal of one of the further codes (registered or not)
			op = regOp{false, []string{"regRecA", "regRecB"}[r.Intn(2)], []uint64{2, 65000}[r.Intn(2)]}
		case x < 18: // fresh code
			op = regOp{true, []string{"regRecA", "regRecB"}[r.Intn(2)], []uint64{2, 65000}[r.Intn(2)]}
		case x < 19: // removal of the status report (by its own type / by another type of its code)
			op = regOp{false, []string{"StatusReport", "regRecA"}[r.Intn(2)], 1}
			pending = &regOp{true, "StatusReport", 1}
		default:
			op = regOp{true, "StatusReport", 1}
		}
		res := "ok"
		if op.reg {
			if err := arm.Register(regArmInst(op.typ, op.code)); err != nil {
				res = "refused"
			}
		} else {
			arm.Unregister(regArmInst(op.typ, op.code))
		}
		steps = append(steps, regOpS(op, res, regArmProbe(arm, srEnc), regStream(r, arm, regArmCand(r))))
	}
	// restore
	for _, c := range regArmCodes {
		arm.Unregister(&regRecA{code: c})
	}
	_ = arm.Register(&bpv7.StatusReport{})
	axCase(o, "reg", Sym(target), init, LL(steps), regArmProbe(arm, srEnc))
}

var regEbmBuiltin = []struct {
	typ  string
	code uint64
}{{"PayloadBlock", 1}, {"PreviousNodeBlock", 6}, {"BundleAgeBlock", 7}, {"HopCountBlock", 10}}

func regEbmSeq(o *Out, r *Rng, single bool) {
	var ebm *bpv7.ExtensionBlockManager
	target := "ebm-fresh"
	if single {
		ebm = bpv7.GetExtensionBlockManager()
		target = "ebm-single"
	} else {
		ebm = bpv7.NewExtensionBlockManager()
		for _, b := range regEbmBuiltin {
			_ = ebm.Register(regEbmInst(b.typ, b.code))
		}
	}
	arm := bpv7.GetAdministrativeRecordManager()
	init := regEbmProbe(ebm)
	var steps []S
	var pending *regOp
	for i, n := 0, 2+r.Intn(7); i < n || pending != nil; i++ {
		var op regOp
		own := []string{"regBlkA", "regBlkB"}[r.Intn(2)]
		switch x := r.Intn(20); {
		case pending != nil: // a removed built-in type comes back with the next operation
			op, pending = *pending, nil
		case x < 7: // another type for a built-in code: refused
			op = regOp{true, own, []uint64{1, 6, 7, 10}[r.Intn(4)]}
		case x < 10: // a built-in type again
			b := regEbmBuiltin[r.Intn(4)]
			op = regOp{true, b.typ, b.code}
		case x < 12: // never allowed
			op = regOp{true, "GenericExtensionBlock", []uint64{7, 200, 201}[r.Intn(3)]}
		case x < 15: // fresh code (or refused when taken by now)
			op = regOp{true, own, []uint64{200, 201}[r.Intn(2)]}
		case x < 19: // removal of a further code
			op = regOp{false, own, []uint64{200, 201}[r.Intn(2)]}
		default: // removal of a built-in type, registered again right after the next step
			b := regEbmBuiltin[1+r.Intn(3)]
			op = regOp{false, b.typ, b.code}
			pending = &regOp{true, b.typ, b.code}
		}
		res := "ok"
		if op.reg {
			if err := ebm.Register(regEbmInst(op.typ, op.code)); err != nil {
				res = "refused"
			}
		} else {
			ebm.Unregister(regEbmInst(op.typ, op.code))
		}
		stream := S(L())
		if single {
			stream = regStream(r, arm, regEbmCand(r))
		}
		steps = append(steps, regOpS(op, res, regEbmProbe(ebm), stream))
	}
	// restore
	for _, c := range []uint64{200, 201} {
		ebm.Unregister(&regBlkA{code: c})
	}
	for _, b := range regEbmBuiltin {
		if t := regTypeName(func() bpv7.ExtensionBlock {
			x, _ := ebm.ReadBlock(b.code, bytes.NewReader([]byte{0x41, 0x07}))
			return x
		}()); t != b.typ {
			ebm.Unregister(regEbmInst(b.typ, b.code))
		}
		_ = ebm.Register(regEbmInst(b.typ, b.code))
	}
	axCase(o, "reg", Sym(target), init, LL(steps), regEbmProbe(ebm))
}

// ---------------------------------------------------------------------------------------- first use

// one operation: (uri xtext) | (dec kind xbytes)
func regFirstOp(op S) S {
	l := op.(sList)
	switch atomSym(l[0]) {
	case "uri":
		return axUriObs(string(atomX(l[1])))
	case "dec":
		return axDecObs(atomSym(l[1]), atomX(l[2]))
	}
	return L(Sym("badop"))
}

// child: one line (firstuse rounds n (op ...) (delay ...)); in every round goroutine i does op i mod len as its first
// action behind the barrier, after delay i spins (staggers the arrivals by fractions of the time the first use takes).
// rounds = 1: the process is fresh.  rounds > 1: bpv7.VerifForgetSingletons() in front of every round puts the
// managers back into the not-yet-used state (a restart without the price of a process).
// Answer: (res survived ((k result count) ...)) - the distinct results of op k over all rounds and goroutines.
func genC17regChild(o *Out, r *Rng, thorough bool) {
	go func() {
		time.Sleep(100 * time.Second)
		fmt.Println("(res timeout)")
		os.Exit(0)
	}()
	sc := bufio.NewScanner(os.Stdin)
	sc.Buffer(make([]byte, 1<<20), 64<<20)
	if !sc.Scan() {
		fmt.Println("(res badinput)")
		return
	}
	s, err := ParseS(sc.Text())
	if err != nil {
		fmt.Println("(res badinput)")
		return
	}
	l := s.(sList)
	rounds := atomI(l[1])
	n := atomI(l[2])
	ops := l[3].(sList)
	delays := l[4].(sList)
	type key struct {
		k   int
		res string
	}
	count := map[key]int{}
	var order []key
	res := make([]string, n)
	for round := 0; round < rounds; round++ {
		if rounds > 1 {
			bpv7.VerifForgetSingletons()
		}
		var ready int32
		var wg sync.WaitGroup
		for i := 0; i < n; i++ {
			wg.Add(1)
			go func(i int) {
				defer wg.Done()
				op := ops[i%len(ops)]
				d := atomI(delays[i%len(delays)])
				atomic.AddInt32(&ready, 1)
				for spins := 0; atomic.LoadInt32(&ready) < int32(n); spins++ {
					if spins > 100000 {
						runtime.Gosched()
					}
				}
				for ; d > 0; d-- {
					_ = atomic.LoadInt32(&ready)
				}
				res[i] = SString(regFirstOp(op))
			}(i)
		}
		wg.Wait()
		for i, x := range res {
			k := key{i % len(ops), x}
			if count[k] == 0 {
				order = append(order, k)
			}
			count[k]++
		}
	}
	var rs []S
	for _, k := range order {
		x, err := ParseS(k.res)
		if err != nil {
			x = L(Sym("unparsable"))
		}
		rs = append(rs, L(I(k.k), x, I(count[k])))
	}
	fmt.Println(SString(L(Sym("res"), Sym("survived"), LL(rs))))
}

type regJob struct {
	rounds int
	n      int
	ops    []S
	delays []S
	res    S
	detail string
}

func regRun(jobs []*regJob, workers int) {
	exe, err := os.Executable()
	if err != nil {
		panic(err)
	}
	var wg sync.WaitGroup
	sem := make(chan struct{}, workers)
	for _, j := range jobs {
		wg.Add(1)
		sem <- struct{}{}
		go func(j *regJob) {
			defer wg.Done()
			defer func() { <-sem }()
			cmd := exec.Command(exe, "-prop", "C17regChild")
			cmd.Stdin = strings.NewReader(SString(L(Sym("firstuse"), I(j.rounds), I(j.n), LL(j.ops), LL(j.delays))) + "\n")
			var so, se bytes.Buffer
			cmd.Stdout, cmd.Stderr = &so, &se
			if err := cmd.Start(); err != nil {
				j.res = L(Sym("unavailable"))
				return
			}
			done := make(chan error, 1)
			go func() { done <- cmd.Wait() }()
			var runErr error
			select {
			case runErr = <-done:
			case <-time.After(150 * time.Second):
				_ = cmd.Process.Kill()
				<-done
				j.res = L(Sym("timeout"))
				return
			}
			line := ""
			for _, ln := range strings.Split(so.String(), "\n") {
				if strings.HasPrefix(strings.TrimSpace(ln), "(res ") {
					line = strings.TrimSpace(ln)
				}
			}
			if runErr == nil && line != "" {
				if s, err := ParseS(line); err == nil {
					j.res = LL(s.(sList)[1:])
					return
				}
			}
			j.res = L(Sym("died"))
			for _, ln := range strings.Split(se.String(), "\n") {
				if strings.HasPrefix(ln, "panic:") || strings.HasPrefix(ln, "fatal error:") {
					j.detail = ln
					break
				}
			}
			if j.detail == "" {
				j.detail = fmt.Sprint(runErr)
			}
		}(j)
	}
	wg.Wait()
}

func regFirstUse(o *Out, r *Rng, thorough bool) {
	uris := []string{"dtn://foo/bar", "ipn:23.42", "dtn:none", "dtn://n1/", "ipn:1.0", "dtn:/x", "ipn:0.0", "foo:bar", "dtn://a b/", "ipn:1"}
	mkOp := func() S {
		switch r.Intn(6) {
		case 0, 1:
			return L(Sym("uri"), Str(uris[r.Intn(len(uris))]))
		case 2, 3:
			e, _ := axEnc(axValidEID(r))
			return L(Sym("dec"), Sym("eid"), X(e))
		case 4:
			e, _ := axEnc(axBid(r, r.Bool()))
			k := "bid0"
			if len(e) > 0 && e[0] == 0x85 {
				k = "bid1"
			}
			return L(Sym("dec"), Sym(k), X(e))
		default:
			e, _ := axEnc(axAdm{axSr(r, 4, uint64(r.Intn(12)), false)})
			return L(Sym("dec"), Sym("admrec"), X(e))
		}
	}
	np, nr, rounds := 16, 4, 400
	if thorough {
		np, nr, rounds = 600, 40, 2000
	}
	var jobs []*regJob
	for i := 0; i < np+nr; i++ {
		j := &regJob{rounds: 1, n: []int{2, 4, 8, 8, 16}[r.Intn(5)]}
		if i >= np { // the first use repeated in one process
			j.rounds, j.n = rounds, []int{4, 8, 8}[r.Intn(3)]
		}
		// the first three operations are always one URI and two CBOR endpoints (one of them ipn)
		j.ops = append(j.ops, L(Sym("uri"), Str(uris[r.Intn(2)])))
		e, _ := axEnc(axValidEID2(r))
		j.ops = append(j.ops, L(Sym("dec"), Sym("eid"), X(e)))
		e, _ = axEnc(axIpn(r.Pick(regVals), r.Pick(regVals)))
		j.ops = append(j.ops, L(Sym("dec"), Sym("eid"), X(e)))
		for k, m := 0, r.Intn(3); k < m; k++ {
			j.ops = append(j.ops, mkOp())
		}
		// arrivals all at once / staggered within about 0..2, 0..20, 0..200 microseconds
		span := []int{1, 2000, 20000, 200000}[i%4]
		for k := 0; k < j.n; k++ {
			j.delays = append(j.delays, I(r.Intn(span)))
		}
		jobs = append(jobs, j)
	}
	regRun(jobs, 6)
	for _, j := range jobs {
		// the same operations one after the other (this process has used its managers long ago)
		var seq []S
		for _, op := range j.ops {
			seq = append(seq, regFirstOp(op))
		}
		axCase(o, "firstuse", I(j.rounds), I(j.n), LL(j.ops), LL(j.delays), LL(seq), j.res, Str(j.detail))
	}
}

// ---------------------------------------------------------------------------------------- generator

func genC17reg(o *Out, r *Rng, thorough bool) {
	nseq := 40
	if thorough {
		nseq = 1500
	}
	for i := 0; i < nseq; i++ {
		regArmSeq(o, r, i%2 == 0)
		regEbmSeq(o, r, i%2 == 0)
	}
	regFirstUse(o, r, thorough)
}

func init() {
	register("C17reg", genC17reg)
	register("C17regChild", genC17regChild)
}
