package main

// C11, session level: the real tcpclv4.Client (MessageSwitch, StageHandler, TransferManager and
// Client.handle together) over a byte stream (net.Pipe or loopback TCP), against
//   - a scripted raw peer that speaks the wire format (contact header, SESS_INIT with a chosen
//     Segment MRU, XFER_SEGMENT / XFER_ACK) and records what it receives          (kinds csend, crecv)
//   - another real Client, with concurrent senders in both directions              (kind cpair)
// and the TransferManager alone with barrier-released concurrent Send calls        (kind ctid).
//
// The consumer of Client.Channel() is scripted as well: reports are only *held* (the pointer is
// kept) while the session is busy and are looked at at quiescent points (everything sent so far is
// acknowledged and the expected number of reports has arrived), so that a report can be compared
// with what was sent both when it arrives and again after later bundles have arrived.

import (
	"bufio"
	"bytes"
	"fmt"
	"net"
	"os"
	"runtime"
	"sort"
	"sync"
	"sync/atomic"
	"time"

	"github.com/dtn7/dtn7-go/pkg/bpv7"
	"github.com/dtn7/dtn7-go/pkg/cla"
	tc "github.com/dtn7/dtn7-go/pkg/cla/tcpclv4"
)

const (
	tccSendGuard   = 90 * time.Second // Send returns by itself after at most ~10 s without progress
	tccReportGuard = 25 * time.Second // a report / acknowledgement the property demands
	tccCloseGuard  = 25 * time.Second
)

// ---------------------------------------------------------------------------------------------
// transport

var tccAddrSeq uint64

func tccConnPair(transport string) (net.Conn, net.Conn) {
	if transport == "tcp" {
		ln, err := net.Listen("tcp", "127.0.0.1:0")
		if err != nil {
			panic(err)
		}
		defer ln.Close()
		type res struct {
			c   net.Conn
			err error
		}
		ch := make(chan res, 1)
		go func() {
			c, err := ln.Accept()
			ch <- res{c, err}
		}()
		a, err := net.Dial("tcp", ln.Addr().String())
		if err != nil {
			panic(err)
		}
		r := <-ch
		if r.err != nil {
			panic(r.err)
		}
		return a, r.c
	}
	return net.Pipe()
}

func tccNewClient(conn net.Conn, node string, active bool) *tc.Client {
	addr := fmt.Sprintf("verif-%d", atomic.AddUint64(&tccAddrSeq, 1))
	return tc.VerifNewClientConn(conn, addr, bpv7.MustNewEndpointID(node), active)
}

// ---------------------------------------------------------------------------------------------
// scripted raw peer

type tccWire struct {
	flags uint64
	tid   uint64
	data  []byte // XFER_SEGMENT
	alen  uint64 // XFER_ACK
}

type tccPeer struct {
	conn net.Conn
	rd   *bufio.Reader

	wmu    sync.Mutex
	wcond  *sync.Cond
	wq     []tc.VerifMessage
	wclose bool
	wdone  chan struct{}

	mu      sync.Mutex
	cond    *sync.Cond
	segs    []tccWire // XFER_SEGMENTs received, in order
	acks    []tccWire // XFER_ACKs received, in order
	other   int       // anything else but KEEPALIVE / SESS_TERM
	perTid  map[uint64]uint64
	autoAck bool
	fault   string // none | refuse | close | mute: what happens to the segment after the k-th
	faultK  int
	rdone   chan struct{}

	ackDelay time.Duration // > 0: every acknowledgement goes out this long after the one before
	delayQ   chan tc.VerifMessage

	clientInit *tc.VerifSessInit
}

func newTccPeer(conn net.Conn) *tccPeer {
	p := &tccPeer{conn: conn, rd: bufio.NewReader(conn), wdone: make(chan struct{}), rdone: make(chan struct{}),
		perTid: map[uint64]uint64{}}
	p.wcond = sync.NewCond(&p.wmu)
	p.cond = sync.NewCond(&p.mu)
	go p.writer()
	return p
}

// writer: unbounded queue in front of the connection, so that the peer's reader never waits for
// the peer's writer (net.Pipe has no buffer at all)
func (p *tccPeer) writer() {
	defer close(p.wdone)
	w := bufio.NewWriter(p.conn)
	for {
		p.wmu.Lock()
		for len(p.wq) == 0 && !p.wclose {
			p.wcond.Wait()
		}
		if len(p.wq) == 0 {
			p.wmu.Unlock()
			return
		}
		q := p.wq
		p.wq = nil
		p.wmu.Unlock()
		for _, m := range q {
			if err := m.Marshal(w); err != nil {
				return
			}
		}
		if err := w.Flush(); err != nil {
			return
		}
	}
}

func (p *tccPeer) send(ms ...tc.VerifMessage) {
	p.wmu.Lock()
	p.wq = append(p.wq, ms...)
	p.wmu.Unlock()
	p.wcond.Signal()
}

func (p *tccPeer) handshake(active bool, segMru uint64, keepalive uint16) error {
	readCH := func() error {
		m, err := tc.VerifReadMessage(p.rd)
		if err != nil {
			return err
		}
		if _, ok := m.(*tc.VerifContactHeader); !ok {
			return fmt.Errorf("expected contact header, got %T", m)
		}
		return nil
	}
	readSI := func() error {
		m, err := tc.VerifReadMessage(p.rd)
		if err != nil {
			return err
		}
		si, ok := m.(*tc.VerifSessInit)
		if !ok {
			return fmt.Errorf("expected SESS_INIT, got %T", m)
		}
		p.clientInit = si
		return nil
	}
	ch := tc.VerifNewContactHeader(0)
	si := tc.VerifNewSessInit(keepalive, segMru, 1<<30, "dtn://peer/")
	if active {
		p.send(ch)
		if err := readCH(); err != nil {
			return err
		}
		p.send(si)
		return readSI()
	}
	if err := readCH(); err != nil {
		return err
	}
	p.send(ch)
	if err := readSI(); err != nil {
		return err
	}
	p.send(si)
	return nil
}

// reader loop: records segments (acknowledging them honestly when autoAck is set) and acks
func (p *tccPeer) run() {
	if p.ackDelay > 0 {
		p.delayQ = make(chan tc.VerifMessage, 1<<16)
		go func() {
			for {
				select {
				case a := <-p.delayQ:
					time.Sleep(p.ackDelay)
					p.send(a)
				case <-p.rdone:
					return
				}
			}
		}()
	}
	go func() {
		defer close(p.rdone)
		defer func() {
			p.mu.Lock()
			p.cond.Broadcast()
			p.mu.Unlock()
		}()
		for {
			m, err := tc.VerifReadMessage(p.rd)
			if err != nil {
				return
			}
			switch m := m.(type) {
			case *tc.VerifXferSegment:
				p.mu.Lock()
				p.segs = append(p.segs, tccWire{flags: uint64(m.Flags), tid: m.TransferId, data: append([]byte(nil), m.Data...)})
				p.perTid[m.TransferId] += uint64(len(m.Data))
				total := p.perTid[m.TransferId]
				auto := p.autoAck
				nth := len(p.segs)
				p.cond.Broadcast()
				p.mu.Unlock()
				if p.fault != "" && p.fault != "none" && nth > p.faultK {
					switch p.fault {
					case "refuse":
						if nth == p.faultK+1 {
							p.send(tc.VerifNewXferRefuse(tc.VerifRefusalCode(2), m.TransferId))
						}
					case "close":
						p.shutdown()
						return
					}
					continue
				}
				if auto && p.ackDelay > 0 {
					p.delayQ <- tc.VerifNewXferAck(m.Flags, m.TransferId, total)
				} else if auto {
					p.send(tc.VerifNewXferAck(m.Flags, m.TransferId, total))
				}
			case *tc.VerifXferAck:
				p.mu.Lock()
				p.acks = append(p.acks, tccWire{flags: uint64(m.Flags), tid: m.TransferId, alen: m.AckLen})
				p.cond.Broadcast()
				p.mu.Unlock()
			case *tc.VerifKeepalive:
			case *tc.VerifSessTerm:
				return
			default:
				p.mu.Lock()
				p.other++
				p.mu.Unlock()
			}
		}
	}()
}

// waitAcks waits until n acknowledgements have arrived (or the session ended / the guard expired)
func (p *tccPeer) waitAcks(n int, guard time.Duration) bool {
	expired := false
	t := time.AfterFunc(guard, func() {
		p.mu.Lock()
		expired = true
		p.cond.Broadcast()
		p.mu.Unlock()
	})
	defer t.Stop()
	p.mu.Lock()
	defer p.mu.Unlock()
	for len(p.acks) < n && !expired {
		select {
		case <-p.rdone:
			return len(p.acks) >= n
		default:
		}
		p.cond.Wait()
	}
	return len(p.acks) >= n
}

func (p *tccPeer) shutdown() {
	p.wmu.Lock()
	p.wclose = true
	p.wmu.Unlock()
	p.wcond.Signal()
	_ = p.conn.Close()
}

// ---------------------------------------------------------------------------------------------
// scripted consumer of Client.Channel()

type tccConsumer struct {
	ch      chan cla.ConvergenceStatus
	held    []*bpv7.Bundle
	arrival [][]byte // encoding taken at a quiescent point right after the report's phase
	gone    bool     // PeerDisappeared seen
}

func tccEncodeSafe(b *bpv7.Bundle) (enc []byte) {
	defer func() {
		if e := recover(); e != nil {
			enc = []byte("unencodable")
		}
	}()
	if b == nil {
		return []byte("nil")
	}
	var buf bytes.Buffer
	if err := b.MarshalCbor(&buf); err != nil {
		return []byte("unencodable")
	}
	return buf.Bytes()
}

// take holds reports until n bundles are held in total; false when they do not arrive in time
func (c *tccConsumer) take(n int, guard time.Duration) bool {
	deadline := time.After(guard)
	for len(c.held) < n && !c.gone {
		select {
		case cs := <-c.ch:
			switch cs.MessageType {
			case cla.ReceivedBundle:
				c.held = append(c.held, cs.Message.(cla.ConvergenceReceivedBundle).Bundle)
			case cla.PeerDisappeared:
				c.gone = true
			}
		case <-deadline:
			return false
		}
	}
	return len(c.held) >= n
}

// takeUntil holds reports until n bundles are held or stop is closed
func (c *tccConsumer) takeUntil(n int, stop <-chan struct{}) {
	for len(c.held) < n && !c.gone {
		select {
		case cs := <-c.ch:
			switch cs.MessageType {
			case cla.ReceivedBundle:
				c.held = append(c.held, cs.Message.(cla.ConvergenceReceivedBundle).Bundle)
			case cla.PeerDisappeared:
				c.gone = true
			}
		case <-stop:
			return
		}
	}
}

// drain holds everything up to the PeerDisappeared report that ends a session
func (c *tccConsumer) drain(guard time.Duration) bool {
	deadline := time.After(guard)
	for !c.gone {
		select {
		case cs := <-c.ch:
			switch cs.MessageType {
			case cla.ReceivedBundle:
				c.held = append(c.held, cs.Message.(cla.ConvergenceReceivedBundle).Bundle)
			case cla.PeerDisappeared:
				c.gone = true
			}
		case <-deadline:
			return false
		}
	}
	return true
}

// snapshot: the current encodings of all held bundles; chunks = the number of bundles held at the
// end of each earlier phase (the entries of one chunk are sorted, their order is the scheduler's)
func (c *tccConsumer) snapshot(chunks []int, sortChunks bool) S {
	encs := make([][]byte, len(c.held))
	for i, b := range c.held {
		encs[i] = tccEncodeSafe(b)
	}
	if sortChunks {
		lo := 0
		for _, hi := range append(append([]int(nil), chunks...), len(encs)) {
			if hi > len(encs) {
				hi = len(encs)
			}
			if hi > lo {
				part := encs[lo:hi]
				sort.Slice(part, func(i, j int) bool { return bytes.Compare(part[i], part[j]) < 0 })
				lo = hi
			}
		}
	}
	var l []S
	for _, e := range encs {
		l = append(l, X(e))
	}
	return LL(l)
}

func tccStart(c *tc.Client) chan string {
	ch := make(chan string, 1)
	go func() {
		if err, _ := c.Start(); err != nil {
			ch <- "err"
		} else {
			ch <- "ok"
		}
	}()
	return ch
}

func tccClose(c *tc.Client) chan struct{} {
	ch := make(chan struct{})
	go func() {
		defer close(ch)
		defer func() { _ = recover() }()
		_ = c.Close()
	}()
	return ch
}

func tccWaitPeerAppeared(c *tc.Client) bool {
	select {
	case cs := <-c.Channel():
		return cs.MessageType == cla.PeerAppeared
	case <-time.After(tccReportGuard):
		return false
	}
}

// ---------------------------------------------------------------------------------------------
// canonical form of the XFER_SEGMENT trace a receiver saw: grouped by transfer id, the groups
// ordered by their concatenated data (which transfer gets which id is the scheduler's choice when
// Send is called concurrently), plus the sorted list of the ids of all START segments

func tccTraceS(segs []tccWire) (tids S, groups S) {
	type grp struct {
		tid  uint64
		segs []tccWire
		cat  []byte
	}
	var order []uint64
	m := map[uint64]*grp{}
	var starts []uint64
	for _, s := range segs {
		g, ok := m[s.tid]
		if !ok {
			g = &grp{tid: s.tid}
			m[s.tid] = g
			order = append(order, s.tid)
		}
		g.segs = append(g.segs, s)
		g.cat = append(g.cat, s.data...)
		if s.flags&uint64(tc.VerifSegmentStart) != 0 {
			starts = append(starts, s.tid)
		}
	}
	gs := make([]*grp, 0, len(order))
	for _, t := range order {
		gs = append(gs, m[t])
	}
	sort.SliceStable(gs, func(i, j int) bool { return bytes.Compare(gs[i].cat, gs[j].cat) < 0 })
	sort.Slice(starts, func(i, j int) bool { return starts[i] < starts[j] })
	var tl, gl []S
	for _, t := range starts {
		tl = append(tl, U(t))
	}
	for _, g := range gs {
		var sl []S
		for _, s := range g.segs {
			sl = append(sl, L(U(s.flags), X(s.data)))
		}
		gl = append(gl, LL(sl))
	}
	return LL(tl), LL(gl)
}

func tccSentS(encs [][]byte, res []string) S {
	var l []S
	for i := range encs {
		l = append(l, L(X(encs[i]), Sym(res[i])))
	}
	return LL(l)
}

// tccSendAll: conc goroutines, released together, send the bundles (goroutine g sends g, g+conc, ...)
func tccSendAll(send func(bpv7.Bundle) error, bundles []bpv7.Bundle, conc int, spin bool) []string {
	res := make([]string, len(bundles))
	for i := range res {
		res[i] = "hang"
	}
	if conc < 1 {
		conc = 1
	}
	var mu sync.Mutex
	var wg sync.WaitGroup
	start := make(chan struct{})
	var ready int32
	for g := 0; g < conc && g < len(bundles); g++ {
		wg.Add(1)
		go func(g int) {
			defer wg.Done()
			if spin {
				// spin barrier: all senders enter Send within a few instructions of each other
				atomic.AddInt32(&ready, 1)
				for k := 1; atomic.LoadInt32(&ready) >= 0; k++ {
					if k%4096 == 0 {
						runtime.Gosched()
					}
				}
			} else {
				<-start
			}
			for i := g; i < len(bundles); i += conc {
				r := tcSendClass(send(bundles[i]))
				mu.Lock()
				res[i] = r
				mu.Unlock()
			}
		}(g)
	}
	n := int32(conc)
	if len(bundles) < conc {
		n = int32(len(bundles))
	}
	if spin {
		for atomic.LoadInt32(&ready) < n {
			runtime.Gosched()
		}
		atomic.StoreInt32(&ready, -1)
	} else {
		close(start)
	}
	done := make(chan struct{})
	go func() { wg.Wait(); close(done) }()
	select {
	case <-done:
	case <-time.After(tccSendGuard):
	}
	mu.Lock()
	defer mu.Unlock()
	return append([]string(nil), res...)
}

// ---------------------------------------------------------------------------------------------
// csend: real Client sends to a scripted peer that announced Segment MRU m

type tccSendJob struct {
	transport  string
	peerActive bool
	m          uint64
	keepalive  uint16
	bundles    []bpv7.Bundle
	encs       [][]byte
	conc       int
	fault      string
	faultK     int
	ackDelay   time.Duration
	label      string // suffix of the case label
	line       []S
}

func tccSendRun(j *tccSendJob) {
	cc, pc := tccConnPair(j.transport)
	client := tccNewClient(cc, "dtn://client/", !j.peerActive)
	started := tccStart(client)
	peer := newTccPeer(pc)
	peer.autoAck = true
	peer.fault, peer.faultK = j.fault, j.faultK
	peer.ackDelay = j.ackDelay
	hsErr := peer.handshake(j.peerActive, j.m, j.keepalive)
	startRes := "hang"
	select {
	case startRes = <-started:
	case <-time.After(tccReportGuard):
	}
	res := make([]string, len(j.bundles))
	for i := range res {
		res[i] = "nosession"
	}
	var ownMru uint64
	if peer.clientInit != nil {
		ownMru = peer.clientInit.SegmentMru
	}
	closed := "ok"
	if hsErr == nil && startRes == "ok" {
		peer.run()
		cons := &tccConsumer{ch: client.Channel()}
		drained := make(chan struct{})
		go func() { cons.drain(10 * time.Minute); close(drained) }()
		res = tccSendAll(client.Send, j.bundles, j.conc, false)
		cl := tccClose(client)
		select {
		case <-cl:
		case <-time.After(tccCloseGuard):
			closed = "hang"
		}
		select {
		case <-peer.rdone:
		case <-time.After(tccCloseGuard):
		}
		select {
		case <-drained:
		case <-time.After(tccCloseGuard):
		}
	} else {
		closed = "nosession"
	}
	peer.shutdown()
	_ = cc.Close()
	peer.mu.Lock()
	segs := append([]tccWire(nil), peer.segs...)
	other := peer.other
	peer.mu.Unlock()
	tids, groups := tccTraceS(segs)
	role := "client-active"
	if j.peerActive {
		role = "client-passive"
	}
	j.line = []S{Sym("client-" + j.transport + j.label), Sym(role), U(j.m), U(ownMru), U(0), I(j.conc), tccSentS(j.encs, res), tids, groups,
		Sym(closed), I(other), Sym(j.fault), I(j.faultK)}
}

// ---------------------------------------------------------------------------------------------
// ctid: one TransferManager, G Send calls released by a spin barrier, scripted channel peer

func tccTidRounds(o *Out, r *Rng, m uint64, g, rounds int, payload func() []byte) {
	in := make(chan tc.VerifMessage, 4096)
	out := make(chan tc.VerifMessage, 4096)
	tm := tc.VerifNewTransferManager(in, out, m)
	var mu sync.Mutex
	var segs []tccWire
	perTid := map[uint64]uint64{}
	quit := make(chan struct{})
	go func() {
		for {
			select {
			case <-quit:
				return
			case msg := <-out:
				if s, ok := msg.(*tc.VerifXferSegment); ok {
					mu.Lock()
					segs = append(segs, tccWire{flags: uint64(s.Flags), tid: s.TransferId, data: append([]byte(nil), s.Data...)})
					perTid[s.TransferId] += uint64(len(s.Data))
					total := perTid[s.TransferId]
					mu.Unlock()
					select {
					case in <- tc.VerifNewXferAck(s.Flags, s.TransferId, total):
					case <-quit:
						return
					}
				}
			}
		}
	}()
	for round := 0; round < rounds; round++ {
		bundles := make([]bpv7.Bundle, g)
		encs := make([][]byte, g)
		for i := range bundles {
			bundles[i], encs[i] = tcBundle(fmt.Sprintf("dtn://t%d-%d/", round, i), payload())
		}
		res := tccSendAll(tm.Send, bundles, g, true)
		mu.Lock()
		seen := segs
		segs = nil
		mu.Unlock()
		tids, groups := tccTraceS(seen)
		o.Case("ctrace", Sym("tm-barrier"), Sym("none"), U(m), U(0), U(uint64(round*g)), I(g), tccSentS(encs, res), tids, groups,
			Sym("ok"), I(0), Sym("none"), I(0))
		bad := false
		for _, x := range res {
			if x != "ok" {
				bad = true
			}
		}
		if bad {
			// the session is no longer healthy (a Send failed); later rounds on it say nothing
			break
		}
	}
	_ = tm.Close()
	close(quit)
}

// ---------------------------------------------------------------------------------------------
// crecv: a scripted peer sends transfers (its own segmentation, interleaved) to a real Client whose
// consumer looks at the reports at quiescent points only

type tccRecvJob struct {
	transport  string
	peerActive bool
	xfers      [][]byte    // encoded bundles, transfer i
	tids       []uint64    // transfer ids
	phases     [][]tccWire // segments sent in each phase
	line       []S
}

func tccRecvRun(j *tccRecvJob) {
	cc, pc := tccConnPair(j.transport)
	client := tccNewClient(cc, "dtn://client/", !j.peerActive)
	started := tccStart(client)
	peer := newTccPeer(pc)
	hsErr := peer.handshake(j.peerActive, 1<<20, 0)
	startRes := "hang"
	select {
	case startRes = <-started:
	case <-time.After(tccReportGuard):
	}
	var phaseS []S
	status := "ok"
	cons := &tccConsumer{}
	if hsErr != nil || startRes != "ok" || !tccWaitPeerAppeared(client) {
		status = "nosession"
	} else {
		cons.ch = client.Channel()
		peer.run()
		sent, ends := 0, 0
		for _, ph := range j.phases {
			var segS []S
			var ms []tc.VerifMessage
			for _, s := range ph {
				ms = append(ms, tc.VerifNewXferSegment(tc.VerifSegmentFlags(s.flags), s.tid, s.data))
				segS = append(segS, L(U(s.flags), U(s.tid), X(s.data)))
				if s.flags&uint64(tc.VerifSegmentEnd) != 0 {
					ends++
				}
			}
			peer.send(ms...)
			sent += len(ph)
			ackOk := peer.waitAcks(sent, tccReportGuard)
			repOk := cons.take(ends, tccReportGuard)
			// quiescent: everything sent is acknowledged, every completed transfer was reported
			peer.mu.Lock()
			var ackS []S
			for _, a := range peer.acks {
				ackS = append(ackS, L(U(a.flags), U(a.tid), U(a.alen)))
			}
			peer.mu.Unlock()
			phaseS = append(phaseS, L(LL(segS), LL(ackS), cons.snapshot(nil, false), B(ackOk), B(repOk)))
			if !ackOk {
				status = "stalled"
				break
			}
		}
		cl := tccClose(client)
		if !cons.drain(tccCloseGuard) {
			status = "close-hang"
		}
		select {
		case <-cl:
		case <-time.After(tccCloseGuard):
			status = "close-hang"
		}
	}
	peer.shutdown()
	_ = cc.Close()
	var xs []S
	for i := range j.xfers {
		xs = append(xs, L(U(j.tids[i]), X(j.xfers[i])))
	}
	role := "client-active"
	if j.peerActive {
		role = "client-passive"
	}
	// the final snapshot: after the session is closed (every report has been taken)
	j.line = []S{Sym(j.transport), Sym(role), LL(xs), LL(phaseS), cons.snapshot(nil, false), Sym(status)}
}

// split enc into segments with random sizes 1..maxSeg
func tccSplit(r *Rng, tid uint64, enc []byte, maxSeg int) []tccWire {
	var out []tccWire
	for off := 0; off < len(enc); {
		n := 1 + r.Intn(maxSeg)
		if off+n > len(enc) {
			n = len(enc) - off
		}
		var fl uint64
		if off == 0 {
			fl |= uint64(tc.VerifSegmentStart)
		}
		if off+n == len(enc) {
			fl |= uint64(tc.VerifSegmentEnd)
		}
		out = append(out, tccWire{flags: fl, tid: tid, data: enc[off : off+n]})
		off += n
	}
	return out
}

// random interleaving of the segment lists (each keeps its order); burst = probability (percent)
// to continue with the same transfer
func tccMerge(r *Rng, lists [][]tccWire, sequential bool) []tccWire {
	var out []tccWire
	if sequential {
		for _, l := range lists {
			out = append(out, l...)
		}
		return out
	}
	idx := make([]int, len(lists))
	for {
		var live []int
		for i := range lists {
			if idx[i] < len(lists[i]) {
				live = append(live, i)
			}
		}
		if len(live) == 0 {
			return out
		}
		i := live[r.Intn(len(live))]
		out = append(out, lists[i][idx[i]])
		idx[i]++
	}
}

// ---------------------------------------------------------------------------------------------
// cpair: two real Clients, concurrent senders in both directions, several phases on one session

type tccPairPhase struct {
	toB, toA     []bpv7.Bundle
	encB, encA   [][]byte
	concA, concB int
}

type tccPairJob struct {
	transport string
	class     string // normal | bulk (more segments in flight per direction than the session's queues hold)
	phases    []tccPairPhase
	line      []S
}

func tccPairRun(j *tccPairJob) {
	ca, cb := tccConnPair(j.transport)
	a := tccNewClient(ca, "dtn://a/", true)
	b := tccNewClient(cb, "dtn://b/", false)
	sa, sb := tccStart(a), tccStart(b)
	ra, rb := "hang", "hang"
	for i := 0; i < 2; i++ {
		select {
		case ra = <-sa:
			sa = nil
		case rb = <-sb:
			sb = nil
		case <-time.After(tccReportGuard):
		}
	}
	status := "ok"
	var phaseS []S
	consA, consB := &tccConsumer{}, &tccConsumer{}
	if ra != "ok" || rb != "ok" || !tccWaitPeerAppeared(a) || !tccWaitPeerAppeared(b) {
		status = "nosession"
	} else {
		consA.ch, consB.ch = a.Channel(), b.Channel()
		var chunksA, chunksB []int
		expA, expB := 0, 0
		for _, ph := range j.phases {
			var resB, resA []string
			var wg sync.WaitGroup
			var cwg sync.WaitGroup
			sendsDone := make(chan struct{})
			if j.class == "bulk" {
				// the consumers take the reports while the senders run (more than the report channel holds)
				cwg.Add(2)
				nB, nA := expB+len(ph.toB), expA+len(ph.toA)
				go func() { defer cwg.Done(); consB.takeUntil(nB, sendsDone) }()
				go func() { defer cwg.Done(); consA.takeUntil(nA, sendsDone) }()
			}
			wg.Add(2)
			go func() { defer wg.Done(); resB = tccSendAll(a.Send, ph.toB, ph.concA, false) }()
			go func() { defer wg.Done(); resA = tccSendAll(b.Send, ph.toA, ph.concB, false) }()
			wg.Wait()
			close(sendsDone)
			cwg.Wait()
			expB += len(ph.toB)
			expA += len(ph.toA)
			okB := consB.take(expB, tccReportGuard)
			okA := consA.take(expA, tccReportGuard)
			snapB, snapA := consB.snapshot(chunksB, true), consA.snapshot(chunksA, true)
			chunksB, chunksA = append(chunksB, len(consB.held)), append(chunksA, len(consA.held))
			phaseS = append(phaseS, L(tccSentS(ph.encB, resB), tccSentS(ph.encA, resA), snapB, snapA, B(okB), B(okA)))
			if !okA || !okB {
				status = "stalled"
				break
			}
		}
		cl := tccClose(a)
		if !consA.drain(tccCloseGuard) || !consB.drain(tccCloseGuard) {
			status = "close-hang"
		}
		select {
		case <-cl:
		case <-time.After(tccCloseGuard):
			status = "close-hang"
		}
		// b ends by itself (SESS_TERM / EOF from a); its own Close would block once its handler has returned
		phaseS = append(phaseS, L(LL(nil), LL(nil), consB.snapshot(chunksB, true), consA.snapshot(chunksA, true), B(true), B(true)))
	}
	_ = ca.Close()
	_ = cb.Close()
	j.line = []S{Sym(j.transport), Sym(j.class), LL(phaseS), Sym(status)}
}

// ---------------------------------------------------------------------------------------------

func tccParallel(n int, jobs []func()) {
	var wg sync.WaitGroup
	sem := make(chan struct{}, n)
	for _, f := range jobs {
		wg.Add(1)
		sem <- struct{}{}
		go func(f func()) {
			defer wg.Done()
			defer func() { <-sem }()
			f()
		}(f)
	}
	wg.Wait()
}

func genC11client(o *Out, r *Rng, thorough bool) {
	const mib = 1 << 20
	transports := []string{"pipe", "tcp"}
	t0 := time.Now()
	lap := func(what string) {
		if os.Getenv("VERIF_TCC_TIMING") != "" {
			fmt.Fprintf(os.Stderr, "%s: %v\n", what, time.Since(t0))
		}
		t0 = time.Now()
	}

	if os.Getenv("VERIF_TCC_ONLY_LASTING") != "" {
		// development aid: only the sessions that last (thorough set), nothing else
		tccBusyAll(o, r, true)
		return
	}

	// (1) csend: peer announces Segment MRU m; the Client sends bundles of encoded length L
	var sjobs []*tccSendJob
	addSend := func(m uint64, payloads []int, conc int) {
		j := &tccSendJob{transport: transports[r.Intn(2)], peerActive: r.Bool(), m: m, conc: conc, fault: "none",
			keepalive: uint16([]int{0, 30, 600}[r.Intn(3)])}
		for i, p := range payloads {
			bn, enc := tcBundle(fmt.Sprintf("dtn://s%d-%d/", len(sjobs), i), r.Bytes(p))
			j.bundles, j.encs = append(j.bundles, bn), append(j.encs, enc)
		}
		sjobs = append(sjobs, j)
	}
	_, e0 := tcBundle("dtn://s0-0/", nil)
	l0 := len(e0) // encoded length with an empty payload and a source of this shape
	// small announced MRUs, bundles longer than the MRU; every divisor of one length
	for _, m := range []uint64{1, 2, 3, 7, 10, 64, 100, 1000, 4096, 65535} {
		p := 20 + r.Intn(60)
		if m >= 1000 {
			p = int(m)*2 + r.Intn(int(m))
		}
		addSend(m, []int{p}, 1)
	}
	for _, d := range tcDivisors(l0 + 30) {
		addSend(uint64(d), []int{30}, 1)
	}
	// m around L: L-1, L, L+1; the default 1 MiB; values above the sender's own cap; > 2^32
	for _, dm := range []int{-1, 0, 1} {
		addSend(uint64(l0+40+dm), []int{40}, 1)
	}
	for _, m := range []uint64{mib - 1, mib, mib + 1, 1 << 32, 1<<63 - 1, 1<<64 - 1} {
		addSend(m, []int{r.Intn(200), 3000 + r.Intn(3000)}, 1)
	}
	// several bundles on one session, sequentially and concurrently (1..8 sending goroutines)
	nmulti := 14
	if thorough {
		nmulti = 120
	}
	for i := 0; i < nmulti; i++ {
		n := 2 + r.Intn(10)
		var ps []int
		for k := 0; k < n; k++ {
			ps = append(ps, r.Intn(300))
		}
		m := []uint64{1 + uint64(r.Intn(40)), 50 + uint64(r.Intn(200)), 1000, mib}[r.Intn(4)]
		conc := 1
		if i%2 == 1 {
			conc = 2 + r.Intn(7)
		}
		addSend(m, ps, conc)
	}
	// a bundle above 1 MiB against a peer announcing 1 MiB / 64 KiB
	if thorough {
		addSend(mib, []int{mib + 5000}, 1)
		addSend(65536, []int{mib}, 1)
		addSend(300000, []int{mib, 10, mib / 2}, 3)
	} else {
		addSend(300000, []int{mib}, 1)
	}
	// a peer that refuses the transfer / closes the session / stops acknowledging after the k-th
	// segment: Client.Send must return an error (closing and muting run into Send's real 10 s
	// timeout, thorough tier only)
	faults := []string{"refuse"}
	nf := 1
	if thorough {
		faults = []string{"refuse", "close", "mute"}
		nf = 3
	}
	for i := 0; i < nf; i++ {
		l := l0 + 50
		m := []int{l, (l + 2) / 3, 10}[i%3]
		n := (l + m - 1) / m
		for _, f := range faults {
			for _, k := range []int{0, n / 2, n - 1} {
				addSend(uint64(m), []int{50}, 1)
				sjobs[len(sjobs)-1].fault, sjobs[len(sjobs)-1].faultK = f, k
			}
		}
	}
	var fs []func()
	for _, j := range sjobs {
		j := j
		fs = append(fs, func() { tccSendRun(j) })
	}
	tccParallel(8, fs)
	for _, j := range sjobs {
		o.Case("ctrace", j.line...)
	}

	lap("csend")
	// (2) ctid: barrier-released concurrent Send calls on one TransferManager
	sessions, rounds := 6, 250
	if thorough {
		sessions, rounds = 40, 500
	}
	for s := 0; s < sessions; s++ {
		g := []int{8, 16, 12, 12}[s%4]
		m := uint64(256) // every bundle in one segment (the sender allocates min(m, 1 MiB) per segment)
		if s%4 == 3 {
			m = uint64(16 + r.Intn(60)) // multi-segment transfers, interleaved
		}
		ts := time.Now()
		tccTidRounds(o, r, m, g, rounds, func() []byte { return r.Bytes(r.Intn(12)) })
		if os.Getenv("VERIF_TCC_TIMING") != "" {
			fmt.Fprintf(os.Stderr, "  ctid g=%d m=%d: %v\n", g, m, time.Since(ts))
		}
	}

	lap("ctid")
	// (3) crecv: scripted peer -> Client, consumer looks at the reports at quiescent points
	var rjobs []*tccRecvJob
	nrecv := 40
	if thorough {
		nrecv = 400
	}
	for i := 0; i < nrecv; i++ {
		j := &tccRecvJob{transport: transports[r.Intn(2)], peerActive: r.Bool()}
		n := 1 + r.Intn(12)
		if i < 4 {
			n = i + 1
		}
		var lists [][]tccWire
		base := r.U64() >> uint(1+r.Intn(63))
		for k := 0; k < n; k++ {
			_, enc := tcBundle(fmt.Sprintf("dtn://r%d-%d/", i, k), r.Bytes(r.Intn(120)))
			tid := base + uint64(k)
			if r.Intn(4) == 0 {
				tid = r.U64() >> uint(r.Intn(64))
			}
			for used := true; used; {
				used = false
				for _, t := range j.tids {
					if t == tid {
						used = true
						tid++
					}
				}
			}
			j.xfers, j.tids = append(j.xfers, enc), append(j.tids, tid)
			maxSeg := []int{1, 3, 16, 64, 1000}[r.Intn(5)]
			lists = append(lists, tccSplit(r, tid, enc, maxSeg))
		}
		mode := i % 4 // 0 paced (one transfer per phase), 1 one burst, 2/3 interleaved, random phase cuts
		all := tccMerge(r, lists, mode < 2)
		// sometimes the last transfer never completes (its END is not sent)
		if mode == 3 && r.Intn(3) == 0 && len(all) > 1 {
			all = all[:len(all)-1]
		}
		switch mode {
		case 0:
			var cur []tccWire
			for _, s := range all {
				cur = append(cur, s)
				if s.flags&uint64(tc.VerifSegmentEnd) != 0 {
					j.phases = append(j.phases, cur)
					cur = nil
				}
			}
			if len(cur) > 0 {
				j.phases = append(j.phases, cur)
			}
		case 1:
			j.phases = [][]tccWire{all}
		default:
			for len(all) > 0 {
				k := 1 + r.Intn(len(all))
				if r.Bool() && k > 1 {
					k = 1 + r.Intn(k)
				}
				j.phases = append(j.phases, all[:k])
				all = all[k:]
			}
		}
		rjobs = append(rjobs, j)
	}
	fs = nil
	for _, j := range rjobs {
		j := j
		fs = append(fs, func() { tccRecvRun(j) })
	}
	tccParallel(8, fs)
	for _, j := range rjobs {
		o.Case("crecv", j.line...)
	}

	lap("crecv")
	// (4) cpair: Client <-> Client
	var pjobs []*tccPairJob
	npair := 10
	if thorough {
		npair = 100
	}
	for i := 0; i < npair; i++ {
		j := &tccPairJob{transport: transports[i%2], class: "normal"}
		nph := 1 + r.Intn(4)
		for p := 0; p < nph; p++ {
			var ph tccPairPhase
			nB, nA := 1+r.Intn(12), r.Intn(13)
			if i == 0 {
				nB, nA = 3, 0
			}
			for k := 0; k < nB; k++ {
				bn, enc := tcBundle(fmt.Sprintf("dtn://pa%d-%d-%d/", i, p, k), r.Bytes(r.Intn(400)))
				ph.toB, ph.encB = append(ph.toB, bn), append(ph.encB, enc)
			}
			for k := 0; k < nA; k++ {
				bn, enc := tcBundle(fmt.Sprintf("dtn://pb%d-%d-%d/", i, p, k), r.Bytes(r.Intn(400)))
				ph.toA, ph.encA = append(ph.toA, bn), append(ph.encA, enc)
			}
			ph.concA, ph.concB = 1+r.Intn(8), 1+r.Intn(8)
			j.phases = append(j.phases, ph)
		}
		pjobs = append(pjobs, j)
	}
	fs = nil
	for _, j := range pjobs {
		j := j
		fs = append(fs, func() { tccPairRun(j) })
	}
	tccParallel(4, fs)
	if thorough {
		// bulk in both directions at once: more transfers per direction in flight than the queues
		// of a session hold (32 messages each), over the unbuffered net.Pipe (over loopback TCP the
		// same happens when the socket buffers are full as well, from about 2 x 120 MiB per side on)
		j := &tccPairJob{transport: "pipe", class: "bulk"}
		var ph tccPairPhase
		const nbulk = 300
		for k := 0; k < nbulk; k++ {
			bn, enc := tcBundle(fmt.Sprintf("dtn://bulk-a%d/", k), r.Bytes(20))
			ph.toB, ph.encB = append(ph.toB, bn), append(ph.encB, enc)
			bn, enc = tcBundle(fmt.Sprintf("dtn://bulk-b%d/", k), r.Bytes(20))
			ph.toA, ph.encA = append(ph.toA, bn), append(ph.encA, enc)
		}
		ph.concA, ph.concB = nbulk, nbulk
		j.phases = append(j.phases, ph)
		tccPairRun(j)
		pjobs = append(pjobs, j)
	}
	for _, j := range pjobs {
		o.Case("cpair", j.line...)
	}
	lap("cpair")

	// (5) sessions that last: steady traffic beyond the keepalive interval, a transfer beyond Send's timeout
	tccBusyAll(o, r, thorough)
	lap("cbusy")
}

func init() { register("C11client", genC11client) }
