package main

// C18 - spray-and-wait / binary spray copy budget.
//
// A real routing.Core ("spray" or "binary_spray") is driven through histories of
//   create (Submit = originated here / Receive = from another node, optional BinarySprayBlock with
//   k copies, optional PreviousNodeBlock), peer up (with link failing or not) / down, link starts /
//   stops failing, retry tick, metadata GC
// with scripted mock convergence senders.  A create event for a bundle that was created before is
// the same bundle received again (from a neighbour named by its PreviousNodeBlock): a duplicate
// while the store still knows the bundle (Core.receive drops it), or the bundle coming back after it
// was delivered to its destination and left the store - then NotifyNewBundle initialises the
// metadata afresh (full budget for a bundle of ours, the previous node in the sent list: fix
// 772c5cf) and a new life of the bundle begins, whose transmissions the budget checker judges.  After every event the harness records, per bundle, the
// Send calls the Core made (sender, peer node, outcome, BinarySprayBlock value parsed from the bytes
// that were sent), the spray metadata (accessor hook) and whether the store still knows the bundle.
//
// Failure reports of one forwarding pass are made by the Core from concurrent goroutines.  In
// "sync" histories every failing sender additionally delays its first GetPeerEndpointID call after
// the failed Send - that call is made by ReportFailure *between* reading and writing back the
// bundle's metadata - so that all concurrent reports of a pass overlap in that window.  With the
// read-modify-write under one lock the delays merely serialise; without it updates are lost
// deterministically.  No schedule hook in the repository is needed for this.

import (
	"bytes"
	"fmt"
	"io/ioutil"
	"os"
	"runtime/debug"
	"runtime/pprof"
	"sort"
	"strings"
	"sync"
	"sync/atomic"
	"time"

	"github.com/dtn7/dtn7-go/pkg/bpv7"
	"github.com/dtn7/dtn7-go/pkg/cla"
	"github.com/dtn7/dtn7-go/pkg/routing"
)

const sprayDelay = 3 * time.Millisecond

type sprayCLA struct {
	*MockCLA
	id    int
	nodeN int
	fail  int32 // atomic bool: sends fail
	armed int32 // atomic bool: the next GetPeerEndpointID call is the one inside ReportFailure
	sync  bool
}

func (s *sprayCLA) GetPeerEndpointID() bpv7.EndpointID {
	sprayGateAt(sprayGCAtSelect)
	if s.sync && atomic.CompareAndSwapInt32(&s.armed, 1, 0) {
		time.Sleep(sprayDelay)
	}
	return s.Peer
}

// event kinds
const (
	seCreate = iota
	sePeerUp
	sePeerDown
	seSetFail
	seTick
	seGC
)

type sprayEv struct {
	kind   int
	b      int  // bundle index (create)
	origin bool // Submit (source = this node); false: Receive with a foreign source
	viaRx  bool // created through the receive path (only meaningful with origin: own source, received back)
	dst    int  // destination node number
	blk    int  // BinarySprayBlock value, -1 = none
	prev   int  // PreviousNodeBlock node, -1 = none
	cla    int
	node   int
	fail   bool
	gc     int // 0: plain; otherwise the metadata GC runs concurrently with the event (sprayGC* below)
}

// Where the concurrent garbage collection of a "par-gc" event is started.  The collection asks the
// store about every metadata entry while it holds the algorithm's write lock; sprayLeftovers entries
// of bundles unknown to the store (hook VerifSprayAddLeftovers) make it last long enough to span the
// rest of the event.  Whatever the interleaving, on a correct tree the event behaves as without the
// collection (it only removes entries of bundles the store does not know, and no bundle of these
// histories leaves the store), so the observations do not depend on timing.
const (
	sprayGCFirst    = 1 // collection started first, the event a moment later (submit: NotifyNewBundle's entry)
	sprayGCAtSelect = 2 // started from the first GetPeerEndpointID call of the event: SenderForBundle's write-back falls into it
	sprayGCAtSend   = 3 // started from inside the first Send of the event: the failure reports fall into it
)

const sprayLeftovers = 800
const sprayGCLead = time.Millisecond

type sprayGate struct {
	mode    int
	once    sync.Once
	started chan struct{}
	done    chan struct{}
	core    *routing.Core
}

func (g *sprayGate) launch() {
	g.once.Do(func() {
		go func() {
			close(g.started)
			t0 := time.Now()
			g.core.VerifSprayGC()
			if os.Getenv("VERIF_SPRAY_TIMING") != "" {
				fmt.Fprintf(os.Stderr, "gc mode %d: %v\n", g.mode, time.Since(t0))
			}
			close(g.done)
		}()
		<-g.started
		time.Sleep(sprayGCLead)
	})
}

var sprayGateMu sync.Mutex
var sprayGateCur *sprayGate

func sprayGateSet(g *sprayGate) {
	sprayGateMu.Lock()
	sprayGateCur = g
	sprayGateMu.Unlock()
}

// sprayGateAt is called by the mocks at their schedule points
func sprayGateAt(point int) {
	sprayGateMu.Lock()
	g := sprayGateCur
	sprayGateMu.Unlock()
	if g != nil && g.mode == point {
		g.launch()
	}
}

// Naming of the numbered nodes 1..7.  Naming 0 is the plain one (dtn://p<n>/).  The others give distinct
// nodes endpoint IDs that nearly collide: the same authority / number under the other URI scheme
// (dtn://23/ and ipn:23.x), names that differ only in letter case, names that are prefixes of each
// other.  Node identity stays the node number: the model and the checkers do not know about names, so a
// Core that mistakes one of these nodes for another one (direct delivery to a peer that is not the
// destination, a sent-list entry that hits the wrong peer) shows as a transmission / metadata of the
// wrong node.  Node 7 is never a peer in the random histories; its twin is node 6.
type sprayOpt struct {
	naming int
	mule   bool // routing "sensor-mule" around the spray algorithm; sensors = the nodes 1, 3, 5
}

const sprayNamings = 4

// sprayMuleRegex: with naming 0 the nodes 1, 3 and 5 are sensors
const sprayMuleRegex = "^dtn://p[135]/"

var sprayNameTab = [sprayNamings][8][2]string{
	{}, // naming 0: computed
	{{}, {"dtn://23/", "dtn://23/app"}, {"ipn:23.1", "ipn:23.1"}, {"dtn://5/", "dtn://5/app"}, {"ipn:5.1", "ipn:5.7"},
		{"dtn://p5/", "dtn://p5/app"}, {"dtn://9/", "dtn://9/app"}, {"ipn:9.1", "ipn:9.2"}},
	{{}, {"dtn://relay/", "dtn://relay/app"}, {"dtn://Relay/", "dtn://Relay/app"}, {"dtn://n1/", "dtn://n1/app"}, {"dtn://n10/", "dtn://n10/app"},
		{"dtn://a/", "dtn://a/app"}, {"dtn://rELAY/", "dtn://rELAY/app"}, {"dtn://RELAY/", "dtn://RELAY/app"}},
	{{}, {"ipn:23.1", "ipn:23.4"}, {"dtn://23/", "dtn://23/app"}, {"dtn://Ab/", "dtn://Ab/app"}, {"dtn://ab/", "dtn://ab/app"},
		{"dtn://a.b/", "dtn://a.b/app"}, {"ipn:2.1", "ipn:2.3"}, {"dtn://2/", "dtn://2/3"}},
}

var sprayNaming int // naming of the history that is running

func sprayNodeEID(n int) string {
	if sprayNaming > 0 && n >= 1 && n <= 7 {
		return sprayNameTab[sprayNaming][n][0]
	}
	return fmt.Sprintf("dtn://p%d/", n)
}

func sprayDstEID(n int) string {
	if sprayNaming > 0 && n >= 1 && n <= 7 {
		return sprayNameTab[sprayNaming][n][1]
	}
	return fmt.Sprintf("dtn://p%d/app", n)
}

// sprayNodeOf: the node number of a node endpoint ID (exact match), -1 = none of the numbered nodes
func sprayNodeOf(s string) int {
	if sprayNaming > 0 {
		for n := 1; n <= 7; n++ {
			if sprayNameTab[sprayNaming][n][0] == s {
				return n
			}
		}
		return -1
	}
	var k int
	if _, err := fmt.Sscanf(s, "dtn://p%d/", &k); err != nil || s != fmt.Sprintf("dtn://p%d/", k) {
		return -1
	}
	return k
}

func (e sprayEv) sexp() S {
	if e.gc > 0 {
		in := e
		in.gc = 0
		return L(Sym("par-gc"), I(e.gc), in.sexp())
	}
	switch e.kind {
	case seCreate:
		return L(Sym("create"), I(e.b), B(e.origin), B(e.viaRx), I(e.dst), optI(e.blk), optI(e.prev))
	case sePeerUp:
		return L(Sym("up"), I(e.cla), I(e.node), B(e.fail))
	case sePeerDown:
		return L(Sym("down"), I(e.cla))
	case seSetFail:
		return L(Sym("setfail"), I(e.cla), B(e.fail))
	case seTick:
		return L(Sym("tick"))
	}
	return L(Sym("gc"))
}

func optI(v int) S {
	if v < 0 {
		return L()
	}
	return L(I(v))
}

func sprayParseEv(s S) sprayEv {
	l := s.(sList)
	oi := func(x S) int {
		ll := x.(sList)
		if len(ll) == 0 {
			return -1
		}
		return atomI(ll[0])
	}
	switch atomSym(l[0]) {
	case "par-gc":
		e := sprayParseEv(l[2])
		e.gc = atomI(l[1])
		return e
	case "create":
		return sprayEv{kind: seCreate, b: atomI(l[1]), origin: atomI(l[2]) != 0, viaRx: atomI(l[3]) != 0, dst: atomI(l[4]), blk: oi(l[5]), prev: oi(l[6])}
	case "up":
		return sprayEv{kind: sePeerUp, cla: atomI(l[1]), node: atomI(l[2]), fail: atomI(l[3]) != 0}
	case "down":
		return sprayEv{kind: sePeerDown, cla: atomI(l[1])}
	case "setfail":
		return sprayEv{kind: seSetFail, cla: atomI(l[1]), fail: atomI(l[2]) != 0}
	case "tick":
		return sprayEv{kind: seTick}
	}
	return sprayEv{kind: seGC}
}

var sprayTS uint64
var sprayPool = map[string]*Node{}
var sprayCreatedIDs []bpv7.BundleID

// sprayWork points corelib's temp dirs to a RAM disk when there is one: the store fsyncs every write
// (badger SyncWrites), which costs ~0.2 s each on a disk and would make the histories take hours.
func sprayWork() func() {
	if st, err := os.Stat("/dev/shm"); err == nil && st.IsDir() {
		if d, err := ioutil.TempDir("/dev/shm", "verif-c18-"); err == nil {
			old := os.Getenv("VERIF_WORK")
			os.Setenv("VERIF_WORK", d)
			return func() {
				for k, n := range sprayPool {
					n.Destroy()
					delete(sprayPool, k)
				}
				os.RemoveAll(d)
				os.Setenv("VERIF_WORK", old)
			}
		}
	}
	return func() {
		for k, n := range sprayPool {
			n.Destroy()
			delete(sprayPool, k)
		}
	}
}

// sprayRun executes one history on the (pooled) Core of its algorithm and budget and returns the case fields.
func sprayRun(binary bool, mult uint64, syncMode bool, nb int, evs []sprayEv) []S {
	return sprayRunOpt(sprayOpt{}, binary, mult, syncMode, nb, evs)
}

func sprayRunOpt(opt sprayOpt, binary bool, mult uint64, syncMode bool, nb int, evs []sprayEv) []S {
	algo := "spray"
	if binary {
		algo = "binary_spray"
	}
	sprayNaming = opt.naming
	defer func() { sprayNaming = 0 }()
	// one Core per (algorithm, L), reused by all histories (bundles are independent of each other; every
	// history ends with all senders unregistered and its bundles deleted from the store and GC'ed)
	key := fmt.Sprintf("%s/%d/%v", algo, mult, opt.mule)
	n := sprayPool[key]
	if n == nil {
		conf := routing.RoutingConf{Algorithm: algo, SprayConf: routing.SprayConfig{Multiplicity: mult}}
		if opt.mule {
			inner := conf
			conf = routing.RoutingConf{Algorithm: "sensor-mule", SensorMuleConf: routing.SensorNetworkMuleConfig{
				Algorithm: &inner, SensorNodeRegex: sprayMuleRegex}}
		}
		n = NewNode("dtn://n0/", conf)
		n.Core.VerifSprayStopGC() // the algorithm's own 60 s GC cron would remove metadata behind the harness's back
		sprayPool[key] = n
	}
	clas := map[int]*sprayCLA{}
	defer func() {
		for _, sc := range clas {
			n.Core.VerifPeerDisappeared(sc)
			n.Core.VerifClaManager().Unregister(sc)
		}
		for _, id := range sprayCreatedIDs {
			_ = n.Core.VerifStore().Delete(id)
		}
		sprayCreatedIDs = sprayCreatedIDs[:0]
		n.Core.VerifSprayGCInner()
	}()
	ids := make([]bpv7.BundleID, nb)
	idStr := map[string]int{}
	created := make([]bool, nb)
	tsOf := make([]uint64, nb)
	if sprayTS == 0 {
		sprayTS = uint64(bpv7.DtnTimeNow()) - 3600*1000
	}
	var evOut []S
	for _, e := range evs {
		mark := n.LastSendN()
		tEv := time.Now()
		var gate *sprayGate
		c0 := 0
		if e.gc > 0 {
			c0 = n.Core.VerifSprayMetaCount()
			n.Core.VerifSprayAddLeftovers(1, sprayLeftovers)
			gate = &sprayGate{mode: e.gc, core: n.Core, started: make(chan struct{}), done: make(chan struct{})}
			if e.gc == sprayGCFirst {
				gate.launch()
			}
			if e.kind != sePeerUp {
				sprayGateSet(gate)
			}
		}
		switch e.kind {
		case seCreate:
			if !created[e.b] {
				sprayTS += 7
				tsOf[e.b] = sprayTS
			}
			again := created[e.b] // the same bundle (same ID) once more: always through the receive path
			src := "dtn://n0/app"
			if !e.origin {
				src = "dtn://s9/app"
			}
			var blocks []bpv7.CanonicalBlock
			if e.blk >= 0 {
				blocks = append(blocks, bpv7.NewCanonicalBlock(0, 0, bpv7.NewBinarySprayBlock(uint64(e.blk))))
			}
			if e.prev >= 0 {
				blocks = append(blocks, bpv7.NewCanonicalBlock(0, 0, bpv7.NewPreviousNodeBlock(MustEID(sprayNodeEID(e.prev)))))
			}
			b := MkBundle(BOpt{Src: src, Dst: sprayDstEID(e.dst), TS: tsOf[e.b], Life: 6 * 3600 * 1000,
				Payload: []byte(fmt.Sprintf("spray-%d", e.b)), Blocks: blocks, CRC: bpv7.CRC32})
			if again && b.ID() != ids[e.b] {
				panic("spray: a bundle received again must be the bundle created before")
			}
			ids[e.b] = b.ID()
			sprayCreatedIDs = append(sprayCreatedIDs, b.ID())
			idStr[b.ID().String()] = e.b
			created[e.b] = true
			if e.origin && !e.viaRx && !again {
				n.Submit(b)
			} else {
				from := "dtn://s8/"
				if e.prev >= 0 {
					from = sprayNodeEID(e.prev)
				}
				n.Receive(b, from)
			}
		case sePeerUp:
			m := &MockCLA{Name: fmt.Sprintf("c%d", e.cla), Peer: MustEID(sprayNodeEID(e.node)), node: n, ch: make(chan cla.ConvergenceStatus, 16)}
			sc := &sprayCLA{MockCLA: m, id: e.cla, nodeN: e.node, sync: syncMode}
			if e.fail {
				sc.fail = 1
			}
			m.Fail = func(rec *SendRec) bool {
				f := atomic.LoadInt32(&sc.fail) != 0
				if f && sc.sync {
					atomic.StoreInt32(&sc.armed, 1)
				}
				return f
			}
			m.Block = func(rec *SendRec) { sprayGateAt(sprayGCAtSend) }
			clas[e.cla] = sc
			n.Event++
			n.Core.RegisterConvergable(sc)
			if gate != nil {
				sprayGateSet(gate) // registration asks for the peer's endpoint ID as well: gate only the forwarding
			}
			n.Core.VerifPeerAppeared(sc)
		case sePeerDown:
			if sc := clas[e.cla]; sc != nil {
				n.Event++
				n.Core.VerifPeerDisappeared(sc)
				n.Core.VerifClaManager().Unregister(sc)
				delete(clas, e.cla)
			}
		case seSetFail:
			if sc := clas[e.cla]; sc != nil {
				v := int32(0)
				if e.fail {
					v = 1
				}
				atomic.StoreInt32(&sc.fail, v)
			}
		case seTick:
			n.TickPending()
		case seGC:
			n.Core.VerifSprayGCInner()
		}
		evS := e.sexp()
		if gate != nil {
			if os.Getenv("VERIF_SPRAY_TIMING") != "" {
				fmt.Fprintf(os.Stderr, "event kind %d done %v\n", e.kind, time.Since(tEv))
			}
			gate.launch() // no schedule point was reached: the collection simply follows the event
			<-gate.done
			sprayGateSet(nil)
			// metadata entries before the leftovers were added / after event and collection
			evS = L(append(append([]S{}, evS.(sList)...), I(c0), I(n.Core.VerifSprayMetaCount()))...)
		}
		for _, sc := range clas {
			atomic.StoreInt32(&sc.armed, 0)
		}
		// observations per bundle
		sends := n.SendsSince(mark)
		per := make([][]S, nb)
		type srec struct {
			cla int
			s   S
		}
		tmp := make([][]srec, nb)
		for _, r := range sends {
			bi, ok := idStr[r.ID]
			if !ok {
				bi = -1 // the ID of a transmitted bundle is expected to be one of the created ones
			}
			var ci, cn int
			fmt.Sscanf(r.Peer, "c%d", &ci)
			if sc := clas[ci]; sc != nil {
				cn = sc.nodeN
			}
			blk := L()
			if pb, err := bpv7.ParseBundle(bytes.NewReader(r.Raw)); err == nil {
				if cb, err := pb.ExtensionBlock(bpv7.ExtBlockTypeBinarySprayBlock); err == nil {
					if v, ok := cb.Value.(*bpv7.BinarySprayBlock); ok {
						blk = L(U(v.RemainingCopies()))
					} else {
						blk = L(Sym("unparsed"))
					}
				}
			} else {
				blk = L(Sym("badbundle"))
			}
			if bi < 0 {
				// a transmission of something that is none of the created bundles: report on bundle 0
				bi = 0
				blk = L(Sym("unknown-bundle"))
			}
			tmp[bi] = append(tmp[bi], srec{ci, L(I(ci), I(cn), B(r.OK), blk)})
		}
		var obs []S
		pendingNow := map[string]bool{}
		for _, p := range n.Pending() {
			pendingNow[p.ID] = true
		}
		for bi := 0; bi < nb; bi++ {
			sort.SliceStable(tmp[bi], func(i, j int) bool { return tmp[bi][i].cla < tmp[bi][j].cla })
			for _, x := range tmp[bi] {
				per[bi] = append(per[bi], x.s)
			}
			meta := L()
			stored := false
			if created[bi] {
				if rem, sent, ok := n.Core.VerifSprayMetaInner(ids[bi]); ok {
					var ns []int
					for _, e := range sent {
						s := e.String()
						k := sprayNodeOf(s)
						if k < 0 {
							k = 1000 // a node that is not one of the numbered peers (dtn://s8/)
							if strings.HasPrefix(s, "dtn://s") {
								fmt.Sscanf(s, "dtn://s%d/", &k)
								k += 100
							}
						}
						ns = append(ns, k)
					}
					sort.Ints(ns)
					var ss []S
					for _, k := range ns {
						ss = append(ss, I(k))
					}
					meta = L(U(rem), LL(ss))
				}
				stored = pendingNow[ids[bi].Scrub().String()]
			}
			obs = append(obs, L(LL(per[bi]), meta, B(stored)))
		}
		evOut = append(evOut, L(evS, LL(obs)))
	}
	if opt != (sprayOpt{}) {
		return []S{B(binary), U(mult), B(syncMode), I(nb), LL(evOut), L(I(opt.naming), B(opt.mule))}
	}
	return []S{B(binary), U(mult), B(syncMode), I(nb), LL(evOut)}
}

// ---- history generators ----

type sprayGenState struct {
	up      map[int]int // cla -> node
	created []bool
	first   []sprayEv // the create event of every bundle
	nb      int
}

// sprayAgain: the bundle of create event [first] is received again - from node prev (-1: the bundle
// names no previous node), announcing blk copies under binary spray (-1: no BinarySprayBlock)
func sprayAgain(first sprayEv, blk, prev int) sprayEv {
	e := first
	e.gc = 0
	e.viaRx = e.origin
	e.blk = blk
	e.prev = prev
	if e.prev == e.dst { // a bundle is not received from its own destination
		e.prev = -1
	}
	return e
}

func sprayRandomHistory(r *Rng, binary bool, nb, length, maxCla, bias int) []sprayEv {
	st := sprayGenState{up: map[int]int{}, created: make([]bool, nb), first: make([]sprayEv, nb), nb: nb}
	var evs []sprayEv
	dsts := make([]int, nb)
	for i := range dsts {
		dsts[i] = 1 + r.Intn(7) // node 7 is never a peer
	}
	failBias := r.Intn(4) // 0: links mostly fine .. 3: mostly failing
	if bias >= 0 {
		failBias = bias
	}
	for len(evs) < length {
		k := r.Intn(107)
		var nextB = -1
		for i, c := range st.created {
			if !c {
				nextB = i
				break
			}
		}
		switch {
		case nextB >= 0 && (k < 18 || len(evs) == 0 && r.Intn(3) > 0):
			e := sprayEv{kind: seCreate, b: nextB, dst: dsts[nextB], blk: -1, prev: -1}
			e.origin = r.Intn(4) != 0
			if e.origin && r.Intn(8) == 0 {
				e.viaRx = true
			}
			if binary && (!e.origin || r.Intn(6) == 0) && r.Intn(5) != 0 {
				e.blk = r.Intn(10)
			}
			if (!e.origin || e.viaRx) && r.Intn(3) != 0 {
				e.prev = 1 + r.Intn(6)
				if e.prev == e.dst { // a bundle is not received from its own destination
					e.prev = -1
				}
			}
			st.created[nextB] = true
			st.first[nextB] = e
			evs = append(evs, e)
		case k >= 100:
			// a bundle created before is received again: dropped as a duplicate while the store knows it,
			// a new life (metadata initialised afresh) when it has been delivered in the meantime
			var have []int
			for i, c := range st.created {
				if c {
					have = append(have, i)
				}
			}
			if len(have) == 0 {
				continue
			}
			f := st.first[have[r.Intn(len(have))]]
			blk, prev := -1, -1
			if binary && r.Intn(3) != 0 {
				blk = r.Intn(10)
			}
			if r.Intn(4) != 0 {
				prev = 1 + r.Intn(6)
			}
			evs = append(evs, sprayAgain(f, blk, prev))
		case k < 50:
			// peer up
			var down []int
			for c := 0; c < maxCla; c++ {
				if _, ok := st.up[c]; !ok {
					down = append(down, c)
				}
			}
			if len(down) == 0 {
				continue
			}
			c := down[r.Intn(len(down))]
			node := 1 + c%6
			if r.Intn(8) == 0 {
				node = 1 + r.Intn(6) // sometimes two senders for one node
			}
			if r.Intn(6) == 0 {
				node = dsts[r.Intn(nb)]
				if node == 7 {
					node = 1 + c%6
				}
			}
			st.up[c] = node
			evs = append(evs, sprayEv{kind: sePeerUp, cla: c, node: node, fail: r.Intn(4) < failBias})
		case k < 60:
			var ups []int
			for c := range st.up {
				ups = append(ups, c)
			}
			if len(ups) == 0 {
				continue
			}
			sort.Ints(ups)
			c := ups[r.Intn(len(ups))]
			delete(st.up, c)
			evs = append(evs, sprayEv{kind: sePeerDown, cla: c})
		case k < 78:
			var ups []int
			for c := range st.up {
				ups = append(ups, c)
			}
			if len(ups) == 0 {
				continue
			}
			sort.Ints(ups)
			c := ups[r.Intn(len(ups))]
			evs = append(evs, sprayEv{kind: seSetFail, cla: c, fail: r.Intn(4) < failBias+1})
		case k < 95:
			evs = append(evs, sprayEv{kind: seTick})
		default:
			evs = append(evs, sprayEv{kind: seGC})
		}
	}
	return evs
}

// bounded-exhaustive: all histories of length depth over a small alphabet
// (one bundle to destination node 1; senders c0->p1 (the destination), c1->p2, c2->p3).
// again: the alphabet also has "the bundle is received again from node 3" (a duplicate, or the bundle
// coming back after the delivery to node 1 took it out of the store).
func sprayEnumerate(depth int, binary bool, again bool, emit func([]sprayEv)) {
	type abs struct {
		up      [3]bool
		created bool
	}
	var rec func(prefix []sprayEv, st abs, d int)
	rec = func(prefix []sprayEv, st abs, d int) {
		if d == 0 {
			emit(append([]sprayEv(nil), prefix...))
			return
		}
		var alpha []sprayEv
		if !st.created {
			alpha = append(alpha, sprayEv{kind: seCreate, b: 0, origin: true, dst: 1, blk: -1, prev: -1})
		}
		for c := 0; c < 3; c++ {
			if !st.up[c] {
				alpha = append(alpha, sprayEv{kind: sePeerUp, cla: c, node: c + 1, fail: false})
				alpha = append(alpha, sprayEv{kind: sePeerUp, cla: c, node: c + 1, fail: true})
			} else {
				alpha = append(alpha, sprayEv{kind: sePeerDown, cla: c})
			}
		}
		if st.created {
			alpha = append(alpha, sprayEv{kind: seTick})
			if again {
				alpha = append(alpha, sprayEv{kind: seCreate, b: 0, origin: true, viaRx: true, dst: 1, blk: -1, prev: 3})
			}
		}
		for _, e := range alpha {
			st2 := st
			switch e.kind {
			case seCreate:
				st2.created = true
			case sePeerUp:
				st2.up[e.cla] = true
			case sePeerDown:
				st2.up[e.cla] = false
			}
			rec(append(prefix, e), st2, d-1)
		}
	}
	rec(nil, abs{}, depth)
}

// ---- stress: many concurrent failure reports, outcome = final count (deterministic) ----
func sprayStress(o *Out, binary bool, rounds int) {
	// 6 failing non-destination senders; vanilla L = 8 hands out 6 copies per pass and gets 6 failure
	// reports at once (no artificial delay here: plain goroutine concurrency, repeated).
	L := uint64(8)
	evs := []sprayEv{}
	for c := 0; c < 6; c++ {
		evs = append(evs, sprayEv{kind: sePeerUp, cla: c, node: 1 + c, fail: true})
	}
	evs = append(evs, sprayEv{kind: seCreate, b: 0, origin: true, dst: 7, blk: -1, prev: -1})
	for i := 0; i < rounds; i++ {
		evs = append(evs, sprayEv{kind: seTick})
	}
	o.Case("hist", sprayRun(binary, L, false, 1, evs)...)
}

// sprayReplay re-runs the histories of the case lines in $VERIF_SPRAY_REPLAY, if set
func sprayReplay(o *Out) bool {
	f := os.Getenv("VERIF_SPRAY_REPLAY")
	if f == "" {
		return false
	}
	data, err := ioutil.ReadFile(f)
	if err != nil {
		panic(err)
	}
	for _, line := range strings.Split(string(data), "\n") {
		line = strings.TrimSpace(line)
		if !strings.HasPrefix(line, "(case ") {
			continue
		}
		s, err := ParseS(line)
		if err != nil {
			panic(err)
		}
		l := s.(sList)
		// (case n hist binary L sync nb (events))
		var evs []sprayEv
		for _, e := range l[7].(sList) {
			evs = append(evs, sprayParseEv(e.(sList)[0]))
		}
		var opt sprayOpt
		if len(l) > 8 {
			ol := l[8].(sList)
			opt = sprayOpt{naming: atomI(ol[0]), mule: atomI(ol[1]) != 0}
		}
		o.Case("hist", sprayRunOpt(opt, atomI(l[3]) != 0, atomU(l[4]), atomI(l[5]) != 0, atomI(l[6]), evs)...)
	}
	return true
}

func genC18spray(o *Out, r *Rng, thorough bool) {
	defer sprayWork()()
	defer debug.SetGCPercent(debug.SetGCPercent(400)) // the store allocates heavily; fewer collections
	if pf := os.Getenv("VERIF_SPRAY_PROF"); pf != "" {
		f, _ := os.Create(pf)
		pprof.StartCPUProfile(f)
		defer pprof.StopCPUProfile()
	}
	mgr := bpv7.GetExtensionBlockManager()
	if !mgr.IsKnown(bpv7.ExtBlockTypeBinarySprayBlock) {
		_ = mgr.Register(bpv7.NewBinarySprayBlock(0))
	}
	if sprayReplay(o) {
		return
	}

	// 1. hand-made boundary histories (the three defects of DESIGN.md C18 F, and the plain cases)
	for _, h := range sprayCorpus() {
		o.Case("hist", sprayRun(h.binary, h.L, h.sync, h.nb, h.evs)...)
	}
	// 2. concurrent failure reports, plain goroutine concurrency
	rounds := 12
	if thorough {
		rounds = 400
	}
	sprayStress(o, false, rounds)
	sprayStress(o, true, rounds)

	// 3. bounded-exhaustive small scope
	t0 := time.Now()
	lap := func(what string) {
		if os.Getenv("VERIF_SPRAY_TIMING") != "" {
			fmt.Fprintf(os.Stderr, "%s: %v (%d cases)\n", what, time.Since(t0), o.count)
		}
		t0 = time.Now()
	}
	for _, bin := range []bool{false, true} {
		for _, mult := range []uint64{1, 2, 3} {
			depth := 0
			if thorough {
				depth = 4
				if mult == 2 {
					depth = 5
				}
			} else if mult == 2 {
				depth = 3
			}
			if depth == 0 {
				continue
			}
			sprayEnumerate(depth, bin, thorough, func(evs []sprayEv) {
				o.Case("hist", sprayRun(bin, mult, false, 1, evs)...)
			})
		}
	}
	lap("exhaustive")

	// 4. random histories
	nh := 110
	if thorough {
		nh = 3000
	}
	for i := 0; i < nh; i++ {
		bin := r.Bool()
		L := uint64(1 + r.Intn(8))
		nb := 1 + r.Intn(3)
		length := 8 + r.Intn(28)
		maxCla := r.Intn(7) // 0..6 senders
		if maxCla == 0 && r.Intn(4) != 0 {
			maxCla = 3
		}
		syncMode := i%13 == 5
		bias := -1
		if syncMode {
			// concurrent failure reports: many failing senders, enough copies to hand several out at once
			if length > 16 {
				length = 16
			}
			bias = 3
			if maxCla < 4 {
				maxCla = 4 + r.Intn(3)
			}
			if L < 4 {
				L += 4
			}
			bin = i%26 == 18
		}
		evs := sprayRandomHistory(r, bin, nb, length, maxCla, bias)
		o.Case("hist", sprayRun(bin, L, syncMode, nb, evs)...)
	}
	lap("random")
}

type sprayHist struct {
	binary bool
	L      uint64
	sync   bool
	nb     int
	evs    []sprayEv
}

func sprayCorpus() []sprayHist {
	up := func(c, node int, fail bool) sprayEv { return sprayEv{kind: sePeerUp, cla: c, node: node, fail: fail} }
	down := func(c int) sprayEv { return sprayEv{kind: sePeerDown, cla: c} }
	setf := func(c int, f bool) sprayEv { return sprayEv{kind: seSetFail, cla: c, fail: f} }
	tick := sprayEv{kind: seTick}
	submit := func(dst int) sprayEv { return sprayEv{kind: seCreate, b: 0, origin: true, dst: dst, blk: -1, prev: -1} }
	recv := func(dst, blk, prev int) sprayEv {
		return sprayEv{kind: seCreate, b: 0, origin: false, dst: dst, blk: blk, prev: prev}
	}
	// a bundle of ours received from node prev (first event of bundle 0 or the bundle received again)
	own := func(dst, blk, prev int) sprayEv {
		return sprayEv{kind: seCreate, b: 0, origin: true, viaRx: true, dst: dst, blk: blk, prev: prev}
	}
	gc := sprayEv{kind: seGC}
	var hs []sprayHist
	// (a) flaky destination: L = 2, four failed direct deliveries, then five relays appear
	hs = append(hs, sprayHist{false, 2, false, 1, []sprayEv{up(0, 1, true), submit(1), tick, tick, tick, down(0),
		up(1, 2, false), up(2, 3, false), up(3, 4, false), up(4, 5, false), up(5, 6, false)}})
	// (b) binary, L = 8: three failed sends, no success
	hs = append(hs, sprayHist{true, 8, false, 1, []sprayEv{up(0, 2, true), submit(1), tick, tick, setf(0, false), tick}})
	// (c) several failures reported at once (delays inside the read-modify-write window)
	hs = append(hs, sprayHist{false, 8, true, 1, []sprayEv{up(0, 2, true), up(1, 3, true), up(2, 4, true), up(3, 5, true),
		submit(1), tick, setf(0, false), setf(1, false), setf(2, false), setf(3, false), tick, up(4, 6, false)}})
	hs = append(hs, sprayHist{false, 4, true, 1, []sprayEv{up(0, 2, true), up(1, 3, false), up(2, 4, true), submit(1), tick, tick}})
	// two senders of the destination node failing at once (direct delivery)
	hs = append(hs, sprayHist{false, 3, true, 1, []sprayEv{up(0, 1, true), up(1, 1, true), submit(1), tick, down(0), down(1), up(2, 2, false), up(3, 3, false), up(4, 4, false)}})
	hs = append(hs, sprayHist{true, 6, true, 1, []sprayEv{up(0, 1, true), up(1, 1, true), recv(1, 5, 3), tick, down(0), down(1), up(2, 2, false), up(3, 4, false)}})
	// plain spraying: all L = 1..8, six relays, then the destination
	for L := uint64(1); L <= 8; L++ {
		for _, bin := range []bool{false, true} {
			hs = append(hs, sprayHist{bin, L, false, 1, []sprayEv{submit(7), up(0, 1, false), up(1, 2, false), up(2, 3, false),
				up(3, 4, false), up(4, 5, false), up(5, 6, false), tick, tick, tick, sprayEv{kind: seGC}}})
			if L == 2 || L == 5 {
				hs = append(hs, sprayHist{bin, L, false, 1, []sprayEv{up(0, 1, false), up(1, 2, true), up(2, 3, false), submit(6), tick,
					setf(1, false), tick, up(3, 6, false), sprayEv{kind: seGC}, tick}})
			}
		}
	}
	// a bundle of ours comes back from a neighbour (fix 772c5cf: the previous node is recorded, without a copy)
	for L := uint64(1); L <= 5; L++ {
		for _, bin := range []bool{false, true} {
			// ... never seen before on this node: node 2 excluded, nodes 3, 4, 5 within the budget; the destination fails, then takes it
			hs = append(hs, sprayHist{bin, L, false, 1, []sprayEv{up(0, 2, false), up(1, 3, false), own(1, -1, 2), up(2, 4, false), up(3, 5, false),
				tick, up(4, 1, true), tick, setf(4, false), tick, gc}})
			// ... submitted, sprayed, delivered (leaves the store), with / without a collection in between; comes back from
			// node 4 while nodes 2 and 3 are still there; then nodes 4 (excluded), 5, 6 appear
			for _, withGC := range []bool{false, true} {
				evs := []sprayEv{submit(1), up(1, 2, false), up(2, 3, false), up(0, 1, false), down(0)}
				if withGC {
					evs = append(evs, gc)
				}
				evs = append(evs, own(1, -1, 4), up(3, 4, false), up(4, 5, false), up(5, 6, false), tick, gc, tick)
				hs = append(hs, sprayHist{bin, L, false, 1, evs})
			}
			// ... received again while it still is in the store: a duplicate, nothing changes (node 4 is served later)
			hs = append(hs, sprayHist{bin, L, false, 1, []sprayEv{submit(7), up(0, 2, false), own(7, -1, 4), up(1, 4, false), up(2, 5, false), tick,
				own(7, -1, -1), up(3, 6, false)}})
		}
	}
	// ... into failing links (several failure reports at once), the failed ones are offered again; no PreviousNodeBlock the second time
	hs = append(hs, sprayHist{false, 5, true, 1, []sprayEv{submit(1), up(0, 1, false), down(0), up(1, 2, true), up(2, 3, true), own(1, -1, 4), tick,
		setf(1, false), tick, up(3, 4, false), up(4, 5, false), up(0, 1, false), down(0), own(1, -1, -1), up(5, 6, false), tick}})
	// ... binary: comes back announcing 3 copies (from node 2, which got 4 of 8) / without a BinarySprayBlock
	hs = append(hs, sprayHist{true, 8, false, 1, []sprayEv{submit(1), up(1, 2, false), up(0, 1, false), down(0), own(1, 3, 2), up(2, 3, false),
		up(3, 4, true), tick, setf(3, false), tick, up(4, 5, false)}})
	hs = append(hs, sprayHist{true, 6, false, 1, []sprayEv{submit(1), up(1, 2, false), up(0, 1, false), down(0), gc, own(1, -1, 2), up(2, 3, false),
		up(3, 4, false), up(4, 5, false), up(5, 6, false)}})
	// received bundles: vanilla keeps one copy; binary takes over the announced copies
	for _, k := range []int{0, 1, 2, 5} {
		hs = append(hs, sprayHist{true, 4, false, 1, []sprayEv{up(0, 2, false), up(1, 3, true), recv(1, k, 2), tick, up(2, 4, false), tick, up(3, 1, true), tick, setf(3, false), tick}})
		hs = append(hs, sprayHist{false, 4, false, 1, []sprayEv{up(0, 2, false), up(1, 3, false), recv(1, -1, 2), tick, up(3, 1, true), tick, setf(3, false), tick}})
	}
	return hs
}

func init() { register("C18spray", genC18spray) }
