package main

// C17 / C04, TCPCLv4 message codec: the real contact header, the seven message types and ReadMessage
// of pkg/cla/tcpclv4/internal/msgs, driven through the re-exports of
// pkg/cla/tcpclv4/verif_export_tcpclmsg.go (+ the XFER_* ones of verif_export_tcpcl.go).
//
//   C17tcpclmsg  kinds rt (value -> Marshal -> ReadMessage), code (raw bytes with one code octet swept over
//                0..255), valid (the three IsValid predicates), stream (concatenations read back from one reader)
//   C04tcpclmsg  kind dec: hostile inputs (truncations, length fields overwritten, mutations), each decoded
//                in a child process with an address-space limit and a watchdog; observable = class
//                ok|err|panic|oom|crash|timeout, decoded value, bytes left, runtime.MemStats.TotalAlloc delta.

import (
	"bufio"
	"bytes"
	"encoding/binary"
	"encoding/hex"
	"encoding/json"
	"fmt"
	"io"
	"os"
	"os/exec"
	"runtime"
	"runtime/debug"
	"strconv"
	"strings"
	"sync"
	"syscall"
	"time"

	tc "github.com/dtn7/dtn7-go/pkg/cla/tcpclv4"
)

// ---------------------------------------------------------------------------------------------
// values

// tmsgV is a message value as the harness generates it (kind + numeric fields + one byte field).
type tmsgV struct {
	kind    string // contact sess_init sess_term xfer_segment xfer_ack xfer_refuse keepalive msg_reject
	a, b, c uint64
	data    []byte
}

func (v tmsgV) S() S {
	switch v.kind {
	case "contact":
		return L(Sym(v.kind), U(v.a))
	case "sess_init":
		return L(Sym(v.kind), U(v.a), U(v.b), U(v.c), X(v.data))
	case "sess_term", "msg_reject", "xfer_refuse":
		return L(Sym(v.kind), U(v.a), U(v.b))
	case "xfer_segment":
		return L(Sym(v.kind), U(v.a), U(v.b), X(v.data))
	case "xfer_ack":
		return L(Sym(v.kind), U(v.a), U(v.b), U(v.c))
	default:
		return L(Sym("keepalive"))
	}
}

// build makes the real message through its constructor.
func (v tmsgV) build() tc.VerifMessage {
	switch v.kind {
	case "contact":
		return tc.VerifNewContactHeader(tc.VerifContactFlags(v.a))
	case "sess_init":
		return tc.VerifNewSessInit(uint16(v.a), v.b, v.c, string(v.data))
	case "sess_term":
		return tc.VerifNewSessTerm(tc.VerifSessTermFlags(v.a), tc.VerifSessTermCode(v.b))
	case "xfer_segment":
		return tc.VerifNewXferSegment(tc.VerifSegmentFlags(v.a), v.b, v.data)
	case "xfer_ack":
		return tc.VerifNewXferAck(tc.VerifSegmentFlags(v.a), v.b, v.c)
	case "xfer_refuse":
		return tc.VerifNewXferRefuse(tc.VerifRefusalCode(v.a), v.b)
	case "msg_reject":
		return tc.VerifNewMsgReject(tc.VerifMsgRejectReason(v.a), uint8(v.b))
	default:
		return tc.VerifNewKeepalive()
	}
}

// tmsgObs projects a decoded message to the same S-expression shape.
func tmsgObs(m tc.VerifMessage) S {
	switch x := m.(type) {
	case *tc.VerifContactHeader:
		return L(Sym("contact"), U(uint64(x.Flags)))
	case *tc.VerifSessInit:
		return L(Sym("sess_init"), U(uint64(x.KeepaliveInterval)), U(x.SegmentMru), U(x.TransferMru), Str(x.NodeId))
	case *tc.VerifSessTerm:
		return L(Sym("sess_term"), U(uint64(x.Flags)), U(uint64(x.ReasonCode)))
	case *tc.VerifXferSegment:
		return L(Sym("xfer_segment"), U(uint64(x.Flags)), U(x.TransferId), X(x.Data))
	case *tc.VerifXferAck:
		return L(Sym("xfer_ack"), U(uint64(x.Flags)), U(x.TransferId), U(x.AckLen))
	case *tc.VerifXferRefuse:
		return L(Sym("xfer_refuse"), U(uint64(x.ReasonCode)), U(x.TransferId))
	case *tc.VerifKeepalive:
		return L(Sym("keepalive"))
	case *tc.VerifMsgReject:
		return L(Sym("msg_reject"), U(uint64(x.ReasonCode)), U(uint64(x.MessageHeader)))
	}
	return L(Sym("unknown"))
}

func tmsgMarshal(m tc.VerifMessage) (bs []byte, ok bool) {
	defer func() {
		if e := recover(); e != nil {
			bs, ok = nil, false
		}
	}()
	var buf bytes.Buffer
	if err := m.Marshal(&buf); err != nil {
		return nil, false
	}
	return buf.Bytes(), true
}

// tmsgRead calls the real ReadMessage once on a reader over bs: (ok value left) | (err) | (panic).
func tmsgRead(bs []byte) (res S) {
	defer func() {
		if e := recover(); e != nil {
			res = L(Sym("panic"))
		}
	}()
	rd := bytes.NewReader(bs)
	m, err := tc.VerifReadMessage(rd)
	if err != nil {
		return L(Sym("err"))
	}
	return L(Sym("ok"), tmsgObs(m), I(rd.Len()))
}

// tmsgUnmarshal calls Unmarshal of a fresh message of the type of the first octet (NewMessage).
func tmsgUnmarshal(bs []byte) (res S) {
	defer func() {
		if e := recover(); e != nil {
			res = L(Sym("panic"))
		}
	}()
	if len(bs) == 0 {
		return L(Sym("err"))
	}
	m, err := tc.VerifNewMessage(bs[0])
	if err != nil {
		return L(Sym("err"))
	}
	rd := bytes.NewReader(bs)
	if err := m.Unmarshal(rd); err != nil {
		return L(Sym("err"))
	}
	return L(Sym("ok"), tmsgObs(m), I(rd.Len()))
}

// tmsgStream reads messages with ReadMessage until the reader is exhausted or a call fails
// (utils.MessageSwitchReaderWriter.handleIn does the same on a bufio.Reader over the connection).
func tmsgStream(bs []byte, buffered bool) (msgs []S, end string, left int) {
	defer func() {
		if e := recover(); e != nil {
			end = "panic"
		}
	}()
	under := bytes.NewReader(bs)
	var rd io.Reader = under
	var br *bufio.Reader
	if buffered {
		br = bufio.NewReader(under)
		rd = br
	}
	remaining := func() int {
		if br != nil {
			return br.Buffered() + under.Len()
		}
		return under.Len()
	}
	for remaining() > 0 {
		m, err := tc.VerifReadMessage(rd)
		if err != nil {
			return msgs, "err", remaining()
		}
		msgs = append(msgs, tmsgObs(m))
	}
	// at the end of the stream the next call reports io.EOF
	if _, err := tc.VerifReadMessage(rd); err != io.EOF {
		return msgs, "err", remaining()
	}
	return msgs, "eof", 0
}

// ---------------------------------------------------------------------------------------------
// value generators

var tmsgU8 = []uint64{0, 1, 255}
var tmsgU16 = []uint64{0, 1, 65535}
var tmsgU64 = []uint64{0, 1, 1<<64 - 1}

func tmsgBoundaryValues(r *Rng, thorough bool) []tmsgV {
	var vs []tmsgV
	for f := 0; f < 256; f++ {
		vs = append(vs, tmsgV{kind: "contact", a: uint64(f)})
	}
	lens := []int{0, 1, 255, 256}
	for i, k := range tmsgU16 {
		for _, s := range tmsgU64 {
			for _, t := range tmsgU64 {
				for _, l := range lens {
					vs = append(vs, tmsgV{kind: "sess_init", a: k, b: s, c: t, data: r.Bytes(l)})
				}
				if thorough {
					vs = append(vs, tmsgV{kind: "sess_init", a: k, b: s, c: t, data: r.Bytes(65535)})
				}
			}
		}
		// the longest node id the length field can express
		vs = append(vs, tmsgV{kind: "sess_init", a: k, b: tmsgU64[i], c: tmsgU64[2-i], data: r.Bytes(65535)})
		vs = append(vs, tmsgV{kind: "sess_init", a: k, b: tmsgU64[i], c: tmsgU64[2-i], data: r.Bytes(65534)})
	}
	// beyond the encoder's silent limit: the length field wraps to l-65536, the decoder then takes the
	// four bytes at that offset of the node id as the extension length (kept small here: this runs
	// in-process)
	for _, l := range []int{65536, 65537, 65536 + 300} {
		for _, head := range [][]byte{{0, 0, 0, 0}, {0, 0, 0, 200}, {0, 1, 0, 0}, {0, 1, 1, 0}} {
			d := r.Bytes(l)
			copy(d[l-65536:], head)
			vs = append(vs, tmsgV{kind: "sess_init", a: 30, b: 1 << 20, c: 1 << 30, data: d})
		}
	}
	for _, f := range tmsgU8 {
		for c := 0; c < 256; c++ {
			vs = append(vs, tmsgV{kind: "sess_term", a: f, b: uint64(c)})
		}
	}
	seglens := []int{0, 1, 255, 256}
	if thorough {
		seglens = append(seglens, 65535, 65536)
	}
	for _, f := range []uint64{0, 1, 2, 3, 255} {
		for _, t := range tmsgU64 {
			for _, l := range seglens {
				vs = append(vs, tmsgV{kind: "xfer_segment", a: f, b: t, data: r.Bytes(l)})
			}
		}
	}
	for i, l := range []int{65535, 65536, 65537} {
		vs = append(vs, tmsgV{kind: "xfer_segment", a: uint64(i), b: tmsgU64[i], data: r.Bytes(l)})
	}
	if thorough {
		vs = append(vs, tmsgV{kind: "xfer_segment", a: 3, b: 1, data: r.Bytes(1 << 20)})
		vs = append(vs, tmsgV{kind: "xfer_segment", a: 3, b: 1, data: r.Bytes(1<<20 + 1)})
	}
	for _, f := range tmsgU8 {
		for _, t := range tmsgU64 {
			for _, l := range tmsgU64 {
				vs = append(vs, tmsgV{kind: "xfer_ack", a: f, b: t, c: l})
			}
		}
	}
	for c := 0; c < 256; c++ {
		for _, t := range tmsgU64 {
			vs = append(vs, tmsgV{kind: "xfer_refuse", a: uint64(c), b: t})
		}
	}
	vs = append(vs, tmsgV{kind: "keepalive"})
	hs := tmsgU8
	if thorough {
		hs = nil
		for h := 0; h < 256; h++ {
			hs = append(hs, uint64(h))
		}
	}
	for c := 0; c < 256; c++ {
		for _, h := range hs {
			vs = append(vs, tmsgV{kind: "msg_reject", a: uint64(c), b: h})
		}
	}
	return vs
}

func tmsgPickU64(r *Rng) uint64 {
	switch r.Intn(4) {
	case 0:
		return r.Pick(tmsgU64)
	case 1:
		return r.U64() >> uint(r.Intn(64))
	default:
		return r.U64()
	}
}

// tmsgRandomValid makes a well-formed random message (valid codes).
func tmsgRandomValid(r *Rng) tmsgV {
	blen := func() int {
		switch r.Intn(6) {
		case 0:
			return 0
		case 1:
			return r.Intn(4)
		case 2:
			return 255 + r.Intn(3)
		default:
			return r.Intn(64)
		}
	}
	switch r.Intn(8) {
	case 0:
		return tmsgV{kind: "contact", a: uint64(r.Intn(256))}
	case 1:
		return tmsgV{kind: "sess_init", a: uint64(r.Intn(65536)), b: tmsgPickU64(r), c: tmsgPickU64(r), data: r.Bytes(blen())}
	case 2:
		return tmsgV{kind: "sess_term", a: uint64(r.Intn(256)), b: uint64(r.Intn(6))}
	case 3:
		return tmsgV{kind: "xfer_segment", a: uint64(r.Intn(256)), b: tmsgPickU64(r), data: r.Bytes(blen())}
	case 4:
		return tmsgV{kind: "xfer_ack", a: uint64(r.Intn(256)), b: tmsgPickU64(r), c: tmsgPickU64(r)}
	case 5:
		return tmsgV{kind: "xfer_refuse", a: uint64(r.Intn(7)), b: tmsgPickU64(r)}
	case 6:
		return tmsgV{kind: "msg_reject", a: uint64(1 + r.Intn(3)), b: uint64(r.Intn(256))}
	default:
		return tmsgV{kind: "keepalive"}
	}
}

// ---------------------------------------------------------------------------------------------
// replay: -replay <file> re-runs the case lines of the file (or the "case" of a replay JSON)

func tmsgReplayCases() [][]S {
	if ReplayFile == "" {
		return nil
	}
	raw, err := os.ReadFile(ReplayFile)
	if err != nil {
		panic(err)
	}
	text := string(raw)
	if strings.HasPrefix(strings.TrimSpace(text), "{") {
		var js struct {
			Case string `json:"case"`
		}
		if err := json.Unmarshal(raw, &js); err != nil {
			panic(err)
		}
		text = js.Case
	}
	cases := [][]S{}
	for _, ln := range strings.Split(text, "\n") {
		ln = strings.TrimSpace(ln)
		if !strings.HasPrefix(ln, "(case ") {
			continue
		}
		v, err := ParseS(ln)
		if err != nil {
			panic(err)
		}
		l := v.(sList)
		if len(l) >= 3 {
			cases = append(cases, []S(l[2:])) // kind, fields...
		}
	}
	return cases
}

func tmsgValueOfS(v S) tmsgV {
	l := v.(sList)
	out := tmsgV{kind: atomSym(l[0])}
	switch out.kind {
	case "contact":
		out.a = atomU(l[1])
	case "sess_init":
		out.a, out.b, out.c, out.data = atomU(l[1]), atomU(l[2]), atomU(l[3]), atomX(l[4])
	case "sess_term", "msg_reject", "xfer_refuse":
		out.a, out.b = atomU(l[1]), atomU(l[2])
	case "xfer_segment":
		out.a, out.b, out.data = atomU(l[1]), atomU(l[2]), atomX(l[3])
	case "xfer_ack":
		out.a, out.b, out.c = atomU(l[1]), atomU(l[2]), atomU(l[3])
	}
	return out
}

func tmsgRtCase(o *Out, v tmsgV, trailer []byte) {
	bs, ok := tmsgMarshal(v.build())
	if !ok {
		o.Case("rt", v.S(), X(trailer), L(Sym("err")), L(Sym("err")), L(Sym("err")))
		return
	}
	in := append(append([]byte{}, bs...), trailer...)
	o.Case("rt", v.S(), X(trailer), L(Sym("ok"), X(bs)), tmsgRead(in), tmsgUnmarshal(in))
}

func tmsgCodeCase(o *Out, field string, b int, in []byte) {
	if strings.HasPrefix(field, "contact.") {
		o.Case("code", Sym(field), I(b), X(in), tmsgUnmarshalAs(0x64, in))
	} else {
		o.Case("code", Sym(field), I(b), X(in), tmsgRead(in))
	}
}

func tmsgValidCase(o *Out, field string, b int) {
	var res bool
	switch field {
	case "sess_term.reason":
		res = tc.VerifSessTermCodeValid(uint8(b))
	case "xfer_refuse.reason":
		res = tc.VerifRefusalCodeValid(uint8(b))
	default:
		res = tc.VerifMsgRejectCodeValid(uint8(b))
	}
	o.Case("valid", Sym(field), I(b), B(res))
}

func tmsgStreamCase(o *Out, mode string, vals []S, all []byte, buffered bool) {
	ms, end, left := tmsgStream(all, buffered)
	o.Case("stream", Sym(mode), LL(vals), X(all), B(buffered), LL(ms), Sym(end), I(left))
}

func tmsgReplayC17(o *Out) bool {
	cases := tmsgReplayCases()
	if cases == nil {
		return false
	}
	for _, c := range cases {
		switch atomSym(c[0]) {
		case "rt":
			tmsgRtCase(o, tmsgValueOfS(c[1]), atomX(c[2]))
		case "code":
			tmsgCodeCase(o, atomSym(c[1]), atomI(c[2]), atomX(c[3]))
		case "valid":
			tmsgValidCase(o, atomSym(c[1]), atomI(c[2]))
		case "stream":
			tmsgStreamCase(o, atomSym(c[1]), []S(c[2].(sList)), atomX(c[3]), atomU(c[4]) != 0)
		}
	}
	if o.count == 0 {
		// the replayed case belongs to another generator of the property: keep the run non-empty
		tmsgRtCase(o, tmsgV{kind: "keepalive"}, nil)
	}
	return true
}

// ---------------------------------------------------------------------------------------------
// C17tcpclmsg

func tmsgSamples() map[byte][]byte {
	s := map[byte][]byte{}
	for _, v := range []tmsgV{
		{kind: "xfer_segment", a: 3, b: 9, data: []byte{1, 2, 3}},
		{kind: "xfer_ack", a: 1, b: 9, c: 3},
		{kind: "xfer_refuse", a: 2, b: 9},
		{kind: "keepalive"},
		{kind: "sess_term", a: 1, b: 3},
		{kind: "msg_reject", a: 2, b: 9},
		{kind: "sess_init", a: 30, b: 1 << 20, c: 1 << 30, data: []byte("dtn://n1/")},
		{kind: "contact", a: 1},
	} {
		bs, _ := tmsgMarshal(v.build())
		s[bs[0]] = bs
	}
	return s
}

func genC17tcpclmsg(o *Out, r *Rng, thorough bool) {
	if tmsgReplayC17(o) {
		return
	}
	// rt: value -> Marshal -> bytes ++ trailer -> ReadMessage / Unmarshal
	for _, v := range tmsgBoundaryValues(r, thorough) {
		tmsgRtCase(o, v, r.Bytes(r.Intn(4)))
	}
	n := 400
	if thorough {
		n = 20000
	}
	for i := 0; i < n; i++ {
		tmsgRtCase(o, tmsgRandomValid(r), r.Bytes(r.Intn(4)))
	}

	// code: raw encodings with one code octet swept over all 256 values
	samples := tmsgSamples()
	for b := 0; b < 256; b++ {
		// message type octet, followed by a body that is valid for that type when there is one
		body, known := samples[byte(b)]
		if !known {
			body = samples[byte(1+r.Intn(7))]
		}
		in := append([]byte{byte(b)}, body[1:]...)
		tmsgCodeCase(o, "type", b, in)
		in = []byte{byte(b)}
		in = append(in, make([]byte, 40)...)
		tmsgCodeCase(o, "type.zeros", b, in)
		// reason codes
		tmsgCodeCase(o, "sess_term.reason", b, []byte{5, byte(r.Intn(256)), byte(b)})
		tmsgCodeCase(o, "xfer_refuse.reason", b, append([]byte{3, byte(b)}, r.Bytes(8)...))
		tmsgCodeCase(o, "msg_reject.reason", b, []byte{6, byte(b), byte(r.Intn(256))})
		// contact header: every octet of magic and version, and the flags
		for pos := 0; pos < 6; pos++ {
			in = append([]byte{}, samples[0x64]...)
			in[pos] = byte(b)
			name := "contact.magic" + strconv.Itoa(pos)
			if pos == 4 {
				name = "contact.version"
			} else if pos == 5 {
				name = "contact.flags"
			}
			tmsgCodeCase(o, name, b, in)
		}
		tmsgValidCase(o, "sess_term.reason", b)
		tmsgValidCase(o, "xfer_refuse.reason", b)
		tmsgValidCase(o, "msg_reject.reason", b)
	}

	// stream: concatenations read back from one reader
	ns := 300
	if thorough {
		ns = 10000
	}
	for i := 0; i < ns; i++ {
		k := r.Intn(9)
		var vals []S
		var all []byte
		for j := 0; j < k; j++ {
			v := tmsgRandomValid(r)
			bs, _ := tmsgMarshal(v.build())
			vals = append(vals, v.S())
			all = append(all, bs...)
		}
		mode := "clean"
		switch r.Intn(6) {
		case 0: // cut the stream somewhere
			if len(all) > 0 {
				all = all[:r.Intn(len(all))]
				mode = "cut"
			}
		case 1: // garbage behind the messages
			all = append(all, r.Bytes(1+r.Intn(6))...)
			mode = "tail"
		}
		tmsgStreamCase(o, mode, vals, all, r.Bool())
	}
}

// tmsgUnmarshalAs unmarshals bs into a fresh message of the given type code, whatever bs starts with.
func tmsgUnmarshalAs(code byte, bs []byte) (res S) {
	defer func() {
		if e := recover(); e != nil {
			res = L(Sym("panic"))
		}
	}()
	m, err := tc.VerifNewMessage(code)
	if err != nil {
		return L(Sym("err"))
	}
	rd := bytes.NewReader(bs)
	if err := m.Unmarshal(rd); err != nil {
		return L(Sym("err"))
	}
	return L(Sym("ok"), tmsgObs(m), I(rd.Len()))
}

// ---------------------------------------------------------------------------------------------
// C04tcpclmsg: hostile inputs, decoded in a child process

// address-space limit of the child (bytes): a little above what the Go runtime needs to start, so that
// a gigabyte-sized make fails at once ("out of memory") instead of being mapped and touched
const tmsgChildAS = 1280 << 20

// a child that had to make an allocation this large answers and exits, so that the block is never
// reused (and thereby cleared, i.e. really touched) for a later input
const tmsgChildRetire = 32 << 20

// genC04tcpclmsgChild: reads hex lines from stdin, decodes each with ReadMessage, prints
// "B <i>" before and "R <i> <class> <alloc> <left> <value>" after each.
func genC04tcpclmsgChild(o *Out, r *Rng, thorough bool) {
	lim := syscall.Rlimit{Cur: tmsgChildAS, Max: tmsgChildAS}
	_ = syscall.Setrlimit(syscall.RLIMIT_AS, &lim)
	debug.SetGCPercent(-1)
	// warm-up: one-time allocations (type caches, io.Discard's pooled block) are not the input's
	for _, bs := range tmsgSamples() {
		tmsgRead(bs)
	}
	_, _ = io.CopyN(io.Discard, bytes.NewReader(make([]byte, 16)), 16)
	out := bufio.NewWriter(os.Stdout)
	sc := bufio.NewScanner(os.Stdin)
	sc.Buffer(make([]byte, 1<<22), 1<<26)
	var m0, m1 runtime.MemStats
	for sc.Scan() {
		parts := strings.Fields(sc.Text())
		if len(parts) == 1 {
			parts = append(parts, "") // the empty input
		}
		if len(parts) != 2 {
			continue
		}
		bs, err := hex.DecodeString(parts[1])
		if err != nil {
			continue
		}
		fmt.Fprintf(out, "B %s\n", parts[0])
		out.Flush()
		rd := bytes.NewReader(bs)
		class, val := "err", S(L())
		runtime.ReadMemStats(&m0)
		func() {
			defer func() {
				if e := recover(); e != nil {
					class = "panic"
				}
			}()
			m, err := tc.VerifReadMessage(rd)
			if err == nil {
				class = "ok"
				runtime.ReadMemStats(&m1)
				val = tmsgObs(m)
				return
			}
		}()
		if class != "ok" {
			runtime.ReadMemStats(&m1)
		}
		fmt.Fprintf(out, "R %s %s %d %d %s\n", parts[0], class, m1.TotalAlloc-m0.TotalAlloc, rd.Len(), SString(val))
		out.Flush()
		if m1.TotalAlloc-m0.TotalAlloc > tmsgChildRetire {
			os.Exit(0)
		}
		runtime.GC()
	}
}

type tmsgJob struct {
	label string
	in    []byte
	class string
	alloc uint64
	left  int
	val   string
}

// tmsgRunChildren feeds the jobs to child processes; a child that dies is replaced and the job it
// was working on is classified from its stderr.
func tmsgRunChildren(jobs []*tmsgJob, workers int) {
	exe, err := os.Executable()
	if err != nil {
		panic(err)
	}
	var wg sync.WaitGroup
	chunk := (len(jobs) + workers - 1) / workers
	for w := 0; w < workers; w++ {
		lo, hi := w*chunk, (w+1)*chunk
		if hi > len(jobs) {
			hi = len(jobs)
		}
		if lo >= hi {
			break
		}
		wg.Add(1)
		go func(part []*tmsgJob) {
			defer wg.Done()
			next := 0
			for next < len(part) {
				next = tmsgOneChild(exe, part, next)
			}
		}(jobs[lo:hi])
	}
	wg.Wait()
}

// tmsgOneChild runs one child on part[from:], returns the index of the first job not yet done.
func tmsgOneChild(exe string, part []*tmsgJob, from int) int {
	cmd := exec.Command(exe, "-prop", "C04tcpclmsgChild")
	var stdin bytes.Buffer
	for i := from; i < len(part); i++ {
		fmt.Fprintf(&stdin, "%d %s\n", i, hex.EncodeToString(part[i].in))
	}
	cmd.Stdin = &stdin
	var se bytes.Buffer
	cmd.Stderr = &se
	so, err := cmd.StdoutPipe()
	if err != nil {
		panic(err)
	}
	if err := cmd.Start(); err != nil {
		panic(err)
	}
	lines := make(chan string, 64)
	go func() {
		sc := bufio.NewScanner(so)
		sc.Buffer(make([]byte, 1<<22), 1<<26)
		for sc.Scan() {
			lines <- sc.Text()
		}
		close(lines)
	}()
	current, done := -1, from
	timedOut := false
loop:
	for {
		select {
		case ln, ok := <-lines:
			if !ok {
				break loop
			}
			f := strings.SplitN(ln, " ", 6)
			if f[0] == "B" && len(f) >= 2 {
				current, _ = strconv.Atoi(f[1])
			} else if f[0] == "R" && len(f) == 6 {
				i, _ := strconv.Atoi(f[1])
				j := part[i]
				j.class = f[2]
				j.alloc, _ = strconv.ParseUint(f[3], 10, 64)
				j.left, _ = strconv.Atoi(f[4])
				j.val = f[5]
				done = i + 1
				current = -1
			}
		case <-time.After(30 * time.Second):
			timedOut = true
			_ = cmd.Process.Kill()
			break loop
		}
	}
	_ = cmd.Wait()
	if done >= len(part) {
		return done
	}
	if current < 0 && done > from && !timedOut {
		return done // the child retired between two jobs
	}
	// the child died (or hung) while working on job [current] (or before starting [done])
	i := done
	if current >= 0 {
		i = current
	}
	j := part[i]
	j.val = "()"
	es := se.String()
	switch {
	case timedOut:
		j.class = "timeout"
	case strings.Contains(es, "out of memory") || strings.Contains(es, "cannot allocate memory"):
		j.class = "oom"
	default:
		j.class = "crash"
	}
	return i + 1
}

func tmsgPutBE(bs []byte, off, width int, v uint64) bool {
	if off+width > len(bs) {
		return false
	}
	switch width {
	case 2:
		if v > 0xffff {
			return false
		}
		binary.BigEndian.PutUint16(bs[off:], uint16(v))
	case 4:
		if v > 0xffffffff {
			return false
		}
		binary.BigEndian.PutUint32(bs[off:], uint32(v))
	case 8:
		binary.BigEndian.PutUint64(bs[off:], v)
	}
	return true
}

func genC04tcpclmsg(o *Out, r *Rng, thorough bool) {
	var jobs []*tmsgJob
	add := func(label string, in []byte) {
		jobs = append(jobs, &tmsgJob{label: label, in: append([]byte{}, in...)})
	}
	emit := func() {
		tmsgRunChildren(jobs, 6)
		for _, j := range jobs {
			val, err := ParseS(j.val)
			if err != nil {
				val = L()
			}
			o.Case("dec", Sym(j.label), X(j.in), Sym(j.class), U(j.alloc), I(j.left), val)
		}
	}
	if cases := tmsgReplayCases(); cases != nil {
		for _, c := range cases {
			if atomSym(c[0]) == "dec" {
				add(atomSym(c[1]), atomX(c[2]))
			}
		}
		if len(jobs) == 0 {
			// the replayed case belongs to another generator of the property: keep the run non-empty
			add("valid", []byte{4})
		}
		emit()
		return
	}
	specials := []uint64{0, 1, 23, 24, 1 << 16, 1 << 20, 1 << 27, 1<<31 - 1, 1 << 31, 1<<32 - 1, 1 << 62, 1 << 63, 1<<64 - 1}
	if thorough {
		specials = append(specials, 255, 256, 65535, 1<<24, 1<<32, 1<<40, 1<<47, 1<<48, 1<<48+1, 1<<63-1)
	}
	nodeID := []byte("dtn://node-1/")
	data := []byte{10, 20, 30, 40, 50, 60, 70}
	bases := []tmsgV{
		{kind: "contact", a: 1},
		{kind: "sess_init", a: 30, b: 1 << 20, c: 1 << 30, data: nodeID},
		{kind: "sess_init", a: 30, b: 1 << 20, c: 1 << 30},
		{kind: "sess_term", a: 1, b: 3},
		{kind: "xfer_segment", a: 3, b: 77, data: data},
		{kind: "xfer_segment", a: 2, b: 77},
		{kind: "xfer_ack", a: 1, b: 77, c: 7},
		{kind: "xfer_refuse", a: 2, b: 77},
		{kind: "keepalive"},
		{kind: "msg_reject", a: 2, b: 9},
	}
	type lenField struct {
		name       string
		off, width int
	}
	for _, v := range bases {
		enc, _ := tmsgMarshal(v.build())
		add("valid", enc)
		add("valid+tail", append(append([]byte{}, enc...), 4, 4, 4))
		// truncation at every offset
		for cut := 0; cut < len(enc); cut++ {
			add("trunc", enc[:cut])
		}
		var fields []lenField
		switch v.kind {
		case "sess_init":
			fields = []lenField{{"sess_init.nodeidlen", 19, 2}, {"sess_init.extlen", 21 + len(v.data), 4}}
		case "xfer_segment":
			fields = []lenField{{"xfer_segment.extlen", 10, 4}, {"xfer_segment.datalen", 14, 8}}
		}
		for _, f := range fields {
			for _, sv := range specials {
				m := append([]byte{}, enc...)
				if !tmsgPutBE(m, f.off, f.width, sv) {
					continue
				}
				add(f.name, m)                                              // rest of the message behind the field
				add(f.name, m[:f.off+f.width])                              // nothing behind the field
				add(f.name, append(append([]byte{}, m...), r.Bytes(40)...)) // some bytes, fewer than claimed
			}
			// multiplicative-overflow probes (c04probes.go) for the width of the field; a wrapped product is
			// small, so bytes have to follow for a faulty guard to pass
			tail := r.Bytes(40)
			for _, sv := range mulOverflowProbes(uint(8*f.width), true) {
				m := append([]byte{}, enc...)
				if !tmsgPutBE(m, f.off, f.width, sv) {
					continue
				}
				add(f.name, append(append([]byte{}, m...), tail...))
				if thorough {
					add(f.name, m)
					add(f.name, m[:f.off+f.width])
				}
			}
		}
		// with extension items really present (decoders skip them)
		if v.kind == "sess_init" {
			for _, el := range []int{1, 5, 300} {
				m := append([]byte{}, enc[:len(enc)-4]...)
				m = append(m, 0, 0, byte(el>>8), byte(el))
				m = append(m, r.Bytes(el)...)
				add("sess_init.ext-present", m)
				add("sess_init.ext-present", append(m, 9, 9))
				add("sess_init.ext-short", m[:len(m)-1])
			}
		}
		if v.kind == "xfer_segment" {
			for _, el := range []int{1, 5, 300} {
				m := append([]byte{}, enc[:10]...)
				m = append(m, 0, 0, byte(el>>8), byte(el))
				m = append(m, r.Bytes(el)...)
				m = append(m, enc[14:]...)
				add("xfer_segment.ext-present", m)
				add("xfer_segment.ext-short", m[:14+el-1])
			}
		}
	}
	// legitimate large fields: the allocation follows the bytes that arrived
	for _, l := range []int{512, 4096, 65535, 200000} {
		enc, _ := tmsgMarshal(tmsgV{kind: "xfer_segment", a: 3, b: 5, data: r.Bytes(l)}.build())
		add("large", enc)
		add("large-short", enc[:len(enc)-1])
		add("large-half", enc[:len(enc)/2])
	}
	{
		enc, _ := tmsgMarshal(tmsgV{kind: "sess_init", a: 3, b: 5, c: 6, data: r.Bytes(65535)}.build())
		add("large", enc)
		add("large-short", enc[:len(enc)-5])
	}
	if thorough {
		enc, _ := tmsgMarshal(tmsgV{kind: "xfer_segment", a: 3, b: 5, data: r.Bytes(3 << 20)}.build())
		add("large", enc)
		add("large-short", enc[:len(enc)-1])
	}
	// random mutations of valid encodings and random byte strings
	nm := 300
	if thorough {
		nm = 20000
	}
	for i := 0; i < nm; i++ {
		v := tmsgRandomValid(r)
		enc, _ := tmsgMarshal(v.build())
		m := append([]byte{}, enc...)
		for k := 1 + r.Intn(3); k > 0 && len(m) > 0; k-- {
			switch r.Intn(4) {
			case 0:
				m[r.Intn(len(m))] = byte(r.U64())
			case 1:
				m[r.Intn(len(m))] ^= 1 << uint(r.Intn(8))
			case 2:
				m = m[:r.Intn(len(m)+1)]
			default:
				m[r.Intn(len(m))] = byte(r.Pick([]uint64{0, 1, 0x7f, 0x80, 0xff}))
			}
		}
		add("mutated", m)
	}
	for i := 0; i < nm/3; i++ {
		m := r.Bytes(1 + r.Intn(40))
		if r.Bool() {
			m[0] = byte(r.Pick([]uint64{1, 2, 3, 4, 5, 6, 7, 0x64}))
		}
		add("random", m)
	}

	emit()
}

func init() {
	register("C17tcpclmsg", genC17tcpclmsg)
	register("C04tcpclmsg", genC04tcpclmsg)
	register("C04tcpclmsgChild", genC04tcpclmsgChild)
}
