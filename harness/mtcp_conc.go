package main

// C12mtcpconc: several goroutines send large bundles (frames above bufio's 4096-byte buffer) on ONE
// MTCP client over loopback TCP while its keep-alive ticker may fire: the server must hand up
// exactly the bundles sent (any order between senders), each Send must succeed.

import (
	"net"
	"sort"
	"sync"
	"time"

	"github.com/dtn7/dtn7-go/pkg/bpv7"
	"github.com/dtn7/dtn7-go/pkg/cla"
	"github.com/dtn7/dtn7-go/pkg/cla/mtcp"
)

func genC12mtcpconc(o *Out, r *Rng, thorough bool) {
	rounds := 3
	if thorough {
		rounds = 40
	}
	for round := 0; round < rounds; round++ {
		l, err := net.Listen("tcp", "127.0.0.1:0")
		if err != nil {
			o.Case("conc", Sym("unavailable"))
			continue
		}
		addr := l.Addr().String()
		_ = l.Close()
		serv := mtcp.NewMTCPServer(addr, bpv7.MustNewEndpointID("dtn://server/"), false)
		if err, _ := serv.Start(); err != nil {
			o.Case("conc", Sym("unavailable"))
			continue
		}
		got := make(chan []byte, 4096)
		go func() {
			for st := range serv.Channel() {
				if st.MessageType == cla.ReceivedBundle {
					got <- BundleBytes(*st.Message.(cla.ConvergenceReceivedBundle).Bundle)
				}
			}
		}()
		client := mtcp.NewMTCPClient(addr, bpv7.MustNewEndpointID("dtn://server/"), false)
		if err, _ := client.Start(); err != nil {
			_ = serv.Close()
			o.Case("conc", Sym("unavailable"))
			continue
		}
		cr := newStatusReader(client.Channel())
		senders, per := 4, 4
		var bundles [][]bpv7.Bundle
		var sent [][]byte
		for s := 0; s < senders; s++ {
			var bs []bpv7.Bundle
			for k := 0; k < per; k++ {
				b := MkBundle(BOpt{Src: "dtn://src/app", Dst: "dtn://dst/app", TS: NowTS, Life: 3600000, CRC: bpv7.CRC32,
					Payload: r.Bytes(4200 + r.Intn(20000))})
				b.PrimaryBlock.CreationTimestamp[1] = uint64(round*100 + s*10 + k)
				b.SetCRCType(bpv7.CRC32)
				bs = append(bs, b)
				sent = append(sent, BundleBytes(b))
			}
			bundles = append(bundles, bs)
		}
		var wg sync.WaitGroup
		var mu sync.Mutex
		nerr := 0
		for s := 0; s < senders; s++ {
			wg.Add(1)
			go func(bs []bpv7.Bundle) {
				defer wg.Done()
				for _, b := range bs {
					if err := client.Send(b); err != nil {
						mu.Lock()
						nerr++
						mu.Unlock()
					}
				}
			}(bundles[s])
		}
		wg.Wait()
		var recv [][]byte
		deadline := time.After(15 * time.Second)
	recv:
		for range sent {
			select {
			case b := <-got:
				recv = append(recv, b)
			case <-deadline:
				break recv
			}
		}
		_ = client.Close()
		<-cr.done
		_ = serv.Close()
		hexs := func(bs [][]byte) []S {
			var ss []string
			for _, b := range bs {
				ss = append(ss, SString(X(b)))
			}
			sort.Strings(ss)
			var out []S
			for _, s := range ss {
				out = append(out, Sym(s))
			}
			return out
		}
		o.Case("conc", Sym("ok"), LL(hexs(sent)), LL(hexs(recv)), I(nerr), I(cr.disappeared))
	}
}

func init() { register("C12mtcpconc", genC12mtcpconc) }
