package main

// rawcbor: an encoder for hand-crafted bundle encodings, independent of cboring / bpv7's
// serialiser, so that encodings violating exactly one rule (with all CRCs correct) can be made.

import (
	"encoding/binary"
	"hash/crc32"
)

// rawHead writes a CBOR head; width: -1 = minimal, 0 = immediate (n < 24), 1, 2, 4, 8 bytes.
func rawHead(major byte, n uint64, width int) []byte {
	if width < 0 {
		switch {
		case n < 24:
			width = 0
		case n < 1<<8:
			width = 1
		case n < 1<<16:
			width = 2
		case n < 1<<32:
			width = 4
		default:
			width = 8
		}
	}
	switch width {
	case 0:
		return []byte{major | byte(n)}
	case 1:
		return []byte{major | 24, byte(n)}
	case 2:
		b := []byte{major | 25, 0, 0}
		binary.BigEndian.PutUint16(b[1:], uint16(n))
		return b
	case 4:
		b := []byte{major | 26, 0, 0, 0, 0}
		binary.BigEndian.PutUint32(b[1:], uint32(n))
		return b
	default:
		b := make([]byte, 9)
		b[0] = major | 27
		binary.BigEndian.PutUint64(b[1:], n)
		return b
	}
}
func rawUint(n uint64) []byte      { return rawHead(0x00, n, -1) }
func rawUintW(n uint64, w int) []byte { return rawHead(0x00, n, w) }
func rawArr(n uint64) []byte       { return rawHead(0x80, n, -1) }
func rawBstr(d []byte) []byte      { return append(rawHead(0x40, uint64(len(d)), -1), d...) }
func rawTstr(s string) []byte      { return append(rawHead(0x60, uint64(len(s)), -1), s...) }
func cat(bs ...[]byte) []byte {
	var o []byte
	for _, b := range bs {
		o = append(o, b...)
	}
	return o
}

func rawDtn(node, demux string) []byte { return cat(rawArr(2), rawUint(1), rawTstr("//"+node+"/"+demux)) }
func rawDtnNone() []byte              { return cat(rawArr(2), rawUint(1), rawUint(0)) }
func rawIpn(n, s uint64) []byte       { return cat(rawArr(2), rawUint(2), rawArr(2), rawUint(n), rawUint(s)) }

// CRC-16/X-25 bit-serial (independent of howeyc/crc16)
func crc16x25(data []byte) uint16 {
	crc := uint16(0xFFFF)
	for _, b := range data {
		crc ^= uint16(b)
		for i := 0; i < 8; i++ {
			if crc&1 == 1 {
				crc = crc>>1 ^ 0x8408
			} else {
				crc >>= 1
			}
		}
	}
	return ^crc
}

var castagnoli = crc32.MakeTable(crc32.Castagnoli)

// rawCRC: the CRC field bytes for CRC type t over body ++ bstr(zeros)
func rawCRC(t uint64, body []byte) []byte { return rawCRCW(t, body, -1) }

// rawCRCW: the same with the CRC field's byte-string head written in the given width
func rawCRCW(t uint64, body []byte, w int) []byte {
	switch t {
	case 1:
		buf := cat(body, rawHead(0x40, 2, w), []byte{0, 0})
		v := crc16x25(buf)
		return []byte{byte(v >> 8), byte(v)}
	case 2:
		buf := cat(body, rawHead(0x40, 4, w), []byte{0, 0, 0, 0})
		v := crc32.Checksum(buf, castagnoli)
		return []byte{byte(v >> 24), byte(v >> 16), byte(v >> 8), byte(v)}
	}
	return nil
}

type rawPrimary struct {
	N                       int // array length; 0 = derived from HasFrag/HasCRC
	Version, Flags, CRCType uint64
	Dst, Src, Rpt           []byte
	TS, Seq, Life           uint64
	Off, Total              uint64
	HasFrag, HasCRC         bool
	CRCOverride             []byte // nil = correct value
	ArrW                    int    // width of the array head (-1 minimal)
	UintW                   int    // width used for version field (-1 minimal)
	CRCFieldW               int    // 0 = minimal head for the CRC field, else that width
	CRCOverMinimalField     bool   // compute the CRC as if the CRC field's head were minimal
}

func (p rawPrimary) bytes() []byte {
	n := p.N
	if n == 0 {
		n = 8
		if p.HasFrag {
			n += 2
		}
		if p.HasCRC {
			n++
		}
	}
	body := cat(rawHead(0x80, uint64(n), p.ArrW), rawUintW(p.Version, p.UintW), rawUint(p.Flags), rawUint(p.CRCType), p.Dst, p.Src, p.Rpt,
		rawArr(2), rawUint(p.TS), rawUint(p.Seq), rawUint(p.Life))
	if p.HasFrag {
		body = cat(body, rawUint(p.Off), rawUint(p.Total))
	}
	if p.HasCRC {
		c := p.CRCOverride
		w := -1
		if p.CRCFieldW != 0 {
			w = p.CRCFieldW
		}
		if c == nil {
			if p.CRCOverMinimalField {
				c = rawCRC(p.CRCType, body)
			} else {
				c = rawCRCW(p.CRCType, body, w)
			}
		}
		body = cat(body, rawHead(0x40, uint64(len(c)), w), c)
	}
	return body
}

type rawCanon struct {
	N                         int // 0 = 5 or 6 by HasCRC
	Type, Num, Flags, CRCType uint64
	Data                      []byte // content of the block-specific byte string
	HasCRC                    bool
	CRCOverride               []byte
	ArrW                      int
	CRCOverMinimalHead        bool // compute the CRC over a minimal array head even if ArrW is wider
	CRCFieldW                 int  // 0 = minimal head for the CRC field, else that width
	CRCOverMinimalField       bool // compute the CRC as if the CRC field's head were minimal
}

func (c rawCanon) bytes() []byte {
	n := c.N
	if n == 0 {
		n = 5
		if c.HasCRC {
			n = 6
		}
	}
	rest := cat(rawUint(c.Type), rawUint(c.Num), rawUint(c.Flags), rawUint(c.CRCType), rawBstr(c.Data))
	body := cat(rawHead(0x80, uint64(n), c.ArrW), rest)
	if c.HasCRC {
		cr := c.CRCOverride
		w := -1
		if c.CRCFieldW != 0 {
			w = c.CRCFieldW
		}
		if cr == nil {
			wc := w
			if c.CRCOverMinimalField {
				wc = -1
			}
			if c.CRCOverMinimalHead {
				cr = rawCRCW(c.CRCType, cat(rawArr(uint64(n)), rest), wc)
			} else {
				cr = rawCRCW(c.CRCType, body, wc)
			}
		}
		body = cat(body, rawHead(0x40, uint64(len(cr)), w), cr)
	}
	return body
}

func rawBundle(p rawPrimary, cs []rawCanon) []byte {
	out := cat([]byte{0x9f}, p.bytes())
	for _, c := range cs {
		out = cat(out, c.bytes())
	}
	return append(out, 0xff)
}
